/-
  Lemmas/EndpointFrame.lean — independence of calls: a step of one call (stub or waiter) does not
  change whether any step of another call is enabled (C04).  `Foot c' s s'` collects the
  components the enabledness of the steps of call `c'` depends on.
-/
import Panrpc.Lemmas.EndpointRuns

namespace Panrpc.Ep
open Panrpc

/-- what the enabledness of the steps of call `c'` and of its waiter depends on -/
structure Foot (c' : Nat) (s s' : State) : Prop where
  crashed  : s'.crashed = s.crashed
  bcrashed : s'.bc.crashed = s.bc.crashed
  lock     : s'.bc.lockHolder = s.bc.lockHolder
  linkCtx  : s'.linkCtxDone = s.linkCtxDone
  ctxs     : s'.bc.ctxs = s.bc.ctxs
  call     : s'.calls c' = s.calls c'
  waiter   : s'.waiters c' = s.waiters c'
  res      : s'.res c' = s.res c'
  setter   : s'.setters c' = s.setters c'
  rcv      : s'.bc.rcvs c' = s.bc.rcvs c'
  entry    : ∀ k g x, s.bc.rcvs c' = .waiting k g x → s'.bc.entries g = s.bc.entries g
  pubs     : ∀ k g x p, s.bc.rcvs c' = .waiting k g x → s'.bc.pubs p = s.bc.pubs p ∨
               ((∀ pk v, s.bc.pubs p ≠ .holding pk v g) ∧ (∀ pk v, s'.bc.pubs p ≠ .holding pk v g))
  cllock   : s'.clLock = s.clLock
  invokes  : s'.invokes = s.invokes
  running  : s'.running = s.running

/-- when the stub's `Receive` step can run at all (whatever `Receive` answers) -/
theorem callReceive_isSome (sk : Skeleton) (t : State) (c : Nat) :
    (step sk t (.callReceive c)).isSome =
      decide ((t.crashed = false ∧ (t.calls c).pc = .marshalled) ∧
              (t.bc.crashed = false ∧ t.bc.lockHolder = none ∧ t.bc.rcvs c = .absent)) := by
  have hb := Bc.receive_isSome sk t.bc c c (t.calls c).ctx
  by_cases h1 : t.crashed = false ∧ (t.calls c).pc = .marshalled
  · cases hs : Bc.step sk t.bc (.receive c c (t.calls c).ctx) with
    | none => simp only [step, h1, hs, and_self, if_true]; simp [hs] at hb; simpa using hb
    | some b' =>
      simp only [step, h1, hs, and_self, if_true]; simp [hs] at hb
      (repeat' split) <;> simp [hb]
  · simp [step, h1]

theorem foot_enabled (sk : Skeleton) {s s' : State} (c' : Nat) (hf : Foot c' s s') (b : Act)
    (hb : actCall b = some c') : (step sk s' b).isSome = (step sk s b).isSome := by
  obtain ⟨f1, f2, f3, f4, f5, f6, f7, f8, f9, f10, f11, f12, f13, f14, f15⟩ := hf
  cases b with
  | waiterGetsDone c =>
    simp [actCall] at hb; subst hb
    simp only [step, Bc.step, f1, f2, f3, f4, f5, f7, f10]
    cases hrc : s.bc.rcvs c with
    | waiting k g x =>
      simp only [f11 k g x hrc]
      cases hent : s.bc.entries g with
      | none => simp
      | some e =>
        by_cases hg : s.crashed = false ∧ s.waiters c = .recv <;>
        by_cases hb : s.bc.crashed = false <;>
        by_cases h1 : e.doneClosed = true ∧ sk.bcRecvSelectsDone = true <;>
        by_cases h2 : e.chanClosed = true ∧ sk.bcRecvSelectsChan = true <;> simp [hg, hb, h1, h2]
    | _ => simp
  | waiterGetsValue c p =>
    simp [actCall] at hb; subst hb
    simp only [step, Bc.step, f1, f2, f3, f4, f5, f7, f10]
    cases hrc : s.bc.rcvs c with
    | waiting k g x =>
      have he := f11 k g x hrc
      rcases f12 k g x p hrc with h | ⟨h1, h2⟩
      · simp only [h]
        cases hp : s.bc.pubs p <;> simp only [he] <;> first | rfl | grind
      · cases hp : s.bc.pubs p <;> cases hp' : s'.bc.pubs p <;> simp only [he] <;> (try rfl) <;> grind
    | _ => grind
  | callReceive c =>
    simp [actCall] at hb; subst hb
    rw [callReceive_isSome, callReceive_isSome, f1, f2, f3, f6, f10]
  | _ =>
    simp [actCall] at hb <;> subst hb <;> simp only [step, Bc.step, releases, canRelease, noneRunning, newClosures, f1, f2, f3, f4, f5, f6, f7, f8, f9, f10, f13, f14, f15] <;>
      first | rfl | grind

theorem foot_aux (sk : Skeleton) {s s' : State} (a : Act) (hs : step sk s a = some s')
    (hw : Bc.WF s.bc) (hl : LK s) (c c' : Nat) (ha : actCall a = some c) (hne : c' ≠ c) :
    s'.linkCtxDone = s.linkCtxDone ∧ s'.bc.ctxs = s.bc.ctxs ∧ s'.setters c' = s.setters c' ∧
    (∀ k g x, s.bc.rcvs c' = .waiting k g x → s'.bc.entries g = s.bc.entries g) ∧
    (∀ k g x p, s.bc.rcvs c' = .waiting k g x → s'.bc.pubs p = s.bc.pubs p ∨
       ((∀ pk v, s.bc.pubs p ≠ .holding pk v g) ∧ (∀ pk v, s'.bc.pubs p ≠ .holding pk v g))) := by
  obtain ⟨w1, w2, w3, w4, w5, w6, w7⟩ := hw
  have l1 := hl.key
  cases a <;> simp [actCall] at ha <;> subst ha <;> simp only [step] at hs
  all_goals (repeat' split at hs) <;> (try simp at hs) <;> (try subst hs)
  bc_unfold
  all_goals (refine ⟨?_, ?_, ?_, ?_, ?_⟩ <;> (try rfl) <;> (try (intros; rfl)) <;> (try (intros; exact Or.inl rfl)))
  all_goals (intros <;> grind [upd_apply, Bc.Rcv.binding])

/-- a step of a call thread (stub or waiter) invokes no closure and ends no closure body -/
theorem call_step_keeps_invocations (sk : Skeleton) {s s' : State} (a : Act) (hs : step sk s a = some s')
    (c : Nat) (ha : actCall a = some c) : s'.invokes = s.invokes ∧ s'.running = s.running := by
  cases a <;> simp [actCall] at ha <;> simp only [step] at hs
  all_goals (repeat' split at hs) <;> (try simp at hs) <;> (try subst hs) <;> (try exact ⟨rfl, rfl⟩)

/-- A step of call `c` (stub or waiter) leaves the footprint of every other call untouched. -/
theorem foot_of_step (sk : Skeleton) (hv : Live sk) {s s' : State} (hr : Reach sk s) (a : Act)
    (hs : step sk s a = some s') (c c' : Nat) (ha : actCall a = some c) (hne : c' ≠ c) : Foot c' s s' := by
  have hr' := Reach.step a hr hs
  obtain ⟨hc, hbc, hlk⟩ := alive sk hv hr
  obtain ⟨hc', hbc', hlk'⟩ := alive sk hv hr'
  obtain ⟨o1, o2, o3, o4, _⟩ := others_frame sk a hs c c' ha hne
  obtain ⟨a1, a2, a3, a4, a5⟩ := foot_aux sk a hs (reach_wf sk hr) (reach_lk sk hr) c c' ha hne
  obtain ⟨i1, i2⟩ := call_step_keeps_invocations sk a hs c ha
  exact ⟨by rw [hc, hc'], by rw [hbc, hbc'], by rw [hlk, hlk'], a1, a2, o1, o2, o3, a3, o4, a4, a5,
    by rw [cl_free sk hv hr, cl_free sk hv hr'], i1, i2⟩

/-- …hence does not change which steps of another call (and of its waiter) are enabled. -/
theorem others_enabled (sk : Skeleton) (hv : Live sk) {s s' : State} (hr : Reach sk s) (a b : Act)
    (hs : step sk s a = some s') (c c' : Nat) (ha : actCall a = some c) (hb : actCall b = some c')
    (hne : c' ≠ c) : (step sk s' b).isSome = (step sk s b).isSome :=
  foot_enabled sk c' (foot_of_step sk hv hr a hs c c' ha hne) b hb

end Panrpc.Ep
