/-
  Lemmas/EndpointCurrent.lean — the source facts M2's theorems rest on, checked against the
  skeleton regenerated from /repo on this run.  A change of the broadcaster, of the stub, of
  `setErr` or of the tail of `LinkMessage` that invalidates a fact makes one of these `decide`s fail.
-/
import Panrpc.Lemmas.EndpointFatal
import Panrpc.Lemmas.EndpointClosure
import Panrpc.Lemmas.EndpointRuns
import Panrpc.Lemmas.EndpointFrame
import Panrpc.Lemmas.EndpointDeliv
import Panrpc.Generated.Current

namespace Panrpc.Ep
open Panrpc

theorem cur_model_fits : ModelFits Skeleton.current :=
  ⟨by decide, by decide, by decide, by decide, by decide, by decide, by decide, by decide, by decide,
   by decide, by decide, by decide, by decide, by decide, by decide, by decide, by decide, by decide,
   by decide, by decide, by decide⟩

theorem cur_hyg : Bc.Hyg Skeleton.current := ⟨by decide, by decide⟩
theorem cur_nochanclose : Bc.NoChanClose Skeleton.current := ⟨by decide, by decide⟩
theorem cur_wakes : Bc.Wakes Skeleton.current := ⟨by decide, by decide, by decide, by decide, by decide, by decide, by decide⟩
theorem cur_select_outside_lock : Skeleton.current.bcPublishSelectOutsideLock = true := by decide
theorem cur_recovers : Skeleton.current.stubRecovers = true := by decide
theorem cur_firstonly : FirstOnly Skeleton.current := ⟨by decide, by decide, by decide⟩
theorem cur_storefirst : StoreFirst Skeleton.current := ⟨by decide⟩
theorem cur_closurefreed : ClosureFreed Skeleton.current := ⟨by decide, by decide⟩
theorem cur_waiterfrees : WaiterFrees Skeleton.current := ⟨by decide, by decide⟩
theorem cur_live : Live Skeleton.current :=
  { hyg := cur_hyg, nochan := cur_nochanclose, wakes := cur_wakes, outside := by decide,
    selDone := by decide, selCtx := by decide, recovers := by decide, setsErr := by decide,
    cap := by decide, selRes := by decide, selLink := by decide, wfrees := by decide,
    skipDec := by decide, pubChecksClosed := by decide, invokeOutside := by decide, panicSites := by decide, freeNeverWaits := by decide, storesCreated := by decide }

theorem cur_only_closed : Skeleton.current.bcReceiveErrorsOnlyClosed = true := cur_wakes.onlyClosed

theorem cur_panic_sites : Skeleton.current.panicSitesCanonical = true := by decide

theorem cur_invoke_outside_lock : Skeleton.current.clInvokeOutsideLock = true := cur_live.invokeOutside

/-- the current tree with ONE fact flipped: `CallClosure` keeps the closure table's mutex while the closure
    runs (`m.closuresLock.Lock(); defer m.closuresLock.Unlock()`).  Used by the witness theorems of C05 /
    C12 that show what the fact `clInvokeOutsideLock` protects against. -/
def skLockAcrossClosure : Skeleton := { Skeleton.current with clInvokeOutsideLock := false }

/-- the current tree with ONE fact flipped: `Receive` also refuses a caller context that is done already
    (`if err := ctx.Err(); err != nil { return nil, err }` after the closed check).  Used by the witness
    theorems of C04 / C16 that show what the fact `bcReceiveErrorsOnlyClosed` protects against. -/
def skRefusesDoneCtx : Skeleton := { Skeleton.current with bcReceiveErrorsOnlyClosed := false }

/-- the current tree with ONE fact flipped: what `registerClosure` stores is a wrapper that serialises invocations of
    the closure with a mutex of its own ("callbacks mutate captured locals, the remote may invoke them from several
    goroutines"). Used by the witness theorems of C02 / C11. -/
def skSerialisedClosure : Skeleton := { Skeleton.current with clStoresCreatedClosure := false }

/-- the current tree with ONE fact flipped: the release function returned by `registerClosure` WAITS for running
    invocations of the closure (a `WaitGroup`: "the caller's function is never still executing after the closure has
    been freed").  Used by the witness theorems of C03 / C05 / C16. -/
def skFreeWaits : Skeleton := { Skeleton.current with clFreeNeverWaits := false }

/-- the current tree with ONE fact flipped: the stub panics on an OUTCOME of a call (`if rawReturnValue.cancelled
    && … { panic(rawReturnValue.err) }` in the response arm of its select) and not only on failures of the link.
    Used by the witness theorems of C04 / C16 that show what the fact `panicSitesCanonical` protects against. -/
def skPanicsOnOutcome : Skeleton := { Skeleton.current with panicSitesCanonical := false }

end Panrpc.Ep
