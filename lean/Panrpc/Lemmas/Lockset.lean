/-
  Lemmas/Lockset.lean — `lockset_race_free`: in a well-formed trace whose threads follow a
  disciplined access table no two accesses race.
-/
import Panrpc.Model.Lockset

namespace Panrpc.Ls

/-! ### basic facts about the trace state -/

theorem hb_lt {tr : Trace} {i j : Nat} (h : HB tr i j) : i < j := by
  induction h with
  | po h _ _ => exact h
  | mutex h _ _ => exact h
  | chan h _ _ => exact h
  | trans _ _ ih1 ih2 => exact Nat.lt_trans ih1 ih2

theorem holdAt_succ_acq {tr : Trace} {i t : Nat} {m : String} (h : tr[i]? = some (t, .acq m)) :
    holdAt tr (i + 1) m = some t := by
  simp [holdAt, h]

theorem holdAt_succ_rel {tr : Trace} {i t : Nat} {m : String} (h : tr[i]? = some (t, .rel m)) :
    holdAt tr (i + 1) m = none := by
  simp [holdAt, h]

/-- one step changes the holder of `m` only by an acquire or a release of `m` -/
theorem holdAt_succ_cases (tr : Trace) (i : Nat) (m : String) :
    (∃ t, tr[i]? = some (t, .acq m) ∧ holdAt tr (i + 1) m = some t) ∨
    (∃ t, tr[i]? = some (t, .rel m) ∧ holdAt tr (i + 1) m = none) ∨
    holdAt tr (i + 1) m = holdAt tr i m := by
  simp only [holdAt]
  split
  · next t m' h =>
    by_cases hm : m' = m
    · subst hm; left; exact ⟨t, h, by simp⟩
    · right; right; simp [hm]
  · next t m' h =>
    by_cases hm : m' = m
    · subst hm; right; left; exact ⟨t, h, by simp⟩
    · right; right; simp [hm]
  · right; right; rfl

/-- if `t` does not hold `m` before event `i` but holds it before event `j ≥ i`, it acquired
    it in between -/
theorem acquired_between (tr : Trace) (m : String) (t i : Nat) :
    ∀ j, i ≤ j → holdAt tr i m ≠ some t → holdAt tr j m = some t →
      ∃ k, i ≤ k ∧ k < j ∧ tr[k]? = some (t, .acq m) := by
  intro j
  induction j with
  | zero =>
    intro hij h1 h2
    have : i = 0 := Nat.le_zero.mp hij
    subst this; exact absurd h2 h1
  | succ j ih =>
    intro hij h1 h2
    by_cases hE : i = j + 1
    · subst hE; exact absurd h2 h1
    · have hij' : i ≤ j := by omega
      rcases holdAt_succ_cases tr j m with ⟨t', ha, hh⟩ | ⟨t', _, hh⟩ | hh
      · rw [hh] at h2
        have : t' = t := by simpa using h2
        subst this
        exact ⟨j, hij', Nat.lt_succ_self j, ha⟩
      · rw [hh] at h2; simp at h2
      · rw [hh] at h2
        obtain ⟨k, hk1, hk2, hk3⟩ := ih hij' h1 h2
        exact ⟨k, hk1, Nat.lt_succ_of_lt hk2, hk3⟩

/-- if `t` holds `m` before event `i` and no longer before event `j ≥ i`, it released it in
    between (well-formedness: nobody else can release or acquire it meanwhile) -/
theorem released_between (tr : Trace) (hwf : WF tr) (m : String) (t i : Nat) :
    ∀ j, i ≤ j → holdAt tr i m = some t → holdAt tr j m ≠ some t →
      ∃ r, i ≤ r ∧ r < j ∧ tr[r]? = some (t, .rel m) := by
  intro j
  induction j with
  | zero =>
    intro hij h1 h2
    have : i = 0 := Nat.le_zero.mp hij
    subst this; exact absurd h1 h2
  | succ j ih =>
    intro hij h1 h2
    by_cases hE : i = j + 1
    · subst hE; exact absurd h1 h2
    · have hij' : i ≤ j := by omega
      by_cases hj : holdAt tr j m = some t
      · rcases holdAt_succ_cases tr j m with ⟨t', ha, _⟩ | ⟨t', hr, _⟩ | hh
        · have := hwf.acq_free j t' m ha
          rw [hj] at this; simp at this
        · have := hwf.rel_held j t' m hr
          rw [hj] at this
          have : t = t' := by simpa using this
          subst this
          exact ⟨j, hij', Nat.lt_succ_self j, hr⟩
        · rw [hh] at h2; exact absurd hj h2
      · obtain ⟨r, hr1, hr2, hr3⟩ := ih hij' h1 hj
        exact ⟨r, hr1, Nat.lt_succ_of_lt hr2, hr3⟩

/-- a channel that is closed before event `i` was closed by an earlier event -/
theorem closed_before (tr : Trace) (c : String) :
    ∀ i, closedAt tr i c = true → ∃ k t, k < i ∧ tr[k]? = some (t, .closeCh c) := by
  intro i
  induction i with
  | zero => intro h; simp [closedAt] at h
  | succ i ih =>
    intro h
    simp only [closedAt] at h
    split at h
    · next t c' he =>
      by_cases hc : c' = c
      · subst hc; exact ⟨i, t, Nat.lt_succ_self i, he⟩
      · simp [hc] at h
        obtain ⟨k, t', hk, hk'⟩ := ih h
        exact ⟨k, t', Nat.lt_succ_of_lt hk, hk'⟩
    · obtain ⟨k, t', hk, hk'⟩ := ih h
      exact ⟨k, t', Nat.lt_succ_of_lt hk, hk'⟩

/-! ### the two ordering arguments -/

/-- Mutex case: two events of different threads, each performed while its thread holds `m`,
    are ordered by happens-before (the earlier critical section's release is synchronized
    before the later one's acquire). -/
theorem mutex_orders (tr : Trace) (hwf : WF tr) (m : String) {i j t1 t2 : Nat} {e1 e2 : Ev}
    (hij : i < j) (hne : t1 ≠ t2)
    (h1 : tr[i]? = some (t1, e1)) (h2 : tr[j]? = some (t2, e2))
    (hnr : ∀ m', e1 ≠ .rel m')
    (hh1 : holdAt tr i m = some t1) (hh2 : holdAt tr j m = some t2) : HB tr i j := by
  have hne' : holdAt tr j m ≠ some t1 := by
    rw [hh2]; intro h; exact hne (by simpa using h.symm)
  obtain ⟨r, hir, hrj, hr⟩ := released_between tr hwf m t1 i j (Nat.le_of_lt hij) hh1 hne'
  have hir' : i < r := by
    rcases Nat.lt_or_eq_of_le hir with h | h
    · exact h
    · subst h
      rw [h1] at hr
      have : e1 = .rel m := by simpa using hr
      exact absurd this (hnr m)
  have hfree : holdAt tr (r + 1) m ≠ some t2 := by
    rw [holdAt_succ_rel hr]; simp
  obtain ⟨k, hrk, hkj, hk⟩ := acquired_between tr m t2 (r + 1) j (by omega) hfree hh2
  exact HB.trans (HB.po hir' h1 hr)
    (HB.trans (HB.mutex (by omega) hr hk) (HB.po hkj hk h2))

/-- Close case: a write that precedes the only `close(c)` in its thread's program order
    happens-before a read that follows a receive-from-closed `c` in its thread's program order. -/
theorem close_orders (tr : Trace) (hwf : WF tr) (c : String) {i j r tw tr' : Nat} {e1 e2 : Ev}
    (h1 : tr[i]? = some (tw, e1)) (h2 : tr[j]? = some (tr', e2))
    (hcl : ∀ k t', tr[k]? = some (t', .closeCh c) → t' = tw ∧ i < k)
    (hrj : r < j) (hr : tr[r]? = some (tr', .recvClosed c)) : HB tr i j := by
  obtain ⟨k, t', hkr, hk⟩ := closed_before tr c r (hwf.recv_closed r tr' c hr)
  obtain ⟨ht, hik⟩ := hcl k t' hk
  subst ht
  exact HB.trans (HB.po hik h1 hk) (HB.trans (HB.chan hkr hk hr) (HB.po hrj hr h2))

/-! ### the table-level discipline, as a proposition -/

theorem commonLock_spec (es : List Access) (h : commonLock es = true) :
    ∃ m, ∀ a ∈ es, m ∈ a.locks := by
  cases es with
  | nil => exact ⟨"", by simp⟩
  | cons e es' =>
    simp only [commonLock, List.any_eq_true] at h
    obtain ⟨m, _, hm⟩ := h
    refine ⟨m, ?_⟩
    intro a ha
    have := (List.all_eq_true.mp hm) a ha
    simpa using this

theorem closeOrdered_spec (es : List Access) (h : closeOrdered es = true) :
    ∃ o, isClose o = true ∧ ∀ a ∈ es, a.order = o := by
  cases es with
  | nil => exact ⟨"close:", by decide, by simp⟩
  | cons e es' =>
    simp only [closeOrdered, Bool.and_eq_true] at h
    obtain ⟨⟨hc, hall⟩, _⟩ := h
    refine ⟨e.order, hc, ?_⟩
    intro a ha
    have := (List.all_eq_true.mp hall) a ha
    simpa using this

theorem disciplined_spec (accs : List Access) (h : disciplined accs = true) : Disciplined accs := by
  intro x
  by_cases hx : ∃ a ∈ accs, a.var = x
  · obtain ⟨a0, ha0, hv0⟩ := hx
    have hv : varOk accs x = true := by
      have := (List.all_eq_true.mp h) a0 ha0
      rw [hv0] at this; exact this
    simp only [varOk, Bool.or_eq_true] at hv
    have hmem : ∀ a, a ∈ accs → a.var = x → a ∈ accs.filter (fun a => a.var == x) := by
      intro a ha hax
      simp [List.mem_filter, ha, hax]
    rcases hv with (hv | hv) | hv
    · left
      intro a ha hax
      have := (List.all_eq_true.mp hv) a (hmem a ha hax)
      simpa using this
    · right; left
      obtain ⟨m, hm⟩ := commonLock_spec _ hv
      exact ⟨m, fun a ha hax => hm a (hmem a ha hax)⟩
    · right; right
      obtain ⟨o, ho, hall⟩ := closeOrdered_spec _ hv
      exact ⟨o, ho, fun a ha hax => hall a (hmem a ha hax)⟩
  · left
    intro a ha hax
    exact absurd ⟨a, ha, hax⟩ hx

/-! ### main theorem -/

/-- ordered pair: the earlier access happens-before the later one -/
theorem lockset_orders (accs : List Access) (hd : Disciplined accs)
    (tr : Trace) (hwf : WF tr) (hf : Follows accs tr)
    {i j t1 t2 : Nat} {e1 e2 : Ev} {x : String} {w1 w2 : Bool}
    (hij : i < j) (h1 : tr[i]? = some (t1, e1)) (h2 : tr[j]? = some (t2, e2))
    (ha1 : e1.access = some (x, w1)) (ha2 : e2.access = some (x, w2))
    (hw : w1 = true ∨ w2 = true) (hne : t1 ≠ t2) : HB tr i j := by
  obtain ⟨a1, hm1, hv1, hwr1, ok1⟩ := hf i t1 e1 x w1 h1 ha1
  obtain ⟨a2, hm2, hv2, hwr2, ok2⟩ := hf j t2 e2 x w2 h2 ha2
  rcases hd x with hnw | ⟨m, hm⟩ | ⟨o, ho, hall⟩
  · -- never written: no write event can be matched
    have := hnw a1 hm1 hv1
    have := hnw a2 hm2 hv2
    rcases hw with hw | hw <;> simp_all
  · -- common mutex
    have hnr : ∀ m', e1 ≠ .rel m' := by
      intro m' he; subst he; simp [Ev.access] at ha1
    exact mutex_orders tr hwf m hij hne h1 h2 hnr
      (ok1.locks m (hm a1 hm1 hv1)) (ok2.locks m (hm a2 hm2 hv2))
  · -- close-ordered
    have ho1 : a1.order = o := hall a1 hm1 hv1
    have ho2 : a2.order = o := hall a2 hm2 hv2
    have hc1 : isClose a1.order = true := by rw [ho1]; exact ho
    have hc2 : isClose a2.order = true := by rw [ho2]; exact ho
    cases w1 with
    | true =>
      obtain ⟨hcl1, hsw1⟩ := ok1.close_wr hc1 hwr1
      cases w2 with
      | true =>
        -- two writes: same (single) writer thread
        have he2 : e2 = .wr a1.var := by
          cases e2 <;> simp [Ev.access] at ha2
          rw [hv1]; simp [ha2]
        subst he2
        exact absurd (hsw1 j t2 h2).symm hne
      | false =>
        obtain ⟨r, hrj, hr⟩ := ok2.close_rd hc2 hwr2
        rw [ho2, ← ho1] at hr
        exact close_orders tr hwf (chanOf a1.order) h1 h2 hcl1 hrj hr
    | false =>
      cases w2 with
      | false => simp at hw
      | true =>
        -- read before write: the read needs the close, which comes after the write
        obtain ⟨hcl2, _⟩ := ok2.close_wr hc2 hwr2
        obtain ⟨r, hri, hr⟩ := ok1.close_rd hc1 hwr1
        obtain ⟨k, t', hkr, hk⟩ := closed_before tr _ r (hwf.recv_closed r t1 _ hr)
        rw [ho1, ← ho2] at hk
        obtain ⟨_, hjk⟩ := hcl2 k t' hk
        omega

/-- **Lockset theorem.**  In every well-formed interleaving whose threads follow a disciplined
    access table, no two accesses race. -/
theorem lockset_race_free (accs : List Access) (hd : disciplined accs = true)
    (tr : Trace) (hwf : WF tr) (hf : Follows accs tr) : ∀ i j, ¬ Race tr i j := by
  intro i j ⟨⟨t1, t2, e1, e2, x, w1, w2, h1, h2, ha1, ha2, hw, hne⟩, hn1, hn2⟩
  have hD := disciplined_spec accs hd
  rcases Nat.lt_trichotomy i j with hlt | heq | hgt
  · exact hn1 (lockset_orders accs hD tr hwf hf hlt h1 h2 ha1 ha2 hw hne)
  · subst heq
    rw [h1] at h2
    have : t1 = t2 := by
      have := Option.some.inj h2
      exact congrArg Prod.fst this
    exact hne this
  · exact hn2 (lockset_orders accs hD tr hwf hf hgt h2 h1 ha2 ha1 (Or.symm hw) (Ne.symm hne))

/-! ### soundness of the executable well-formedness check -/

theorem wf_of_wfB (tr : Trace) (h : wfB tr = true) : WF tr := by
  have key : ∀ i, evOk tr i = true := by
    intro i
    by_cases hi : i < tr.length
    · exact (List.all_eq_true.mp h) i (List.mem_range.mpr hi)
    · have : tr[i]? = none := by simp; omega
      simp [evOk, this]
  refine ⟨?_, ?_, ?_, ?_⟩ <;> intro i t m he <;> have := key i <;> simp [evOk, he] at this <;> exact this

theorem entryOk_of_entryOkB (tr : Trace) (i t : Nat) (a : Access) (h : entryOkB tr i t a = true) :
    EntryOk tr i t a := by
  simp only [entryOkB, Bool.and_eq_true, Bool.or_eq_true, Bool.not_eq_true'] at h
  obtain ⟨hl, hc⟩ := h
  refine ⟨?_, ?_, ?_⟩
  · intro m hm
    have := (List.all_eq_true.mp hl) m hm
    simpa using this
  · intro hcl hw
    rcases hc with hc | hc
    · rw [hcl] at hc; simp at hc
    · rw [if_pos hw] at hc
      have key : ∀ k, closeWrOk tr i t a k = true := by
        intro k
        by_cases hk : k < tr.length
        · exact (List.all_eq_true.mp hc) k (List.mem_range.mpr hk)
        · have : tr[k]? = none := by simp; omega
          simp [closeWrOk, this]
      constructor
      · intro k t' he
        have := key k
        simp [closeWrOk, he] at this
        exact this
      · intro k t' he
        have := key k
        simp [closeWrOk, he] at this
        exact this
  · intro hcl hw
    rcases hc with hc | hc
    · rw [hcl] at hc; simp at hc
    · rw [if_neg (by simp [hw])] at hc
      obtain ⟨r, hr, he⟩ := List.any_eq_true.mp hc
      exact ⟨r, List.mem_range.mp hr, by simpa using he⟩

theorem follows_of_followsB (accs : List Access) (tr : Trace) (h : followsB accs tr = true) :
    Follows accs tr := by
  intro i t e x w he ha
  have hi : i < tr.length := by
    by_cases hi : i < tr.length
    · exact hi
    · have : tr[i]? = none := by simp; omega
      rw [this] at he; simp at he
  have := (List.all_eq_true.mp h) i (List.mem_range.mpr hi)
  simp only [followsAt, he, ha] at this
  obtain ⟨a, hm, hh⟩ := List.any_eq_true.mp this
  simp only [Bool.and_eq_true, beq_iff_eq] at hh
  exact ⟨a, hm, hh.1.1, hh.1.2, entryOk_of_entryOkB tr i t a hh.2⟩

end Panrpc.Ls
