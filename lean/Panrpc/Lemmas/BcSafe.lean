/-
  Lemmas/BcSafe.lean — skeleton-conditional invariants of M1:
  no channel is ever closed twice or sent on after close; whoever leaves the table is woken.
-/
import Panrpc.Lemmas.Broadcaster

namespace Panrpc.Bc

/-- Source facts: removal from the table and the closed-signal go together. -/
structure Hyg (sk : Skeleton) : Prop where
  freeDeletes : sk.bcFreeDeletes = true
  closeClears : sk.bcCloseClearsTable = true

/-- Source facts: the value channel is never closed (repaired tree). -/
structure NoChanClose (sk : Skeleton) : Prop where
  free  : sk.bcFreeClosesChan = false
  close : sk.bcCloseClosesChans = false

/-- Source facts: everything that removes an entry cancels its context and raises a closed signal
    that the receive function listens to; `Receive` fails on a closed broadcaster, and only then
    (it does not, e.g., refuse a caller context that is done already: M1's `Rcv.refusedCtx` never occurs). -/
structure Wakes (sk : Skeleton) : Prop where
  freeCancels  : sk.bcFreeCancels = true
  closeCancels : sk.bcCloseCancelsAll = true
  freeSignals  : sk.bcFreeClosesChan = true ∨ sk.bcFreeClosesDone = true
  closeSignals : sk.bcCloseClosesChans = true ∨ sk.bcCloseClosesDone = true
  closeSets    : sk.bcCloseSetsClosed = true
  refuses      : sk.bcReceiveRefusesWhenClosed = true
  onlyClosed   : sk.bcReceiveErrorsOnlyClosed = true   -- … and `Receive` fails for no other reason (no refusal of a done context)

structure NC (s : State) : Prop where
  nochan   : ∀ g e, s.entries g = some e → e.chanClosed = false
  live     : ∀ k g e, s.table k = some g → s.entries g = some e → e.doneClosed = false
  nocrash  : s.crashed = false

theorem nc_init : NC init := by constructor <;> simp [init]

theorem nc_step (sk : Skeleton) (hy : Hyg sk) (hn : NoChanClose sk) {s s' : State} (a : Act)
    (hw : WF s) (h : NC s) (hs : step sk s a = some s') : NC s' := by
  obtain ⟨h1, h2, h3⟩ := h
  obtain ⟨w1, w2, w3, w4, w5, w6, w7⟩ := hw
  obtain ⟨y1, y2⟩ := hy
  obtain ⟨n1, n2⟩ := hn
  cases a <;> simp only [step] at hs
  all_goals (repeat' split at hs) <;> (try simp at hs) <;> (try subst hs)
  all_goals (refine ⟨?_, ?_, ?_⟩ <;> (try simp only [upd_apply]) <;> intros <;> grind [upd_apply, freeEntry, closeEntry])

end Panrpc.Bc
