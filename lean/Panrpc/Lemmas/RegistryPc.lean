/-
  Lemmas/RegistryPc.lean — per-link program-counter invariant of M4: how the setup goroutine's
  pc, the two loops' pcs, the `remoteID` local and the handler backlog constrain each other.
-/
import Panrpc.Lemmas.Registry

namespace Panrpc.Rg

structure PcOk (k : Link) : Prop where
  id_none : k.id = none ↔ (k.setup = .absent ∨ k.setup = .started)
  no_ins  : k.setup ≠ .inserted
  no_del  : k.setup ≠ .deleted
  early   : (k.setup = .absent ∨ k.setup = .started ∨ k.setup = .registered) →
              k.reqLoop = .notStarted ∧ k.respLoop = .notStarted ∧ k.pendingReq = 0
  late    : (k.setup = .loopsDone ∨ k.setup = .unregistered) →
              k.reqLoop = .exited ∧ k.respLoop = .exited
  wait    : k.setup = .waiting → k.reqLoop ≠ .notStarted ∧ k.respLoop ≠ .notStarted

def PcInv (s : State) : Prop := ∀ l, PcOk (s.links l)

theorem pc_init : PcInv init := by
  intro l; constructor <;> simp [init, Link.fresh]

theorem pcT_step (w : Bool) {s s' : State} (a : Act) (hi : PcInv s)
    (hs : stepT w s a = some s') : PcInv s' := by
  obtain ⟨l, op⟩ := a
  intro j
  by_cases hjl : j = l
  · subst hjl
    obtain ⟨a1, a2, a3, a4, a5, a6⟩ := hi j
    cases op <;> simp only [stepT] at hs
    all_goals (repeat' split at hs) <;> (try simp at hs) <;> (try subst hs)
    all_goals ((try simp only [upd_same]); refine ⟨?_, ?_, ?_, ?_, ?_, ?_⟩ <;> grind [Link.fail])
  · rw [isoT_links w op hjl hs]; exact hi j

theorem pc_step {sk : Skeleton} (h : Facts sk) {s s' : State} (a : Act) (hi : PcInv s)
    (hs : step sk s a = some s') : PcInv s' := by
  rw [step_facts h] at hs; exact pcT_step _ a hi hs

/-! ### frame: most steps touch neither the table, the id counter, the hook log, nor any link's
    id / setup pc — the table and log invariants only need to be re-proved for the others -/

/-- ops that can change `remotes`, `nextId`, `hookLog`, a link's `id` or its setup pc -/
def Op.structural : Op → Bool
  | .linkStart | .setupRegister | .setupConnectHooks | .loopsStart | .setupLoopsDone
  | .setupUnregister | .setupDisconnectHooks => true
  | _ => false

/-- ops that can append to one of the ghost traffic logs -/
def Op.logging : Op → Bool
  | .reqHandle | .callOn | .respRead _ => true
  | _ => false

structure Same (s s' : State) : Prop where
  remotes : s'.remotes = s.remotes
  nextId  : s'.nextId = s.nextId
  hookLog : s'.hookLog = s.hookLog
  core    : ∀ j, (s'.links j).id = (s.links j).id ∧ (s'.links j).setup = (s.links j).setup

theorem sameT (w : Bool) {s s' : State} {l : Nat} (op : Op) (hop : op.structural = false)
    (hs : stepT w s ⟨l, op⟩ = some s') : Same s s' := by
  cases op <;> (try (simp [Op.structural] at hop; done)) <;> simp only [stepT] at hs
  all_goals (repeat' split at hs) <;> (try simp at hs) <;> (try subst hs)
  all_goals (refine ⟨rfl, rfl, rfl, fun j => ?_⟩ <;> (try simp only [upd_apply]) <;>
    (try split) <;> simp_all [Link.fail])

theorem sameT_ghost (w : Bool) {s s' : State} {l : Nat} (op : Op) (hop : op.structural = false)
    (hlg : op.logging = false) (hs : stepT w s ⟨l, op⟩ = some s') :
    s'.invocations = s.invocations ∧ s'.written = s.written ∧ s'.delivered = s.delivered := by
  cases op <;> (try (simp [Op.structural] at hop; done)) <;>
    (try (simp [Op.logging] at hlg; done)) <;> simp only [stepT] at hs
  all_goals (repeat' split at hs) <;> (try simp at hs) <;> (try subst hs)
  all_goals exact ⟨rfl, rfl, rfl⟩

end Panrpc.Rg
