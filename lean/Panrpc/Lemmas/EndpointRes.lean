/-
  Lemmas/EndpointRes.lean — a call that is past the spawn of its waiter and has not taken its
  response yet either still has a waiter on its way, or finds the response in `res` (C03).
-/
import Panrpc.Lemmas.EndpointLink

namespace Panrpc.Ep
open Panrpc

structure RI (s : State) : Prop where
  has_waiter : ∀ c, ((s.calls c).pc = .spawned ∨ (s.calls c).pc = .written) → s.waiters c ≠ .absent
  res_ready  : ∀ c, ((s.calls c).pc = .spawned ∨ (s.calls c).pc = .written) →
                 (s.waiters c = .sent ∨ s.waiters c = .exited) → s.res c ≠ []

theorem ri_init : RI init := by constructor <;> simp [init, Call.none]

theorem snoc_resp_ne_nil (l : List Resp) (r : Resp) : l ++ [r] ≠ [] := by simp

theorem ri_step (sk : Skeleton) {s s' : State} (a : Act) (hl : LK s)
    (h : RI s) (hs : step sk s a = some s') : RI s' := by
  obtain ⟨h1, h2⟩ := h
  obtain ⟨l1, l2, l3, l4, l5, l6, l7, l8⟩ := hl
  cases a <;> simp only [step] at hs
  all_goals (repeat' split at hs) <;> (try simp at hs) <;> (try subst hs)
  all_goals first
    | exact ⟨h1, h2⟩
    | (refine ⟨?_, ?_⟩ <;> intros <;> grind [upd_apply, snoc_resp_ne_nil])

theorem reach_ri (sk : Skeleton) {s : State} (h : Reach sk s) : RI s := by
  induction h with
  | init => exact ri_init
  | step a hr hs ih => exact ri_step sk a (reach_lk sk hr) ih hs

/-- a call that has built its results, or has returned, has an outcome -/
structure OI (s : State) : Prop where
  decoded_ok : ∀ c, (s.calls c).pc = .decoded → ∃ r, (s.calls c).outcome = .ok r
  returned_set : ∀ c, (s.calls c).pc = .returned →
      (∃ r, (s.calls c).outcome = .ok r) ∨ (∃ e, (s.calls c).outcome = .failed e)

theorem oi_init : OI init := by constructor <;> simp [init, Call.none]

theorem oi_step (sk : Skeleton) {s s' : State} (a : Act)
    (h : OI s) (hs : step sk s a = some s') : OI s' := by
  obtain ⟨h1, h2⟩ := h
  cases a <;> simp only [step] at hs
  all_goals (repeat' split at hs) <;> (try simp at hs) <;> (try subst hs)
  all_goals first
    | exact ⟨h1, h2⟩
    | (refine ⟨?_, ?_⟩ <;> intro c' hc' <;> simp only [upd_apply] at hc' ⊢ <;> split at hc' <;>
        first
          | (simp at hc'; done)
          | (simp_all; done)
          | exact h1 c' hc'
          | exact h2 c' hc'
          | (obtain ⟨r, hr⟩ := h1 c' (by assumption); simp_all; done))

theorem reach_oi (sk : Skeleton) {s : State} (h : Reach sk s) : OI s := by
  induction h with
  | init => exact oi_init
  | step a _ hs ih => exact oi_step sk a ih hs

end Panrpc.Ep
