/-
  Lemmas/SystemProgress.lean — M3: the PROGRESS invariant and the completion theorem for calls
  that are already in flight.

  `PInv` locates, for every call thread whose request has been written and that has not been
  handed a result, where its message is:
     (i)   not yet consumed by the peer's request loop  ⇒ its request frame is in flight;
     (ii)  consumed ⇒ a handler thread for it exists (`RInv.served_h`), at some pc;
     (iii) that handler thread finished ⇒ its response frame is in flight towards the caller, or
     (iv)  a publisher of the caller's response loop holds it (and the call is still pending,
           `CInv.wait_pend`);
  and says that a handler thread inside a nested call waits for a call thread that exists.
  In every stage the next step of the message is enabled (the loops never wait, `LInv`), except
  where user code decides: a handler that is `stalled`, or that waits for a nested call.

  `can_complete`: from every reachable state, a call thread that is `registered` or `written`
  can return by an explicit continuation of at most `8 + 6·n` steps, where `n` is the nesting
  depth at which its handler is currently waiting (`Unblocked s n e t`: no handler on the chain
  is stalled) — no step of which belongs to a stalled handler thread.
-/
import Panrpc.Lemmas.SystemLive

namespace Panrpc.Sys

/-! ### list helper -/

theorem mem_map_eraseIdx_of_ne {α : Type} (g : α → Nat) :
    ∀ (l : List α) (i : Nat) (x : α) (k : Nat), k ∈ l.map g → l[i]? = some x → g x ≠ k →
      k ∈ (l.eraseIdx i).map g := by
  intro l
  induction l with
  | nil => intro i x k h; simp at h
  | cons a l ih =>
    intro i x k hk hx hne
    cases i with
    | zero =>
      simp at hx; subst hx
      simp only [List.map_cons, List.mem_cons] at hk
      rcases hk with hk | hk
      · exact absurd hk.symm hne
      · simpa using hk
    | succ i =>
      simp at hx
      simp only [List.map_cons, List.mem_cons] at hk
      simp only [List.eraseIdx_cons_succ, List.map_cons, List.mem_cons]
      rcases hk with hk | hk
      · exact Or.inl hk
      · exact Or.inr (ih i x k hk hx hne)

theorem mem_map_append_singleton {α : Type} (g : α → Nat) (l : List α) (x : α) (k : Nat) :
    k ∈ (l ++ [x]).map g ↔ k ∈ l.map g ∨ k = g x := by
  simp [List.map_append, eq_comm]

/-! ### the progress invariant -/

/-- publisher `p` holds (and has not yet handed over or dropped) the response for call id `t` -/
def Pub.holds (p : Pub) (t : Nat) : Prop :=
  match p with
  | .pending f => f.call = t
  | _ => False

theorem Pub.holds_pending (f : ResFrame) (t : Nat) : (Pub.pending f).holds t ↔ f.call = t := Iff.rfl
theorem Pub.holds_done (f : ResFrame) (d : Bool) (t : Nat) : (Pub.done f d).holds t ↔ False := Iff.rfl
theorem Pub.holds_absent (t : Nat) : Pub.absent.holds t ↔ False := Iff.rfl

/-- (i): a written request that the peer has not consumed is in flight -/
def ReqLoc (s : State) : Prop :=
  ∀ e t, (s.calls e t).pc.wrote = true → s.served (peer e) t = false →
    t ∈ (s.reqs (peer e)).map ReqFrame.call

/-- (iii)/(iv): once the handler thread of a still-waiting call has finished, its response frame
    is in flight towards the caller or held by one of the caller's publishers -/
def ResLoc (s : State) : Prop :=
  ∀ e t, (s.calls e t).pc = .written → (s.calls e t).result = none → s.served (peer e) t = true →
    (s.handlers (peer e) (s.servedBy (peer e) t)).pc = .finished →
    t ∈ (s.ress e).map ResFrame.call ∨ ∃ p, (s.pubs e p).holds t

/-- a handler thread inside a nested call waits for a call thread of its own endpoint that has
    been started -/
def NestedLoc (s : State) : Prop :=
  ∀ x h t', (s.handlers x h).pc = .waitingNested t' →
    (s.calls x t').pc.waiting = true ∨ (s.calls x t').pc = .returned

/-- with `Receive` before `writeRequest` a call thread is never in the two states that exist
    only for a source that writes first -/
def NoUnreg (s : State) : Prop :=
  ∀ e t, (s.calls e t).pc ≠ .started ∧ (s.calls e t).pc ≠ .writtenUnreg

structure PInv (s : State) : Prop where
  req_loc : ReqLoc s
  res_loc : ResLoc s
  nested  : NestedLoc s
  unreg   : NoUnreg s

theorem pinv_init : PInv init := by
  constructor <;> simp [init, ReqLoc, ResLoc, NestedLoc, NoUnreg, CPc.wrote]

local macro "step_cases" hs:ident a:ident : tactic => `(tactic| (
  cases $a:ident <;> simp only [step, startCall] at $hs:ident
  all_goals (repeat' split at $hs:ident) <;> (try simp at $hs:ident) <;> (try subst $hs)))

theorem req_loc_step (sk : Skeleton) (hf : Facts sk) {s s' : State} (a : Act)
    (hc : CInv s) (h : ReqLoc s) (hs : step sk s a = some s') : ReqLoc s' := by
  obtain ⟨c1, c2, -, -, -, -⟩ := hc
  obtain ⟨-, -, f2, -, -, -, -, -, -⟩ := hf
  simp only [ReqLoc] at h ⊢
  step_cases hs a
  all_goals first | assumption | (intros; grind [upd2_apply, updE_apply, CPc.wrote, mkReq,
    mem_map_eraseIdx_of_ne, mem_map_append_singleton])

theorem nested_loc_step (sk : Skeleton) (hrw : sk.stubRecvBeforeWrite = true) {s s' : State} (a : Act)
    (hc : CInv s) (h : NestedLoc s) (hs : step sk s a = some s') : NestedLoc s' := by
  obtain ⟨c1, -, -, -, -, -⟩ := hc
  simp only [NestedLoc] at h ⊢
  step_cases hs a
  all_goals first | assumption | (intros; grind [upd2_apply, updE_apply, CPc.waiting])

theorem no_unreg_step (sk : Skeleton) (hrw : sk.stubRecvBeforeWrite = true) {s s' : State} (a : Act)
    (h : NoUnreg s) (hs : step sk s a = some s') : NoUnreg s' := by
  simp only [NoUnreg] at h ⊢
  step_cases hs a
  all_goals first | assumption | (intros; grind [upd2_apply, updE_apply])

theorem res_loc_resDeliver (sk : Skeleton) {s s' : State} (e : E) (i : Nat)
    (hl : PubLt s) (h : ResLoc s) (hs : step sk s (.resDeliver e i) = some s') : ResLoc s' := by
  simp only [ResLoc] at h ⊢
  simp only [step] at hs
  split at hs
  · split at hs
    · rename_i f hf
      simp only [Option.some.injEq] at hs
      subst hs
      intro e1 t h1 h2 h3 h4
      dsimp only at h1 h2 h3 h4 ⊢
      have h0 := h e1 t h1 h2 h3 h4
      by_cases hx : e1 = e
      · subst hx
        by_cases hk : f.call = t
        · exact Or.inr ⟨s.nextPub e1, by simp [Pub.holds, hk]⟩
        · rcases h0 with h0 | ⟨p, hp⟩
          · left
            simp only [updE_same]
            exact mem_map_eraseIdx_of_ne _ _ _ _ _ h0 hf hk
          · right
            refine ⟨p, ?_⟩
            simp only [upd2_apply]
            split
            · rename_i hh
              have := hh.2; subst this
              exfalso
              cases hq : s.pubs e1 (s.nextPub e1) with
              | absent => simp [hq, Pub.holds] at hp
              | pending g => exact absurd (hl e1 _ (by rw [hq]; simp)) (Nat.lt_irrefl _)
              | done g d => simp [hq, Pub.holds] at hp
            · exact hp
      · simp only [updE_apply, upd2_apply, hx, false_and, if_false]
        exact h0
    · simp at hs
  · simp at hs


local macro "resloc_tac" hg:ident hc:ident hr:ident h:ident hf:ident hs:ident a:ident : tactic => `(tactic| (
  obtain ⟨-, c2, c3, -, -, c6⟩ := $hc
  obtain ⟨-, -, -, r3, r4, r5⟩ := $hr
  obtain ⟨-, -, -, -, -, f5, f6, f7, -⟩ := $hf
  simp only [ResLoc] at $h:ident ⊢
  cases $a:ident <;> simp only [Act.group] at $hg:ident <;> (try omega)
  all_goals clear $hg
  all_goals simp only [step, startCall] at $hs:ident
  all_goals (repeat' split at $hs:ident) <;> (try simp at $hs:ident) <;> (try subst $hs)
  all_goals first | assumption | (intros; grind [upd2_apply, updE_apply, CPc.wrote, CPc.waiting, mkRes, pubKey,
    Pub.holds_pending, Pub.holds_done, Pub.holds_absent, mem_map_append_singleton])))

theorem res_loc_step_g0 (sk : Skeleton) (hf : Facts sk) {s s' : State} (a : Act) (hg : a.group = 0)
    (hc : CInv s) (hr : RInv s) (hu : NoUnreg s) (h : ResLoc s) (hs : step sk s a = some s') : ResLoc s' := by
  simp only [NoUnreg] at hu
  resloc_tac hg hc hr h hf hs a

theorem res_loc_step_g1 (sk : Skeleton) (hf : Facts sk) {s s' : State} (a : Act) (hg : a.group = 1)
    (hc : CInv s) (hr : RInv s) (h : ResLoc s) (hs : step sk s a = some s') : ResLoc s' := by
  resloc_tac hg hc hr h hf hs a

theorem res_loc_step_g2 (sk : Skeleton) (hf : Facts sk) {s s' : State} (a : Act) (hg : a.group = 2)
    (hc : CInv s) (hr : RInv s) (h : ResLoc s) (hs : step sk s a = some s') : ResLoc s' := by
  resloc_tac hg hc hr h hf hs a

theorem res_loc_step_g3 (sk : Skeleton) (hf : Facts sk) {s s' : State} (a : Act) (hg : a.group = 3)
    (hc : CInv s) (hr : RInv s) (h : ResLoc s) (hs : step sk s a = some s') : ResLoc s' := by
  resloc_tac hg hc hr h hf hs a

theorem res_loc_publish (sk : Skeleton) (hf : Facts sk) {s s' : State} (e : E) (p t : Nat)
    (hc : CInv s) (h : ResLoc s) (hs : step sk s (.publish e p t) = some s') : ResLoc s' := by
  have c2 := hc.call_id
  have f7 := hf.pubKey
  simp only [ResLoc] at h ⊢
  simp only [step] at hs
  split at hs
  · rename_i f hp
    split at hs
    · rename_i hg
      obtain ⟨-, hid, hw, -⟩ := hg
      simp only [Option.some.injEq] at hs
      subst hs
      intro e1 t1 h1 h2 h3 h4
      dsimp only at h1 h2 h3 h4 ⊢
      have hne : (s.calls e t).pc ≠ .absent := by
        intro h0; rw [h0] at hw; simp [CPc.waiting] at hw
      have hk : f.call = t := by
        have := c2 e t hne
        rw [this] at hid; simp only [pubKey, f7, if_true] at hid; exact hid.symm
      by_cases hx : e1 = e ∧ t1 = t
      · obtain ⟨rfl, rfl⟩ := hx
        simp at h2
      · simp only [upd2_apply, hx, if_false] at h1 h2
        rcases h e1 t1 h1 h2 h3 h4 with h0 | ⟨q, hq⟩
        · exact Or.inl h0
        · right
          refine ⟨q, ?_⟩
          simp only [upd2_apply]
          split
          · rename_i hh
            obtain ⟨rfl, rfl⟩ := hh
            rw [hp] at hq
            simp only [Pub.holds] at hq
            exact absurd ⟨rfl, by rw [← hq, hk]⟩ hx
          · exact hq
    · simp at hs
  · simp at hs

theorem res_loc_publishDrop (sk : Skeleton) (hf : Facts sk) {s s' : State} (e : E) (p : Nat)
    (hc : CInv s) (h : ResLoc s) (hs : step sk s (.publishDrop e p) = some s') : ResLoc s' := by
  have c6 := hc.wait_pend
  have f7 := hf.pubKey
  simp only [ResLoc] at h ⊢
  simp only [step] at hs
  split at hs
  · rename_i f hp
    split at hs
    · rename_i hg
      simp only [Option.some.injEq] at hs
      subst hs
      intro e1 t1 h1 h2 h3 h4
      dsimp only at h1 h2 h3 h4 ⊢
      rcases h e1 t1 h1 h2 h3 h4 with h0 | ⟨q, hq⟩
      · exact Or.inl h0
      · right
        refine ⟨q, ?_⟩
        simp only [upd2_apply]
        split
        · rename_i hh
          obtain ⟨rfl, rfl⟩ := hh
          rw [hp] at hq
          simp only [Pub.holds] at hq
          have := c6 e1 t1 (by rw [h1]; rfl) h2
          simp only [pubKey, f7, if_true, hq] at hg
          rw [hg] at this
          exact absurd this (by simp)
        · exact hq
    · simp at hs
  · simp at hs

theorem res_loc_step (sk : Skeleton) (hf : Facts sk) {s s' : State} (a : Act)
    (hc : CInv s) (hr : RInv s) (hl : PubLt s) (hu : NoUnreg s) (h : ResLoc s)
    (hs : step sk s a = some s') : ResLoc s' := by
  cases a
  case resDeliver e i => exact res_loc_resDeliver sk e i hl h hs
  case publish e p t => exact res_loc_publish sk hf e p t hc h hs
  case publishDrop e p => exact res_loc_publishDrop sk hf e p hc h hs
  all_goals first
    | exact res_loc_step_g0 sk hf _ rfl hc hr hu h hs
    | exact res_loc_step_g1 sk hf _ rfl hc hr h hs
    | exact res_loc_step_g2 sk hf _ rfl hc hr h hs
    | exact res_loc_step_g3 sk hf _ rfl hc hr h hs

theorem pinv_step (sk : Skeleton) (hf : Facts sk) (hrw : sk.stubRecvBeforeWrite = true) {s s' : State} (a : Act)
    (hc : CInv s) (hr : RInv s) (hsv : SInv s) (h : PInv s) (hs : step sk s a = some s') : PInv s' :=
  ⟨req_loc_step sk hf a hc h.req_loc hs, res_loc_step sk hf a hc hr hsv.pub_lt h.unreg h.res_loc hs,
   nested_loc_step sk hrw a hc h.nested hs, no_unreg_step sk hrw a h.unreg hs⟩

theorem reach_pinv (sk : Skeleton) (hf : Facts sk) (hrw : sk.stubRecvBeforeWrite = true) {s : State}
    (h : Reach sk s) : PInv s := by
  induction h with
  | init => exact pinv_init
  | step a hr hs ih =>
    have hi := reach_all sk hf hr
    exact pinv_step sk hf hrw a hi.c hi.r hi.sv ih hs

/-! ### continuations -/

/-- what a continuation for call thread `(e,t)` leaves alone: every other call thread, every
    handler thread other than the one serving `(e,t)`, and every stalled handler thread -/
structure Fr (s s' : State) (e : E) (t : Nat) : Prop where
  calls    : ∀ x i, (s.calls x i).pc ≠ .absent → ¬(x = e ∧ i = t) → s'.calls x i = s.calls x i
  handlers : ∀ x h, (s.handlers x h).pc ≠ .absent → ¬(x = peer e ∧ (s.handlers x h).req.call = t) →
    s'.handlers x h = s.handlers x h
  stalled  : ∀ x h, (s.handlers x h).pc = .stalled → s'.handlers x h = s.handlers x h

theorem Fr.refl (s : State) (e : E) (t : Nat) : Fr s s e t :=
  ⟨fun _ _ _ _ => rfl, fun _ _ _ _ => rfl, fun _ _ _ => rfl⟩

theorem Fr.trans {s s1 s2 : State} {e : E} {t : Nat} (h1 : Fr s s1 e t) (h2 : Fr s1 s2 e t) : Fr s s2 e t := by
  refine ⟨?_, ?_, ?_⟩
  · intro x i hne hx
    have := h1.calls x i hne hx
    rw [h2.calls x i (by rw [this]; exact hne) hx, this]
  · intro x h hne hx
    have := h1.handlers x h hne hx
    rw [h2.handlers x h (by rw [this]; exact hne) (by rw [this]; exact hx), this]
  · intro x h hst
    have := h1.stalled x h hst
    rw [h2.stalled x h (by rw [this]; exact hst), this]

/-- no action of the list is a step of a handler thread that is stalled in `s` -/
def Avoids (s : State) (acts : List Act) : Prop :=
  ∀ a, a ∈ acts → ∀ x h, a.handler? = some (x, h) → (s.handlers x h).pc ≠ .stalled

/-- call thread `(e,t)` can return within `k` steps -/
def Done (sk : Skeleton) (s : State) (e : E) (t : Nat) (k : Nat) : Prop :=
  ∃ acts s', run sk s acts = some s' ∧ acts.length ≤ k ∧ (s'.calls e t).pc = .returned ∧
    Fr s s' e t ∧ Avoids s acts

theorem done_cons (sk : Skeleton) {s s1 : State} {a : Act} {e : E} {t k : Nat}
    (hs : step sk s a = some s1) (hfr : Fr s s1 e t)
    (hav : ∀ x h, a.handler? = some (x, h) → (s.handlers x h).pc ≠ .stalled)
    (hd : Done sk s1 e t k) : Done sk s e t (k + 1) := by
  obtain ⟨acts, s', hrun, hlen, hpc, hfr', hav'⟩ := hd
  refine ⟨a :: acts, s', by rw [run_cons_some sk _ hs]; exact hrun, by simp; omega, hpc, hfr.trans hfr', ?_⟩
  intro a' ha' x h hh
  rcases List.mem_cons.mp ha' with rfl | ha'
  · exact hav x h hh
  · intro hst
    have := hfr.stalled x h hst
    exact hav' a' ha' x h hh (by rw [this]; exact hst)

theorem Done.mono {sk : Skeleton} {s : State} {e : E} {t k k' : Nat} (h : Done sk s e t k) (hk : k ≤ k') :
    Done sk s e t k' := by
  obtain ⟨acts, s', h1, h2, h3⟩ := h
  exact ⟨acts, s', h1, by omega, h3⟩

/-- stage: the waiter has its result -/
theorem done_result (sk : Skeleton) {s : State} (e : E) (t : Nat)
    (hpc : (s.calls e t).pc = .written) (hres : (s.calls e t).result ≠ none) : Done sk s e t 1 := by
  have hs : step sk s (.callReturn e t) =
      some { s with calls := upd2 s.calls e t { s.calls e t with pc := .returned } } := by
    cases hq : (s.calls e t).result with
    | none => exact absurd hq hres
    | some r => simp [step, hpc, hq]
  refine ⟨[_], _, by rw [run_cons_some sk _ hs]; rfl, by simp, by simp, ⟨?_, ?_, ?_⟩, ?_⟩
  · intro x i _ hx; simp [upd2_apply, hx]
  · intro x h _ _; rfl
  · intro x h _; rfl
  · intro a ha x h hh; simp at ha; subst ha; simp [Act.handler?] at hh

/-- what every stage below knows about the call thread it drives -/
structure Waiting (sk : Skeleton) (s : State) (e : E) (t : Nat) : Prop where
  reach : Reach sk s
  pc    : (s.calls e t).pc = .written
  res   : (s.calls e t).result = none

theorem Waiting.pend {sk : Skeleton} (hf : Facts sk) {s : State} {e : E} {t : Nat} (w : Waiting sk s e t) :
    s.pending e t = true :=
  (reach_all sk hf w.reach).c.wait_pend e t (by rw [w.pc]; rfl) w.res

theorem Waiting.id {sk : Skeleton} (hf : Facts sk) {s : State} {e : E} {t : Nat} (w : Waiting sk s e t) :
    (s.calls e t).id = t :=
  (reach_all sk hf w.reach).c.call_id e t (by rw [w.pc]; simp)

/-- stage (iv): a publisher holds the response -/
theorem done_pub (sk : Skeleton) (hf : Facts sk) {s : State} (e : E) (t p : Nat)
    (w : Waiting sk s e t) (hp : (s.pubs e p).holds t) : Done sk s e t 2 := by
  cases hq : s.pubs e p with
  | absent => simp [hq, Pub.holds] at hp
  | done g d => simp [hq, Pub.holds] at hp
  | pending f =>
    rw [hq] at hp
    have hk : f.call = t := hp
    have hs : step sk s (.publish e p t) = some
        { s with calls := upd2 s.calls e t { s.calls e t with result := some (pubVal sk f, f.err) },
                 pending := upd2 s.pending e (pubKey sk f) false,
                 pubs := upd2 s.pubs e p (.done f true),
                 resLoopBusy := updE s.resLoopBusy e (release (s.resLoopBusy e) p),
                 deliveries := s.deliveries ++
                   [{ ep := e, pub := p, waiter := t, waiterId := (s.calls e t).id, frameCall := f.call,
                      value := pubVal sk f, err := f.err }] } := by
      simp [step, hq, pubKey, hf.pubKey, hk, w.pend hf, w.id hf, w.pc, w.res, CPc.waiting]
    refine done_cons sk hs ⟨?_, ?_, ?_⟩ (by intro x h hh; simp [Act.handler?] at hh)
      (done_result sk e t (by simp [w.pc]) (by simp))
    · intro x i _ hx; simp [upd2_apply, hx]
    · intro x h _ _; rfl
    · intro x h _; rfl

theorem exists_getElem?_of_mem_map {α : Type} (g : α → Nat) (l : List α) (k : Nat) (h : k ∈ l.map g) :
    ∃ (i : Nat) (x : α), l[i]? = some x ∧ g x = k := by
  simp only [List.mem_map] at h
  obtain ⟨x, hx, hk⟩ := h
  obtain ⟨i, hi⟩ := List.getElem?_of_mem hx
  exact ⟨i, x, hi, hk⟩

/-- stage (iii): the response frame is in flight -/
theorem done_res (sk : Skeleton) (hf : Facts sk) (ha : Async sk) {s : State} (e : E) (t : Nat)
    (w : Waiting sk s e t) (hm : t ∈ (s.ress e).map ResFrame.call) : Done sk s e t 3 := by
  obtain ⟨i, f, hi, hk⟩ := exists_getElem?_of_mem_map _ _ _ hm
  have hl := reach_linv sk ha w.reach
  have hs : step sk s (.resDeliver e i) = some
      { s with ress := updE s.ress e ((s.ress e).eraseIdx i),
               nextPub := updE s.nextPub e (s.nextPub e + 1),
               pubs := upd2 s.pubs e (s.nextPub e) (.pending f),
               resLoopBusy := updE s.resLoopBusy e none } := by
    simp [step, hl.res_free e, hi, ha.publishGo, ha.resOnlyRead]
  refine done_cons sk hs ⟨?_, ?_, ?_⟩ (by intro x h hh; simp [Act.handler?] at hh)
    (done_pub sk hf e t (s.nextPub e) ⟨Reach.step _ w.reach hs, w.pc, w.res⟩ (by simp [Pub.holds, hk]))
  · intro x i _ _; rfl
  · intro x h _ _; rfl
  · intro x h _; rfl

/-- stage (ii), handler thread returned from user code, response not yet written -/
theorem done_returned (sk : Skeleton) (hf : Facts sk) (ha : Async sk) {s : State} (e : E) (t h : Nat)
    (w : Waiting sk s e t) (hh : (s.handlers (peer e) h).pc = .returned)
    (hq : (s.handlers (peer e) h).req.call = t) : Done sk s e t 4 := by
  have hi := reach_all sk hf w.reach
  have hret := hi.v.ret_some (peer e) h (Or.inl hh)
  cases hr : (s.handlers (peer e) h).ret with
  | none => exact absurd hr hret
  | some r =>
    have hs : step sk s (.respond (peer e) h) = some
        { s with handlers := upd2 s.handlers (peer e) h { s.handlers (peer e) h with pc := .finished },
                 ress := updE s.ress e (s.ress e ++ [mkRes sk (s.handlers (peer e) h).req r]),
                 reqLoopBusy := updE s.reqLoopBusy (peer e) (release (s.reqLoopBusy (peer e)) h) } := by
      simp [step, hh, hr, hf.oneResp]
    refine done_cons sk hs ⟨?_, ?_, ?_⟩ ?_
      (done_res sk hf ha e t ⟨Reach.step _ w.reach hs, w.pc, w.res⟩
        (by simp [mkRes, hf.resCall, hq]))
    · intro x i _ _; rfl
    · intro x h' _ hx
      have : ¬(x = peer e ∧ h' = h) := by rintro ⟨rfl, rfl⟩; exact hx ⟨rfl, hq⟩
      simp [upd2_apply, this]
    · intro x h' hst
      have : ¬(x = peer e ∧ h' = h) := by rintro ⟨rfl, rfl⟩; rw [hh] at hst; simp at hst
      simp [upd2_apply, this]
    · intro x h' hx; simp [Act.handler?] at hx; obtain ⟨rfl, rfl⟩ := hx; rw [hh]; simp

/-- stage (ii), handler thread inside user code and free to return (it returns `(v, err)`) -/
theorem done_running (sk : Skeleton) (hf : Facts sk) (ha : Async sk) {s : State} (e : E) (t h : Nat) (v err : Nat)
    (w : Waiting sk s e t) (hh : (s.handlers (peer e) h).pc = .running)
    (hq : (s.handlers (peer e) h).req.call = t) : Done sk s e t 5 := by
  have hs : step sk s (.handlerReturn (peer e) h v err) = some
      { s with handlers := upd2 s.handlers (peer e) h
                 { s.handlers (peer e) h with pc := .returned, ret := some (v, err) },
               invocations := s.invocations.map (setRet (peer e) h (v, err)) } := by
    simp [step, hh]
  refine done_cons sk hs ⟨?_, ?_, ?_⟩ ?_
    (done_returned sk hf ha e t h ⟨Reach.step _ w.reach hs, w.pc, w.res⟩ (by simp) (by simp [hq]))
  · intro x i _ _; rfl
  · intro x h' _ hx
    have : ¬(x = peer e ∧ h' = h) := by rintro ⟨rfl, rfl⟩; exact hx ⟨rfl, hq⟩
    simp [upd2_apply, this]
  · intro x h' hst
    have : ¬(x = peer e ∧ h' = h) := by rintro ⟨rfl, rfl⟩; rw [hh] at hst; simp at hst
    simp [upd2_apply, this]
  · intro x h' hx; simp [Act.handler?] at hx; obtain ⟨rfl, rfl⟩ := hx; rw [hh]; simp

/-- stage (ii), handler thread still resolving the function -/
theorem done_resolving (sk : Skeleton) (hf : Facts sk) (ha : Async sk) {s : State} (e : E) (t h : Nat) (v err : Nat)
    (w : Waiting sk s e t) (hh : (s.handlers (peer e) h).pc = .resolving)
    (hq : (s.handlers (peer e) h).req.call = t) : Done sk s e t 6 := by
  have hs : step sk s (.handlerEnter (peer e) h) = some
      { s with handlers := upd2 s.handlers (peer e) h { s.handlers (peer e) h with pc := .running },
               invocations := s.invocations ++ mkInv sk (peer e) h (s.handlers (peer e) h).req,
               reqLoopBusy := updE s.reqLoopBusy (peer e) (release (s.reqLoopBusy (peer e)) h) } := by
    simp [step, hh, ha.handlerGo, ha.reqOnlyRead]
  refine done_cons sk hs ⟨?_, ?_, ?_⟩ ?_
    (done_running sk hf ha e t h v err ⟨Reach.step _ w.reach hs, w.pc, w.res⟩ (by simp) (by simp [hq]))
  · intro x i _ _; rfl
  · intro x h' _ hx
    have : ¬(x = peer e ∧ h' = h) := by rintro ⟨rfl, rfl⟩; exact hx ⟨rfl, hq⟩
    simp [upd2_apply, this]
  · intro x h' hst
    have : ¬(x = peer e ∧ h' = h) := by rintro ⟨rfl, rfl⟩; rw [hh] at hst; simp at hst
    simp [upd2_apply, this]
  · intro x h' hx; simp [Act.handler?] at hx; obtain ⟨rfl, rfl⟩ := hx; rw [hh]; simp

/-- stage (i): the request frame is in flight -/
theorem done_req (sk : Skeleton) (hf : Facts sk) (ha : Async sk) {s : State} (e : E) (t : Nat) (v err : Nat)
    (w : Waiting sk s e t) (hm : t ∈ (s.reqs (peer e)).map ReqFrame.call) : Done sk s e t 7 := by
  obtain ⟨i, f, hi, hk⟩ := exists_getElem?_of_mem_map _ _ _ hm
  have hl := reach_linv sk ha w.reach
  have hinv := reach_all sk hf w.reach
  have hs : step sk s (.reqDeliver (peer e) i) = some
      { s with reqs := updE s.reqs (peer e) ((s.reqs (peer e)).eraseIdx i),
               nextHandler := updE s.nextHandler (peer e) (s.nextHandler (peer e) + 1),
               handlers := upd2 s.handlers (peer e) (s.nextHandler (peer e)) { pc := .resolving, req := f, ret := none },
               served := upd2 s.served (peer e) f.call true,
               servedBy := upd2 s.servedBy (peer e) f.call (s.nextHandler (peer e)),
               reqLoopBusy := updE s.reqLoopBusy (peer e) none } := by
    simp [step, hl.req_free (peer e), hi, ha.resolveGo, ha.handlerGo, ha.reqOnlyRead]
  have hnew : ∀ x h', (s.handlers x h').pc ≠ .absent → ¬(x = peer e ∧ h' = s.nextHandler (peer e)) := by
    rintro x h' hne ⟨rfl, rfl⟩
    exact absurd (hinv.r.h_lt _ _ hne) (Nat.lt_irrefl _)
  refine done_cons sk hs ⟨?_, ?_, ?_⟩ (by intro x h hh; simp [Act.handler?] at hh)
    (done_resolving sk hf ha e t (s.nextHandler (peer e)) v err ⟨Reach.step _ w.reach hs, w.pc, w.res⟩
      (by simp) (by simp [hk]))
  · intro x i _ _; rfl
  · intro x h' hne _
    simp [upd2_apply, hnew x h' hne]
  · intro x h' hst
    simp [upd2_apply, hnew x h' (by rw [hst]; simp)]

/-- stage: started, request not yet written (the whole served call of `serve`, Lemmas/SystemRun.lean) -/
theorem done_registered (sk : Skeleton) (hf : Facts sk) (ha : Async sk) (hrw : sk.stubRecvBeforeWrite = true)
    {s : State} (hr : Reach sk s) (e : E) (t : Nat) (v err : Nat)
    (hpc : (s.calls e t).pc = .registered) : Done sk s e t 8 := by
  have hinv := reach_all sk hf hr
  obtain ⟨s', acts, hsv, hpost⟩ :=
    serve_spec sk hf ha hrw (fun _ => (v, err)) 0 s e t (pre_of_registered sk hf hr e t hpc)
  refine ⟨acts, s', serve_sound sk _ _ _ _ _ _ _ hsv, by rw [hpost.len]; omega, by rw [hpost.call], ⟨?_, ?_, ?_⟩, ?_⟩
  · intro x i hne hx; exact hpost.agree.calls x i (hinv.c.call_lt x i hne) hx
  · intro x h hne _; exact hpost.agree.handlers x h (hinv.r.h_lt x h hne)
  · intro x h hst; exact hpost.agree.handlers x h (hinv.r.h_lt x h (by rw [hst]; simp))
  · intro a ham x h hh hst
    have h1 := hpost.avoids a ham x h hh
    have h2 := hinv.r.h_lt x h (by rw [hst]; simp)
    omega

/-! ### which calls can complete -/

/-- `Unblocked s n e t` (decidable): the handler thread serving call thread `(e,t)` — if it exists
    already — is not stalled, and it waits at nesting depth exactly `n`: for `n = 0` it is not
    inside a nested call; for `n + 1` it waits for a call thread of its own endpoint that is
    unblocked at depth `n`.  (A chain of nested calls that ends in a stalled handler, or that is
    circular, is unblocked at no depth.) -/
def unblocked (s : State) : Nat → E → Nat → Bool
  | 0, e, t => !s.served (peer e) t ||
      (match (s.handlers (peer e) (s.servedBy (peer e) t)).pc with
       | .stalled => false
       | .waitingNested _ => false
       | _ => true)
  | n + 1, e, t => s.served (peer e) t &&
      (match (s.handlers (peer e) (s.servedBy (peer e) t)).pc with
       | .waitingNested t' => unblocked s n (peer e) t'
       | _ => false)

abbrev Unblocked (s : State) (n : Nat) (e : E) (t : Nat) : Prop := unblocked s n e t = true

theorem unblocked_zero {s : State} {e : E} {t : Nat} (h : Unblocked s 0 e t) (hsv : s.served (peer e) t = true) :
    (s.handlers (peer e) (s.servedBy (peer e) t)).pc ≠ .stalled ∧
    ∀ t', (s.handlers (peer e) (s.servedBy (peer e) t)).pc ≠ .waitingNested t' := by
  simp only [Unblocked, unblocked, hsv, Bool.not_true, Bool.false_or] at h
  constructor
  · intro h0; rw [h0] at h; simp at h
  · intro t' h0; rw [h0] at h; simp at h

theorem unblocked_succ {s : State} {n : Nat} {e : E} {t : Nat} (h : Unblocked s (n + 1) e t) :
    s.served (peer e) t = true ∧
    ∃ t', (s.handlers (peer e) (s.servedBy (peer e) t)).pc = .waitingNested t' ∧ Unblocked s n (peer e) t' := by
  simp only [Unblocked, unblocked, Bool.and_eq_true] at h
  refine ⟨h.1, ?_⟩
  have h2 := h.2
  split at h2
  · rename_i t' hpc; exact ⟨t', hpc, h2⟩
  · simp at h2

theorem unblocked_succ_of {s : State} {n : Nat} {e : E} {t t' : Nat} (hsv : s.served (peer e) t = true)
    (hpc : (s.handlers (peer e) (s.servedBy (peer e) t)).pc = .waitingNested t')
    (hu : Unblocked s n (peer e) t') : Unblocked s (n + 1) e t := by
  simp only [Unblocked, unblocked, hsv, hpc, Bool.true_and]; exact hu

theorem Unblocked.unique {s : State} : ∀ {n m : Nat} {e : E} {t : Nat},
    Unblocked s n e t → Unblocked s m e t → n = m := by
  intro n
  induction n with
  | zero =>
    intro m e t h1 h2
    cases m with
    | zero => rfl
    | succ m =>
      obtain ⟨hsv, t', hpc, -⟩ := unblocked_succ h2
      exact absurd hpc ((unblocked_zero h1 hsv).2 t')
  | succ n ih =>
    intro m e t h1 h2
    cases m with
    | zero =>
      obtain ⟨hsv, t', hpc, -⟩ := unblocked_succ h1
      exact absurd hpc ((unblocked_zero h2 hsv).2 t')
    | succ m =>
      obtain ⟨-, t1, hpc1, hu1⟩ := unblocked_succ h1
      obtain ⟨-, t2, hpc2, hu2⟩ := unblocked_succ h2
      rw [hpc1] at hpc2
      injection hpc2 with ht
      subst ht
      rw [ih hu1 hu2]

/-- a call whose handler thread is not inside a nested call (and not stalled) returns within 8 steps -/
theorem done_depth0 (sk : Skeleton) (hf : Facts sk) (ha : Async sk) (hrw : sk.stubRecvBeforeWrite = true)
    {s : State} (hr : Reach sk s) (e : E) (t : Nat) (v err : Nat)
    (hw : (s.calls e t).pc.waiting = true) (hu : Unblocked s 0 e t) : Done sk s e t 8 := by
  have hinv := reach_all sk hf hr
  have hp := reach_pinv sk hf hrw hr
  cases hpc : (s.calls e t).pc with
  | absent => rw [hpc] at hw; simp [CPc.waiting] at hw
  | started => rw [hpc] at hw; simp [CPc.waiting] at hw
  | writtenUnreg => rw [hpc] at hw; simp [CPc.waiting] at hw
  | returned => rw [hpc] at hw; simp [CPc.waiting] at hw
  | registered => exact done_registered sk hf ha hrw hr e t v err hpc
  | written =>
    cases hres : (s.calls e t).result with
    | some r => exact (done_result sk e t hpc (by rw [hres]; simp)).mono (by omega)
    | none =>
      have w : Waiting sk s e t := ⟨hr, hpc, hres⟩
      cases hsv : s.served (peer e) t with
      | false => exact (done_req sk hf ha e t v err w (hp.req_loc e t (by rw [hpc]; rfl) hsv)).mono (by omega)
      | true =>
        obtain ⟨hne, hq⟩ := hinv.r.served_h (peer e) t hsv
        obtain ⟨hns, hnn⟩ := unblocked_zero hu hsv
        cases hh : (s.handlers (peer e) (s.servedBy (peer e) t)).pc with
        | absent => exact absurd hh hne
        | stalled => exact absurd hh hns
        | waitingNested t' => exact absurd hh (hnn t')
        | resolving => exact (done_resolving sk hf ha e t _ v err w hh hq).mono (by omega)
        | running => exact (done_running sk hf ha e t _ v err w hh hq).mono (by omega)
        | returned => exact (done_returned sk hf ha e t _ w hh hq).mono (by omega)
        | finished =>
          rcases hp.res_loc e t hpc hres hsv hh with hm | ⟨p, hpub⟩
          · exact (done_res sk hf ha e t w hm).mono (by omega)
          · exact (done_pub sk hf e t p w hpub).mono (by omega)

/-! ### nested calls -/

/-- what a continuation for a call that is unblocked at depth `n` leaves alone: every call thread
    and every handler thread that is not on a chain of depth ≤ `n`, and every stalled handler -/
structure FrN (s s' : State) (n : Nat) : Prop where
  calls    : ∀ x i, (s.calls x i).pc ≠ .absent → (∀ k, k ≤ n → ¬ Unblocked s k x i) → s'.calls x i = s.calls x i
  handlers : ∀ x h, (s.handlers x h).pc ≠ .absent →
    (∀ k, k ≤ n → ¬ Unblocked s k (peer x) (s.handlers x h).req.call) → s'.handlers x h = s.handlers x h
  stalled  : ∀ x h, (s.handlers x h).pc = .stalled → s'.handlers x h = s.handlers x h

theorem FrN.refl (s : State) (n : Nat) : FrN s s n := ⟨fun _ _ _ _ => rfl, fun _ _ _ _ => rfl, fun _ _ _ => rfl⟩

theorem FrN.of_fr {s s' : State} {e : E} {t n k : Nat} (h : Fr s s' e t) (hu : Unblocked s k e t) (hk : k ≤ n) :
    FrN s s' n := by
  refine ⟨?_, ?_, h.stalled⟩
  · intro x i hne hno
    exact h.calls x i hne (by rintro ⟨rfl, rfl⟩; exact hno k hk hu)
  · intro x h' hne hno
    refine h.handlers x h' hne ?_
    rintro ⟨rfl, hq⟩
    rw [hq, peer_peer] at hno
    exact hno k hk hu

/-- the statement proved by induction on the nesting depth -/
def CanReturn (sk : Skeleton) (s : State) (e : E) (t n : Nat) : Prop :=
  ∃ acts s', run sk s acts = some s' ∧ acts.length ≤ 8 + 6 * n ∧ (s'.calls e t).pc = .returned ∧
    FrN s s' n ∧ Avoids s acts

theorem can_return_zero (sk : Skeleton) (hf : Facts sk) (ha : Async sk) (hrw : sk.stubRecvBeforeWrite = true)
    (v err : Nat) {s : State} (hr : Reach sk s) (e : E) (t : Nat)
    (hw : (s.calls e t).pc.waiting = true) (hu : Unblocked s 0 e t) : CanReturn sk s e t 0 := by
  obtain ⟨acts, s', h1, h2, h3, h4, h5⟩ := done_depth0 sk hf ha hrw hr e t v err hw hu
  exact ⟨acts, s', h1, by omega, h3, FrN.of_fr h4 hu (Nat.le_refl _), h5⟩

theorem can_return_succ (sk : Skeleton) (hf : Facts sk) (ha : Async sk) (hrw : sk.stubRecvBeforeWrite = true)
    (v err : Nat) (n : Nat)
    (ih : ∀ {s : State}, Reach sk s → ∀ e t, (s.calls e t).pc.waiting = true → Unblocked s n e t →
      CanReturn sk s e t n)
    {s : State} (hr : Reach sk s) (e : E) (t : Nat)
    (hw : (s.calls e t).pc.waiting = true) (hu : Unblocked s (n + 1) e t) : CanReturn sk s e t (n + 1) := by
  have hinv := reach_all sk hf hr
  have hp := reach_pinv sk hf hrw hr
  obtain ⟨hsv, t', hpc0, hu'⟩ := unblocked_succ hu
  obtain ⟨hne0, hq0⟩ := hinv.r.served_h (peer e) t hsv
  -- the call thread itself: written, no result yet
  have hwrote := (hinv.r.h_prov (peer e) _ hne0).2.2.1
  rw [hq0, peer_peer] at hwrote
  have hpc : (s.calls e t).pc = .written := by
    cases hc : (s.calls e t).pc <;> rw [hc] at hw hwrote <;> simp [CPc.waiting, CPc.wrote] at hw hwrote
  have hres : (s.calls e t).result = none := by
    cases hq : (s.calls e t).result with
    | none => rfl
    | some r =>
      have := (hinv.sv.result_prov e t r hq).2.1
      rw [hpc0] at this; simp at this
  have hcne : (s.calls e t).pc ≠ .absent := by rw [hpc]; simp
  have hnot : ∀ k, k ≤ n → ¬ Unblocked s k e t := by
    intro k hk huk
    have := Unblocked.unique huk hu
    omega
  -- first the nested call
  have hnested : ∃ acts1 s1, run sk s acts1 = some s1 ∧ acts1.length ≤ 8 + 6 * n ∧
      (s1.calls (peer e) t').pc = .returned ∧ FrN s s1 n ∧ Avoids s acts1 := by
    rcases hp.nested (peer e) _ t' hpc0 with hw' | hret
    · exact ih hr (peer e) t' hw' hu'
    · exact ⟨[], s, rfl, by simp, hret, FrN.refl s n, by intro a ha'; simp at ha'⟩
  obtain ⟨acts1, s1, hrun1, hlen1, hret1, hfr1, hav1⟩ := hnested
  have hr1 : Reach sk s1 := reach_of_run sk _ hr hrun1
  have hc1 : s1.calls e t = s.calls e t := hfr1.calls e t hcne hnot
  have hh1 : s1.handlers (peer e) (s.servedBy (peer e) t) = s.handlers (peer e) (s.servedBy (peer e) t) :=
    hfr1.handlers _ _ hne0 (by rw [hq0, peer_peer]; exact hnot)
  -- the handler leaves the nested call
  have hs2 := nestedDone_step sk s1 (peer e) (s.servedBy (peer e) t) t' (by rw [hh1]; exact hpc0) hret1
  have hr2 := Reach.step _ hr1 hs2
  -- and is an ordinary running handler from there
  obtain ⟨acts2, s', hrun2, hlen2, hret2, hfr2, hav2⟩ :=
    done_running sk hf ha e t (s.servedBy (peer e) t) v err
      (s := nestedDoneState s1 (peer e) (s.servedBy (peer e) t))
      ⟨hr2, by simp only [nestedDoneState]; rw [hc1]; exact hpc, by simp only [nestedDoneState]; rw [hc1]; exact hres⟩
      (by simp [nestedDoneState]) (by simp [nestedDoneState, hh1, hq0])
  have hH0 : ∀ x h, (s.handlers x h).pc ≠ .absent →
      (∀ k, k ≤ n + 1 → ¬ Unblocked s k (peer x) (s.handlers x h).req.call) →
      ¬(x = peer e ∧ h = s.servedBy (peer e) t) := by
    rintro x h _ hno ⟨rfl, rfl⟩
    rw [hq0, peer_peer] at hno
    exact hno (n + 1) (Nat.le_refl _) hu
  have hst2 : ∀ x h, (s.handlers x h).pc = .stalled →
      (nestedDoneState s1 (peer e) (s.servedBy (peer e) t)).handlers x h = s.handlers x h := by
    intro x h hst
    have hx : ¬(x = peer e ∧ h = s.servedBy (peer e) t) := by
      rintro ⟨rfl, rfl⟩; rw [hpc0] at hst; simp at hst
    simp only [nestedDoneState, upd2_apply, hx, if_false]
    exact hfr1.stalled x h hst
  refine ⟨acts1 ++ Act.handlerNestedDone (peer e) (s.servedBy (peer e) t) :: acts2, s', ?_, ?_, hret2, ⟨?_, ?_, ?_⟩, ?_⟩
  · rw [run_append, hrun1, Option.bind_some, run_cons_some sk _ hs2]; exact hrun2
  · simp only [List.length_append, List.length_cons]; omega
  · intro x i hne hno
    have h1 := hfr1.calls x i hne (fun k hk => hno k (by omega))
    have hx : ¬(x = e ∧ i = t) := by rintro ⟨rfl, rfl⟩; exact hno (n + 1) (Nat.le_refl _) hu
    rw [hfr2.calls x i (by simp only [nestedDoneState]; rw [h1]; exact hne) hx]
    exact h1
  · intro x h hne hno
    have h1 := hfr1.handlers x h hne (fun k hk => hno k (by omega))
    have hx := hH0 x h hne hno
    have h2 : (nestedDoneState s1 (peer e) (s.servedBy (peer e) t)).handlers x h = s.handlers x h := by
      simp only [nestedDoneState, upd2_apply, hx, if_false]; exact h1
    rw [hfr2.handlers x h (by rw [h2]; exact hne) ?_, h2]
    rw [h2]
    rintro ⟨rfl, hq⟩
    rw [hq, peer_peer] at hno
    exact hno (n + 1) (Nat.le_refl _) hu
  · intro x h hst
    have h2 := hst2 x h hst
    rw [hfr2.stalled x h (by rw [h2]; exact hst), h2]
  · intro a ham x h hh hst
    rcases List.mem_append.mp ham with hm | hm
    · exact hav1 a hm x h hh hst
    · rcases List.mem_cons.mp hm with rfl | hm
      · simp [Act.handler?] at hh; obtain ⟨rfl, rfl⟩ := hh; rw [hpc0] at hst; simp at hst
      · exact hav2 a hm x h hh (by rw [hst2 x h hst]; exact hst)

/-- general form of `C01_can_complete` -/
theorem can_return (sk : Skeleton) (hf : Facts sk) (ha : Async sk) (hrw : sk.stubRecvBeforeWrite = true)
    (v err : Nat) : ∀ (n : Nat) {s : State}, Reach sk s → ∀ e t, (s.calls e t).pc.waiting = true →
      Unblocked s n e t → CanReturn sk s e t n := by
  intro n
  induction n with
  | zero => intro s hr e t hw hu; exact can_return_zero sk hf ha hrw v err hr e t hw hu
  | succ n ih => intro s hr e t hw hu; exact can_return_succ sk hf ha hrw v err n ih hr e t hw hu

/-- General form of `C01_can_complete`: from every reachable state, a call thread that has been
    started (`registered`) or whose request is written (`written`), and that is unblocked at
    nesting depth `n`, returns by an explicit continuation of at most `8 + 6·n` steps; no step of
    it belongs to a handler thread that is stalled, and every stalled handler thread is left
    exactly as it was.  (`v`, `err`: what the handlers that have not yet returned will return.) -/
theorem can_complete (sk : Skeleton) (hf : Facts sk) (ha : Async sk) (hrw : sk.stubRecvBeforeWrite = true)
    {s : State} (hr : Reach sk s) (e : E) (t n : Nat)
    (hw : (s.calls e t).pc = .registered ∨ (s.calls e t).pc = .written) (hu : Unblocked s n e t) (v err : Nat) :
    ∃ acts s', run sk s acts = some s' ∧ acts.length ≤ 8 + 6 * n ∧ (s'.calls e t).pc = .returned ∧
      (∀ a, a ∈ acts → ∀ x h, a.handler? = some (x, h) → (s.handlers x h).pc ≠ .stalled) ∧
      (∀ x h, (s.handlers x h).pc = .stalled → s'.handlers x h = s.handlers x h) := by
  have hw' : (s.calls e t).pc.waiting = true := by rcases hw with h | h <;> rw [h] <;> rfl
  obtain ⟨acts, s', h1, h2, h3, h4, h5⟩ := can_return sk hf ha hrw v err n hr e t hw' hu
  exact ⟨acts, s', h1, h2, h3, h5, h4.stalled⟩

/-! ### the hypothesis is needed: a stalled handler does block its call -/

theorem stalled_stays (sk : Skeleton) {s s' : State} (hri : RInv s) (a : Act) (hs : step sk s a = some s')
    (x : E) (h : Nat) (hst : (s.handlers x h).pc = .stalled) (hna : a ≠ .handlerResume x h) :
    s'.handlers x h = s.handlers x h := by
  have hlt := hri.h_lt x h (by rw [hst]; simp)
  cases a <;> simp only [step, startCall] at hs
  all_goals (repeat' split at hs) <;> (try simp at hs) <;> (try subst hs)
  all_goals first | rfl | grind [upd2_apply]

/-- While the handler thread serving call `(e,t)` is stalled, the call cannot return: every run
    that contains no `handlerResume` of that thread leaves the call un-returned (and the handler
    stalled). -/
theorem stalled_blocks (sk : Skeleton) (hf : Facts sk) (e : E) (t h : Nat) :
    ∀ (acts : List Act) {s s' : State}, Reach sk s →
      (s.handlers (peer e) h).pc = .stalled → (s.handlers (peer e) h).req.call = t →
      Act.handlerResume (peer e) h ∉ acts → run sk s acts = some s' →
      (s'.calls e t).pc ≠ .returned ∧ (s'.handlers (peer e) h).pc = .stalled := by
  intro acts
  induction acts with
  | nil =>
    intro s s' hr hst hq _ hrun
    simp only [run_nil, Option.some.injEq] at hrun
    subst hrun
    refine ⟨?_, hst⟩
    have hinv := reach_all sk hf hr
    intro hret
    have hres := hinv.c.ret_res e t hret
    cases hq' : (s.calls e t).result with
    | none => exact hres hq'
    | some r =>
      have hp := hinv.sv.result_prov e t r hq'
      have hb := (hinv.r.h_prov (peer e) h (by rw [hst]; simp)).2.1
      rw [hq] at hb
      rw [hb, hst] at hp
      simp at hp
  | cons a acts ih =>
    intro s s' hr hst hq hna hrun
    rw [run_cons] at hrun
    cases hs : step sk s a with
    | none => simp [hs] at hrun
    | some s1 =>
      simp only [hs, Option.bind_some] at hrun
      have hinv := reach_all sk hf hr
      have hsame := stalled_stays sk hinv.r a hs (peer e) h hst (by intro h0; exact hna (by simp [h0]))
      exact ih (Reach.step a hr hs) (by rw [hsame]; exact hst) (by rw [hsame]; exact hq)
        (fun hm => hna (List.mem_cons_of_mem _ hm)) hrun

end Panrpc.Sys
