/-
  Lemmas/Broadcaster.lean — inductive invariants of M1 and their preservation.
  Helper lemmas only; the property theorems are in Props/C19.lean (and C05, C04).
-/
import Panrpc.Model.Broadcaster

namespace Panrpc.Bc

/-- key and generation a receiver thread is bound to, if any -/
def Rcv.binding : Rcv → Option (Nat × Nat)
  | .have k g _ | .waiting k g _ | .gotVal k g _ _ | .gotCtx k g _ | .gotClosed k g _ => some (k, g)
  | _ => none

@[simp, grind =] theorem freeEntry_key (sk : Skeleton) (e : Entry) : (freeEntry sk e).key = e.key := rfl
@[simp, grind =] theorem closeEntry_key (sk : Skeleton) (e : Entry) : (closeEntry sk e).key = e.key := rfl
@[simp, grind =] theorem freeEntry_parent (sk : Skeleton) (e : Entry) : (freeEntry sk e).parent = e.parent := rfl
@[simp, grind =] theorem closeEntry_parent (sk : Skeleton) (e : Entry) : (closeEntry sk e).parent = e.parent := rfl

/-- structural well-formedness; holds for every skeleton -/
structure WF (s : State) : Prop where
  table_lt   : ∀ k g, s.table k = some g → g < s.nextGen
  table_key  : ∀ k g, s.table k = some g → (s.entries g).map Entry.key = some k
  entries_lt : ∀ g e, s.entries g = some e → g < s.nextGen
  pub_entry  : ∀ p k v g, s.pubs p = .holding k v g → (s.entries g).map Entry.key = some k
  rcv_entry  : ∀ t k g, (s.rcvs t).binding = some (k, g) → (s.entries g).map Entry.key = some k
  pub_lt     : ∀ p k v g, s.pubs p = .holding k v g → g < s.nextGen
  rcv_lt     : ∀ t k g, (s.rcvs t).binding = some (k, g) → g < s.nextGen

theorem wf_init : WF init := by
  constructor <;> simp [init, Rcv.binding]

theorem wf_step (sk : Skeleton) {s s' : State} (a : Act) (h : WF s) (hs : step sk s a = some s') : WF s' := by
  obtain ⟨h1, h2, h3, h4, h5, h6, h7⟩ := h
  cases a <;> simp only [step] at hs
  all_goals (repeat' split at hs) <;> (try simp at hs) <;> (try subst hs)
  all_goals (refine ⟨?_, ?_, ?_, ?_, ?_, ?_, ?_⟩ <;> (try simp only [upd_apply, Rcv.binding]) <;> intros <;> grind [Rcv.binding, upd_apply])

end Panrpc.Bc
