/-
  Lemmas/SystemLive.lean — M3: general (∀ sk, facts → …) forms of the completion theorems:
  a started call can always be completed, a fresh call / an alternating chain of any depth
  completes from every reachable state, without any step of a thread that already existed.
-/
import Panrpc.Lemmas.SystemSafe
import Panrpc.Lemmas.SystemRun

namespace Panrpc.Sys

/-- a call thread that is `registered` in a reachable state meets `serve`'s precondition -/
theorem pre_of_registered (sk : Skeleton) (hf : Facts sk) {s : State} (hr : Reach sk s) (e : E) (t : Nat)
    (hpc : (s.calls e t).pc = .registered) : Pre sk s e t := by
  have h := reach_all sk hf hr
  have hne : (s.calls e t).pc ≠ .absent := by rw [hpc]; simp
  have hres : (s.calls e t).result = none := by
    cases hq : (s.calls e t).result with
    | none => rfl
    | some r =>
      obtain ⟨hsv, hfin, -⟩ := h.sv.result_prov e t r hq
      have hne' : (s.handlers (peer e) (s.servedBy (peer e) t)).pc ≠ .absent := by rw [hfin]; simp
      have hp := h.r.h_prov (peer e) _ hne'
      rw [(h.r.served_h (peer e) t hsv).2, peer_peer, hpc] at hp
      simp [CPc.wrote] at hp
  exact ⟨hr, hpc, h.c.call_id e t hne, hres,
    h.c.wait_pend e t (by rw [hpc]; rfl) hres, h.c.call_lt e t hne⟩

/-- From every reachable state, every call that has been started and not yet written can be
    completed — with ANY value/error the handler chooses — by 8 further steps, none of which
    belongs to a handler thread that already exists. -/
theorem registered_can_complete (sk : Skeleton) (hf : Facts sk) (ha : Async sk)
    (hrw : sk.stubRecvBeforeWrite = true) {s : State} (hr : Reach sk s) (e : E) (t : Nat)
    (hpc : (s.calls e t).pc = .registered) (v err : Nat) :
    ∃ acts s', run sk s acts = some s' ∧ acts.length = 8 ∧
      (s'.calls e t).pc = .returned ∧ (s'.calls e t).result = some (v, err) ∧
      (∀ a, a ∈ acts → ∀ x h, a.handler? = some (x, h) → s.nextHandler x ≤ h) := by
  obtain ⟨s', acts, hsv, hpost⟩ :=
    serve_spec sk hf ha hrw (fun _ => (v, err)) 0 s e t (pre_of_registered sk hf hr e t hpc)
  refine ⟨acts, s', serve_sound sk _ _ _ _ _ _ _ hsv, hpost.len, ?_, ?_, hpost.avoids⟩
  · rw [hpost.call]
  · rw [hpost.call]

/-- what a completed chain leaves behind: nothing that existed before was touched -/
structure Untouched (s s' : State) : Prop where
  handlers : ∀ x h, h < s.nextHandler x → s'.handlers x h = s.handlers x h
  calls    : ∀ x i, i < s.nextCall x → s'.calls x i = s.calls x i ∧ s'.pending x i = s.pending x i
  pubs     : ∀ x p, p < s.nextPub x → s'.pubs x p = s.pubs x p
  frames   : ∀ x, s'.reqs x = s.reqs x ∧ s'.ress x = s.ress x

/-- From every reachable state — whatever handlers are stalled in it, whatever calls and frames
    are in flight — a fresh call of `e` whose handlers alternate direction to depth `n`
    (A→B→A→…; the handler at remaining depth `k` returns `ret k`) completes in `9 + 10·n` steps. -/
theorem chain_completes (sk : Skeleton) (hf : Facts sk) (ha : Async sk)
    (hrw : sk.stubRecvBeforeWrite = true) (ret : Nat → Nat × Nat) (n : Nat)
    {s : State} (hr : Reach sk s) (e : E) (fn args : Nat) :
    ∃ acts s', run sk s (.callStart e fn args :: acts) = some s' ∧ acts.length = 8 + 10 * n ∧
      s'.calls e (s.nextCall e) =
        { pc := .returned, id := s.nextCall e, fn := fn, args := args, parent := none, result := some (ret n) } ∧
      (∀ a, a ∈ acts → ∀ x h, a.handler? = some (x, h) → s.nextHandler x ≤ h) ∧
      Untouched s s' := by
  have h0 : step sk s (.callStart e fn args) = some (startCall sk s e fn args none) := rfl
  have hr0 : Reach sk (startCall sk s e fn args none) := Reach.step _ hr h0
  have hpre : Pre sk (startCall sk s e fn args none) e (s.nextCall e) := by
    refine ⟨hr0, ?_, ?_, ?_, ?_, ?_⟩ <;> simp [startCall, hrw, hf.fresh, recvKey, hf.recvKey]
  obtain ⟨s', acts, hsv, hpost⟩ := serve_spec sk hf ha hrw ret n _ e _ hpre
  have hrun := serve_sound sk _ _ _ _ _ _ _ hsv
  refine ⟨acts, s', by rw [run_cons_some sk _ h0]; exact hrun, hpost.len, ?_, ?_, ⟨?_, ?_, ?_, ?_⟩⟩
  · rw [hpost.call]; simp [startCall, hrw, hf.fresh, recvKey, hf.recvKey]
  · intro a ha' x h hh; exact hpost.avoids a ha' x h hh
  · intro x h hh; exact hpost.agree.handlers x h hh
  · intro x i hi
    have hlt : i < (startCall sk s e fn args none).nextCall x := by
      simp only [startCall, updE_apply]; split <;> (try subst x) <;> omega
    have hne : ¬(x = e ∧ i = s.nextCall e) := by rintro ⟨rfl, rfl⟩; omega
    refine ⟨?_, ?_⟩
    · rw [hpost.agree.calls x i hlt hne]; simp [startCall, upd2_apply, hne]
    · rw [hpost.agree.pend x i hlt hne]; simp [startCall, hrw, hf.fresh, recvKey, hf.recvKey, upd2_apply, hne]
  · intro x p hp; exact hpost.agree.pubs x p hp
  · intro x; exact ⟨hpost.agree.reqs x, hpost.agree.ress x⟩

/-- … and every handler thread that was stalled is still stalled -/
theorem chain_completes_stalled (sk : Skeleton) (hf : Facts sk) (ha : Async sk)
    (hrw : sk.stubRecvBeforeWrite = true) (ret : Nat → Nat × Nat) (n : Nat)
    {s : State} (hr : Reach sk s) (e : E) (fn args : Nat) :
    ∃ acts s', run sk s (.callStart e fn args :: acts) = some s' ∧ acts.length = 8 + 10 * n ∧
      s'.calls e (s.nextCall e) =
        { pc := .returned, id := s.nextCall e, fn := fn, args := args, parent := none, result := some (ret n) } ∧
      (∀ a, a ∈ acts → ∀ x h, a.handler? = some (x, h) → s.nextHandler x ≤ h) ∧
      Untouched s s' ∧
      (∀ x h, (s.handlers x h).pc = .stalled → (s'.handlers x h).pc = .stalled) := by
  obtain ⟨acts, s', h1, h2, h3, h4, h5⟩ := chain_completes sk hf ha hrw ret n hr e fn args
  refine ⟨acts, s', h1, h2, h3, h4, h5, ?_⟩
  intro x h hst
  have hlt := (reach_all _ hf hr).r.h_lt x h (by rw [hst]; simp)
  rw [h5.handlers x h hlt]; exact hst

end Panrpc.Sys
