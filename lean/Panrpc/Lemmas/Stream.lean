/-
  Lemmas/Stream.lean — general lemmas about M4 (Model/Stream.lean), for every skeleton that
  meets the stated hypotheses.
-/
import Panrpc.Model.Stream

namespace Panrpc.St

/-- the source facts the safety lemmas rest on -/
structure StOk (sk : Skeleton) : Prop where
  handsReq : sk.stDecoderHandsRequests = true
  handsRes : sk.stDecoderHandsResponses = true
  errFirst : sk.stDecodeErrBeforeClose = true
  exits    : sk.stDecoderExitsOnErr = true
  /-- the envelope is declared inside the decode loop: what the decoder hands over is what the
      frame just decoded carried (needed by the FIFO statements `SInv.reqs` / `SInv.ress`) -/
  fresh    : sk.stMsgFreshPerIteration = true
  /-- `decodeDone` is closed once per exit: no surplus close when the goroutine leaves (needed by
      `SInv.nocrash`) -/
  closedOnce : sk.stDoneClosedOncePerExit = true

theorem decoded_fresh {sk : Skeleton} (h : sk.stMsgFreshPerIteration = true) (c env : Envelope) :
    decoded sk c env = env := by
  simp [decoded, h]

theorem leave_once {sk : Skeleton} (h : sk.stDoneClosedOncePerExit = true) (s : State) :
    leave sk s = s := by
  simp [leave, h]

/-! ### list helpers -/

@[simp] theorem reqsOf_nil : reqsOf [] = [] := rfl
@[simp] theorem ressOf_nil : ressOf [] = [] := rfl

@[simp] theorem reqsOf_snoc_some (l : List (Option Envelope)) (e : Envelope) :
    reqsOf (l ++ [some e]) = reqsOf l ++ e.req.toList := by
  cases h : e.req <;> simp [reqsOf, List.filterMap_append, h]

@[simp] theorem ressOf_snoc_some (l : List (Option Envelope)) (e : Envelope) :
    ressOf (l ++ [some e]) = ressOf l ++ e.res.toList := by
  cases h : e.res <;> simp [ressOf, List.filterMap_append, h]

@[simp] theorem reqsOf_snoc_none (l : List (Option Envelope)) : reqsOf (l ++ [none]) = reqsOf l := by
  simp [reqsOf, List.filterMap_append]

@[simp] theorem ressOf_snoc_none (l : List (Option Envelope)) : ressOf (l ++ [none]) = ressOf l := by
  simp [ressOf, List.filterMap_append]

/-! ### the invariant -/

/-- the decoder is inside its loop, not on the error path and not finished -/
def Dec.live : Dec → Bool
  | .reading | .handReq _ _ | .handRes _ => true
  | _ => false

structure SInv (inp0 : List (Option Envelope)) (s : State) : Prop where
  split      : s.consumed ++ s.inp = inp0
  nocrash    : s.crashed = false
  reqs       : reqsOf s.consumed = s.gotReq ++ pendReq s.dec ++ s.lostReq
  ress       : ressOf s.consumed = s.gotRes ++ pendRes s.dec ++ s.lostRes
  lost       : (s.lostReq = [] ∧ s.lostRes = []) ∨ (s.dec = .done ∧ s.linkCtxDone = true)
  live       : s.dec.live = true → s.decodeErr = none ∧ s.decodeDone = false
  closed_dec : s.decodeDone = true → s.dec = .done ∧ s.decodeErr ≠ none
  failing    : ∀ k, s.dec = .failing k → s.decodeErr = some (.decode k) ∧ s.decodeDone = false
  err_dec    : ∀ k, s.decodeErr = some (.decode k) →
                 s.consumed.length = k + 1 ∧ s.consumed.getLast? = some none ∧
                 s.consumed.dropLast.all Option.isSome = true ∧ s.lostReq = [] ∧ s.lostRes = []
  err_ctx    : s.decodeErr = some .ctx → s.linkCtxDone = true
  err_none   : s.decodeErr = none → s.consumed.all Option.isSome = true
  req_end    : ∀ e, s.reqEnd = some e → s.decodeDone = true ∧ e = s.decodeErr ∧ s.reqRd = .exited
  res_end    : ∀ e, s.resEnd = some e → s.decodeDone = true ∧ e = s.decodeErr ∧ s.resRd = .exited

theorem sinv_init (inp0 : List (Option Envelope)) : SInv inp0 (init inp0) := by
  refine ⟨?_, ?_, ?_, ?_, ?_, ?_, ?_, ?_, ?_, ?_, ?_, ?_, ?_⟩ <;> simp [init, pendReq, pendRes, Dec.live]

theorem sinv_step_decRead (sk : Skeleton) (ok : StOk sk) (inp0 : List (Option Envelope))
    {s s' : State} (hi : SInv inp0 s) (hs : step sk s .decRead = some s') : SInv inp0 s' := by
  obtain ⟨h1, h2, h3, h4, h5, h6⟩ := ok
  obtain ⟨i1, i2, i3, i4, i5, i6, i7, i8, i9, i10, i11, i12, i13⟩ := hi
  simp only [step, decoded_fresh h5, h5, if_true] at hs
  split at hs
  · next hc =>
    obtain ⟨hc1, hc2⟩ := hc
    have hE : s.decodeErr = none ∧ s.decodeDone = false := i6 (by rw [hc2]; rfl)
    split at hs
    · simp at hs
    · next env rest hinp =>
      simp at hs; subst hs
      rcases env with ⟨_ | p, _ | q⟩ <;> simp only [afterDecode, h1, h2, if_true] <;>
        refine ⟨?_, ?_, ?_, ?_, ?_, ?_, ?_, ?_, ?_, ?_, ?_, ?_, ?_⟩ <;> intros <;>
          (try simp only [reqsOf_snoc_some, ressOf_snoc_some, List.all_append]) <;>
          grind [pendReq, pendRes, Dec.live]
    · next rest hinp =>
      simp at hs; subst hs
      refine ⟨?_, ?_, ?_, ?_, ?_, ?_, ?_, ?_, ?_, ?_, ?_, ?_, ?_⟩ <;> intros <;>
          (try simp only [reqsOf_snoc_none, ressOf_snoc_none, List.dropLast_concat, List.getLast?_concat,
             List.length_append, List.length_singleton]) <;>
          grind [pendReq, pendRes, Dec.live]
  · simp at hs

/-- the decoder's ways out (`decFinish`, `decAbort`): here `closedOnce` is what keeps `crashed = false` -/
theorem sinv_step_exit (sk : Skeleton) (ok : StOk sk) (inp0 : List (Option Envelope)) (a : Act)
    (ha : a = .decFinish ∨ ∃ c, a = .decAbort c)
    {s s' : State} (hi : SInv inp0 s) (hs : step sk s a = some s') : SInv inp0 s' := by
  obtain ⟨h1, h2, h3, h4, h5, h6⟩ := ok
  obtain ⟨i1, i2, i3, i4, i5, i6, i7, i8, i9, i10, i11, i12, i13⟩ := hi
  rcases ha with rfl | ⟨c, rfl⟩ <;> simp only [step, leave_once h6, h3, h4, if_true] at hs
  all_goals (repeat' split at hs) <;> (try simp at hs) <;> (try subst hs)
  all_goals
    refine ⟨?_, ?_, ?_, ?_, ?_, ?_, ?_, ?_, ?_, ?_, ?_, ?_, ?_⟩ <;> intros <;>
      grind [pendReq, pendRes, closeDone, abortWith, Dec.live]

theorem sinv_step (sk : Skeleton) (ok : StOk sk) (inp0 : List (Option Envelope)) (a : Act)
    {s s' : State} (hi : SInv inp0 s) (hs : step sk s a = some s') : SInv inp0 s' := by
  cases a
  case decRead => exact sinv_step_decRead sk ok inp0 hi hs
  case decFinish => exact sinv_step_exit sk ok inp0 _ (Or.inl rfl) hi hs
  case decAbort c => exact sinv_step_exit sk ok inp0 _ (Or.inr ⟨c, rfl⟩) hi hs
  all_goals
    obtain ⟨i1, i2, i3, i4, i5, i6, i7, i8, i9, i10, i11, i12, i13⟩ := hi
    simp only [step] at hs
    (repeat' split at hs) <;> (try simp at hs) <;> (try subst hs)
  all_goals
    refine ⟨?_, ?_, ?_, ?_, ?_, ?_, ?_, ?_, ?_, ?_, ?_, ?_, ?_⟩ <;> intros <;>
      grind [pendReq, pendRes, Dec.live]
theorem reach_sinv (sk : Skeleton) (ok : StOk sk) {inp0 : List (Option Envelope)} {s : State}
    (h : Reach sk inp0 s) : SInv inp0 s := by
  induction h with
  | init => exact sinv_init inp0
  | step a _ hs ih => exact sinv_step sk ok inp0 a ih hs

/-! ### once the decoder goroutine has left, the readers have been told

  Needs, beside `StOk`, that the abort arm of the hand-off selects signals (`stAbortClosesDone`) —
  if there is such an arm at all (`stHandoffGuarded`):
  `dec = .done` is entered by `decFinish` (second effect of the error path: the close, the error
  having been recorded by `decRead`) and by `decAbort sk.stAbortClosesDone`.  (The converse
  direction, `decodeDone = true → dec = .done ∧ decodeErr ≠ none`, is `SInv.closed_dec`.) -/

/-- the property as a state predicate -/
def DoneSignalled (s : State) : Prop :=
  s.dec = .done → s.decodeDone = true ∧ s.decodeErr ≠ none

theorem closeDone_decodeDone (s : State) : (closeDone s).decodeDone = true := by
  unfold closeDone; split
  · next h => exact h
  · rfl

theorem closeDone_decodeErr (s : State) : (closeDone s).decodeErr = s.decodeErr := by
  unfold closeDone; split <;> rfl

theorem done_signalled_init (inp0 : List (Option Envelope)) : DoneSignalled (init inp0) := by
  intro h; cases h

/-- the decoder's own steps: those that can enter `done` (none of them starts from `done`, so the
    predicate is not needed for the state before) -/
theorem done_signalled_step_dec (sk : Skeleton) (ok : StOk sk)
    (hab : sk.stHandoffGuarded = true → sk.stAbortClosesDone = true)
    {inp0 : List (Option Envelope)} (a : Act) (ha : a.ofDecoder = true)
    {s s' : State} (hi : SInv inp0 s) (hs : step sk s a = some s') :
    DoneSignalled s' := by
  obtain ⟨h1, h2, h3, h4, h5, h6⟩ := ok
  have hf := hi.failing
  unfold DoneSignalled
  cases a <;> simp [Act.ofDecoder] at ha <;> simp only [step, decoded_fresh h5, leave_once h6] at hs
  case decRead =>
    split at hs
    · next hc =>
      split at hs
      · simp at hs
      · simp at hs; subst hs
        intro hdone
        simp only [afterDecode] at hdone
        split at hdone <;> cases hdone
      · simp at hs; subst hs   -- (`split` has used `h3`)
        intro hdone; cases hdone
    · simp at hs
  case decFinish =>
    split at hs
    · split at hs
      · next k hk =>
        simp at hs; subst hs
        intro _
        refine ⟨closeDone_decodeDone _, ?_⟩
        rw [closeDone_decodeErr]
        show s.decodeErr ≠ none
        rw [(hf k hk).1]; simp
      · simp at hs
    · simp at hs
  case handReq =>
    (repeat' split at hs) <;> (try simp at hs) <;> (try subst hs) <;> intro hdone <;> cases hdone
  case handRes =>
    (repeat' split at hs) <;> (try simp at hs) <;> (try subst hs) <;> intro hdone <;> cases hdone
  case decAbort signal =>
    split at hs
    · next hc =>
      have hsig : signal = true := by rw [hc.2.2.2, hab hc.2.1]
      subst hsig
      split at hs <;> simp at hs <;> subst hs <;> intro _ <;>
        simp only [abortWith, if_true] <;>
        exact ⟨closeDone_decodeDone _, by rw [closeDone_decodeErr]; simp⟩
    · simp at hs

/-- the other steps touch neither `dec` nor `decodeDone` nor `decodeErr` -/
theorem done_signalled_step_env (sk : Skeleton) (a : Act) (ha : a.ofDecoder = false)
    {s s' : State} (hd : DoneSignalled s) (hs : step sk s a = some s') : DoneSignalled s' := by
  unfold DoneSignalled at hd ⊢
  cases a <;> simp [Act.ofDecoder] at ha <;> simp only [step] at hs <;>
    split at hs <;> simp at hs <;> subst hs <;> exact hd

theorem done_signalled_step (sk : Skeleton) (ok : StOk sk)
    (hab : sk.stHandoffGuarded = true → sk.stAbortClosesDone = true)
    {inp0 : List (Option Envelope)} (a : Act)
    {s s' : State} (hi : SInv inp0 s) (hd : DoneSignalled s) (hs : step sk s a = some s') :
    DoneSignalled s' := by
  cases ha : a.ofDecoder with
  | true => exact done_signalled_step_dec sk ok hab a ha hi hs
  | false => exact done_signalled_step_env sk a ha hd hs

theorem reach_done_signalled (sk : Skeleton) (ok : StOk sk)
    (hab : sk.stHandoffGuarded = true → sk.stAbortClosesDone = true)
    {inp0 : List (Option Envelope)} {s : State} (h : Reach sk inp0 s) : DoneSignalled s := by
  induction h with
  | init => exact done_signalled_init inp0
  | step a hr hs ih => exact done_signalled_step sk ok hab a (reach_sinv sk ok hr) ih hs

/-- **Invariant.**  Whenever the decoder goroutine is done, the readers have been told: `decodeDone`
    is closed and `decodeErr` holds the reason. -/
theorem done_signalled (sk : Skeleton) (ok : StOk sk) (hab : sk.stAbortClosesDone = true)
    {inp0 : List (Option Envelope)} {s : State} (h : Reach sk inp0 s) (hd : s.dec = .done) :
    s.decodeDone = true ∧ s.decodeErr ≠ none :=
  reach_done_signalled sk ok (fun _ => hab) h hd

/-- with `SInv.closed_dec`: in a reachable state the decoder is done iff `decodeDone` is closed -/
theorem done_iff_closed (sk : Skeleton) (ok : StOk sk) (hab : sk.stAbortClosesDone = true)
    {inp0 : List (Option Envelope)} {s : State} (h : Reach sk inp0 s) :
    s.dec = .done ↔ s.decodeDone = true :=
  ⟨fun hd => (done_signalled sk ok hab h hd).1, fun hc => ((reach_sinv sk ok h).closed_dec hc).1⟩

/-- a reader parked in its adapter can leave once the decoder is done (`stReadersSelectDone`) -/
theorem readers_can_leave (sk : Skeleton) (ok : StOk sk) (hab : sk.stAbortClosesDone = true)
    (hsel : sk.stReadersSelectDone = true)
    {inp0 : List (Option Envelope)} {s : State} (h : Reach sk inp0 s) (hd : s.dec = .done) :
    (s.reqRd = .waiting → (step sk s .readDoneReq).isSome = true) ∧
    (s.resRd = .waiting → (step sk s .readDoneRes).isSome = true) := by
  have hc := (reach_sinv sk ok h).nocrash
  have hdd := (done_signalled sk ok hab h hd).1
  constructor <;> intro hw <;> simp [step, hc, hw, hdd, hsel]

/-! ### consequences of the invariant, in the form the property theorems use -/

/-- each read adapter has returned a prefix of the members a message transport would deliver -/
theorem demux_prefix {inp0 : List (Option Envelope)} {s : State} (hi : SInv inp0 s) :
    s.gotReq <+: reqsOf s.consumed ∧ s.gotRes <+: ressOf s.consumed ∧ s.consumed <+: inp0 :=
  ⟨⟨pendReq s.dec ++ s.lostReq, by rw [hi.reqs]; simp⟩,
   ⟨pendRes s.dec ++ s.lostRes, by rw [hi.ress]; simp⟩,
   ⟨s.inp, hi.split⟩⟩

/-- nothing is lost unless the decoder aborted, which takes a cancelled link context -/
theorem lost_only_on_ctx {inp0 : List (Option Envelope)} {s : State} (hi : SInv inp0 s)
    (hc : s.linkCtxDone = false) : s.lostReq = [] ∧ s.lostRes = [] := by
  rcases hi.lost with h | ⟨_, h⟩
  · exact h
  · rw [hc] at h; cases h

/-- what is known once `decodeDone` is closed: the decoder is done, and either `decodeErr` is
    the error of the last — and first failing — `decode` call and every member decoded before
    it has been handed over, or it is the context error and the link context is cancelled -/
theorem end_facts {inp0 : List (Option Envelope)} {s : State} (hi : SInv inp0 s)
    (hd : s.decodeDone = true) :
    s.dec = .done ∧
    ((s.decodeErr = some (.decode (s.consumed.length - 1)) ∧
      s.consumed.getLast? = some none ∧ s.consumed.dropLast.all Option.isSome = true ∧
      reqsOf s.consumed = s.gotReq ∧ ressOf s.consumed = s.gotRes) ∨
     (s.decodeErr = some .ctx ∧ s.linkCtxDone = true)) := by
  obtain ⟨hdone, hne⟩ := hi.closed_dec hd
  refine ⟨hdone, ?_⟩
  cases hE : s.decodeErr with
  | none => exact absurd hE hne
  | some e =>
    cases e with
    | ctx => exact Or.inr ⟨rfl, hi.err_ctx hE⟩
    | decode k =>
      obtain ⟨hlen, hlast, hpre, hl1, hl2⟩ := hi.err_dec k hE
      refine Or.inl ⟨?_, hlast, hpre, ?_, ?_⟩
      · rw [hlen]; rfl
      · rw [hi.reqs, hdone, hl1]; simp [pendReq]
      · rw [hi.ress, hdone, hl2]; simp [pendRes]

/-! ### the wedge (F5b): an unguarded hand-off to a reader that has left never completes -/

theorem wedge_step_req (sk : Skeleton) (hg : sk.stHandoffGuarded = false) (a : Act) {s s' : State}
    {p : Payload} {n : Option Payload}
    (h1 : s.reqRd = .exited) (h2 : s.dec = .handReq p n) (hs : step sk s a = some s') :
    s'.reqRd = .exited ∧ s'.dec = .handReq p n := by
  cases a <;> simp only [step] at hs
  all_goals (repeat' split at hs) <;> (try simp at hs) <;> (try subst hs) <;> (try simp_all)

theorem wedge_step_res (sk : Skeleton) (hg : sk.stHandoffGuarded = false) (a : Act) {s s' : State}
    {q : Payload}
    (h1 : s.resRd = .exited) (h2 : s.dec = .handRes q) (hs : step sk s a = some s') :
    s'.resRd = .exited ∧ s'.dec = .handRes q := by
  cases a <;> simp only [step] at hs
  all_goals (repeat' split at hs) <;> (try simp at hs) <;> (try subst hs) <;> (try simp_all)

theorem wedge_run_req (sk : Skeleton) (hg : sk.stHandoffGuarded = false) (acts : List Act) :
    ∀ {s s' : State} {p : Payload} {n : Option Payload},
      s.reqRd = .exited → s.dec = .handReq p n → run sk s acts = some s' →
      s'.reqRd = .exited ∧ s'.dec = .handReq p n := by
  induction acts with
  | nil => intro s s' p n h1 h2 hr; simp [run, runFrom] at hr; subst hr; exact ⟨h1, h2⟩
  | cons a as ih =>
    intro s s' p n h1 h2 hr
    simp only [run, runFrom] at hr
    cases hs : step sk s a with
    | none => simp [hs] at hr
    | some s1 =>
      simp only [hs] at hr
      obtain ⟨h1', h2'⟩ := wedge_step_req sk hg a h1 h2 hs
      exact ih h1' h2' hr

theorem wedge_run_res (sk : Skeleton) (hg : sk.stHandoffGuarded = false) (acts : List Act) :
    ∀ {s s' : State} {q : Payload},
      s.resRd = .exited → s.dec = .handRes q → run sk s acts = some s' →
      s'.resRd = .exited ∧ s'.dec = .handRes q := by
  induction acts with
  | nil => intro s s' q h1 h2 hr; simp [run, runFrom] at hr; subst hr; exact ⟨h1, h2⟩
  | cons a as ih =>
    intro s s' q h1 h2 hr
    simp only [run, runFrom] at hr
    cases hs : step sk s a with
    | none => simp [hs] at hr
    | some s1 =>
      simp only [hs] at hr
      obtain ⟨h1', h2'⟩ := wedge_step_res sk hg a h1 h2 hs
      exact ih h1' h2' hr

/-- in a wedged state no action of the decoder goroutine is enabled -/
theorem wedge_no_decoder_step (sk : Skeleton) (hg : sk.stHandoffGuarded = false) (a : Act) {s : State}
    {p : Payload} {n : Option Payload}
    (h1 : s.reqRd = .exited) (h2 : s.dec = .handReq p n) (ha : a.ofDecoder = true) :
    step sk s a = none := by
  cases a <;> simp [Act.ofDecoder] at ha <;> simp [step, h1, h2, hg]

/-! ### progress of the decoder -/

/-- some schedule leads from `s` to a state satisfying `P` -/
def Leads (sk : Skeleton) (s : State) (P : State → Prop) : Prop :=
  ∃ acts s', run sk s acts = some s' ∧ P s'

theorem leads_refl (sk : Skeleton) {s : State} {P : State → Prop} (h : P s) : Leads sk s P :=
  ⟨[], s, rfl, h⟩

theorem leads_step (sk : Skeleton) {s s1 : State} {P : State → Prop} (a : Act)
    (hs : step sk s a = some s1) (h : Leads sk s1 P) : Leads sk s P := by
  obtain ⟨acts, s', hr, hp⟩ := h
  exact ⟨a :: acts, s', by simp [run, runFrom, hs]; exact hr, hp⟩

theorem run_append (sk : Skeleton) (as bs : List Act) : ∀ {s s1 s2 : State},
    run sk s as = some s1 → run sk s1 bs = some s2 → run sk s (as ++ bs) = some s2 := by
  induction as with
  | nil => intro s s1 s2 h1 h2; simp [run, runFrom] at h1; subst h1; exact h2
  | cons a as ih =>
    intro s s1 s2 h1 h2
    simp only [run, runFrom, List.cons_append] at h1 ⊢
    cases hs : step sk s a with
    | none => simp [hs] at h1
    | some s' =>
      simp only [hs] at h1 ⊢
      exact ih h1 h2

theorem leads_trans (sk : Skeleton) {s : State} {Q P : State → Prop}
    (h1 : Leads sk s Q) (h2 : ∀ s', Q s' → Leads sk s' P) : Leads sk s P := by
  obtain ⟨as, s1, hr1, hq⟩ := h1
  obtain ⟨bs, s2, hr2, hp⟩ := h2 s1 hq
  exact ⟨as ++ bs, s2, run_append sk as bs hr1 hr2, hp⟩

theorem closeDone_dec (s : State) : (closeDone s).dec = s.dec := by
  unfold closeDone; split <;> rfl

theorem abortWith_dec (c : Bool) (s : State) : (abortWith c s).dec = s.dec := by
  unfold abortWith; split
  · exact closeDone_dec _
  · rfl

theorem leave_dec (sk : Skeleton) (s : State) : (leave sk s).dec = s.dec := by
  unfold leave; split
  · rfl
  · exact closeDone_dec _

/-- the decoder is not past the close, and either it can always leave a hand-off (guarded and
    the link context is done) or both readers are there to take what it hands over -/
def Ready (sk : Skeleton) (s : State) : Prop :=
  s.crashed = false ∧ s.decodeDone = false ∧
  ((sk.stHandoffGuarded = true ∧ s.linkCtxDone = true) ∨ (s.reqRd = .waiting ∧ s.resRd = .waiting))

/-- from a hand-off state the decoder gets done (abort, in the one form the source has:
    `decAbort sk.stAbortClosesDone`) or back to `reading` with the same input -/
theorem hand_progress (sk : Skeleton) {s : State} (hR : Ready sk s)
    (hd : (∃ p n, s.dec = .handReq p n) ∨ (∃ q, s.dec = .handRes q)) :
    Leads sk s (fun s' => s'.dec = .done ∨ (s'.dec = .reading ∧ s'.inp = s.inp ∧ Ready sk s')) := by
  obtain ⟨hc, hdd, hcase⟩ := hR
  rcases hcase with ⟨hg, hx⟩ | ⟨hw1, hw2⟩
  · rcases hd with ⟨p, n, hd⟩ | ⟨q, hd⟩
    · refine leads_step sk (.decAbort sk.stAbortClosesDone)
        (s1 := leave sk (abortWith sk.stAbortClosesDone { s with dec := .done, lostReq := [p], lostRes := n.toList }))
        (by simp [step, hc, hg, hx, hd]) (leads_refl sk (Or.inl (by rw [leave_dec, abortWith_dec])))
    · refine leads_step sk (.decAbort sk.stAbortClosesDone)
        (s1 := leave sk (abortWith sk.stAbortClosesDone { s with dec := .done, lostRes := [q] }))
        (by simp [step, hc, hg, hx, hd]) (leads_refl sk (Or.inl (by rw [leave_dec, abortWith_dec])))
  · have hres : ∀ (s1 : State) (q : Payload), s1.crashed = false → s1.decodeDone = false →
        s1.reqRd = .waiting → s1.resRd = .waiting → s1.dec = .handRes q → s1.inp = s.inp →
        Leads sk s1 (fun s' => s'.dec = .done ∨ (s'.dec = .reading ∧ s'.inp = s.inp ∧ Ready sk s')) := by
      intro s1 q a1 a2 a3 a4 a5 a6
      refine leads_step sk .handRes (s1 := { s1 with gotRes := s1.gotRes ++ [q], dec := .reading })
        (by simp [step, a1, a4, a5]) (leads_refl sk (Or.inr ⟨rfl, a6, a1, a2, Or.inr ⟨a3, a4⟩⟩))
    rcases hd with ⟨p, n, hd⟩ | ⟨q, hd⟩
    · cases n with
      | none =>
        refine leads_step sk .handReq (s1 := { s with gotReq := s.gotReq ++ [p], dec := .reading })
          (by simp [step, hc, hw1, hd]) (leads_refl sk (Or.inr ⟨rfl, rfl, hc, hdd, Or.inr ⟨hw1, hw2⟩⟩))
      | some q =>
        refine leads_step sk .handReq (s1 := { s with gotReq := s.gotReq ++ [p], dec := .handRes q })
          (by simp [step, hc, hw1, hd]) (hres _ q hc hdd hw1 hw2 rfl rfl)
    · exact hres s q hc hdd hw1 hw2 hd rfl

/-- from `reading`, with a decode error somewhere in the remaining input, the decoder gets done -/
theorem reading_leads_done (sk : Skeleton) (ok : StOk sk) :
    ∀ (l : List (Option Envelope)) (s : State), Ready sk s → s.dec = .reading → s.inp = l → none ∈ l →
      Leads sk s (fun s' => s'.dec = .done) := by
  intro l
  induction l with
  | nil => intro s _ _ _ hn; simp at hn
  | cons x rest ih =>
    intro s hR hd hinp hn
    obtain ⟨hc, hdd, hcase⟩ := hR
    cases x with
    | none =>
      refine leads_step sk .decRead
        (s1 := { s with inp := rest, consumed := s.consumed ++ [none], dec := .failing s.consumed.length,
                        decodeErr := some (.decode s.consumed.length) })
        (by simp [step, hc, hd, hinp, ok.errFirst]) ?_
      refine leads_step sk .decFinish
        (s1 := { s with inp := rest, consumed := s.consumed ++ [none], dec := .done,
                        decodeErr := some (.decode s.consumed.length), decodeDone := true })
        (by simp [step, hc, ok.errFirst, ok.exits, closeDone, hdd, leave_once ok.closedOnce]) (leads_refl sk rfl)
    | some env =>
      have hn' : none ∈ rest := by simpa using hn
      let s1 : State := { s with inp := rest, consumed := s.consumed ++ [some env], dec := afterDecode sk env }
      have hs1 : step sk s .decRead = some s1 := by
        simp [step, hc, hd, hinp, s1, decoded_fresh ok.fresh, ok.fresh]
      have hR1 : Ready sk s1 := ⟨hc, hdd, hcase⟩
      refine leads_step sk .decRead hs1 ?_
      have hcases : s1.dec = .reading ∨ (∃ p n, s1.dec = .handReq p n) ∨ (∃ q, s1.dec = .handRes q) := by
        show afterDecode sk env = .reading ∨ (∃ p n, afterDecode sk env = .handReq p n) ∨
          (∃ q, afterDecode sk env = .handRes q)
        simp only [afterDecode]
        split <;> simp
      rcases hcases with h | h | h
      · exact ih s1 hR1 h rfl hn'
      · refine leads_trans sk (hand_progress sk hR1 (Or.inl h)) ?_
        intro s2 hp
        rcases hp with hp | ⟨hp1, hp2, hp3⟩
        · exact leads_refl sk hp
        · exact ih s2 hp3 hp1 hp2 hn'
      · refine leads_trans sk (hand_progress sk hR1 (Or.inr h)) ?_
        intro s2 hp
        rcases hp with hp | ⟨hp1, hp2, hp3⟩
        · exact leads_refl sk hp
        · exact ih s2 hp3 hp1 hp2 hn'

/-- **Progress.**  In a reachable state in which the decoder can always leave a hand-off
    (guarded, link context done) or both readers are still there, and a decode error is still
    to come, some schedule takes the decoder goroutine to its end. -/
theorem decoder_can_finish_gen (sk : Skeleton) (ok : StOk sk) {inp0 : List (Option Envelope)} {s : State}
    (hr : Reach sk inp0 s) (hn : none ∈ s.inp)
    (hc : (sk.stHandoffGuarded = true ∧ s.linkCtxDone = true) ∨ (s.reqRd = .waiting ∧ s.resRd = .waiting)) :
    Leads sk s (fun s' => s'.dec = .done) := by
  have hi := reach_sinv sk ok hr
  cases hd : s.dec with
  | done => exact leads_refl sk hd
  | reading =>
    have hdd : s.decodeDone = false := by
      cases h : s.decodeDone with
      | false => rfl
      | true => have := (hi.closed_dec h).1; rw [hd] at this; cases this
    exact reading_leads_done sk ok s.inp s ⟨hi.nocrash, hdd, hc⟩ hd rfl hn
  | failing k =>
    have hdd : s.decodeDone = false := by
      cases h : s.decodeDone with
      | false => rfl
      | true => have := (hi.closed_dec h).1; rw [hd] at this; cases this
    exact leads_step sk .decFinish (s1 := { s with dec := .done, decodeDone := true })
      (by simp [step, hi.nocrash, hd, ok.errFirst, ok.exits, closeDone, hdd, leave_once ok.closedOnce])
      (leads_refl sk rfl)
  | handReq p n =>
    have hdd : s.decodeDone = false := by
      cases h : s.decodeDone with
      | false => rfl
      | true => have := (hi.closed_dec h).1; rw [hd] at this; cases this
    refine leads_trans sk (hand_progress sk ⟨hi.nocrash, hdd, hc⟩ (Or.inl ⟨p, n, hd⟩)) ?_
    intro s2 hp
    rcases hp with hp | ⟨hp1, hp2, hp3⟩
    · exact leads_refl sk hp
    · exact reading_leads_done sk ok s2.inp s2 hp3 hp1 rfl (by rw [hp2]; exact hn)
  | handRes q =>
    have hdd : s.decodeDone = false := by
      cases h : s.decodeDone with
      | false => rfl
      | true => have := (hi.closed_dec h).1; rw [hd] at this; cases this
    refine leads_trans sk (hand_progress sk ⟨hi.nocrash, hdd, hc⟩ (Or.inr ⟨q, hd⟩)) ?_
    intro s2 hp
    rcases hp with hp | ⟨hp1, hp2, hp3⟩
    · exact leads_refl sk hp
    · exact reading_leads_done sk ok s2.inp s2 hp3 hp1 rfl (by rw [hp2]; exact hn)

end Panrpc.St
