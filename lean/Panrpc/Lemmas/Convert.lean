/-
  Lemmas/Convert.lean — general lemmas about P4 (`convertValue`, the `createClosure` wrapper,
  the proxy's result half), for every skeleton that meets the stated hypotheses.
-/
import Panrpc.Model.Convert

namespace Panrpc.Cv
open Panrpc

/-- Source facts: `convertValue` has its three working statements
    (interface unwrap loop, `ConvertibleTo`/`Convert`, element-wise slice branch). -/
structure CvShape (sk : Skeleton) : Prop where
  unwraps  : sk.cvUnwrapsInterfaces = true
  conv     : sk.cvUsesConvertibleTo = true
  elemwise : sk.cvSliceElementwise = true

/-! ### where a panic can come from -/

theorem fallback_ne_panic (sk : Skeleton) : fallback sk ≠ .panic := by
  unfold fallback; split <;> simp

/-- With the invalid-source guard, statements 2–3 never panic. -/
theorem front_ne_panic_of_handles (sk : Skeleton) (h : sk.cvHandlesInvalid = true) (v : GVal) (τ : Ty) :
    front sk v τ ≠ some .panic := by
  unfold front
  cases hv : v.isInvalid <;> simp [h]
  repeat' split
  all_goals simp

/-- On a valid source, statements 2–3 never panic (whatever the skeleton). -/
theorem front_ne_panic_of_valid (sk : Skeleton) (v : GVal) (hv : v.isInvalid = false) (τ : Ty) :
    front sk v τ ≠ some .panic := by
  unfold front
  simp [hv]
  repeat' split
  all_goals simp

theorem getD_ne_panic (sk : Skeleton) (o : Option Outcome) (h : o ≠ some .panic) :
    o.getD (fallback sk) ≠ .panic := by
  cases o with
  | none => exact fallback_ne_panic sk
  | some x => simpa using h

mutual
/-- General form of `C11_convert_total`: with the invalid-source guard, `convertValue` has no
    panic outcome, for every source value and destination type. -/
theorem convertValue_ne_panic_of_handles (sk : Skeleton) (h : sk.cvHandlesInvalid = true) :
    ∀ (g : GVal) (τ : Ty), convertValue sk g τ ≠ .panic
  | .iface inner, τ => by
    rw [convertValue]
    split
    · exact convertValue_ne_panic_of_handles sk h inner τ
    · exact getD_ne_panic sk _ (front_ne_panic_of_handles sk h _ τ)
  | .slice f xs, τ => by
    rw [convertValue]
    split
    · next o ho => intro e; subst e; exact front_ne_panic_of_handles sk h _ τ ho
    · split
      · split
        · next e _ =>
          have ih := convertElems_ne_panic_of_handles sk h xs e
          split <;> simp_all
        · exact fallback_ne_panic sk
      · exact fallback_ne_panic sk
  | .invalid, τ => by rw [convertValue]; exact getD_ne_panic sk _ (front_ne_panic_of_handles sk h _ τ)
  | .bool _, τ => by rw [convertValue]; exact getD_ne_panic sk _ (front_ne_panic_of_handles sk h _ τ)
  | .int _, τ => by rw [convertValue]; exact getD_ne_panic sk _ (front_ne_panic_of_handles sk h _ τ)
  | .uint _, τ => by rw [convertValue]; exact getD_ne_panic sk _ (front_ne_panic_of_handles sk h _ τ)
  | .float _, τ => by rw [convertValue]; exact getD_ne_panic sk _ (front_ne_panic_of_handles sk h _ τ)
  | .string _, τ => by rw [convertValue]; exact getD_ne_panic sk _ (front_ne_panic_of_handles sk h _ τ)
  | .other, τ => by rw [convertValue]; exact getD_ne_panic sk _ (front_ne_panic_of_handles sk h _ τ)
theorem convertElems_ne_panic_of_handles (sk : Skeleton) (h : sk.cvHandlesInvalid = true) :
    ∀ (xs : List GVal) (e : Ty), convertElems sk xs e ≠ .panic
  | [], e => by simp [convertElems]
  | x :: xs, e => by
    have h1 := convertValue_ne_panic_of_handles sk h x e
    have h2 := convertElems_ne_panic_of_handles sk h xs e
    rw [convertElems]
    split
    · split <;> simp_all
    · simp
    · simp_all
end

theorem isInvalid_false_of_noInvalid (g : GVal) (h : g.noInvalid = true) : g.isInvalid = false := by
  cases g <;> simp_all [GVal.noInvalid, GVal.isInvalid]

mutual
/-- Whatever the skeleton: a source without a nil anywhere inside never makes `convertValue` panic. -/
theorem convertValue_ne_panic_of_noInvalid (sk : Skeleton) :
    ∀ (g : GVal) (τ : Ty), g.noInvalid = true → convertValue sk g τ ≠ .panic
  | .iface inner, τ, hg => by
    rw [convertValue]
    split
    · exact convertValue_ne_panic_of_noInvalid sk inner τ (by simpa [GVal.noInvalid] using hg)
    · exact getD_ne_panic sk _ (front_ne_panic_of_valid sk _ rfl τ)
  | .slice f xs, τ, hg => by
    rw [convertValue]
    split
    · next o ho => intro e; subst e; exact front_ne_panic_of_valid sk _ rfl τ ho
    · split
      · split
        · next e _ =>
          have ih := convertElems_ne_panic_of_noInvalid sk xs e (by simpa [GVal.noInvalid] using hg)
          split <;> simp_all
        · exact fallback_ne_panic sk
      · exact fallback_ne_panic sk
  | .invalid, τ, hg => by simp [GVal.noInvalid] at hg
  | .bool _, τ, _ => by rw [convertValue]; exact getD_ne_panic sk _ (front_ne_panic_of_valid sk _ rfl τ)
  | .int _, τ, _ => by rw [convertValue]; exact getD_ne_panic sk _ (front_ne_panic_of_valid sk _ rfl τ)
  | .uint _, τ, _ => by rw [convertValue]; exact getD_ne_panic sk _ (front_ne_panic_of_valid sk _ rfl τ)
  | .float _, τ, _ => by rw [convertValue]; exact getD_ne_panic sk _ (front_ne_panic_of_valid sk _ rfl τ)
  | .string _, τ, _ => by rw [convertValue]; exact getD_ne_panic sk _ (front_ne_panic_of_valid sk _ rfl τ)
  | .other, τ, _ => by rw [convertValue]; exact getD_ne_panic sk _ (front_ne_panic_of_valid sk _ rfl τ)
theorem convertElems_ne_panic_of_noInvalid (sk : Skeleton) :
    ∀ (xs : List GVal) (e : Ty), GVal.noInvalidAll xs = true → convertElems sk xs e ≠ .panic
  | [], e, _ => by simp [convertElems]
  | x :: xs, e, hx => by
    simp only [GVal.noInvalidAll, Bool.and_eq_true] at hx
    have h1 := convertValue_ne_panic_of_noInvalid sk x e hx.1
    have h2 := convertElems_ne_panic_of_noInvalid sk xs e hx.2
    rw [convertElems]
    split
    · split <;> simp_all
    · simp
    · simp_all
end

/-! ### the generic image of a supported value converts back to that value -/

theorem supported_not_anyIface (e : Ty) (h : e.supported = true) : e.isAnyIface = false := by
  cases e <;> simp_all [Ty.supported, Ty.isAnyIface]

theorem wt_ty_supported : ∀ (v : TVal), v.wt = true → v.ty.supported = true
  | .bool _, _ | .int _, _ | .uint _, _ | .float _, _ | .string _, _ => by simp [TVal.ty, Ty.supported]
  | .slice e n xs, h => by
    simp only [TVal.wt, Bool.and_eq_true] at h
    simpa [TVal.ty, Ty.supported] using h.1.1

mutual
theorem convert_generic (sk : Skeleton) (hs : CvShape sk) (c : Codec) :
    ∀ (v : TVal), v.wt = true → (sk.cvHandlesInvalid || v.nilFree) = true →
      convertValue sk (genericOf c v) v.ty = .ok v.embed
  | .bool b, _, _ => by
    simp [genericOf, convertValue, front, hs.conv, GVal.isInvalid, GVal.kind, convertible, convertDirect, TVal.ty, TVal.embed]
  | .string s, _, _ => by
    simp [genericOf, convertValue, front, hs.conv, GVal.isInvalid, GVal.kind, convertible, convertDirect, TVal.ty, TVal.embed]
  | .int i, _, _ => by
    cases c
    · simp [genericOf, genericInt, convertValue, front, hs.conv, GVal.isInvalid, GVal.kind, convertible, convertDirect, TVal.ty, TVal.embed]
    · simp only [genericOf, genericInt]
      split
      · simp [convertValue, front, hs.conv, GVal.isInvalid, GVal.kind, convertible, convertDirect, TVal.ty, TVal.embed]
      · simp [convertValue, front, hs.conv, GVal.isInvalid, GVal.kind, convertible, convertDirect, TVal.ty, TVal.embed]
        omega
  | .uint n, _, _ => by
    cases c <;>
    simp [genericOf, genericUint, convertValue, front, hs.conv, GVal.isInvalid, GVal.kind, convertible, convertDirect, TVal.ty, TVal.embed]
  | .float x, _, _ => by
    cases c <;>
    simp [genericOf, genericFloat, convertValue, front, hs.conv, GVal.isInvalid, GVal.kind, convertible, convertDirect, TVal.ty, TVal.embed]
  | .slice e true xs, hw, hn => by
    simp only [TVal.wt, Bool.and_eq_true] at hw
    have hx : xs = [] := by simpa using hw.1.2
    subst hx
    have he := supported_not_anyIface e hw.1.1
    simp [TVal.nilFree] at hn
    simp [genericOf, convertValue, front, hn, GVal.isInvalid, zeroOf, he, TVal.ty, TVal.embed, TVal.embedAll]
  | .slice e false xs, hw, hn => by
    simp only [TVal.wt, Bool.and_eq_true] at hw
    have he := supported_not_anyIface e hw.1.1
    have ih := convertElems_generic sk hs c xs e hw.1.1 hw.2 (by simpa [TVal.nilFree] using hn)
    have hc : convertible .sliceIface (.slice e) = false := by
      cases e <;> simp_all [convertible, Ty.isAnyIface]
    simp [genericOf, convertValue, front, hs.conv, hs.elemwise, GVal.isInvalid, GVal.kind, hc, Ty.elem?, ih, he, TVal.ty, TVal.embed]
theorem convertElems_generic (sk : Skeleton) (hs : CvShape sk) (c : Codec) :
    ∀ (xs : List TVal) (e : Ty), e.supported = true → TVal.wtAll e xs = true →
      (sk.cvHandlesInvalid || TVal.nilFreeAll xs) = true →
      convertElems sk (genericOfAll c xs) e = .ok (TVal.embedAll xs)
  | [], e, _, _, _ => by simp [genericOfAll, convertElems, TVal.embedAll]
  | x :: xs, e, he, hw, hn => by
    simp only [TVal.wtAll, Bool.and_eq_true, decide_eq_true_eq] at hw
    have hn1 : (sk.cvHandlesInvalid || x.nilFree) = true := by
      cases h : sk.cvHandlesInvalid <;> simp_all [TVal.nilFreeAll]
    have hn2 : (sk.cvHandlesInvalid || TVal.nilFreeAll xs) = true := by
      cases h : sk.cvHandlesInvalid <;> simp_all [TVal.nilFreeAll]
    have h1 := convert_generic sk hs c x hw.1.1 hn1
    have h2 := convertElems_generic sk hs c xs e he hw.2 hn2
    rw [hw.1.2] at h1
    simp [genericOfAll, convertElems, convertValue, hs.unwraps, h1, h2, TVal.embedAll]
end

/-! ### the wrapper -/

theorem convertArgs_generic (sk : Skeleton) (hs : CvShape sk) (c : Codec) :
    ∀ (vals : List TVal),
      (∀ v, v ∈ vals → v.wt = true ∧ (sk.cvHandlesInvalid || v.nilFree) = true) →
      convertArgs sk (vals.map TVal.ty) (vals.map (genericOf c)) = .ok (vals.map TVal.embed)
  | [], _ => by simp [convertArgs]
  | v :: vs, h => by
    have hv := h v (by simp)
    have ih := convertArgs_generic sk hs c vs (fun w hw => h w (by simp [hw]))
    simp [convertArgs, convert_generic sk hs c v hv.1 hv.2, ih]

/-- General form of `C11_args_converted`. -/
theorem wrapper_generic (sk : Skeleton) (hs : CvShape sk) (c : Codec) (vals : List TVal)
    (h : ∀ v, v ∈ vals → v.wt = true ∧ (sk.cvHandlesInvalid || v.nilFree) = true) :
    wrapper sk (vals.map TVal.ty) (vals.map (genericOf c)) = .ran (vals.map TVal.embed) := by
  simp [wrapper, convertArgs_generic sk hs c vals h]

/-- General form of `C11_arg_count_mismatch_is_error_not_panic`. -/
theorem wrapper_count_mismatch (sk : Skeleton) (hc : sk.clArgCountChecked = true)
    (tys : List Ty) (args : List GVal) (h : args.length ≠ tys.length) :
    wrapper sk tys args = .errResult .argsCount := by
  simp [wrapper, hc, h]

theorem convertArgs_ok_length (sk : Skeleton) :
    ∀ (tys : List Ty) (args vs : List GVal), convertArgs sk tys args = .ok vs → vs.length = args.length
  | _, [], vs, h => by simp [convertArgs] at h; simp [← h]
  | [], _ :: _, vs, h => by simp [convertArgs] at h
  | τ :: ts, a :: as, vs, h => by
    simp only [convertArgs] at h
    split at h
    · split at h
      · next ws hw =>
        have := convertArgs_ok_length sk ts as ws hw
        simp at h; simp [← h, this]
      · next o hne => 
        cases ho : convertArgs sk ts as with
        | ok ws => exact absurd ho (by intro e; exact hne ws e)
        | err => rw [ho] at h; simp at h
        | panic => rw [ho] at h; simp at h
    · simp at h
    · simp at h

theorem convertArgs_ne_panic (sk : Skeleton) :
    ∀ (tys : List Ty) (args : List GVal), args.length ≤ tys.length →
      (∀ a, a ∈ args → ∀ τ, convertValue sk a τ ≠ .panic) → convertArgs sk tys args ≠ .panic
  | _, [], _, _ => by simp [convertArgs]
  | [], _ :: _, hl, _ => by simp at hl
  | τ :: ts, a :: as, hl, h => by
    have h1 := h a (by simp) τ
    have h2 := convertArgs_ne_panic sk ts as (by simpa using hl) (fun b hb => h b (by simp [hb]))
    rw [convertArgs]
    split
    · split <;> simp_all
    · simp
    · simp_all

/-- With the count check in place the wrapper lets a panic out only if some `convertValue` call panics. -/
theorem wrapper_ne_panicOut (sk : Skeleton) (hc : sk.clArgCountChecked = true)
    (tys : List Ty) (args : List GVal)
    (h : ∀ a, a ∈ args → ∀ τ, convertValue sk a τ ≠ .panic) : wrapper sk tys args ≠ .panicOut := by
  unfold wrapper
  by_cases hl : args.length = tys.length
  · have hp := convertArgs_ne_panic sk tys args (by omega) h
    simp only [hc, hl, bne_self_eq_false, Bool.and_false]
    cases ho : convertArgs sk tys args with
    | panic => exact absurd ho hp
    | err => simp
    | ok vs => simp [convertArgs_ok_length sk tys args vs ho, hl]
  · simp [hc, hl]

theorem wrapper_ne_panicOut_of_handles (sk : Skeleton) (hc : sk.clArgCountChecked = true)
    (hi : sk.cvHandlesInvalid = true) (tys : List Ty) (args : List GVal) :
    wrapper sk tys args ≠ .panicOut :=
  wrapper_ne_panicOut sk hc tys args (fun a _ τ => convertValue_ne_panic_of_handles sk hi a τ)

theorem wrapper_ne_panicOut_of_noInvalid (sk : Skeleton) (hc : sk.clArgCountChecked = true)
    (tys : List Ty) (args : List GVal) (h : ∀ a, a ∈ args → a.noInvalid = true) :
    wrapper sk tys args ≠ .panicOut :=
  wrapper_ne_panicOut sk hc tys args (fun a ha τ => convertValue_ne_panic_of_noInvalid sk a τ (h a ha))

/-- A valid source that is neither interface-kinded nor a slice headed for a slice type, and whose
    type is not convertible to the destination, yields the ordinary error. -/
theorem convertValue_err_of_inconvertible (sk : Skeleton) (hf : sk.cvFallbackError = true)
    (g : GVal) (τ : Ty) (hv : g.isInvalid = false) (hi : g.kind ≠ .iface)
    (hsl : τ.elem? = none ∨ (g.kind ≠ .sliceIface ∧ g.kind ≠ .sliceTyped))
    (hc : convertible g.kind τ = false) : convertValue sk g τ = .err := by
  have hfr : front sk g τ = none := by
    unfold front; simp [hv, hc]
  cases g with
  | iface _ => simp [GVal.kind] at hi
  | invalid => simp [GVal.isInvalid] at hv
  | slice f xs =>
    rw [convertValue, hfr]
    rcases hsl with h | h
    · simp [h, fallback, hf]
    · cases f <;> simp [GVal.kind] at h
  | _ => rw [convertValue, hfr]; simp [fallback, hf]

/-- The first argument whose conversion fails decides: `ErrInvalidArg`. -/
theorem convertArgs_err_at (sk : Skeleton) :
    ∀ (tpre : List Ty) (pre : List GVal) (τ : Ty) (a : GVal) (tpost : List Ty) (post : List GVal),
      pre.length = tpre.length →
      (∀ p, p ∈ pre → ∀ σ, ∃ v, convertValue sk p σ = .ok v) →
      convertValue sk a τ = .err →
      convertArgs sk (tpre ++ τ :: tpost) (pre ++ a :: post) = .err
  | [], [], τ, a, _, _, _, _, he => by simp [convertArgs, he]
  | [], _ :: _, _, _, _, _, hl, _, _ => by simp at hl
  | _ :: _, [], _, _, _, _, hl, _, _ => by simp at hl
  | σ :: tpre, p :: pre, τ, a, tpost, post, hl, hp, he => by
    obtain ⟨v, hv⟩ := hp p (by simp) σ
    have ih := convertArgs_err_at sk tpre pre τ a tpost post (by simpa using hl)
      (fun q hq => hp q (by simp [hq])) he
    simp [convertArgs, hv, ih]

theorem wrapper_err_at (sk : Skeleton)
    (tpre : List Ty) (pre : List GVal) (τ : Ty) (a : GVal) (tpost : List Ty) (post : List GVal)
    (hl : pre.length = tpre.length) (hl' : post.length = tpost.length)
    (hp : ∀ p, p ∈ pre → ∀ σ, ∃ v, convertValue sk p σ = .ok v)
    (he : convertValue sk a τ = .err) :
    wrapper sk (tpre ++ τ :: tpost) (pre ++ a :: post) = .errResult .arg := by
  simp [wrapper, convertArgs_err_at sk tpre pre τ a tpost post hl hp he, hl, hl']

/-! ### the proxy's result half -/

theorem genericOf_isInvalid (c : Codec) : ∀ (v : TVal), (genericOf c v).isInvalid = true →
    ∃ e xs, v = .slice e true xs
  | .bool _, h => by simp [genericOf, GVal.isInvalid] at h
  | .string _, h => by simp [genericOf, GVal.isInvalid] at h
  | .float _, h => by cases c <;> simp [genericOf, genericFloat, GVal.isInvalid] at h
  | .uint _, h => by cases c <;> simp [genericOf, genericUint, GVal.isInvalid] at h
  | .int i, h => by
    cases c
    · simp [genericOf, genericInt, GVal.isInvalid] at h
    · simp only [genericOf, genericInt] at h; split at h <;> simp [GVal.isInvalid] at h
  | .slice e true xs, _ => ⟨e, xs, rfl⟩
  | .slice e false xs, h => by simp [genericOf, GVal.isInvalid] at h

/-- General form of `C11_result_back` (value part). The guard makes a nil result the zero value
    without `convertValue`; everything else is converted as in the argument direction. -/
theorem proxyResult_generic (sk : Skeleton) (hs : CvShape sk) (c : Codec) (v : TVal)
    (hw : v.wt = true) (hn : (sk.cvHandlesInvalid || v.innerNilFree) = true) :
    proxyResult sk true v.ty (genericOf c v) = .ok v.embed := by
  unfold proxyResult
  cases hinv : (genericOf c v).isInvalid
  · simp only [Bool.and_false, Bool.false_eq_true, if_false]
    apply convert_generic sk hs c v hw
    cases v with
    | slice e n xs =>
      cases n
      · simpa [TVal.nilFree, TVal.innerNilFree] using hn
      · simp [genericOf, GVal.isInvalid] at hinv
    | _ => simp [TVal.nilFree]
  · obtain ⟨e, xs, rfl⟩ := genericOf_isInvalid c v hinv
    simp only [TVal.wt, Bool.and_eq_true] at hw
    have hx : xs = [] := by simpa using hw.1.2
    subst hx
    simp [zeroOf, supported_not_anyIface e hw.1.1, TVal.ty, TVal.embed, TVal.embedAll]

theorem proxyResult_nil (sk : Skeleton) (ρ : Ty) : proxyResult sk true ρ .invalid = .ok (zeroOf ρ) := by
  simp [proxyResult, GVal.isInvalid]

/-- With the guard, only a nil *inside* the decoded result can make this direction panic. -/
theorem proxyResult_ne_panic (sk : Skeleton) (ρ : Ty) (el : GVal)
    (h : el = .invalid ∨ el.noInvalid = true) : proxyResult sk true ρ el ≠ .panic := by
  rcases h with h | h
  · subst h; simp [proxyResult, GVal.isInvalid]
  · unfold proxyResult
    simp only [isInvalid_false_of_noInvalid el h, Bool.and_false, Bool.false_eq_true, if_false]
    exact convertValue_ne_panic_of_noInvalid sk el ρ h

end Panrpc.Cv
