/-
  Lemmas/StreamParam.lean — C08: the stream model (M4, Model/Stream.lean) is blind to payload
  content.

  Payloads are `Nat`s there; the decoder goroutine, the two hand-off channels and the read adapters
  move them around and never look at them.  As a theorem: for every relabelling `g : Nat → Nat` of
  the payloads, `step` commutes with the map `mapState g` that applies `g` to every payload a state
  holds (`inp`, `consumed`, the member(s) the decoder is handing over, the envelope variable `carry`,
  and the ghost logs `gotReq`, `gotRes`, `lostReq`, `lostRes`).  No action of the model carries a payload, so actions are not
  mapped.  Consequences: a schedule is enabled for `inp` iff it is enabled for the relabelled `inp`,
  the states reached are `mapState g`-related, everything a reader observes that is not a payload
  (errors, order, counts, control state) is equal, and the payloads observed are the `g`-images.
  With `g := fun _ => 0`: what happens depends only on the *shape* of the decoded stream (which
  envelopes have which members, where the decode error is), not on what the members contain.

  No hypothesis on the skeleton anywhere in this file.
-/
import Panrpc.Model.Stream

namespace Panrpc.St
open Panrpc

/-! ### relabelling the payloads of a state -/

def Envelope.map (g : Payload → Payload) (e : Envelope) : Envelope :=
  { req := e.req.map g, res := e.res.map g }

def Dec.map (g : Payload → Payload) : Dec → Dec
  | .reading => .reading
  | .handReq p next => .handReq (g p) (next.map g)
  | .handRes p => .handRes (g p)
  | .failing k => .failing k
  | .done => .done

/-- the results `decode` is going to produce / has produced, relabelled (errors stay errors) -/
def mapInp (g : Payload → Payload) (l : List (Option Envelope)) : List (Option Envelope) :=
  l.map (Option.map (Envelope.map g))

def mapState (g : Payload → Payload) (s : State) : State :=
  { s with inp := mapInp g s.inp, consumed := mapInp g s.consumed, dec := s.dec.map g,
           gotReq := s.gotReq.map g, gotRes := s.gotRes.map g,
           lostReq := s.lostReq.map g, lostRes := s.lostRes.map g, carry := s.carry.map g }

/-- everything in a state that is not a payload: control state of the three goroutines, the
    error variable, the channel, the errors the readers got, and *how many* values they got -/
structure Ctrl where
  decShape    : Dec
  nInp        : Nat
  nConsumed   : Nat
  decodeErr   : Option StErr
  decodeDone  : Bool
  reqRd       : Rd
  resRd       : Rd
  linkCtxDone : Bool
  crashed     : Bool
  nGotReq     : Nat
  nGotRes     : Nat
  reqEnd      : Option (Option StErr)
  resEnd      : Option (Option StErr)
  nLostReq    : Nat
  nLostRes    : Nat
  deriving DecidableEq, Repr

def ctrl (s : State) : Ctrl :=
  { decShape := s.dec.map (fun _ => 0), nInp := s.inp.length, nConsumed := s.consumed.length,
    decodeErr := s.decodeErr, decodeDone := s.decodeDone,
    reqRd := s.reqRd, resRd := s.resRd, linkCtxDone := s.linkCtxDone, crashed := s.crashed,
    nGotReq := s.gotReq.length, nGotRes := s.gotRes.length, reqEnd := s.reqEnd, resEnd := s.resEnd,
    nLostReq := s.lostReq.length, nLostRes := s.lostRes.length }

section Map
variable (g : Payload → Payload)

theorem Dec.map_map (d : Dec) (g' : Payload → Payload) : (d.map g).map g' = d.map (fun p => g' (g p)) := by
  cases d with
  | handReq p next => cases next <;> rfl
  | _ => rfl

theorem Dec.map_eq_reading (d : Dec) : d.map g = .reading ↔ d = .reading := by
  cases d <;> simp [Dec.map]

theorem afterDecode_map (sk : Skeleton) (env : Envelope) :
    afterDecode sk (env.map g) = (afterDecode sk env).map g := by
  obtain ⟨rq, rs⟩ := env
  simp only [afterDecode, Envelope.map]
  cases sk.stDecoderHandsRequests <;> cases sk.stDecoderHandsResponses <;>
    cases rq <;> cases rs <;> rfl

theorem over_map (env old : Envelope) : (env.map g).over (old.map g) = (env.over old).map g := by
  obtain ⟨rq, rs⟩ := env
  obtain ⟨oq, os⟩ := old
  cases rq <;> cases rs <;> cases oq <;> cases os <;> rfl

theorem decoded_map (sk : Skeleton) (carry env : Envelope) :
    decoded sk (carry.map g) (env.map g) = (decoded sk carry env).map g := by
  simp only [decoded]
  cases sk.stMsgFreshPerIteration with
  | true => rfl
  | false => exact over_map g env carry

theorem closeDone_map (s : State) : closeDone (mapState g s) = mapState g (closeDone s) := by
  have e : (mapState g s).decodeDone = s.decodeDone := rfl
  unfold closeDone
  rw [e]
  by_cases h : s.decodeDone = true
  · rw [if_pos h, if_pos h]; rfl
  · rw [if_neg h, if_neg h]; rfl

theorem leave_map (sk : Skeleton) (s : State) : leave sk (mapState g s) = mapState g (leave sk s) := by
  simp only [leave]
  cases sk.stDoneClosedOncePerExit with
  | true => rfl
  | false => exact closeDone_map g s

theorem abortWith_map (signal : Bool) (s : State) :
    abortWith signal (mapState g s) = mapState g (abortWith signal s) := by
  cases signal with
  | false => rfl
  | true =>
    simp only [abortWith, if_true]
    exact closeDone_map g { s with decodeErr := some .ctx }

theorem mapInp_length (l : List (Option Envelope)) : (mapInp g l).length = l.length := by
  simp [mapInp]

theorem mapInp_append (l l' : List (Option Envelope)) : mapInp g (l ++ l') = mapInp g l ++ mapInp g l' := by
  simp [mapInp]

/-- **`step` commutes with relabelling the payloads**, for every skeleton, state and action. -/
theorem step_map (sk : Skeleton) (s : State) (a : Act) :
    (step sk s a).map (mapState g) = step sk (mapState g s) a := by
  cases a with
  | decRead =>
    simp only [step]
    have e1 : (mapState g s).crashed = s.crashed := rfl
    have e2 : ((mapState g s).dec = .reading) ↔ (s.dec = .reading) := Dec.map_eq_reading g s.dec
    rw [e1]
    by_cases hc : s.crashed = false ∧ s.dec = .reading
    · have hc' : s.crashed = false ∧ (mapState g s).dec = .reading := ⟨hc.1, e2.mpr hc.2⟩
      rw [if_pos hc, if_pos hc']
      cases hi : s.inp with
      | nil =>
        have : (mapState g s).inp = [] := by simp [mapState, mapInp, hi]
        simp only [this]; rfl
      | cons o rest =>
        cases o with
        | some env =>
          have : (mapState g s).inp = some (env.map g) :: mapInp g rest := by simp [mapState, mapInp, hi]
          have hcarry : (mapState g s).carry = s.carry.map g := rfl
          simp only [this, Option.map_some, hcarry, decoded_map, afterDecode_map]
          congr 1
          simp only [mapState, mapInp_append]
          cases sk.stMsgFreshPerIteration <;> rfl
        | none =>
          have : (mapState g s).inp = none :: mapInp g rest := by simp [mapState, mapInp, hi]
          simp only [this]
          have hl : (mapState g s).consumed.length = s.consumed.length := mapInp_length g _
          rw [hl]
          cases sk.stDecodeErrBeforeClose with
          | true =>
            simp only [if_true, Option.map_some]
            congr 1
            simp only [mapState, mapInp_append]
            rfl
          | false =>
            simp only [Bool.false_eq_true, if_false, Option.map_some]
            congr 1
            rw [← closeDone_map]
            congr 1
            simp only [mapState, mapInp_append]
            rfl
    · have hc' : ¬ (s.crashed = false ∧ (mapState g s).dec = .reading) := fun h => hc ⟨h.1, e2.mp h.2⟩
      rw [if_neg hc, if_neg hc']; rfl
  | decFinish =>
    simp only [step]
    have e1 : (mapState g s).crashed = s.crashed := rfl
    rw [e1]
    by_cases hc : s.crashed = false
    · rw [if_pos hc, if_pos hc]
      have e2 : (mapState g s).dec = s.dec.map g := rfl
      rw [e2]
      cases hd : s.dec with
      | failing k =>
        simp only [Dec.map]
        cases sk.stDecodeErrBeforeClose with
        | true =>
          simp only [if_true, Option.map_some]
          congr 1
          have e5 : ∀ d : Dec, mapState g (closeDone { s with dec := d }) =
              closeDone { mapState g s with dec := d.map g } := by
            intro d; rw [← closeDone_map]; rfl
          cases sk.stDecoderExitsOnErr with
          | true => simp only [if_true]; rw [← leave_map]; exact congrArg _ (e5 .done)
          | false => simp only [Bool.false_eq_true, if_false]; exact e5 .reading
        | false =>
          simp only [Bool.false_eq_true, if_false, Option.map_some]
          congr 1
          have e5 : ∀ d : Dec, mapState g { s with dec := d, decodeErr := some (.decode k) } =
              ({ mapState g s with dec := d.map g, decodeErr := some (.decode k) } : State) := by
            intro d; rfl
          cases sk.stDecoderExitsOnErr with
          | true => simp only [if_true]; rw [← leave_map]; exact congrArg _ (e5 .done)
          | false => simp only [Bool.false_eq_true, if_false]; exact e5 .reading
      | _ => rfl
    · rw [if_neg hc, if_neg hc]; rfl
  | handReq =>
    simp only [step]
    have e1 : (mapState g s).crashed = s.crashed := rfl
    have e3 : (mapState g s).reqRd = s.reqRd := rfl
    rw [e1, e3]
    by_cases hc : s.crashed = false ∧ s.reqRd = .waiting
    · rw [if_pos hc, if_pos hc]
      have e2 : (mapState g s).dec = s.dec.map g := rfl
      rw [e2]
      cases hd : s.dec with
      | handReq p next =>
        simp only [Dec.map, Option.map_some]
        congr 1
        simp only [mapState, List.map_append, List.map_cons, List.map_nil]
        cases next <;> rfl
      | _ => rfl
    · rw [if_neg hc, if_neg hc]; rfl
  | handRes =>
    simp only [step]
    have e1 : (mapState g s).crashed = s.crashed := rfl
    have e3 : (mapState g s).resRd = s.resRd := rfl
    rw [e1, e3]
    by_cases hc : s.crashed = false ∧ s.resRd = .waiting
    · rw [if_pos hc, if_pos hc]
      have e2 : (mapState g s).dec = s.dec.map g := rfl
      rw [e2]
      cases hd : s.dec with
      | handRes q =>
        simp only [Dec.map, Option.map_some]
        congr 1
        simp only [mapState, List.map_append, List.map_cons, List.map_nil]
        rfl
      | _ => rfl
    · rw [if_neg hc, if_neg hc]; rfl
  | decAbort signal =>
    simp only [step]
    have e1 : (mapState g s).crashed = s.crashed := rfl
    have e3 : (mapState g s).linkCtxDone = s.linkCtxDone := rfl
    rw [e1, e3]
    by_cases hc : s.crashed = false ∧ sk.stHandoffGuarded = true ∧ s.linkCtxDone = true ∧
        signal = sk.stAbortClosesDone
    · rw [if_pos hc, if_pos hc]
      have e2 : (mapState g s).dec = s.dec.map g := rfl
      rw [e2]
      cases hd : s.dec with
      | handReq p next =>
        simp only [Dec.map, Option.map_some]
        congr 1
        rw [← leave_map, ← abortWith_map]
        congr 2
        simp only [mapState, List.map_cons, List.map_nil]
        cases next <;> rfl
      | handRes q =>
        simp only [Dec.map, Option.map_some]
        congr 1
        rw [← leave_map, ← abortWith_map]
        congr 2
      | _ => rfl
    · rw [if_neg hc, if_neg hc]; rfl
  | readDoneReq =>
    simp only [step]
    have e1 : (mapState g s).crashed = s.crashed := rfl
    have e3 : (mapState g s).reqRd = s.reqRd := rfl
    have e4 : (mapState g s).decodeDone = s.decodeDone := rfl
    rw [e1, e3, e4]
    by_cases hc : s.crashed = false ∧ s.reqRd = .waiting ∧ s.decodeDone = true ∧ sk.stReadersSelectDone = true
    · rw [if_pos hc, if_pos hc]; rfl
    · rw [if_neg hc, if_neg hc]; rfl
  | readDoneRes =>
    simp only [step]
    have e1 : (mapState g s).crashed = s.crashed := rfl
    have e3 : (mapState g s).resRd = s.resRd := rfl
    have e4 : (mapState g s).decodeDone = s.decodeDone := rfl
    rw [e1, e3, e4]
    by_cases hc : s.crashed = false ∧ s.resRd = .waiting ∧ s.decodeDone = true ∧ sk.stReadersSelectDone = true
    · rw [if_pos hc, if_pos hc]; rfl
    · rw [if_neg hc, if_neg hc]; rfl
  | exitReq =>
    simp only [step]
    have e1 : (mapState g s).crashed = s.crashed := rfl
    have e3 : (mapState g s).reqRd = s.reqRd := rfl
    rw [e1, e3]
    by_cases hc : s.crashed = false ∧ s.reqRd = .waiting
    · rw [if_pos hc, if_pos hc]; rfl
    · rw [if_neg hc, if_neg hc]; rfl
  | exitRes =>
    simp only [step]
    have e1 : (mapState g s).crashed = s.crashed := rfl
    have e3 : (mapState g s).resRd = s.resRd := rfl
    rw [e1, e3]
    by_cases hc : s.crashed = false ∧ s.resRd = .waiting
    · rw [if_pos hc, if_pos hc]; rfl
    · rw [if_neg hc, if_neg hc]; rfl
  | ctxCancel =>
    simp only [step]
    have e1 : (mapState g s).crashed = s.crashed := rfl
    rw [e1]
    by_cases hc : s.crashed = false
    · rw [if_pos hc, if_pos hc]; rfl
    · rw [if_neg hc, if_neg hc]; rfl

theorem init_map (inp : List (Option Envelope)) : mapState g (init inp) = init (mapInp g inp) := rfl

/-- whole schedules commute with the relabelling -/
theorem run_map (sk : Skeleton) (s : State) (acts : List Act) :
    (run sk s acts).map (mapState g) = run sk (mapState g s) acts := by
  induction acts generalizing s with
  | nil => rfl
  | cons a as ih =>
    simp only [run, runFrom]
    rw [← step_map]
    cases step sk s a with
    | none => rfl
    | some s1 => exact ih s1

/-- the relabelled image of a reachable state is reachable from the relabelled input -/
theorem reach_map (sk : Skeleton) {inp : List (Option Envelope)} {s : State} (h : Reach sk inp s) :
    Reach sk (mapInp g inp) (mapState g s) := by
  induction h with
  | init => exact Reach.init
  | step a _ hs ih =>
    refine Reach.step a ih ?_
    rw [← step_map, hs]; rfl

/-- an action is enabled in a state iff it is enabled in the relabelled state -/
theorem step_enabled_map (sk : Skeleton) (s : State) (a : Act) :
    (step sk (mapState g s) a).isSome = (step sk s a).isSome := by
  rw [← step_map]; cases step sk s a <;> rfl

theorem run_enabled_map (sk : Skeleton) (s : State) (acts : List Act) :
    (run sk (mapState g s) acts).isSome = (run sk s acts).isSome := by
  rw [← run_map]; cases run sk s acts <;> rfl

/-! ### observables -/

/-- the non-payload part of a state is untouched -/
theorem ctrl_map (s : State) : ctrl (mapState g s) = ctrl s := by
  simp [ctrl, mapState, mapInp, Dec.map_map]

theorem reqsOf_map (l : List (Option Envelope)) : reqsOf (mapInp g l) = (reqsOf l).map g := by
  induction l with
  | nil => rfl
  | cons o r ih =>
    simp only [reqsOf, mapInp, List.map_cons] at ih ⊢
    cases o with
    | none => simpa [List.filterMap_cons] using ih
    | some e =>
      obtain ⟨rq, rs⟩ := e
      cases rq <;> simp [Envelope.map, ih]

theorem ressOf_map (l : List (Option Envelope)) : ressOf (mapInp g l) = (ressOf l).map g := by
  induction l with
  | nil => rfl
  | cons o r ih =>
    simp only [ressOf, mapInp, List.map_cons] at ih ⊢
    cases o with
    | none => simpa [List.filterMap_cons] using ih
    | some e =>
      obtain ⟨rq, rs⟩ := e
      cases rs <;> simp [Envelope.map, ih]

theorem pendReq_map (d : Dec) : pendReq (d.map g) = (pendReq d).map g := by
  cases d <;> rfl

theorem pendRes_map (d : Dec) : pendRes (d.map g) = (pendRes d).map g := by
  cases d with
  | handReq p next => cases next <;> rfl
  | _ => rfl

theorem writeReq_map (sk : Skeleton) (b : Payload) (o : Option Payload) :
    writeReq sk (g b) (o.map g) = (writeReq sk b o).map g := by
  simp only [writeReq, Envelope.map]
  cases sk.stEncodeRequestOnly <;> rfl

theorem writeRes_map (sk : Skeleton) (b : Payload) (o : Option Payload) :
    writeRes sk (g b) (o.map g) = (writeRes sk b o).map g := by
  simp only [writeRes, Envelope.map]
  cases sk.stEncodeResponseOnly <;> rfl

end Map

/-- **Payload blindness.**  Under every schedule, from the relabelled input: the schedule is
    enabled iff it was; the values the two read adapters returned are the `g`-images of the values
    they returned before, in the same order; the errors they returned and all control state are
    the same. -/
theorem run_observables_map (g : Payload → Payload) (sk : Skeleton) (inp : List (Option Envelope))
    (acts : List Act) :
    run sk (init (mapInp g inp)) acts = (run sk (init inp) acts).map (mapState g) ∧
    (run sk (init (mapInp g inp)) acts).map (·.gotReq) = (run sk (init inp) acts).map (·.gotReq.map g) ∧
    (run sk (init (mapInp g inp)) acts).map (·.gotRes) = (run sk (init inp) acts).map (·.gotRes.map g) ∧
    (run sk (init (mapInp g inp)) acts).map (·.reqEnd) = (run sk (init inp) acts).map (·.reqEnd) ∧
    (run sk (init (mapInp g inp)) acts).map (·.resEnd) = (run sk (init inp) acts).map (·.resEnd) ∧
    (run sk (init (mapInp g inp)) acts).map ctrl = (run sk (init inp) acts).map ctrl := by
  have h : run sk (init (mapInp g inp)) acts = (run sk (init inp) acts).map (mapState g) := by
    rw [← init_map, run_map]
  rw [h]
  refine ⟨rfl, ?_, ?_, ?_, ?_, ?_⟩ <;> cases run sk (init inp) acts <;>
    first | rfl | simp only [Option.map_some, ctrl_map]

/-- Two decoded streams of the same shape (equal after erasing the payloads) behave alike under
    every schedule: same enabledness, same control state, same errors, same *number* of values
    delivered to each loop. -/
theorem run_ctrl_of_same_shape (sk : Skeleton) (inp₁ inp₂ : List (Option Envelope))
    (hshape : mapInp (fun _ => 0) inp₁ = mapInp (fun _ => 0) inp₂) (acts : List Act) :
    (run sk (init inp₁) acts).map ctrl = (run sk (init inp₂) acts).map ctrl := by
  have h1 := (run_observables_map (fun _ => 0) sk inp₁ acts).2.2.2.2.2
  have h2 := (run_observables_map (fun _ => 0) sk inp₂ acts).2.2.2.2.2
  rw [← h1, ← h2, hshape]

end Panrpc.St
