/-
  Lemmas/RegistryCurrent.lean — the source facts M4's theorems rest on, checked against the
  skeleton regenerated from /repo on this run.  Moving a hook out of the `remotesLock` region,
  dropping one, starting the loops before the registration, not waiting for both loops, running
  the removal before `wg.Wait()`, or sharing the id / remote value / pending-call table / fatal
  slot between links makes one of these `decide`s fail.
-/
import Panrpc.Lemmas.RegistryCross
import Panrpc.Generated.Current

namespace Panrpc.Rg
open Panrpc

theorem cur_facts : Facts Skeleton.current :=
  ⟨by decide, by decide, by decide, by decide, by decide, by decide, by decide, by decide, by decide,
   by decide, by decide, by decide, by decide, by decide, by decide, by decide, by decide⟩

end Panrpc.Rg
