/-
  Lemmas/SystemSafe.lean — M3: reachable states satisfy all invariant layers; the general
  (∀ sk, Facts sk → …) forms of the C01 safety theorems.
-/
import Panrpc.Lemmas.SystemCall
import Panrpc.Lemmas.SystemReq
import Panrpc.Lemmas.SystemInv
import Panrpc.Lemmas.SystemRes

namespace Panrpc.Sys

structure AllInv (s : State) : Prop where
  c  : CInv s
  r  : RInv s
  v  : VInv s
  sv : SInv s

theorem reach_all (sk : Skeleton) (hf : Facts sk) {s : State} (h : Reach sk s) : AllInv s := by
  induction h with
  | init => exact ⟨cinv_init, rinv_init, vinv_init, sinv_init⟩
  | step a _ hs ih =>
    exact ⟨cinv_step sk hf a ih.c hs, rinv_step sk hf a ih.c ih.r hs, vinv_step sk hf a ih.r ih.v hs,
           sinv_step sk hf a ih.c ih.r ih.sv hs⟩

/-! ### counting invocations per call id -/

theorem countP_eq_one_unique {α : Type} (p : α → Bool) :
    ∀ (l : List α) (a b : α), l.countP p = 1 → a ∈ l → p a = true → b ∈ l → p b = true → a = b := by
  intro l
  induction l with
  | nil => intro a b _ ha; simp at ha
  | cons x l ih =>
    intro a b hc ha hpa hb hpb
    rw [List.countP_cons] at hc
    by_cases hx : p x = true
    · simp only [hx, if_true] at hc
      have h0 : l.countP p = 0 := by omega
      rw [List.countP_eq_zero] at h0
      have hax : a = x := by
        rcases List.mem_cons.mp ha with h | h
        · exact h
        · exact absurd hpa (h0 a h)
      have hbx : b = x := by
        rcases List.mem_cons.mp hb with h | h
        · exact h
        · exact absurd hpb (h0 b h)
      rw [hax, hbx]
    · simp only [hx] at hc
      have hax : a ∈ l := by
        rcases List.mem_cons.mp ha with h | h
        · subst h; exact absurd hpa hx
        · exact h
      have hbx : b ∈ l := by
        rcases List.mem_cons.mp hb with h | h
        · subst h; exact absurd hpb hx
        · exact h
      exact ih a b (by simpa using hc) hax hpa hbx hpb

/-- per call id, the invocation records are those of the one handler thread that served it -/
theorem invCountCall_eq {s : State} (h : AllInv s) (e : E) (k : Nat) :
    invCountCall s.invocations e k =
      if s.served e k = true then invCount s.invocations e (s.servedBy e k) else 0 := by
  by_cases hs : s.served e k = true
  · simp only [hs, if_true, invCountCall, invCount]
    apply List.countP_congr
    intro r hr
    have hi := h.v.inv_h r hr
    have hne : (s.handlers r.ep r.h).pc ≠ .absent := by
      intro h0; rw [h0] at hi; simp [HPc.entered] at hi
    have hp := h.r.h_prov r.ep r.h hne
    have hsv := h.r.served_h e k hs
    simp only [decide_eq_true_eq]
    constructor
    · rintro ⟨he, hk⟩
      subst he
      refine ⟨rfl, ?_⟩
      rw [← hk, hi.2.1]; exact hp.2.1.symm
    · rintro ⟨he, hh⟩
      subst he
      refine ⟨rfl, ?_⟩
      rw [hi.2.1, hh]; exact hsv.2
  · simp only [hs, invCountCall]
    rw [if_neg (by simp), List.countP_eq_zero]
    intro r hr
    have hi := h.v.inv_h r hr
    have hne : (s.handlers r.ep r.h).pc ≠ .absent := by
      intro h0; rw [h0] at hi; simp [HPc.entered] at hi
    have hp := h.r.h_prov r.ep r.h hne
    simp only [decide_eq_true_eq]
    rintro ⟨he, hk⟩
    subst he
    rw [hi.2.1] at hk
    rw [hk] at hp
    exact hs hp.1

theorem invCountCall_le_one {s : State} (h : AllInv s) (e : E) (k : Nat) :
    invCountCall s.invocations e k ≤ 1 := by
  rw [invCountCall_eq h]
  split
  · rw [h.v.inv_cnt]; split <;> omega
  · omega

/-- the result a waiter was handed determines exactly one invocation record on the peer -/
theorem result_is_own {s : State} (h : AllInv s) (e : E) (t : Nat) (v err : Nat)
    (hres : (s.calls e t).result = some (v, err)) :
    (s.calls e t).id = t ∧
    invCountCall s.invocations (peer e) t = 1 ∧
    ∃ r, r ∈ s.invocations ∧ r.ep = peer e ∧ r.call = t ∧
      r.fn = (s.calls e t).fn ∧ r.args = (s.calls e t).args ∧ r.ret = some (v, err) ∧
      ∀ r', r' ∈ s.invocations → r'.ep = peer e → r'.call = t → r' = r := by
  have hpc : (s.calls e t).pc ≠ .absent := by
    intro h0
    rcases h.c.res_pc e t (by rw [hres]; simp) with h1 | h1 <;> rw [h0] at h1 <;> simp [CPc.waiting] at h1
  have hid := h.c.call_id e t hpc
  obtain ⟨hsv, hfin, hret⟩ := h.sv.result_prov e t (v, err) hres
  have hne : (s.handlers (peer e) (s.servedBy (peer e) t)).pc ≠ .absent := by rw [hfin]; simp
  have hp := h.r.h_prov (peer e) _ hne
  have hk := (h.r.served_h (peer e) t hsv).2
  have hcnt : invCount s.invocations (peer e) (s.servedBy (peer e) t) = 1 := by
    rw [h.v.inv_cnt, hfin]; simp [HPc.entered]
  have hcc : invCountCall s.invocations (peer e) t = 1 := by
    rw [invCountCall_eq h, if_pos hsv, hcnt]
  refine ⟨hid, hcc, ?_⟩
  have hpos : 0 < invCount s.invocations (peer e) (s.servedBy (peer e) t) := by omega
  simp only [invCount, List.countP_pos_iff, decide_eq_true_eq] at hpos
  obtain ⟨r, hr, hre, hrh⟩ := hpos
  have hi := h.v.inv_h r hr
  rw [hre, hrh] at hi
  rw [hk, peer_peer] at hp
  refine ⟨r, hr, hre, ?_, ?_, ?_, ?_, ?_⟩
  · rw [hi.2.1, hk]
  · rw [hi.2.2.1]; exact hp.2.2.2.1.symm
  · rw [hi.2.2.2.1]; exact hp.2.2.2.2.symm
  · rw [hi.2.2.2.2, hret]
  · intro r' hr' he' hc'
    apply countP_eq_one_unique _ s.invocations r' r hcc hr'
    · simp [he', hc']
    · exact hr
    · simp [hre, hi.2.1, hk]

/-! ### general forms of the C01 safety theorems (for every skeleton that meets `Facts`) -/

/-- Distinct call threads of one endpoint have distinct call ids; a key of the pending table is
    the id of exactly one call thread, which is waiting and has not been handed a result. -/
theorem ids_unique_of (sk : Skeleton) (hfacts : Facts sk) : ∀ s, Reach sk s →
    (∀ e t t', (s.calls e t).pc ≠ .absent → (s.calls e t').pc ≠ .absent →
      (s.calls e t).id = (s.calls e t').id → t = t') ∧
    (∀ e k, s.pending e k = true →
      ∃ t, (s.calls e t).pc.waiting = true ∧ (s.calls e t).id = k ∧ (s.calls e t).result = none ∧
        ∀ t', (s.calls e t').pc ≠ .absent → (s.calls e t').id = k → t' = t) := by
  intro s hr
  have h := reach_all _ hfacts hr
  refine ⟨?_, ?_⟩
  · intro e t t' h1 h2 hid
    rw [h.c.call_id e t h1, h.c.call_id e t' h2] at hid
    exact hid
  · intro e k hk
    have hw := h.c.pend e k hk
    have hne : (s.calls e k).pc ≠ .absent := by
      intro h0; rw [h0] at hw; simp [CPc.waiting] at hw
    refine ⟨k, hw.1, h.c.call_id e k hne, hw.2, ?_⟩
    intro t' h1 hid
    rw [h.c.call_id e t' h1] at hid
    exact hid

/-- Every request frame in flight, and every request frame ever consumed (it lives on in the
    handler thread spawned for it), carries the id, function and arguments of exactly the call
    thread of the peer that wrote it; per call there is at most one frame: ids in flight are
    pairwise distinct, an id in flight has never been consumed, and no two handler threads were
    spawned for the same id. -/
theorem request_provenance_of (sk : Skeleton) (hfacts : Facts sk) : ∀ s, Reach sk s →
    (∀ e f, f ∈ s.reqs e →
      ∃ t, (s.calls (peer e) t).pc.wrote = true ∧ (s.calls (peer e) t).id = f.call ∧
        (s.calls (peer e) t).fn = f.fn ∧ (s.calls (peer e) t).args = f.args) ∧
    (∀ e h, (s.handlers e h).pc ≠ .absent →
      ∃ t, (s.calls (peer e) t).pc.wrote = true ∧ (s.calls (peer e) t).id = (s.handlers e h).req.call ∧
        (s.calls (peer e) t).fn = (s.handlers e h).req.fn ∧ (s.calls (peer e) t).args = (s.handlers e h).req.args) ∧
    (∀ e, ((s.reqs e).map ReqFrame.call).Nodup) ∧
    (∀ e f h, f ∈ s.reqs e → (s.handlers e h).pc ≠ .absent → (s.handlers e h).req.call ≠ f.call) ∧
    (∀ e h h', (s.handlers e h).pc ≠ .absent → (s.handlers e h').pc ≠ .absent →
      (s.handlers e h).req.call = (s.handlers e h').req.call → h = h') := by
  intro s hr
  have h := reach_all _ hfacts hr
  refine ⟨?_, ?_, h.r.req_nodup, ?_, ?_⟩
  · intro e f hf
    have hp := h.r.req_prov e f hf
    have hne : (s.calls (peer e) f.call).pc ≠ .absent := by
      intro h0; rw [h0] at hp; simp [CPc.wrote] at hp
    exact ⟨f.call, hp.1, h.c.call_id _ _ hne, hp.2.1, hp.2.2⟩
  · intro e hh hne
    have hp := h.r.h_prov e hh hne
    have hne' : (s.calls (peer e) (s.handlers e hh).req.call).pc ≠ .absent := by
      intro h0; rw [h0] at hp; simp [CPc.wrote] at hp
    exact ⟨_, hp.2.2.1, h.c.call_id _ _ hne', hp.2.2.2.1, hp.2.2.2.2⟩
  · intro e f hh hf hne heq
    have h1 := h.r.req_fresh e f hf
    have h2 := (h.r.h_prov e hh hne).1
    rw [heq, h1] at h2
    exact absurd h2 (by simp)
  · intro e h1 h2 n1 n2 heq
    have p1 := (h.r.h_prov e h1 n1).2.1
    have p2 := (h.r.h_prov e h2 n2).2.1
    rw [heq] at p1
    rw [← p1, p2]

/-- For every endpoint and call id there is at most one invocation record — however often and in
    whatever order frames are delivered — and exactly one once the call has returned. -/
theorem at_most_one_invocation_of (sk : Skeleton) (hfacts : Facts sk) : ∀ s, Reach sk s →
    (∀ e k, invCountCall s.invocations e k ≤ 1) ∧
    (∀ e t, (s.calls e t).pc = .returned → invCountCall s.invocations (peer e) (s.calls e t).id = 1) := by
  intro s hr
  have h := reach_all _ hfacts hr
  refine ⟨fun e k => invCountCall_le_one h e k, ?_⟩
  intro e t hpc
  have hres := h.c.ret_res e t hpc
  cases hq : (s.calls e t).result with
  | none => exact absurd hq hres
  | some r =>
    obtain ⟨hid, hc, -⟩ := result_is_own h e t r.1 r.2 hq
    rw [hid]; exact hc

/-- Every response frame — in flight, or carried by a publisher — was built by the handler thread
    spawned for the request with that id (there is exactly one), from that handler's return. -/
theorem response_provenance_of (sk : Skeleton) (hfacts : Facts sk) : ∀ s, Reach sk s →
    ∀ e f, (f ∈ s.ress e ∨ ∃ p, (s.pubs e p).frame = some f) →
      ∃ h, (s.handlers (peer e) h).req.call = f.call ∧ (s.handlers (peer e) h).pc = .finished ∧
        (s.handlers (peer e) h).ret = some (f.value, f.err) ∧
        ∀ h', (s.handlers (peer e) h').pc ≠ .absent → (s.handlers (peer e) h').req.call = f.call → h' = h := by
  intro s hr e f hf
  have h := reach_all _ hfacts hr
  have hp : s.served (peer e) f.call = true ∧
      (s.handlers (peer e) (s.servedBy (peer e) f.call)).pc = .finished ∧
      (s.handlers (peer e) (s.servedBy (peer e) f.call)).ret = some (f.value, f.err) := by
    rcases hf with hf | ⟨p, hf⟩
    · exact h.sv.res_prov e f hf
    · exact h.sv.pub_prov e p f hf
  refine ⟨_, (h.r.served_h _ _ hp.1).2, hp.2.1, hp.2.2, ?_⟩
  intro h' hne heq
  have := (h.r.h_prov (peer e) h' hne).2.1
  rw [heq] at this
  exact this.symm

/-- THE property.  If the waiter of call thread `t` of endpoint `e` was handed `(v, err)` — in
    particular if the call returned with it — then on the peer there is exactly one invocation
    record for that call's id; it carries the call's function and arguments, and `(v, err)` is
    what that invocation returned. -/
theorem result_is_own_of (sk : Skeleton) (hfacts : Facts sk) : ∀ s, Reach sk s → ∀ e t v err,
    (s.calls e t).result = some (v, err) →
    ∃ r, r ∈ s.invocations ∧ r.ep = peer e ∧ r.call = (s.calls e t).id ∧
      r.fn = (s.calls e t).fn ∧ r.args = (s.calls e t).args ∧ r.ret = some (v, err) ∧
      (∀ r', r' ∈ s.invocations → r'.ep = peer e → r'.call = (s.calls e t).id → r' = r) ∧
      invCountCall s.invocations (peer e) (s.calls e t).id = 1 := by
  intro s hr e t v err hres
  obtain ⟨hid, hc, r, h1, h2, h3, h4, h5, h6, h7⟩ := result_is_own (reach_all _ hfacts hr) e t v err hres
  rw [hid]
  exact ⟨r, h1, h2, h3, h4, h5, h6, h7, hc⟩

/-- … and a call that returned did get a result (so the above applies to every returned call). -/
theorem returned_has_result_of (sk : Skeleton) (hfacts : Facts sk) : ∀ s, Reach sk s → ∀ e t,
    (s.calls e t).pc = .returned → ∃ v err, (s.calls e t).result = some (v, err) := by
  intro s hr e t hpc
  have := (reach_all _ hfacts hr).c.ret_res e t hpc
  cases hq : (s.calls e t).result with
  | none => exact absurd hq this
  | some r => exact ⟨r.1, r.2, rfl⟩

/-- No waiter is ever handed a value from a response frame that carries another call's id
    (stated over the ghost delivery log, which records every hand-off). -/
theorem no_foreign_response_of (sk : Skeleton) (hfacts : Facts sk) : ∀ s, Reach sk s →
    ∀ d, d ∈ s.deliveries → d.frameCall = d.waiterId := by
  intro s hr d hd
  exact ((reach_all _ hfacts hr).sv.deliv d hd).1

end Panrpc.Sys
