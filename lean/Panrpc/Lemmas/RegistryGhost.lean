/-
  Lemmas/RegistryGhost.lean — M4: the per-link hook events mirror the registry-wide hook
  events; every invocation record carries the id of its own link; request frames and
  responses never cross links.
-/
import Panrpc.Lemmas.RegistryPc

namespace Panrpc.Rg

theorem linkEvs_cons (e : HookEv) (log : List HookEv) (l : Nat) :
    linkEvs (e :: log) l = if e.kind.isLink = true ∧ e.link = l then e :: linkEvs log l else linkEvs log l := by
  simp only [linkEvs, List.filter_cons]; split <;> simp_all

theorem regEvs_cons (e : HookEv) (log : List HookEv) (l : Nat) :
    regEvs (e :: log) l = if e.kind.isReg = true ∧ e.link = l then e :: regEvs log l else regEvs log l := by
  simp only [regEvs, List.filter_cons]; split <;> simp_all

structure GhostInv (s : State) : Prop where
  mirror    : ∀ l, (linkEvs s.hookLog l).map HookEv.toReg = regEvs s.hookLog l
  inv_id    : ∀ v, v ∈ s.invocations → v.rid = (s.links v.link).id ∧ v.rid ≠ none
  written   : ∀ w, w ∈ s.written → w.writer = w.via ∧ w.table = some w.via
  delivered : ∀ d, d ∈ s.delivered → d.caller = d.reader

theorem ghost_init : GhostInv init := by
  constructor <;> simp [init, linkEvs, regEvs]

theorem ghost_frame {s s' : State} (hsame : Same s s')
    (hg : s'.invocations = s.invocations ∧ s'.written = s.written ∧ s'.delivered = s.delivered)
    (hi : GhostInv s) : GhostInv s' := by
  obtain ⟨h1, h2, h3, h4⟩ := hi
  obtain ⟨e1, e2, e3, e4⟩ := hsame
  obtain ⟨g1, g2, g3⟩ := hg
  refine ⟨?_, ?_, ?_, ?_⟩
  · intro l; rw [e3]; exact h1 l
  · intro v hv; rw [g1] at hv; rw [(e4 v.link).1]; exact h2 v hv
  · intro x hx; rw [g2] at hx; exact h3 x hx
  · intro d hd; rw [g3] at hd; exact h4 d hd

theorem ghostT_step (w : Bool) {s s' : State} (a : Act) (hp : PcInv s) (hi : GhostInv s)
    (hs : stepT w s a = some s') : GhostInv s' := by
  obtain ⟨l, op⟩ := a
  by_cases hop : op.structural = false ∧ op.logging = false
  · exact ghost_frame (sameT w op hop.1 hs) (sameT_ghost w op hop.1 hop.2 hs) hi
  · obtain ⟨h1, h2, h3, h4⟩ := hi
    have hl := hp l
    cases op <;> (try (simp [Op.structural, Op.logging] at hop; done)) <;> simp only [stepT] at hs
    all_goals (repeat' split at hs) <;> (try simp at hs) <;> (try subst hs)
    all_goals (refine ⟨?_, ?_, ?_, ?_⟩ <;> intro j <;> (try have g1 := h1 j) <;>
      grind [upd_apply, Link.fail, linkEvs_cons, regEvs_cons, HookKind.isLink, HookKind.isReg,
        HookKind.toReg, HookEv.toReg, PcOk])

theorem ghost_step {sk : Skeleton} (h : Facts sk) {s s' : State} (a : Act) (hp : PcInv s)
    (hi : GhostInv s) (hs : step sk s a = some s') : GhostInv s' := by
  rw [step_facts h] at hs; exact ghostT_step _ a hp hi hs

end Panrpc.Rg
