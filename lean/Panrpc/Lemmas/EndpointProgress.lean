/-
  Lemmas/EndpointProgress.lean — no internal deadlock in M2 (C05): the general lemmas.

  Threads, own steps (`actThreads`), `live`, `parked`, `CanStep`, `waitsOn`: Lemmas/EndpointThreads.lean.
  Quiet shapes of the parked threads and the steps that end them: EndpointProgressW (waiter),
  EndpointProgressP (publisher), EndpointProgressS (stub, Link).

  What is proved (general in the skeleton; the source facts are collected in `Prog`):
    * `not_parked_can_step`   a live thread that is not at one of the four blocking operations
                              (stub's select, receive function's select, Publish's select, Cond.Wait)
                              has an enabled own step — in particular no step ever waits for the mutex;
    * `wq_of_blocked` …       a parked thread without an enabled own step is in an explicitly
                              described "quiet" shape, and conversely (`wq_blocked` …);
    * `unblock_cause`         whatever step gives a blocked thread an enabled step again is a context
                              event (external) or an own step of a thread it `waitsOn`;
    * `awaited_can_step`      every live thread a blocked thread waits on has an enabled own
                              step — except a blocked stub's waiter, which may itself be parked in
                              the receive function, and then everything *it* waits on has one:
                              wait-for chains among blocked threads have length ≤ 2
                              (`no_blocked_chain`), no two threads wait for each other (`no_mutual_wait`);
    * `rendezvous_enabled`    publisher holds the entry of call c, waiter c inside the receive
                              function ⇒ the hand-off `waiterGetsValue c p` is enabled;
    * `stranded_blocked`      with an unbuffered `res` (pinned tree) a waiter holding a response
                              whose stub has returned is live and has no enabled step.
-/
import Panrpc.Lemmas.EndpointProgressW
import Panrpc.Lemmas.EndpointProgressP
import Panrpc.Lemmas.EndpointProgressS

namespace Panrpc.Ep
open Panrpc

/-! ### one generation per call id: a call registers its key once, and call ids are fresh -/

structure UG (s : State) : Prop where
  past   : ∀ g e, s.bc.entries g = some e → (s.calls e.key).pc ≠ .absent ∧ (s.calls e.key).pc ≠ .marshalled
  unique : ∀ g g' e e', s.bc.entries g = some e → s.bc.entries g' = some e' → e.key = e'.key → g = g'

theorem ug_init : UG init := by constructor <;> simp [init, Bc.init]

macro "ug_tac" a:ident hs:ident hg:ident : tactic => `(tactic| (
  ep_group $a:ident $hs:ident $hg:ident
  bc_unfold
  all_goals first
    | exact ⟨h1, h2⟩
    | (refine ⟨?_, ?_⟩ <;> intros <;> grind [upd_apply, Bc.freeEntry, Bc.closeEntry])))

section
variable (sk : Skeleton) {s s' : State} (a : Act) (hw : Bc.WF s.bc) (h : UG s)
include hw h
theorem ug_g0 (hg : a.grp = .g0) (hs : step sk s a = some s') : UG s' := by
  obtain ⟨w1, w2, w3, w4, w5, w6, w7⟩ := hw; obtain ⟨h1, h2⟩ := h
  ug_tac a hs hg
theorem ug_g1 (hg : a.grp = .g1) (hs : step sk s a = some s') : UG s' := by
  obtain ⟨w1, w2, w3, w4, w5, w6, w7⟩ := hw; obtain ⟨h1, h2⟩ := h
  ug_tac a hs hg
theorem ug_g2 (hg : a.grp = .g2) (hs : step sk s a = some s') : UG s' := by
  obtain ⟨w1, w2, w3, w4, w5, w6, w7⟩ := hw; obtain ⟨h1, h2⟩ := h
  ug_tac a hs hg
theorem ug_g3 (hg : a.grp = .g3) (hs : step sk s a = some s') : UG s' := by
  obtain ⟨w1, w2, w3, w4, w5, w6, w7⟩ := hw; obtain ⟨h1, h2⟩ := h
  ug_tac a hs hg
theorem ug_g4 (hg : a.grp = .g4) (hs : step sk s a = some s') : UG s' := by
  obtain ⟨w1, w2, w3, w4, w5, w6, w7⟩ := hw; obtain ⟨h1, h2⟩ := h
  ug_tac a hs hg
theorem ug_g5 (hg : a.grp = .g5) (hs : step sk s a = some s') : UG s' := by
  obtain ⟨w1, w2, w3, w4, w5, w6, w7⟩ := hw; obtain ⟨h1, h2⟩ := h
  ug_tac a hs hg
theorem ug_step (hs : step sk s a = some s') : UG s' :=
  by_groups a (ug_g0 sk a hw h · hs) (ug_g1 sk a hw h · hs) (ug_g2 sk a hw h · hs)
    (ug_g3 sk a hw h · hs) (ug_g4 sk a hw h · hs) (ug_g5 sk a hw h · hs)
end

theorem reach_ug (sk : Skeleton) {s : State} (h : Reach sk s) : UG s := by
  induction h with
  | init => exact ug_init
  | step a hr hs ih => exact ug_step sk a (reach_wf sk hr) ih hs

/-- A publisher holds the entry of call `c` and waiter `c` is inside the receive function: the
    hand-off is enabled (they stand at the two ends of the same channel: one generation per call
    id; the channel is never closed). -/
theorem rendezvous_enabled (sk : Skeleton) (hp : Prog sk) {s : State} (hr : Reach sk s) (c p v g : Nat)
    (hpb : s.bc.pubs p = .holding c v g) (hw : s.waiters c = .recv) :
    ∃ s', step sk s (.waiterGetsValue c p) = some s' := by
  obtain ⟨g', e', hrc, hent', hk'⟩ := recv_shape sk hr c hw
  have he := (reach_wf sk hr).pub_entry p c v g hpb
  cases hent : s.bc.entries g with
  | none => simp [hent] at he
  | some e =>
    simp [hent] at he
    have : g = g' := (reach_ug sk hr).unique g g' e e' hent hent' (by rw [he, hk'])
    subst this
    exact rendezvous_same_gen sk hp hr c p c v g _ hw hrc hpb

/-! ### the pinned tree: with an unbuffered `res` a waiter can be blocked with nobody to wait for -/

theorem stranded_blocked (sk : Skeleton) (hcap : sk.stubResChanCap = 0) {s : State} (c : Nat) (r : Resp)
    (hpc : (s.calls c).pc = .returned) (hw : s.waiters c = .have r) :
    live s (.waiter c) = true ∧ ¬ CanStep sk s (.waiter c) := by
  refine ⟨by simp [live, hw], ?_⟩
  rintro ⟨a, hm, hs⟩
  cases a <;> simp [actThreads] at hm <;> subst hm <;> simp [step, hw, hcap, hpc] at hs


/-! ### an entry whose call has no waiter yet belongs to a stub right before its `go` statement -/

structure AW (s : State) : Prop where
  absent_reg : ∀ c g, s.bc.table c = some g → s.waiters c = .absent → (s.calls c).pc = .registered

theorem aw_init : AW init := by constructor; simp [init, Bc.init]

theorem aw_step (sk : Skeleton) {s s' : State} (a : Act) (ht : TI s) (hi : RI s)
    (h : AW s) (hs : step sk s a = some s') : AW s' := by
  obtain ⟨h1⟩ := h
  obtain ⟨t1⟩ := ht
  obtain ⟨r1, -⟩ := hi
  cases a <;> simp only [step] at hs
  all_goals (repeat' split at hs) <;> (try simp at hs) <;> (try subst hs)
  bc_unfold
  all_goals first
    | exact ⟨h1⟩
    | (refine ⟨?_⟩ <;> intros <;> grind [upd_apply])

theorem reach_aw (sk : Skeleton) (hf : WaiterFrees sk) (hy : Bc.Hyg sk) (hnc : Bc.NoChanClose sk)
    {s : State} (h : Reach sk s) : AW s := by
  induction h with
  | init => exact aw_init
  | step a hr hs ih => exact aw_step sk a (reach_ti sk hf hy hnc hr) (reach_ri sk hr) ih hs

/-- live, and no own step enabled -/
def Blocked (sk : Skeleton) (s : State) (th : Thread) : Prop := live s th = true ∧ ¬ CanStep sk s th

section
variable (sk : Skeleton) (hp : Prog sk) {s : State} (hr : Reach sk s)
include hp hr

/-- a blocked thread stands at one of the four blocking operations -/
theorem blocked_parked (th : Thread) (hb : Blocked sk s th) : parked s th = true := by
  cases h : parked s th with
  | true => rfl
  | false => exact absurd (not_parked_can_step sk hp hr th hb.1 h) hb.2

/-- Completeness of `waitsOn`: whatever step gives a blocked thread an enabled step again is a
    context event (the application cancels a context; external) or an own step of a thread it
    waits on. -/
theorem unblock_cause {s' : State} (a : Act) (hs : step sk s a = some s') (th : Thread)
    (hb : Blocked sk s th) (hc : CanStep sk s' th) :
    isCtxEvent a = true ∨ ∃ th', th' ∈ actThreads a ∧ waitsOn s th th' := by
  have hr' : Reach sk s' := Reach.step a hr hs
  have hpk := blocked_parked sk hp hr th hb
  obtain ⟨hl, hnb⟩ := hb
  have hown : th ∉ actThreads a := fun hm => hnb ⟨a, hm, by simp [hs]⟩
  have hlk := reach_lk sk hr
  have hwf := reach_wf sk hr
  cases th with
  | stub c =>
    have hpc : (s.calls c).pc = .written := by simpa [parked] using hpk
    have hq := sq_of_blocked sk hp hr c hpc hnb
    cases hwk : wakesStub c a with
    | false => exact absurd hc (sq_blocked sk c (sq_step sk a c hlk hq hown hwk hs))
    | true =>
      cases a <;> simp [wakesStub] at hwk
      · subst hwk; exact Or.inr ⟨.waiter _, by simp [actThreads], rfl⟩
      · exact Or.inl rfl
  | waiter c =>
    have hw : s.waiters c = .recv := by simpa [parked] using hpk
    obtain ⟨g, hq⟩ := wq_of_blocked sk hp hr c hw hnb
    cases hwk : wakesWaiter s c a with
    | false => exact absurd hc (wq_blocked sk hp hr' c g (wq_step sk a c g hlk hwf hq hown hwk hs))
    | true =>
      cases a <;> simp only [wakesWaiter] at hwk <;> (try (simp at hwk; done))
      · rename_i p
        cases hpb : s.bc.pubs p <;> simp [hpb] at hwk
        subst hwk
        exact Or.inr ⟨.pub p, by simp [actThreads], ⟨_, hpb⟩⟩
      · rename_i t; exact Or.inr ⟨.setter t, by simp [actThreads], trivial⟩
      · exact Or.inl rfl
  | pub p =>
    cases hpb : s.bc.pubs p with
    | absent => simp [live, hpb] at hl
    | done d => simp [live, hpb] at hl
    | start k v => simp [parked, hpb] at hpk
    | holding k v g =>
      have hq := pq_of_blocked sk hp hr p k v g hpb hnb
      cases hwk : wakesPub k a with
      | false => exact absurd hc (pq_blocked sk hp hr' p k v g (pq_step sk a p k v g hlk hwf hq hown hwk hs))
      | true =>
        cases a <;> simp [wakesPub] at hwk
        · subst hwk; exact Or.inr ⟨.waiter _, by simp [actThreads], ⟨_, _, hpb⟩⟩
        · subst hwk; exact Or.inr ⟨.waiter _, by simp [actThreads], ⟨_, _, hpb⟩⟩
        · rename_i t; exact Or.inr ⟨.setter t, by simp [actThreads], trivial⟩
        · exact Or.inl rfl
  | setter t => exact absurd (setter_can_step sk hp hr t hl) hnb
  | link =>
    have hq : s.link = .waiting := by simpa [parked] using hpk
    by_cases hst : ∃ t, a = .setErrStore t
    · obtain ⟨t, rfl⟩ := hst
      exact Or.inr ⟨.setter t, by simp [actThreads], trivial⟩
    · exact absurd hc (lq_blocked sk (lq_step sk a hq (fun t h => hst ⟨t, h⟩) hs))

/-- No wait-for cycle: every live thread a blocked thread waits on has an enabled own step —
    except that the waiter a blocked stub waits on may itself be parked in the receive function
    (and then, by this very lemma, everything *that* waiter waits on has an enabled step). -/
theorem awaited_can_step (th th' : Thread) (hb : Blocked sk s th) (hw : waitsOn s th th')
    (hl' : live s th' = true) : CanStep sk s th' ∨ ∃ c, th = .stub c ∧ th' = .waiter c := by
  cases th with
  | stub c =>
    cases th' <;> simp [waitsOn] at hw
    subst hw; exact Or.inr ⟨_, rfl, rfl⟩
  | waiter c =>
    cases th' <;> simp [waitsOn] at hw
    · obtain ⟨v, hv⟩ := hw
      exact Or.inl (pub_start_can_step sk hp hr _ _ _ hv)
    · exact Or.inl (setter_can_step sk hp hr _ hl')
  | pub p =>
    cases th' <;> simp [waitsOn] at hw
    · rename_i c
      left
      obtain ⟨v, g, hpb⟩ := hw
      by_cases hwc : s.waiters c = .recv
      · obtain ⟨g', e', hrc, hent', hk'⟩ := recv_shape sk hr c hwc
        by_cases hg : g' = g
        · subst hg
          obtain ⟨s1, h1⟩ := rendezvous_same_gen sk hp hr c p c v g' _ hwc hrc hpb
          exact canStep_of sk (.waiterGetsValue c p) (by simp [actThreads]) (by simp [h1])
        · -- two generations of the same key: one of them has left the table
          have hq := pq_of_blocked sk hp hr p c v g hpb hb.2
          have hwk := reach_wk sk hp.lv.hyg hp.lv.wakes hr
          have he := (reach_wf sk hr).pub_entry p c v g hpb
          cases hent : s.bc.entries g with
          | none => simp [hent] at he
          | some e =>
            simp [hent] at he
            have hx := hq.ctx
            simp [hent] at hx
            have ht : s.bc.table c = some g := by
              apply Classical.byContradiction
              intro hne
              have := hwk.removed_ctx g e hent (by rw [he]; exact hne)
              rw [hx] at this; cases this
            obtain ⟨s1, h1, _⟩ := waiterGetsDone_enabled sk hp.lv hr c hwc (fun g'' hg'' => by
              rw [hrc] at hg''; cases hg''; rw [ht]; intro h; cases h; exact hg rfl)
            exact canStep_of sk (.waiterGetsDone c) (by simp [actThreads]) (by simp [h1])
      · exact waiter_can_step sk hp hr c hl' hwc
    · exact Or.inl (setter_can_step sk hp hr _ hl')
  | setter t => cases th' <;> simp [waitsOn] at hw
  | link =>
    cases th' <;> simp [waitsOn] at hw
    exact Or.inl (setter_can_step sk hp hr _ hl')

/-- wait-for chains among blocked threads have at most two members (stub → its waiter) -/
theorem no_blocked_chain (th th' th'' : Thread) (hb : Blocked sk s th) (hw : waitsOn s th th')
    (hb' : Blocked sk s th') (hw' : waitsOn s th' th'') : ¬ Blocked sk s th'' := by
  intro hb''
  rcases awaited_can_step sk hp hr th th' hb hw hb'.1 with h | ⟨c, rfl, rfl⟩
  · exact hb'.2 h
  · rcases awaited_can_step sk hp hr (.waiter c) th'' hb' hw' hb''.1 with h | ⟨c', h, _⟩
    · exact hb''.2 h
    · cases h

/-- in particular no two blocked threads wait for each other -/
theorem no_mutual_wait (th th' : Thread) (hb : Blocked sk s th) (hw : waitsOn s th th')
    (hb' : Blocked sk s th') : ¬ waitsOn s th' th :=
  fun hw' => no_blocked_chain sk hp hr th th' th hb hw hb' hw' hb

/-- a blocked publisher's waiter exists or is about to: the entry it holds is live, and the call's
    waiter is live, or not spawned yet with the stub standing right before the `go` statement -/
theorem blocked_pub_has_waiter (hf : WaiterFrees sk) (p k v g : Nat) (hpb : s.bc.pubs p = .holding k v g)
    (hb : ¬ CanStep sk s (.pub p)) :
    s.bc.table k = some g ∧
    (live s (.waiter k) = true ∨ (s.waiters k = .absent ∧ (s.calls k).pc = .registered)) := by
  have hq := pq_of_blocked sk hp hr p k v g hpb hb
  have hwk := reach_wk sk hp.lv.hyg hp.lv.wakes hr
  have he := (reach_wf sk hr).pub_entry p k v g hpb
  cases hent : s.bc.entries g with
  | none => simp [hent] at he
  | some e =>
    simp [hent] at he
    have hx := hq.ctx
    simp [hent] at hx
    have ht : s.bc.table k = some g := by
      apply Classical.byContradiction
      intro hne
      have := hwk.removed_ctx g e hent (by rw [he]; exact hne)
      rw [hx] at this; cases this
    refine ⟨ht, ?_⟩
    obtain ⟨t1, t2, t3⟩ := (reach_ti sk hf hp.lv.hyg hp.lv.nochan hr).tbl_wait k g ht
    cases hwt : s.waiters k with
    | exited => exact absurd hwt t1
    | absent => exact Or.inr ⟨rfl, (reach_aw sk hf hp.lv.hyg hp.lv.nochan hr).absent_reg k g ht hwt⟩
    | _ => left; simp [live, hwt]

end

/-! ### the wakers, exactly -/

/-- what ends the wait of a blocked waiter, exactly: its context is cancelled, a publisher of its
    call id does its table lookup, or a `setErr` closes the table -/
theorem waiter_wakers (sk : Skeleton) (hp : Prog sk) {s s' : State} (hr : Reach sk s) (a : Act)
    (hs : step sk s a = some s') (c : Nat) (hb : Blocked sk s (.waiter c))
    (hc : CanStep sk s' (.waiter c)) : wakesWaiter s c a = true := by
  have hr' := Reach.step a hr hs
  have hpk := blocked_parked sk hp hr _ hb
  have hw : s.waiters c = .recv := by simpa [parked] using hpk
  obtain ⟨g, hq⟩ := wq_of_blocked sk hp hr c hw hb.2
  have hown : Thread.waiter c ∉ actThreads a := fun hm => hb.2 ⟨a, hm, by simp [hs]⟩
  cases hwk : wakesWaiter s c a with
  | true => rfl
  | false =>
    exact absurd hc (wq_blocked sk hp hr' c g
      (wq_step sk a c g (reach_lk sk hr) (reach_wf sk hr) hq hown hwk hs))

/-- what ends the wait of a blocked publisher of call id `k`, exactly: call `k`'s waiter enters the
    receive function or frees the entry, a `setErr` closes the table, or the cancellation of the
    call's context is handed on to the entry context -/
theorem pub_wakers (sk : Skeleton) (hp : Prog sk) {s s' : State} (hr : Reach sk s) (a : Act)
    (hs : step sk s a = some s') (p k v g : Nat) (hpb : s.bc.pubs p = .holding k v g)
    (hb : ¬ CanStep sk s (.pub p)) (hc : CanStep sk s' (.pub p)) : wakesPub k a = true := by
  have hr' := Reach.step a hr hs
  have hq := pq_of_blocked sk hp hr p k v g hpb hb
  have hown : Thread.pub p ∉ actThreads a := fun hm => hb ⟨a, hm, by simp [hs]⟩
  cases hwk : wakesPub k a with
  | true => rfl
  | false =>
    exact absurd hc (pq_blocked sk hp hr' p k v g
      (pq_step sk a p k v g (reach_lk sk hr) (reach_wf sk hr) hq hown hwk hs))

/-! ### external events that end a quiet wait -/

/-- cancelling the call's context (the application) gives the parked waiter an enabled step -/
theorem cancel_wakes_waiter (sk : Skeleton) (hp : Prog sk) {s : State} (hr : Reach sk s) (c : Nat)
    (hw : s.waiters c = .recv) :
    ∃ s', step sk s (.ctxCancel (s.calls c).ctx) = some s' ∧ CanStep sk s' (.waiter c) := by
  obtain ⟨hc, hbc, _⟩ := alive sk hp.lv hr
  have h1 : step sk s (.ctxCancel (s.calls c).ctx) = some { s with
      bc := { s.bc with ctxs := upd s.bc.ctxs (s.calls c).ctx true }, crashed := s.bc.crashed } := by
    simp [step, Bc.step, hc, hbc]
  have hr1 := Reach.step _ hr h1
  obtain ⟨s2, h2, _⟩ := waiterGetsCtx_enabled sk hp.lv hr1 c hw (by simp)
  exact ⟨_, h1, canStep_of sk (.waiterGetsCtx c) (by simp [actThreads]) (by simp [h2])⟩

/-- cancelling the link context gives the parked stub an enabled step -/
theorem cancelLink_wakes_stub (sk : Skeleton) (hp : Prog sk) {s : State} (hr : Reach sk s) (c : Nat)
    (hpc : (s.calls c).pc = .written) :
    ∃ s', step sk s .cancelLink = some s' ∧ CanStep sk s' (.stub c) := by
  obtain ⟨hc, _, _⟩ := alive sk hp.lv hr
  have h1 : step sk s .cancelLink = some { s with linkCtxDone := true } := by simp [step, hc]
  have h2 := callLinkCtx_enabled sk hp.lv (Reach.step _ hr h1) c hpc rfl
  exact ⟨_, h1, canStep_of sk (.callLinkCtx c) (by simp [actThreads]) (by simp [h2])⟩

/-- the Link thread is blocked only while no error has been stored: it waits for the first
    store critical section of a `setErr`, nothing else -/
theorem blocked_link_healthy (sk : Skeleton) (hp : Prog sk) {s : State} (hr : Reach sk s)
    (hb : Blocked sk s .link) : s.link = .waiting ∧ s.fatalLog = [] := by
  have hpk := blocked_parked sk hp hr .link hb
  have hq : s.link = .waiting := by simpa [parked] using hpk
  exact ⟨hq, (reach_fi sk hp.first hr).waiting_nil hq⟩

end Panrpc.Ep
