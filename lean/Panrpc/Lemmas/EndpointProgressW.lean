/-
  Lemmas/EndpointProgressW.lean — the waiter goroutine inside the receive function (C05):
  when it has no enabled step (`WQuiet`), and which steps can end that wait (`wakesWaiter`).
-/
import Panrpc.Lemmas.EndpointThreads
namespace Panrpc.Ep
open Panrpc

/-! ### a waiter inside the receive function without an enabled step -/

structure WQuiet (s : State) (c g : Nat) : Prop where
  at_recv : s.waiters c = .recv
  rcv     : s.bc.rcvs c = .waiting c g (s.calls c).ctx
  tbl     : s.bc.table c = some g                       -- its entry is live
  ctx     : s.bc.ctxs (s.calls c).ctx = false           -- its context is not done
  nopub   : ∀ p k v, s.bc.pubs p ≠ .holding k v g       -- no publisher stands at its channel

theorem wq_of_blocked (sk : Skeleton) (hp : Prog sk) {s : State} (hr : Reach sk s) (c : Nat)
    (hw : s.waiters c = .recv) (hb : ¬ CanStep sk s (.waiter c)) : ∃ g, WQuiet s c g := by
  obtain ⟨g, e, hrc, hent, hk⟩ := recv_shape sk hr c hw
  refine ⟨g, hw, hrc, ?_, ?_, ?_⟩
  · apply Classical.byContradiction
    intro ht
    obtain ⟨s1, h1, _⟩ := waiterGetsDone_enabled sk hp.lv hr c hw (fun g' hg' => by
      rw [hrc] at hg'; cases hg'; exact ht)
    exact hb (canStep_of sk (.waiterGetsDone c) (by simp [actThreads]) (by simp [h1]))
  · cases hx : s.bc.ctxs (s.calls c).ctx with
    | false => rfl
    | true =>
      obtain ⟨s1, h1, _⟩ := waiterGetsCtx_enabled sk hp.lv hr c hw hx
      exact absurd (canStep_of sk (.waiterGetsCtx c) (by simp [actThreads]) (by simp [h1])) hb
  · intro p k v hpb
    obtain ⟨s1, h1⟩ := rendezvous_same_gen sk hp hr c p k v g _ hw hrc hpb
    exact hb (canStep_of sk (.waiterGetsValue c p) (by simp [actThreads]) (by simp [h1]))

theorem wq_blocked (sk : Skeleton) (hp : Prog sk) {s : State} (hr : Reach sk s) (c g : Nat)
    (hq : WQuiet s c g) : ¬ CanStep sk s (.waiter c) := by
  obtain ⟨hw, hrc, ht, hx, hnp⟩ := hq
  obtain ⟨h1, h2⟩ := only_ctx_ready sk hp.lv hr c g hw hrc ht hnp
  rintro ⟨a, hm, hs⟩
  cases a <;> simp [actThreads] at hm <;> subst hm
  · simp [step, hw] at hs
  · rw [h2] at hs; simp at hs
  · rw [h1] at hs; simp at hs
  · simp [step, Bc.step, hw, hrc, hx] at hs
  · simp [step, hw] at hs
  · simp [step, hw] at hs


/-- the steps that can end the quiet wait of call `c`'s waiter: its context is cancelled
    (the application), a publisher of its call id does its lookup (a response frame has arrived),
    `setErr` closes the table (the link ends) -/
def wakesWaiter (s : State) (c : Nat) : Act → Bool
  | .ctxCancel x => x == (s.calls c).ctx
  | .pubLookup p => match s.bc.pubs p with
    | .start k _ => k == c
    | _ => false
  | .setErrClose _ => true
  | _ => false

macro "wq_tac" a:ident hs:ident hg:ident : tactic => `(tactic| (
  ep_group $a:ident $hs:ident $hg:ident
  bc_unfold
  all_goals first
    | exact ⟨q1, q2, q3, q4, q5⟩
    | (refine ⟨?_, ?_, ?_, ?_, ?_⟩ <;> intros <;>
        grind [upd_apply, wakesWaiter, actThreads, Bc.Rcv.binding, Bc.freeEntry])))

section
variable (sk : Skeleton) {s s' : State} (a : Act) (c g : Nat) (hl : LK s) (hw : Bc.WF s.bc)
  (hq : WQuiet s c g) (hown : Thread.waiter c ∉ actThreads a) (hn : wakesWaiter s c a = false)
include hl hw hq hown hn

theorem wq_g0 (hg : a.grp = .g0) (hs : step sk s a = some s') : WQuiet s' c g := by
  obtain ⟨l1, l2, l3, l4, l5, l6, l7, l8⟩ := hl; obtain ⟨w1, w2, w3, w4, w5, w6, w7⟩ := hw
  obtain ⟨q1, q2, q3, q4, q5⟩ := hq
  wq_tac a hs hg
theorem wq_g1 (hg : a.grp = .g1) (hs : step sk s a = some s') : WQuiet s' c g := by
  obtain ⟨l1, l2, l3, l4, l5, l6, l7, l8⟩ := hl; obtain ⟨w1, w2, w3, w4, w5, w6, w7⟩ := hw
  obtain ⟨q1, q2, q3, q4, q5⟩ := hq
  wq_tac a hs hg
theorem wq_g2 (hg : a.grp = .g2) (hs : step sk s a = some s') : WQuiet s' c g := by
  obtain ⟨l1, l2, l3, l4, l5, l6, l7, l8⟩ := hl; obtain ⟨w1, w2, w3, w4, w5, w6, w7⟩ := hw
  obtain ⟨q1, q2, q3, q4, q5⟩ := hq
  wq_tac a hs hg
theorem wq_g3 (hg : a.grp = .g3) (hs : step sk s a = some s') : WQuiet s' c g := by
  obtain ⟨l1, l2, l3, l4, l5, l6, l7, l8⟩ := hl; obtain ⟨w1, w2, w3, w4, w5, w6, w7⟩ := hw
  obtain ⟨q1, q2, q3, q4, q5⟩ := hq
  wq_tac a hs hg
theorem wq_g4 (hg : a.grp = .g4) (hs : step sk s a = some s') : WQuiet s' c g := by
  obtain ⟨l1, l2, l3, l4, l5, l6, l7, l8⟩ := hl; obtain ⟨w1, w2, w3, w4, w5, w6, w7⟩ := hw
  obtain ⟨q1, q2, q3, q4, q5⟩ := hq
  wq_tac a hs hg
theorem wq_g5 (hg : a.grp = .g5) (hs : step sk s a = some s') : WQuiet s' c g := by
  obtain ⟨l1, l2, l3, l4, l5, l6, l7, l8⟩ := hl; obtain ⟨w1, w2, w3, w4, w5, w6, w7⟩ := hw
  obtain ⟨q1, q2, q3, q4, q5⟩ := hq
  wq_tac a hs hg

/-- no other step ends the quiet wait -/
theorem wq_step (hs : step sk s a = some s') : WQuiet s' c g :=
  by_groups a (wq_g0 sk a c g hl hw hq hown hn · hs) (wq_g1 sk a c g hl hw hq hown hn · hs)
    (wq_g2 sk a c g hl hw hq hown hn · hs) (wq_g3 sk a c g hl hw hq hown hn · hs)
    (wq_g4 sk a c g hl hw hq hown hn · hs) (wq_g5 sk a c g hl hw hq hown hn · hs)
end

end Panrpc.Ep
