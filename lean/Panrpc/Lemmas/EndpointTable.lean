/-
  Lemmas/EndpointTable.lean — every live entry of the pending-call table belongs to a call whose
  waiter has not exited yet (so: all waiters exited ⇒ nothing is left in the table) (C15).
-/
import Panrpc.Lemmas.EndpointLink
import Panrpc.Lemmas.BcSafe

namespace Panrpc.Ep
open Panrpc

/-- Source facts: the waiter frees its entry when it exits, and `Free` deletes it. -/
structure WaiterFrees (sk : Skeleton) : Prop where
  frees   : sk.stubWaiterFreesOnExit = true
  deletes : sk.bcFreeDeletes = true

structure TI (s : State) : Prop where
  tbl_wait : ∀ k g, s.bc.table k = some g →
      s.waiters k ≠ .exited ∧ (s.calls k).pc ≠ .absent ∧ (s.calls k).pc ≠ .marshalled

theorem ti_init : TI init := by constructor; simp [init, Bc.init]

macro "ti_tac" a:ident h:ident hs:ident hg:ident : tactic => `(tactic| (
  obtain ⟨h1⟩ := $h:ident
  ep_group $a:ident $hs:ident $hg:ident
  bc_unfold
  all_goals first
    | exact ⟨h1⟩
    | (refine ⟨?_⟩ <;> intros <;> grind [upd_apply])))

section
variable (sk : Skeleton) (hf : WaiterFrees sk) {s s' : State} (a : Act)
  (hl : LK s) (hw : Bc.WF s.bc) (hn : Bc.NC s.bc)
include hf hl hw hn

theorem ti_g0 (hg : a.grp = .g0) (h : TI s) (hs : step sk s a = some s') : TI s' := by
  obtain ⟨f1, f2⟩ := hf; obtain ⟨l1, l2, l3, l4, l5, l6, l7, l8⟩ := hl
  obtain ⟨w1, w2, w3, w4, w5, w6, w7⟩ := hw; obtain ⟨n1, n2, n3⟩ := hn
  ti_tac a h hs hg
theorem ti_g1 (hg : a.grp = .g1) (h : TI s) (hs : step sk s a = some s') : TI s' := by
  obtain ⟨f1, f2⟩ := hf; obtain ⟨l1, l2, l3, l4, l5, l6, l7, l8⟩ := hl
  obtain ⟨w1, w2, w3, w4, w5, w6, w7⟩ := hw; obtain ⟨n1, n2, n3⟩ := hn
  ti_tac a h hs hg
theorem ti_g2 (hg : a.grp = .g2) (h : TI s) (hs : step sk s a = some s') : TI s' := by
  obtain ⟨f1, f2⟩ := hf; obtain ⟨l1, l2, l3, l4, l5, l6, l7, l8⟩ := hl
  obtain ⟨w1, w2, w3, w4, w5, w6, w7⟩ := hw; obtain ⟨n1, n2, n3⟩ := hn
  ti_tac a h hs hg
theorem ti_g3 (hg : a.grp = .g3) (h : TI s) (hs : step sk s a = some s') : TI s' := by
  obtain ⟨f1, f2⟩ := hf; obtain ⟨l1, l2, l3, l4, l5, l6, l7, l8⟩ := hl
  obtain ⟨w1, w2, w3, w4, w5, w6, w7⟩ := hw; obtain ⟨n1, n2, n3⟩ := hn
  ti_tac a h hs hg
theorem ti_g4 (hg : a.grp = .g4) (h : TI s) (hs : step sk s a = some s') : TI s' := by
  obtain ⟨f1, f2⟩ := hf; obtain ⟨l1, l2, l3, l4, l5, l6, l7, l8⟩ := hl
  obtain ⟨w1, w2, w3, w4, w5, w6, w7⟩ := hw; obtain ⟨n1, n2, n3⟩ := hn
  ti_tac a h hs hg
theorem ti_g5 (hg : a.grp = .g5) (h : TI s) (hs : step sk s a = some s') : TI s' := by
  obtain ⟨f1, f2⟩ := hf; obtain ⟨l1, l2, l3, l4, l5, l6, l7, l8⟩ := hl
  obtain ⟨w1, w2, w3, w4, w5, w6, w7⟩ := hw; obtain ⟨n1, n2, n3⟩ := hn
  ti_tac a h hs hg

theorem ti_step (h : TI s) (hs : step sk s a = some s') : TI s' :=
  by_groups a (ti_g0 sk hf a hl hw hn · h hs) (ti_g1 sk hf a hl hw hn · h hs) (ti_g2 sk hf a hl hw hn · h hs)
    (ti_g3 sk hf a hl hw hn · h hs) (ti_g4 sk hf a hl hw hn · h hs) (ti_g5 sk hf a hl hw hn · h hs)
end

theorem reach_ti (sk : Skeleton) (hf : WaiterFrees sk) (hy : Bc.Hyg sk) (hnc : Bc.NoChanClose sk)
    {s : State} (h : Reach sk s) : TI s := by
  induction h with
  | init => exact ti_init
  | step a hr hs ih =>
    exact ti_step sk hf a (reach_lk sk hr) (reach_wf sk hr) (reach_nc sk hy hnc hr) ih hs

end Panrpc.Ep
