/-
  Lemmas/SystemReq.lean — M3: preservation of the request-frame / handler-thread invariant.
  (Split by action group only to keep each declaration small.)
-/
import Panrpc.Lemmas.System

namespace Panrpc.Sys

local macro "rinv_tac" hg:ident hc:ident h:ident hf:ident hs:ident a:ident : tactic => `(tactic| (
  obtain ⟨c1, c2, c3, c4, c5, -⟩ := $hc
  obtain ⟨h1, h1', h2, h3, h4, h5⟩ := $h
  obtain ⟨f1, f0, f2, f3, f4, f5, f6, f7, f8⟩ := $hf
  clear f4 f5 f6 f7 f8
  cases $a:ident <;> simp only [Act.group] at $hg:ident <;> (try omega)
  all_goals clear $hg
  all_goals simp only [step, startCall] at $hs:ident
  all_goals (repeat' split at $hs:ident) <;> (try simp at $hs:ident) <;> (try subst $hs)
  all_goals refine ⟨?_, ?_, ?_, ?_, ?_, ?_⟩
  all_goals first | assumption | (intros; grind [upd2_apply, updE_apply, CPc.wrote, CPc.waiting, mkReq,
    nodup_map_append_singleton, nodup_map_eraseIdx, key_ne_of_mem_eraseIdx, mem_of_mem_eraseIdx',
    mem_of_getElem?'])))

theorem rinv_step_g0 (sk : Skeleton) (hf : Facts sk) {s s' : State} (a : Act) (hg : a.group = 0)
    (hc : CInv s) (h : RInv s) (hs : step sk s a = some s') : RInv s' := by
  rinv_tac hg hc h hf hs a

theorem rinv_step_g1 (sk : Skeleton) (hf : Facts sk) {s s' : State} (a : Act) (hg : a.group = 1)
    (hc : CInv s) (h : RInv s) (hs : step sk s a = some s') : RInv s' := by
  rinv_tac hg hc h hf hs a

theorem rinv_step_g2 (sk : Skeleton) (hf : Facts sk) {s s' : State} (a : Act) (hg : a.group = 2)
    (hc : CInv s) (h : RInv s) (hs : step sk s a = some s') : RInv s' := by
  rinv_tac hg hc h hf hs a

theorem rinv_step_g3 (sk : Skeleton) (hf : Facts sk) {s s' : State} (a : Act) (hg : a.group = 3)
    (hc : CInv s) (h : RInv s) (hs : step sk s a = some s') : RInv s' := by
  rinv_tac hg hc h hf hs a

theorem rinv_step_g4 (sk : Skeleton) (hf : Facts sk) {s s' : State} (a : Act) (hg : a.group = 4)
    (hc : CInv s) (h : RInv s) (hs : step sk s a = some s') : RInv s' := by
  rinv_tac hg hc h hf hs a

theorem rinv_step (sk : Skeleton) (hf : Facts sk) {s s' : State} (a : Act)
    (hc : CInv s) (h : RInv s) (hs : step sk s a = some s') : RInv s' := by
  cases a <;> first
    | exact rinv_step_g0 sk hf _ rfl hc h hs
    | exact rinv_step_g1 sk hf _ rfl hc h hs
    | exact rinv_step_g2 sk hf _ rfl hc h hs
    | exact rinv_step_g3 sk hf _ rfl hc h hs
    | exact rinv_step_g4 sk hf _ rfl hc h hs

end Panrpc.Sys
