/-
  Lemmas/EndpointLive.lean — enabledness: in every reachable state the steps that let a waiter,
  a call thread and the Link thread make progress by themselves are enabled, with the stated
  effect (C03, C04, C15).  General in the skeleton: the source facts used are collected in `Live`.
-/
import Panrpc.Lemmas.EndpointLink
import Panrpc.Lemmas.EndpointTable
import Panrpc.Lemmas.EndpointBc

namespace Panrpc.Ep
open Panrpc

/-- Source facts the progress lemmas rest on. -/
structure Live (sk : Skeleton) : Prop where
  hyg      : Bc.Hyg sk
  nochan   : Bc.NoChanClose sk
  wakes    : Bc.Wakes sk
  outside  : sk.bcPublishSelectOutsideLock = true
  selDone  : sk.bcRecvSelectsDone = true          -- the receive function listens to the closed signal
  selCtx   : sk.bcRecvSelectsCallerCtx = true     -- … and to the caller's context
  recovers : sk.stubRecovers = true
  setsErr  : sk.stubRecoverCallsSetErr = true
  cap      : sk.stubResChanCap ≠ 0                -- `res` is buffered
  selRes   : sk.stubSelectsRes = true
  selLink  : sk.stubSelectsLinkCtx = true
  wfrees   : sk.stubWaiterFreesOnExit = true
  skipDec  : sk.stubTwoOutSkipsDecodeWhenCancelled = true
  pubChecksClosed : sk.bcPublishChecksClosed = true
  invokeOutside : sk.clInvokeOutsideLock = true   -- CallClosure unlocks closuresLock before it calls the closure
  panicSites : sk.panicSitesCanonical = true      -- the stub panics only on failures of the link, never on an outcome of the call
  freeNeverWaits : sk.clFreeNeverWaits = true     -- the deferred release of a call's closures waits for nobody
  storesCreated : sk.clStoresCreatedClosure = true -- the table holds the closure's wrapper itself: invocations are not serialised

theorem run_cons (sk : Skeleton) {s s1 s' : State} {a : Act} {as : List Act}
    (h1 : step sk s a = some s1) (h2 : run sk s1 as = some s') : run sk s (a :: as) = some s' := by
  simp [run, runFrom, h1] at *; exact h2

theorem run_nil (sk : Skeleton) (s : State) : run sk s [] = some s := rfl

theorem run_append (sk : Skeleton) {s s1 s' : State} {as bs : List Act}
    (h1 : run sk s as = some s1) (h2 : run sk s1 bs = some s') : run sk s (as ++ bs) = some s' := by
  induction as generalizing s with
  | nil => simp [run, runFrom] at h1; subst h1; simpa using h2
  | cons a as ih =>
    simp only [run, runFrom, List.cons_append] at h1 ⊢
    cases hs : step sk s a with
    | none => simp [hs] at h1
    | some s2 => simp only [hs] at h1 ⊢; exact ih h1

/-- the closed flag of the pending-call table is never reset -/
theorem closed_mono (sk : Skeleton) {s s' : State} (a : Act) (hs : step sk s a = some s')
    (hc : s.bc.closed = true) : s'.bc.closed = true := by
  rcases step_bc sk a hs with h | ⟨b, hb⟩
  · rw [h]; exact hc
  · exact Bc.step_closed_mono sk hb hc

section
variable (sk : Skeleton) (hv : Live sk) {s : State} (hr : Reach sk s)
include hv hr

theorem alive : s.crashed = false ∧ s.bc.crashed = false ∧ s.bc.lockHolder = none :=
  ⟨reach_no_crash sk hv.recovers hv.hyg hv.nochan hr, (reach_nc sk hv.hyg hv.nochan hr).nocrash,
   reach_lock_free sk hv.outside hr⟩

/-- the closure table's mutex is free: registering / releasing closures never waits for a closure body -/
theorem cl_free : s.clLock = none := reach_cl_free sk hv.invokeOutside hr

/-- a waiter that has not called the receive function yet can do so -/
theorem waiterRecvCall_enabled (c : Nat) (hw : s.waiters c = .start) :
    ∃ s1, step sk s (.waiterRecvCall c) = some s1 ∧ s1.waiters = upd s.waiters c .recv ∧
      s1.calls = s.calls ∧ s1.res = s.res := by
  obtain ⟨hc, hbc, _⟩ := alive sk hv hr
  have hp := ((reach_lk sk hr).w_start c hw).1
  cases hrc : s.bc.rcvs c <;> simp [hrc, phase] at hp
  rename_i k g x
  have : step sk s (.waiterRecvCall c) = some { s with
      bc := { s.bc with rcvs := upd s.bc.rcvs c (.waiting k g x) }, crashed := s.bc.crashed,
      waiters := upd s.waiters c .recv } := by
    simp [step, Bc.step, hc, hbc, hw, hrc]
  exact ⟨_, this, rfl, rfl, rfl⟩

omit hv in
/-- shape of the M1 receiver thread of a waiter inside the receive function -/
theorem recv_shape (c : Nat) (hw : s.waiters c = .recv) :
    ∃ g e, s.bc.rcvs c = .waiting c g (s.calls c).ctx ∧ s.bc.entries g = some e ∧ e.key = c := by
  have hl := reach_lk sk hr
  have hp := (hl.w_recv c hw).1
  cases hrc : s.bc.rcvs c <;> simp [hrc, phase] at hp
  rename_i k g x
  have hk : k = c := hl.key c k g (by simp [hrc, Bc.Rcv.binding])
  have hx : x = (s.calls c).ctx := hl.ctx c x (by simp [hrc, rcvCtx])
  have he := (reach_wf sk hr).rcv_entry c k g (by simp [hrc, Bc.Rcv.binding])
  subst hk; subst hx
  cases hent : s.bc.entries g with
  | none => simp [hent] at he
  | some e => simp [hent] at he; exact ⟨g, e, rfl, hent, he⟩

/-- a waiter inside the receive function whose entry has left the table (freed, or the table was
    closed) is woken: the closed-signal case is enabled and yields `ErrClosed` -/
theorem waiterGetsDone_enabled (c : Nat) (hw : s.waiters c = .recv)
    (hgone : ∀ g, s.bc.rcvs c = .waiting c g (s.calls c).ctx → s.bc.table c ≠ some g) :
    ∃ s1, step sk s (.waiterGetsDone c) = some s1 ∧
      s1.waiters = upd s.waiters c (.have { fromFrame := none, err := .closed }) ∧
      s1.calls = s.calls ∧ s1.res = s.res := by
  obtain ⟨hc, hbc, _⟩ := alive sk hv hr
  obtain ⟨g, e, hrc, hent, hk⟩ := recv_shape sk hr c hw
  have hwk := reach_wk sk hv.hyg hv.wakes hr
  have hnc := reach_nc sk hv.hyg hv.nochan hr
  have hs : e.signalled = true := hwk.removed_sig g e hent (by rw [hk]; exact hgone g hrc)
  have hch : e.chanClosed = false := hnc.nochan g e hent
  have hd : e.doneClosed = true := by simpa [Bc.Entry.signalled, hch] using hs
  have : step sk s (.waiterGetsDone c) = some { s with
      bc := { s.bc with rcvs := upd s.bc.rcvs c (.gotClosed c g (s.calls c).ctx) }, crashed := s.bc.crashed,
      waiters := upd s.waiters c (.have { fromFrame := none, err := .closed }) } := by
    simp [step, Bc.step, hc, hbc, hw, hrc, hent, hd, hv.selDone]
  exact ⟨_, this, rfl, rfl, rfl⟩

/-- a waiter inside the receive function whose call context is done can leave with the context error -/
theorem waiterGetsCtx_enabled (c : Nat) (hw : s.waiters c = .recv)
    (hx : s.bc.ctxs (s.calls c).ctx = true) :
    ∃ s1, step sk s (.waiterGetsCtx c) = some s1 ∧
      s1.waiters = upd s.waiters c (.have { fromFrame := none, err := .ctxErr }) ∧
      s1.calls = s.calls ∧ s1.res = s.res ∧ s1.bc.table = s.bc.table := by
  obtain ⟨hc, hbc, _⟩ := alive sk hv hr
  obtain ⟨g, e, hrc, hent, hk⟩ := recv_shape sk hr c hw
  have : step sk s (.waiterGetsCtx c) = some { s with
      bc := { s.bc with rcvs := upd s.bc.rcvs c (.gotCtx c g (s.calls c).ctx) }, crashed := s.bc.crashed,
      waiters := upd s.waiters c (.have { fromFrame := none, err := .ctxErr }) } := by
    simp [step, Bc.step, hc, hbc, hw, hrc, hx, hv.selCtx]
  exact ⟨_, this, rfl, rfl, rfl, rfl⟩

/-- a waiter that holds a response can always hand it over: `res` is buffered and still empty,
    whether or not the call thread still listens -/
theorem waiterSend_enabled (c : Nat) (r : Resp) (hw : s.waiters c = .have r) :
    ∃ s1, step sk s (.waiterSend c) = some s1 ∧ s1.waiters = upd s.waiters c .sent ∧
      s1.calls = s.calls ∧ s1.res = upd s.res c [r] ∧ s1.bc = s.bc := by
  obtain ⟨hc, _, _⟩ := alive sk hv hr
  have hres := ((reach_lk sk hr).w_have c r hw).2
  have hcap : 0 < sk.stubResChanCap := Nat.pos_of_ne_zero hv.cap
  have : step sk s (.waiterSend c) = some { s with
      res := upd s.res c [r], waiters := upd s.waiters c .sent } := by
    simp [step, hc, hw, hres, hv.cap, hcap]
  exact ⟨_, this, rfl, rfl, rfl, rfl⟩

/-- …and then runs its deferred `Free`, which removes the call's entry from the table -/
theorem waiterFree_enabled (c : Nat) (hw : s.waiters c = .sent) :
    ∃ s1, step sk s (.waiterFree c) = some s1 ∧ s1.waiters = upd s.waiters c .exited ∧
      s1.calls = s.calls ∧ s1.res = s.res ∧ s1.bc.table c = none ∧
      (∀ k, k ≠ c → s1.bc.table k = s.bc.table k) := by
  obtain ⟨hc, hbc, hlk⟩ := alive sk hv hr
  have hnc := reach_nc sk hv.hyg hv.nochan hr
  have hwf := reach_wf sk hr
  cases ht : s.bc.table c with
  | none =>
    have : step sk s (.waiterFree c) = some { s with crashed := s.bc.crashed, waiters := upd s.waiters c .exited } := by
      simp [step, Bc.step, hc, hbc, hlk, hw, ht, hv.wfrees]
    exact ⟨_, this, rfl, rfl, rfl, ht, fun _ _ => rfl⟩
  | some g =>
    have he := hwf.table_key c g ht
    cases hent : s.bc.entries g with
    | none => simp [hent] at he
    | some e =>
      have hch := hnc.nochan g e hent
      have hdn := hnc.live c g e ht hent
      have : step sk s (.waiterFree c) = some { s with
          bc := { s.bc with entries := upd s.bc.entries g (some (Bc.freeEntry sk e)), table := upd s.bc.table c none },
          crashed := s.bc.crashed, waiters := upd s.waiters c .exited } := by
        simp [step, Bc.step, hc, hbc, hlk, hw, ht, hent, hch, hdn, hv.wfrees, hv.hyg.freeDeletes]
      exact ⟨_, this, rfl, rfl, rfl, by simp, fun k hk => by simp [upd, hk]⟩

/-- a call at its select takes what is in `res` -/
theorem callTakeRes_enabled (c : Nat) (fail : Bool) (r : Resp) (rest : List Resp)
    (hp : (s.calls c).pc = .written) (hres : s.res c = r :: rest)
    (hdec : decodes sk (s.calls c).numOut r = false ∨ fail = false) :
    step sk s (.callTakeRes c fail) = some { s with
      res := upd s.res c rest, calls := upd s.calls c { s.calls c with pc := .decoded, outcome := .ok r } } := by
  obtain ⟨hc, _, _⟩ := alive sk hv hr
  rcases hdec with h | h <;> simp [step, hc, hp, hres, hv.selRes, hv.panicSites, h]

/-- a call at its select leaves when the link context is done -/
theorem callLinkCtx_enabled (c : Nat) (hp : (s.calls c).pc = .written) (hl : s.linkCtxDone = true) :
    step sk s (.callLinkCtx c) = some { s with calls := upd s.calls c { s.calls c with pc := .panicking eLinkCtx } } := by
  obtain ⟨hc, _, _⟩ := alive sk hv hr
  simp [step, hc, hp, hl, hv.selLink, hv.cap]

theorem callReturnOk_enabled (c : Nat) (hp : (s.calls c).pc = .decoded) :
    step sk s (.callReturnOk c) = some { s with
      closures := freeClosures sk s c,
      calls := upd s.calls c { s.calls c with pc := .returned } } := by
  obtain ⟨hc, _, _⟩ := alive sk hv hr
  simp [step, hc, hp, canRelease, hv.freeNeverWaits, cl_free sk hv hr]

/-- the panic path always completes: the stub recovers, reports the error, returns `(zero, e)` -/
theorem callRecover_enabled (c e : Nat) (hp : (s.calls c).pc = .panicking e) :
    step sk s (.callRecover c e) = some { s with
      closures := freeClosures sk s c,
      calls := upd s.calls c { s.calls c with pc := .returned, outcome := .failed e },
      setters := upd s.setters c (.entered e) } := by
  obtain ⟨hc, _, _⟩ := alive sk hv hr
  simp [step, hc, hp, hv.recovers, hv.setsErr, canRelease, hv.freeNeverWaits, cl_free sk hv hr]

/-- entering a stub never waits — in particular `registerClosure` does not wait for a closure body
    that is running (whatever `s.running` is) -/
theorem callStart_enabled (c x numOut n : Nat) (hp : (s.calls c).pc = .absent) (hst : s.setters c = .absent)
    (hn : numOut = 1 ∨ numOut = 2) : (step sk s (.callStart c x numOut n)).isSome = true := by
  obtain ⟨hc, _, _⟩ := alive sk hv hr
  simp [step, hc, hp, hst, hn, cl_free sk hv hr]

/-- `CallClosure`'s look-up never waits for the body of another invocation -/
theorem closureInvoke_enabled (q id : Nat) : (step sk s (.closureInvoke q id)).isSome = true := by
  obtain ⟨hc, _, _⟩ := alive sk hv hr
  simp [step, hc, hv.storesCreated, cl_free sk hv hr]

/-- on a closed table `Receive` is refused: the stub panics with `ErrClosed` -/
theorem callReceive_refused (c : Nat) (hp : (s.calls c).pc = .marshalled) (hcl : s.bc.closed = true) :
    step sk s (.callReceive c) = some { s with
      bc := { s.bc with rcvs := upd s.bc.rcvs c .refused }, crashed := s.bc.crashed,
      calls := upd s.calls c { s.calls c with pc := .panicking eClosed } } := by
  obtain ⟨hc, hbc, hlk⟩ := alive sk hv hr
  have hab := ((reach_lk sk hr).early c (Or.inr hp)).1
  simp [step, Bc.step, hc, hbc, hlk, hp, hab, hcl, hv.wakes.refuses]

/-- on an open table `Receive` succeeds — whatever the state of the call's context (source fact
    `bcReceiveErrorsOnlyClosed`, in `Bc.Wakes`): the call is registered, an entry for its id exists, and
    nothing of the fatal-error machinery is touched -/
theorem callReceive_registers (c : Nat) (hp : (s.calls c).pc = .marshalled) (hcl : s.bc.closed = false) :
    ∃ s', step sk s (.callReceive c) = some s' ∧ (s'.calls c).pc = .registered ∧
      (s'.bc.table c).isSome = true ∧ s'.bc.closed = false ∧
      s'.setters = s.setters ∧ s'.fatalLog = s.fatalLog ∧ s'.slot = s.slot ∧ s'.link = s.link := by
  obtain ⟨hc, hbc, hlk⟩ := alive sk hv hr
  have hab := ((reach_lk sk hr).early c (Or.inr hp)).1
  have hoc := hv.wakes.onlyClosed
  cases ht : s.bc.table c <;> simp [step, Bc.step, hc, hbc, hlk, hp, hab, hcl, hoc, ht, upd]

/-- the only failure of the stub's `Receive` step is the closed table -/
theorem callReceive_fails_closed (c : Nat) {s' : State} (hs : step sk s (.callReceive c) = some s')
    (hf : (s'.calls c).pc ≠ .registered) : s.bc.closed = true ∧ (s'.calls c).pc = .panicking eClosed := by
  have hp : (s.calls c).pc = .marshalled := by
    simp only [step] at hs; split at hs
    · rename_i h; exact h.2
    · simp at hs
  cases hcl : s.bc.closed with
  | true =>
    rw [callReceive_refused sk hv hr c hp hcl] at hs
    simp at hs; subst hs; simp
  | false =>
    obtain ⟨s1, h1, h2, _⟩ := callReceive_registers sk hv hr c hp hcl
    rw [h1] at hs; simp at hs; subst hs; exact absurd h2 hf

end

end Panrpc.Ep
