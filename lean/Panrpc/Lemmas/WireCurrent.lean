/-
  Lemmas/WireCurrent.lean — the source facts P3's theorems rest on, checked against the skeleton
  regenerated from /repo on this run.  A change of the stub's `Request` literal, of one of the five
  `Response` literals, of a struct tag, of the response loop's `TrimSpace` test or of the stub's
  result decoding makes one of these `decide`s fail.
-/
import Panrpc.Lemmas.Wire
import Panrpc.Generated.Current

namespace Panrpc.Wire
open Panrpc

theorem cur_req : ReqFacts Skeleton.current := ⟨by decide, by decide, by decide, by decide, by decide, by decide⟩
theorem cur_res : ResFacts Skeleton.current := ⟨by decide, by decide⟩
theorem cur_tags : DocTags Skeleton.current :=
  ⟨by decide, by decide, by decide, by decide, by decide, by decide, by decide, by decide⟩
theorem cur_dec : DecFacts Skeleton.current := ⟨by decide, by decide, by decide, by decide, by decide⟩
theorem cur_env : EnvFacts Skeleton.current := ⟨by decide, by decide⟩
theorem cur_err_value_distinct : Skeleton.current.tagResErr ≠ Skeleton.current.tagResValue := by decide

end Panrpc.Wire
