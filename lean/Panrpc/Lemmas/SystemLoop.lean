/-
  Lemmas/SystemLoop.lean — M3: with an asynchronous resolver, handler and Publish, the request
  and response loops are never busy; their "consume a frame" step is enabled iff the buffer
  holds that frame — whatever the handler, call and publisher threads are doing.
-/
import Panrpc.Lemmas.System

namespace Panrpc.Sys

theorem linv_step (sk : Skeleton) (ha : Async sk) {s s' : State} (a : Act)
    (h : LInv s) (hs : step sk s a = some s') : LInv s' := by
  obtain ⟨h1, h2⟩ := h
  obtain ⟨a1, a2, a3, a4, a5, a6⟩ := ha
  cases a <;> simp only [step, startCall] at hs
  all_goals (repeat' split at hs) <;> (try simp at hs) <;> (try subst hs)
  all_goals refine ⟨?_, ?_⟩
  all_goals first | assumption | (intros; grind [updE_apply, release])

theorem reach_linv (sk : Skeleton) (ha : Async sk) {s : State} (h : Reach sk s) : LInv s := by
  induction h with
  | init => exact linv_init
  | step a _ hs ih => exact linv_step sk ha a ih hs

/-- enabledness of the request loop's only step does not mention handler/call/publisher state -/
theorem reqDeliver_enabled_iff (sk : Skeleton) {s : State} (h : LInv s) (e : E) (i : Nat) :
    (step sk s (.reqDeliver e i)).isSome = true ↔ i < (s.reqs e).length := by
  simp only [step, h.req_free e, if_true]
  constructor
  · intro hh
    cases hg : (s.reqs e)[i]? with
    | none => simp [hg] at hh
    | some f =>
      have := List.getElem?_eq_some_iff.mp hg
      exact this.1
  · intro hh
    rw [List.getElem?_eq_getElem hh]
    rfl

theorem resDeliver_enabled_iff (sk : Skeleton) {s : State} (h : LInv s) (e : E) (i : Nat) :
    (step sk s (.resDeliver e i)).isSome = true ↔ i < (s.ress e).length := by
  simp only [step, h.res_free e, if_true]
  constructor
  · intro hh
    cases hg : (s.ress e)[i]? with
    | none => simp [hg] at hh
    | some f =>
      have := List.getElem?_eq_some_iff.mp hg
      exact this.1
  · intro hh
    rw [List.getElem?_eq_getElem hh]
    rfl

/-- general form of `C02_loops_never_wait` -/
theorem loops_never_wait_of (sk : Skeleton) (ha : Async sk) : ∀ s, Reach sk s → ∀ e,
    s.reqLoopBusy e = none ∧ s.resLoopBusy e = none ∧
    (∀ i, (step sk s (.reqDeliver e i)).isSome = true ↔ i < (s.reqs e).length) ∧
    (∀ i, (step sk s (.resDeliver e i)).isSome = true ↔ i < (s.ress e).length) := by
  intro s hr e
  have hl := reach_linv _ ha hr
  exact ⟨hl.req_free e, hl.res_free e, fun i => reqDeliver_enabled_iff _ hl e i,
    fun i => resDeliver_enabled_iff _ hl e i⟩

/-! ### a synchronous Publish only delays the response loop: the publisher it waits for can always finish -/

def Pub.isPending : Pub → Bool
  | .pending _ => true
  | _ => false

/-- whatever the skeleton: the response loop is only ever busy with a publisher that has not finished -/
theorem busy_pub_pending (sk : Skeleton) {s : State} (h : Reach sk s) :
    ∀ e p, s.resLoopBusy e = some p → (s.pubs e p).isPending = true := by
  induction h with
  | init => intro e p hb; simp [init] at hb
  | step a _ hs ih =>
    cases a <;> simp only [step, startCall] at hs
    all_goals (repeat' split at hs) <;> (try simp at hs) <;> (try subst hs)
    all_goals first | assumption | (intros; grind [upd2_apply, updE_apply, release, Pub.isPending])

/-- a publisher that has not finished always has an enabled step of its own (deliver or drop) -/
theorem pending_pub_can_finish (sk : Skeleton) {s : State} (hc : CInv s) (e : E) (p : Nat)
    (hp : (s.pubs e p).isPending = true) :
    (step sk s (.publishDrop e p)).isSome = true ∨ ∃ t, (step sk s (.publish e p t)).isSome = true := by
  cases hq : s.pubs e p with
  | absent => simp [hq, Pub.isPending] at hp
  | done f d => simp [hq, Pub.isPending] at hp
  | pending f =>
    by_cases hk : s.pending e (pubKey sk f) = true
    · right
      refine ⟨pubKey sk f, ?_⟩
      have hw := hc.pend e _ hk
      have hne : (s.calls e (pubKey sk f)).pc ≠ .absent := by
        intro h0; rw [h0] at hw; simp [CPc.waiting] at hw
      have hid := hc.call_id e _ hne
      simp [step, hq, hk, hid, hw.1, hw.2]
    · left
      simp only [Bool.not_eq_true] at hk
      simp [step, hq, hk]

end Panrpc.Sys
