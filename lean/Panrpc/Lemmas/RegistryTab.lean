/-
  Lemmas/RegistryTab.lean — invariant tying the remotes table to the links' `remoteID`s:
  ids are fresh and distinct, an entry belongs to exactly the link that inserted it, and a
  link is in the table exactly between its registration region and its deferred removal.
-/
import Panrpc.Lemmas.RegistryPc

namespace Panrpc.Rg

structure TabInv (s : State) : Prop where
  id_lt     : ∀ l i, (s.links l).id = some i → i < s.nextId
  id_inj    : ∀ l l' i, (s.links l).id = some i → (s.links l').id = some i → l = l'
  rem_owner : ∀ i l, s.remotes i = some l → (s.links l).id = some i ∧ (s.links l).setup.live = true
  owner_rem : ∀ l i, (s.links l).id = some i → (s.links l).setup.live = true → s.remotes i = some l
  log_lt    : ∀ e, e ∈ s.hookLog → e.id < s.nextId

theorem tab_init : TabInv init := by
  constructor <;> simp [init, Link.fresh]

theorem tab_frame {s s' : State} (hsame : Same s s') (hi : TabInv s) : TabInv s' := by
  obtain ⟨h1, h2, h3, h4, h5⟩ := hi
  obtain ⟨e1, e2, e3, e4⟩ := hsame
  refine ⟨?_, ?_, ?_, ?_, ?_⟩
  · intro l i h; rw [(e4 l).1] at h; rw [e2]; exact h1 l i h
  · intro l l' i h h'; rw [(e4 l).1] at h; rw [(e4 l').1] at h'; exact h2 l l' i h h'
  · intro i l h; rw [e1] at h; rw [(e4 l).1, (e4 l).2]; exact h3 i l h
  · intro l i h h'; rw [(e4 l).1] at h; rw [(e4 l).2] at h'; rw [e1]; exact h4 l i h h'
  · intro e h; rw [e3] at h; rw [e2]; exact h5 e h

theorem tabT_step (w : Bool) {s s' : State} (a : Act) (hp : PcInv s) (hi : TabInv s)
    (hs : stepT w s a = some s') : TabInv s' := by
  obtain ⟨l, op⟩ := a
  by_cases hop : op.structural = false
  · exact tab_frame (sameT w op hop hs) hi
  · obtain ⟨h1, h2, h3, h4, h5⟩ := hi
    have hl := hp l
    cases op <;> (try (simp [Op.structural] at hop; done)) <;> simp only [stepT] at hs
    all_goals (repeat' split at hs) <;> (try simp at hs) <;> (try subst hs)
    all_goals (refine ⟨?_, ?_, ?_, ?_, ?_⟩ <;> intros <;>
      grind [upd_apply, Link.fail, Setup.live, PcOk])

theorem tab_step {sk : Skeleton} (h : Facts sk) {s s' : State} (a : Act) (hp : PcInv s)
    (hi : TabInv s) (hs : step sk s a = some s') : TabInv s' := by
  rw [step_facts h] at hs; exact tabT_step _ a hp hi hs

end Panrpc.Rg
