/-
  Lemmas/EndpointThreads.lean — the internal threads of M2, their own steps, liveness and the
  blocking operations they can be parked at; a live thread that is not parked at one of them has
  an enabled own step (C05).  Overview of the whole development: Lemmas/EndpointProgress.lean.

  The threads panrpc itself runs on the caller side of a link are
      stub c     the call thread while it is inside the generated stub (entered by the application)
      waiter c   the per-call goroutine around the receive function
      pub p      one `Publish` goroutine per response frame (an M1 publisher thread)
      setter t   a thread inside `setErr`
      link       the thread inside `Link…`
  `actThreads a` = the internal thread(s) whose own step the action `a` is (a rendezvous belongs
  to both parties); every other action is the environment: the application entering a stub or
  cancelling a context, the peer's frames arriving, a transport/codec failure reaching `setErr`.
-/
import Panrpc.Lemmas.EndpointRuns
import Panrpc.Lemmas.EndpointTable

namespace Panrpc.Ep
open Panrpc

/-! ### threads, their own steps, liveness, blocking operations -/

inductive Thread where
  | stub (c : Nat)
  | waiter (c : Nat)
  | pub (p : Nat)
  | setter (t : Nat)
  | link
  deriving DecidableEq, Repr

/-- the internal thread(s) that take this step; `[]` = a step of the environment -/
def actThreads : Act → List Thread
  | .callMarshalFail c | .callReceive c | .callSpawn c | .callWrite c | .callWriteFail c _
  | .callTakeRes c _ | .callLinkCtx c | .callRecover c _ | .callReturnOk c => [.stub c]
  | .waiterRecvCall c | .waiterGetsDone c | .waiterGetsCtx c | .waiterSend c | .waiterFree c => [.waiter c]
  | .waiterGetsValue c p => [.waiter c, .pub p]
  | .pubLookup p | .pubCtx p | .pubSendClosed p => [.pub p]
  | .setErrStore t | .setErrClose t => [.setter t]
  | .linkCheck | .linkWake | .linkReturn => [.link]
  | .callStart .. | .respFrame .. | .closureInvoke .. | .closureBodyDone .. | .setErrEnter .. | .watcher _
  | .ctxCancel _ | .ctxPropagate _ | .cancelLink => []

/-- started and not finished -/
def live (s : State) : Thread → Bool
  | .stub c => match (s.calls c).pc with
    | .absent | .returned => false
    | _ => true
  | .waiter c => match s.waiters c with
    | .absent | .exited => false
    | _ => true
  | .pub p => match s.bc.pubs p with
    | .start .. | .holding .. => true
    | _ => false
  | .setter t => match s.setters t with
    | .absent | .done => false
    | _ => true
  | .link => match s.link with
    | .returned _ => false
    | _ => true

/-- the thread stands at one of the blocking operations of the source:
    the stub's `select { <-res, <-linkCtx.Done() }`, the receive function's select,
    `Publish`'s `select { channel <- v, <-ctx.Done() }`, `Cond.Wait` -/
def parked (s : State) : Thread → Bool
  | .stub c => decide ((s.calls c).pc = .written)
  | .waiter c => decide (s.waiters c = .recv)
  | .pub p => match s.bc.pubs p with
    | .holding .. => true
    | _ => false
  | .setter _ => false
  | .link => decide (s.link = .waiting)

/-- the thread has an enabled own step -/
def CanStep (sk : Skeleton) (s : State) (th : Thread) : Prop :=
  ∃ a, th ∈ actThreads a ∧ (step sk s a).isSome = true

/-- a context is cancelled (by the application), or the `context` package hands that on -/
def isCtxEvent : Act → Bool
  | .ctxCancel _ | .ctxPropagate _ | .cancelLink => true
  | _ => false

/-- `waitsOn s th th'`: an own step of `th'` can be what the parked thread `th` is waiting for
    (completeness: `unblock_cause`) -/
def waitsOn (s : State) : Thread → Thread → Prop
  | .stub c, .waiter c' => c' = c                               -- `res <- r`
  | .waiter c, .pub p => ∃ v, s.bc.pubs p = .start c v          -- a response frame of this call id on its way to the table lookup
  | .waiter _, .setter _ => True                                -- link end: `Close` raises every closed signal
  | .pub p, .waiter c => ∃ v g, s.bc.pubs p = .holding c v g    -- the waiter enters its select (hand-off) or frees the entry
  | .pub _, .setter _ => True                                   -- link end: `Close` cancels every entry context
  | .link, .setter _ => True                                    -- the store critical section broadcasts
  | _, _ => False

/-- Source facts the progress theorems rest on, beyond `Live`. -/
structure Prog (sk : Skeleton) : Prop where
  lv        : Live sk
  order     : StoreFirst sk
  first     : FirstOnly sk
  selChan   : sk.bcRecvSelectsChan = true          -- receive function: `case v := <-c.channel`
  selSend   : sk.bcPublishSelectsSend = true       -- Publish: `case c.channel <- v`
  selEntry  : sk.bcPublishSelectsEntryCtx = true   -- Publish: `case <-c.ctx.Done()`

/-! ### `setErr` is never found between its two halves in the wrong order -/

structure SO (s : State) : Prop where
  no_closedFirst : ∀ t e, s.setters t ≠ .closedFirst e

theorem so_init : SO init := by constructor; simp [init]

theorem so_step (sk : Skeleton) (ho : StoreFirst sk) {s s' : State} (a : Act)
    (h : SO s) (hs : step sk s a = some s') : SO s' := by
  obtain ⟨h1⟩ := h
  obtain ⟨o1⟩ := ho
  cases a <;> simp only [step] at hs
  all_goals (repeat' split at hs) <;> (try simp at hs) <;> (try subst hs)
  all_goals first
    | exact ⟨h1⟩
    | (refine ⟨?_⟩ <;> intros <;> grind [upd_apply])

theorem reach_so (sk : Skeleton) (ho : StoreFirst sk) {s : State} (h : Reach sk s) : SO s := by
  induction h with
  | init => exact so_init
  | step a _ hs ih => exact so_step sk ho a ih hs

/-! ### a thread that is not at a blocking operation has an enabled own step -/

theorem bc_pubLookup_isSome (sk : Skeleton) (b : Bc.State) (p k v : Nat) (hc : b.crashed = false)
    (hl : b.lockHolder = none) (hs : b.pubs p = .start k v) :
    ∃ b', Bc.step sk b (.pubLookup p) = some b' := by
  simp only [Bc.step, hc, hl, hs, and_self, if_true]
  split
  · exact ⟨_, rfl⟩
  · split <;> exact ⟨_, rfl⟩

theorem bc_receive_isSome (sk : Skeleton) (b : Bc.State) (t k x : Nat) (hc : b.crashed = false)
    (hl : b.lockHolder = none) (hs : b.rcvs t = .absent) :
    ∃ b', Bc.step sk b (.receive t k x) = some b' := by
  simp only [Bc.step, hc, hl, hs, and_self, if_true]
  split
  · exact ⟨_, rfl⟩
  · split
    · exact ⟨_, rfl⟩
    · split <;> exact ⟨_, rfl⟩

theorem canStep_of (sk : Skeleton) {s : State} {th : Thread} (a : Act) (hm : th ∈ actThreads a)
    (h : (step sk s a).isSome = true) : CanStep sk s th := ⟨a, hm, h⟩

section
variable (sk : Skeleton) (hp : Prog sk) {s : State} (hr : Reach sk s)
include hp hr

theorem stub_can_step (c : Nat) (hl : live s (.stub c) = true) (hnp : (s.calls c).pc ≠ .written) :
    CanStep sk s (.stub c) := by
  obtain ⟨hc, hbc, hlk⟩ := alive sk hp.lv hr
  cases hpc : (s.calls c).pc with
  | absent => simp [live, hpc] at hl
  | returned => simp [live, hpc] at hl
  | written => exact absurd hpc hnp
  | marshalled =>
    have hab := ((reach_lk sk hr).early c (Or.inr hpc)).1
    obtain ⟨b', hb'⟩ := bc_receive_isSome sk s.bc c c (s.calls c).ctx hbc hlk hab
    refine canStep_of sk (.callReceive c) (by simp [actThreads]) ?_
    simp only [step, hc, hpc, hb', and_self, if_true]
    (repeat' split) <;> rfl
  | registered => exact canStep_of sk (.callSpawn c) (by simp [actThreads]) (by simp [step, hc, hpc])
  | spawned => exact canStep_of sk (.callWriteFail c 0) (by simp [actThreads]) (by simp [step, hc, hpc])
  | decoded => exact canStep_of sk (.callReturnOk c) (by simp [actThreads]) (by simp [step, hc, hpc, canRelease, hp.lv.freeNeverWaits, cl_free sk hp.lv hr])
  | panicking e =>
    exact canStep_of sk (.callRecover c e) (by simp [actThreads])
      (by simp [step, hc, hpc, hp.lv.recovers, canRelease, hp.lv.freeNeverWaits, cl_free sk hp.lv hr])

theorem waiter_can_step (c : Nat) (hl : live s (.waiter c) = true) (hnp : s.waiters c ≠ .recv) :
    CanStep sk s (.waiter c) := by
  cases hw : s.waiters c with
  | absent => simp [live, hw] at hl
  | exited => simp [live, hw] at hl
  | recv => exact absurd hw hnp
  | start =>
    obtain ⟨s1, h1, _⟩ := waiterRecvCall_enabled sk hp.lv hr c hw
    exact canStep_of sk (.waiterRecvCall c) (by simp [actThreads]) (by simp [h1])
  | «have» r =>
    obtain ⟨s1, h1, _⟩ := waiterSend_enabled sk hp.lv hr c r hw
    exact canStep_of sk (.waiterSend c) (by simp [actThreads]) (by simp [h1])
  | sent =>
    obtain ⟨s1, h1, _⟩ := waiterFree_enabled sk hp.lv hr c hw
    exact canStep_of sk (.waiterFree c) (by simp [actThreads]) (by simp [h1])

/-- a publisher before its lookup: the lookup never waits (the mutex is never held across a
    blocking operation) -/
theorem pub_start_can_step (p k v : Nat) (hs : s.bc.pubs p = .start k v) : CanStep sk s (.pub p) := by
  obtain ⟨hc, hbc, hlk⟩ := alive sk hp.lv hr
  obtain ⟨b', hb'⟩ := bc_pubLookup_isSome sk s.bc p k v hbc hlk hs
  exact canStep_of sk (.pubLookup p) (by simp [actThreads]) (by simp [step, hc, hb'])

/-- a thread inside `setErr` always has an enabled own step -/
theorem setter_can_step (t : Nat) (hl : live s (.setter t) = true) : CanStep sk s (.setter t) := by
  obtain ⟨hc, hbc, hlk⟩ := alive sk hp.lv hr
  cases ht : s.setters t with
  | absent => simp [live, ht] at hl
  | done => simp [live, ht] at hl
  | closedFirst e => exact absurd ht ((reach_so sk hp.order hr).no_closedFirst t e)
  | entered e =>
    exact canStep_of sk (.setErrStore t) (by simp [actThreads]) (by simp [step, hc, ht, hp.order.order])
  | stored e =>
    exact canStep_of sk (.setErrClose t) (by simp [actThreads])
      (by simp [step, Bc.step, hc, hbc, hlk, ht, hp.order.order])

theorem link_can_step (hl : live s .link = true) (hnp : s.link ≠ .waiting) : CanStep sk s .link := by
  obtain ⟨hc, _, _⟩ := alive sk hp.lv hr
  cases hk : s.link with
  | returned e => simp [live, hk] at hl
  | waiting => exact absurd hk hnp
  | running =>
    refine canStep_of sk .linkCheck (by simp [actThreads]) ?_
    simp only [step, hc, hk, and_self, if_true]; split <;> rfl
  | woken => exact canStep_of sk .linkWake (by simp [actThreads]) (by simp [step, hc, hk])
  | read e => exact canStep_of sk .linkReturn (by simp [actThreads]) (by simp [step, hc, hk])

/-- Every live thread that is not at one of the blocking operations has an enabled own step. -/
theorem not_parked_can_step (th : Thread) (hl : live s th = true) (hnp : parked s th = false) :
    CanStep sk s th := by
  cases th with
  | stub c => exact stub_can_step sk hp hr c hl (by simpa [parked] using hnp)
  | waiter c => exact waiter_can_step sk hp hr c hl (by simpa [parked] using hnp)
  | pub p =>
    cases hs : s.bc.pubs p with
    | start k v => exact pub_start_can_step sk hp hr p k v hs
    | holding k v g => simp [parked, hs] at hnp
    | absent => simp [live, hs] at hl
    | done d => simp [live, hs] at hl
  | setter t => exact setter_can_step sk hp hr t hl
  | link => exact link_can_step sk hp hr hl (by simpa [parked] using hnp)

end

/-! ### the hand-off -/

/-- a publisher and a waiter at the two ends of the same value channel: the hand-off is enabled -/
theorem rendezvous_same_gen (sk : Skeleton) (hp : Prog sk) {s : State} (hr : Reach sk s) (c p k v g x : Nat)
    (hw : s.waiters c = .recv) (hrc : s.bc.rcvs c = .waiting c g x) (hpb : s.bc.pubs p = .holding k v g) :
    ∃ s', step sk s (.waiterGetsValue c p) = some s' := by
  obtain ⟨hc, hbc, _⟩ := alive sk hp.lv hr
  have hnc := reach_nc sk hp.lv.hyg hp.lv.nochan hr
  have he := (reach_wf sk hr).pub_entry p k v g hpb
  cases hent : s.bc.entries g with
  | none => simp [hent] at he
  | some e =>
    have hch := hnc.nochan g e hent
    exact ⟨_, by simp [step, Bc.step, hc, hbc, hw, hrc, hpb, hent, hch, hp.selChan, hp.selSend]; rfl⟩

end Panrpc.Ep
