/-
  Lemmas/BcMailbox.lean — M1 refines the sequential per-key mailbox (Spec/Mailbox.lean):
  the abstraction function, the action mapping and the forward simulation (C19, stretch goal).

  (definitions: Model/BroadcasterAbs.lean)
      abs     : Bc.State → Mb.MState     forgets entries' channels, signals and entry contexts,
                                         the lock, the crash flag, `have` vs `waiting`
      absAct  : Bc.State → Bc.Act → Option Mb.MAct      `none` = the step is invisible (stutter)

  `refines_step`: for every reachable `s` and `step sk s a = some s'`, either `abs s' = abs s` or
  `specStep (abs s) m = some (abs s')` with `absAct s a = some m`.  Source facts used: `Hyg`,
  `NoChanClose`, `Wakes` (the same bundles C19 rests on; `Wakes.onlyClosed` is what makes every `Receive` a
  `register` of the specification, which refuses on a closed mailbox only).
-/
import Panrpc.Model.BroadcasterAbs
import Panrpc.Lemmas.BcWake
import Panrpc.Lemmas.BcDeliv

namespace Panrpc.Bc
open Panrpc

/-! ### plumbing: abstraction commutes with point updates -/

theorem absPub_upd (f : Nat → Pub) (p : Nat) (x : Pub) :
    (fun q => absPub (upd f p x q)) = upd (fun q => absPub (f q)) p (absPub x) := by
  funext q; simp only [upd]; split <;> rfl

theorem absRcv_upd (f : Nat → Rcv) (t : Nat) (x : Rcv) :
    (fun q => absRcv (upd f t x q)) = upd (fun q => absRcv (f q)) t (absRcv x) := by
  funext q; simp only [upd]; split <;> rfl

theorem ownerOf_upd (f : Nat → Option Entry) (g : Nat) (x : Option Entry) :
    (fun q => ownerOf (upd f g x q)) = upd (fun q => ownerOf (f q)) g (ownerOf x) := by
  funext q; simp only [upd]; split <;> rfl

theorem upd_self {α : Type} (f : Nat → α) (k : Nat) (v : α) (h : f k = v) : upd f k v = f := by
  funext i; simp only [upd]; split
  · rename_i hi; rw [hi, h]
  · rfl

/-! ### one more invariant: an entry context is done only for a reason the specification knows -/

structure CD (s : State) : Prop where
  ctx_reason : ∀ g e, s.entries g = some e → e.ctxDone = true →
      s.table e.key ≠ some g ∨ s.ctxs e.parent = true

theorem cd_init : CD init := by constructor; simp [init]

theorem cd_step (sk : Skeleton) (hy : Hyg sk) {s s' : State} (a : Act)
    (hw : WF s) (h : CD s) (hs : step sk s a = some s') : CD s' := by
  obtain ⟨h1⟩ := h
  obtain ⟨w1, w2, w3, w4, w5, w6, w7⟩ := hw
  obtain ⟨y1, y2⟩ := hy
  cases a <;> simp only [step] at hs
  all_goals (repeat' split at hs) <;> (try simp at hs) <;> (try subst hs)
  all_goals first
    | exact ⟨h1⟩
    | (refine ⟨?_⟩ <;> (try simp only [upd_apply]) <;> intros <;> grind [upd_apply, freeEntry, closeEntry])

/-! ### the forward simulation, action by action -/


@[simp] theorem absRcv_absent : absRcv .absent = .absent := rfl
@[simp] theorem absRcv_refused : absRcv .refused = .refused := rfl
@[simp] theorem absRcv_have (k g x : Nat) : absRcv (.have k g x) = .bound k g x .none := rfl
@[simp] theorem absRcv_waiting (k g x : Nat) : absRcv (.waiting k g x) = .bound k g x .none := rfl
@[simp] theorem absRcv_gotVal (k g x v : Nat) : absRcv (.gotVal k g x v) = .bound k g x (.val v) := rfl
@[simp] theorem absRcv_gotCtx (k g x : Nat) : absRcv (.gotCtx k g x) = .bound k g x .ctxErr := rfl
@[simp] theorem absRcv_gotClosed (k g x : Nat) : absRcv (.gotClosed k g x) = .bound k g x .closedErr := rfl
@[simp] theorem absPub_absent : absPub .absent = .absent := rfl
@[simp] theorem absPub_start (k v : Nat) : absPub (.start k v) = .pending k v none := rfl
@[simp] theorem absPub_holding (k v g : Nat) : absPub (.holding k v g) = .pending k v (some g) := rfl
@[simp] theorem absPub_done_true : absPub (.done true) = .delivered := rfl
@[simp] theorem absPub_done_false : absPub (.done false) = .dropped := rfl
@[simp] theorem ownerOf_some (e : Entry) : ownerOf (some e) = e.parent := rfl

/-- one M1 step is a stutter or the specification step `absAct` names -/
def Sim (s : State) (a : Act) (s' : State) : Prop :=
  abs s' = abs s ∨ ∃ m, absAct s a = some m ∧ Mb.specStep (abs s) m = some (abs s')

set_option linter.unusedSectionVars false
section
variable (sk : Skeleton) (hy : Hyg sk) (hn : NoChanClose sk) (hk : Wakes sk) {s s' : State}
  (hw : WF s) (hc : NC s) (hwk : WK s) (hcd : CD s)
include hy hn hk hw hc hwk hcd

set_option linter.unusedSimpArgs false
macro "sim_fin" : tactic => `(tactic| (
  refine Or.inr ⟨_, rfl, ?_⟩
  simp_all [Mb.specStep, abs, absRcv_upd, absPub_upd, ownerOf_upd]))

theorem sim_receive (t k x : Nat) (hs : step sk s (.receive t k x) = some s') : Sim s (.receive t k x) s' := by
  have hrf := hk.refuses
  have hoc := hk.onlyClosed
  simp only [step] at hs
  (repeat' split at hs) <;> (try simp at hs) <;> (try subst hs)
  all_goals sim_fin

theorem sim_rcvCall (t : Nat) (hs : step sk s (.rcvCall t) = some s') : Sim s (.rcvCall t) s' := by
  simp only [step] at hs
  (repeat' split at hs) <;> (try simp at hs) <;> (try subst hs)
  · rename_i k g x hrc
    left
    simp only [abs, absRcv_upd]
    rw [upd_self _ t _ (by simp [hrc])]
  all_goals (refine Or.inr ⟨.again t, by simp [absAct, *], ?_⟩; simp_all [Mb.specStep, abs, absRcv_upd])

/-- the rendezvous IS the specification's hand-off (never a stutter) -/
theorem sim_rcvValue_spec (t p : Nat) (hs : step sk s (.rcvValue t p) = some s') :
    Mb.specStep (abs s) (.handoff p t) = some (abs s') := by
  simp only [step] at hs
  (repeat' split at hs) <;> (try simp at hs) <;> (try subst hs)
  all_goals
    rename_i k g x pk v pg hrc hpb _ e hent hcond _
    obtain ⟨rfl, -, -, -⟩ := hcond
    have h1 := hw.pub_entry p pk v pg hpb
    have h2 := hw.rcv_entry t k pg (by simp [hrc, Rcv.binding])
    have hkk : pk = k := by simp [hent] at h1 h2; rw [← h1, h2]
    subst hkk
    simp_all [Mb.specStep, abs, absRcv_upd, absPub_upd]
    simp [absDel]

theorem sim_rcvValue (t p : Nat) (hs : step sk s (.rcvValue t p) = some s') : Sim s (.rcvValue t p) s' :=
  Or.inr ⟨_, rfl, sim_rcvValue_spec sk hy hn hk hw hc hwk hcd t p hs⟩

theorem sim_rcvChanClosed (t : Nat) (hs : step sk s (.rcvChanClosed t) = some s') : Sim s (.rcvChanClosed t) s' := by
  simp only [step] at hs
  (repeat' split at hs) <;> (try simp at hs) <;> (try subst hs)
  rename_i k g x hrc _ e hent hcond
  have := hc.nochan g e hent
  simp [this] at hcond

theorem sim_rcvDone (t : Nat) (hs : step sk s (.rcvDone t) = some s') : Sim s (.rcvDone t) s' := by
  simp only [step] at hs
  (repeat' split at hs) <;> (try simp at hs) <;> (try subst hs)
  rename_i k g x hrc _ e hent hcond
  have h2 := hw.rcv_entry t k g (by simp [hrc, Rcv.binding])
  have hkey : e.key = k := by simpa [hent] using h2
  have hgone : s.table k ≠ some g := by
    rw [← hkey]; exact hwk.sig_removed g e hent (by simp [Entry.signalled, hcond.1])
  sim_fin

theorem sim_rcvCtx (t : Nat) (hs : step sk s (.rcvCtx t) = some s') : Sim s (.rcvCtx t) s' := by
  simp only [step] at hs
  (repeat' split at hs) <;> (try simp at hs) <;> (try subst hs)
  sim_fin

theorem sim_pubStart (p k v : Nat) (hs : step sk s (.pubStart p k v) = some s') : Sim s (.pubStart p k v) s' := by
  simp only [step] at hs
  (repeat' split at hs) <;> (try simp at hs) <;> (try subst hs)
  sim_fin

theorem sim_pubLookup (p : Nat) (hs : step sk s (.pubLookup p) = some s') : Sim s (.pubLookup p) s' := by
  have hemp := hwk.closed_empty
  simp only [step] at hs
  (repeat' split at hs) <;> (try simp at hs) <;> (try subst hs)
  all_goals (cases hcl : s.closed <;> sim_fin)

theorem sim_pubCtx (p : Nat) (hs : step sk s (.pubCtx p) = some s') : Sim s (.pubCtx p) s' := by
  simp only [step] at hs
  (repeat' split at hs) <;> (try simp at hs) <;> (try subst hs)
  all_goals
    rename_i k v g hpb _ e hent hcond _
    have h1 := hw.pub_entry p k v g hpb
    have hkey : e.key = k := by simpa [hent] using h1
    have hreason := hcd.ctx_reason g e hent hcond.1
    rw [hkey] at hreason
    refine Or.inr ⟨_, rfl, ?_⟩
    rcases hreason with h | h <;> simp_all [Mb.specStep, abs, absRcv_upd, absPub_upd, ownerOf_upd]

theorem sim_pubSendClosed (p : Nat) (hs : step sk s (.pubSendClosed p) = some s') : Sim s (.pubSendClosed p) s' := by
  simp only [step] at hs
  (repeat' split at hs) <;> (try simp at hs) <;> (try subst hs)
  exact Or.inl rfl

theorem sim_free (k : Nat) (hs : step sk s (.free k) = some s') : Sim s (.free k) s' := by
  have hdel := hy.freeDeletes
  simp only [step] at hs
  (repeat' split at hs) <;> (try simp at hs) <;> (try subst hs)
  all_goals try (exact Or.inl rfl)
  rename_i g hk _ e hent hcond
  refine Or.inr ⟨_, rfl, ?_⟩
  simp only [Mb.specStep, abs, ownerOf_upd, hdel, if_true]
  rw [upd_self _ g _ (by simp [hent])]

theorem sim_close (hs : step sk s .close = some s') : Sim s .close s' := by
  have hclr := hy.closeClears
  have hset := hk.closeSets
  simp only [step] at hs
  (repeat' split at hs) <;> (try simp at hs) <;> (try subst hs)
  refine Or.inr ⟨_, rfl, ?_⟩
  simp only [Mb.specStep, abs, hclr, hset, if_true, Bool.or_true]
  refine congrArg some (Mb.MState.ext rfl rfl rfl ?_ rfl rfl rfl rfl)
  funext g
  show ownerOf (s.entries g) = ownerOf _
  cases s.entries g with
  | none => rfl
  | some e => simp only []; split <;> rfl

theorem sim_ctxCancel (x : Nat) (hs : step sk s (.ctxCancel x) = some s') : Sim s (.ctxCancel x) s' := by
  simp only [step] at hs
  (repeat' split at hs) <;> (try simp at hs) <;> (try subst hs)
  sim_fin

theorem sim_ctxPropagate (g : Nat) (hs : step sk s (.ctxPropagate g) = some s') : Sim s (.ctxPropagate g) s' := by
  simp only [step] at hs
  (repeat' split at hs) <;> (try simp at hs) <;> (try subst hs)
  rename_i e hent hcond
  left
  simp only [abs, ownerOf_upd]
  rw [upd_self _ g _ (by simp [hent])]

/-- Forward simulation, one step. -/
theorem sim_step (a : Act) (hs : step sk s a = some s') : Sim s a s' := by
  cases a with
  | receive t k x => exact sim_receive sk hy hn hk hw hc hwk hcd t k x hs
  | rcvCall t => exact sim_rcvCall sk hy hn hk hw hc hwk hcd t hs
  | rcvValue t p => exact sim_rcvValue sk hy hn hk hw hc hwk hcd t p hs
  | rcvChanClosed t => exact sim_rcvChanClosed sk hy hn hk hw hc hwk hcd t hs
  | rcvDone t => exact sim_rcvDone sk hy hn hk hw hc hwk hcd t hs
  | rcvCtx t => exact sim_rcvCtx sk hy hn hk hw hc hwk hcd t hs
  | pubStart p k v => exact sim_pubStart sk hy hn hk hw hc hwk hcd p k v hs
  | pubLookup p => exact sim_pubLookup sk hy hn hk hw hc hwk hcd p hs
  | pubCtx p => exact sim_pubCtx sk hy hn hk hw hc hwk hcd p hs
  | pubSendClosed p => exact sim_pubSendClosed sk hy hn hk hw hc hwk hcd p hs
  | free k => exact sim_free sk hy hn hk hw hc hwk hcd k hs
  | close => exact sim_close sk hy hn hk hw hc hwk hcd hs
  | ctxCancel x => exact sim_ctxCancel sk hy hn hk hw hc hwk hcd x hs
  | ctxPropagate g => exact sim_ctxPropagate sk hy hn hk hw hc hwk hcd g hs
end
/-! ### reachable states -/

theorem mb_reach_inv (sk : Skeleton) (hy : Hyg sk) (hn : NoChanClose sk) (hk : Wakes sk) {s : State}
    (h : Reach sk s) : WF s ∧ NC s ∧ WK s ∧ CD s := by
  induction h with
  | init => exact ⟨wf_init, nc_init, wk_init, cd_init⟩
  | step a _ hs ih =>
    obtain ⟨i1, i2, i3, i4⟩ := ih
    exact ⟨wf_step sk a i1 hs, nc_step sk hy hn a i1 i2 hs, wk_step sk hy hk a i1 i3 hs, cd_step sk hy a i1 i4 hs⟩

/-- Forward simulation: every step from a reachable M1 state is a stutter or the specification
    step named by `absAct`. -/
theorem refines_step (sk : Skeleton) (hy : Hyg sk) (hn : NoChanClose sk) (hk : Wakes sk) {s s' : State}
    (hr : Reach sk s) (a : Act) (hs : step sk s a = some s') : Sim s a s' := by
  obtain ⟨i1, i2, i3, i4⟩ := mb_reach_inv sk hy hn hk hr
  exact sim_step sk hy hn hk i1 i2 i3 i4 a hs

theorem abs_init : abs init = Mb.init := rfl

/-- Every reachable M1 state abstracts to a reachable state of the specification. -/
theorem refines_reach (sk : Skeleton) (hy : Hyg sk) (hn : NoChanClose sk) (hk : Wakes sk) {s : State}
    (hr : Reach sk s) : Mb.Reach (abs s) := by
  induction hr with
  | init => rw [abs_init]; exact Mb.Reach.init
  | step a hr hs ih =>
    rcases refines_step sk hy hn hk hr a hs with h | ⟨m, _, hm⟩
    · rw [h]; exact ih
    · exact Mb.Reach.step m ih hm

/-- the rendezvous of a reachable state is the specification's hand-off -/
theorem refines_handoff (sk : Skeleton) (hy : Hyg sk) (hn : NoChanClose sk) (hk : Wakes sk) {s s' : State}
    (hr : Reach sk s) (t p : Nat) (hs : step sk s (.rcvValue t p) = some s') :
    Mb.specStep (abs s) (.handoff p t) = some (abs s') := by
  obtain ⟨i1, i2, i3, i4⟩ := mb_reach_inv sk hy hn hk hr
  exact sim_rcvValue_spec sk hy hn hk i1 i2 i3 i4 t p hs

theorem abs_handoffs_pub (s : State) : (abs s).handoffs.map Mb.Handoff.pub = s.deliveries.map Delivery.pub := by
  simp [abs, absDel, List.map_map, Function.comp_def]

end Panrpc.Bc
