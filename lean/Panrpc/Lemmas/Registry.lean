/-
  Lemmas/Registry.lean — source facts M4's theorems rest on, and the program-counter
  invariant of one link (helper lemmas; the property theorems are in Props/C13, C14, C15Reg).
-/
import Panrpc.Model.Registry

namespace Panrpc.Rg

/-- The facts about `LinkMessage` / `ForRemotes` / the request handler that the life-cycle
    theorems need.  Each is a field of the regenerated `Skeleton`. -/
structure Facts (sk : Skeleton) : Prop where
  perLinkId      : sk.rgPerLinkRemoteId = true
  perLinkBc      : sk.rgPerLinkBroadcaster = true
  perLinkSlot    : sk.rgPerLinkFatalSlot = true
  perLinkRemote  : sk.rgPerLinkRemoteValue = true
  regAtomic      : sk.rgRegisterAtomic = true
  unregAtomic    : sk.rgUnregisterAtomic = true
  regConnect     : sk.rgRegistryConnectHook = true
  regDisconnect  : sk.rgRegistryDisconnectHook = true
  linkConnect    : sk.rgLinkConnectHook = true
  linkDisconnect : sk.rgLinkDisconnectHook = true
  unregDeferred  : sk.rgUnregisterDeferredAfterWait = true
  regBeforeLoops : sk.rgRegisterBeforeLoops = true
  waitsBoth      : sk.rgWaitsForBothLoops = true
  enumUnderLock  : sk.rgForRemotesUnderLock = true
  ctxCarriesId   : sk.reqCtxCarriesRemoteId = true
  reqExits       : sk.reqLoopExitsOnReadErr = true
  respExits      : sk.respLoopExitsOnReadErr = true

/-- what `setErr` of a link does to that link when the slot and the table are per link -/
def Link.fail (k : Link) : Link := { k with ended := true, closed := true, inflight := 0 }

@[simp, grind =] theorem fail_setup (k : Link) : k.fail.setup = k.setup := rfl
@[simp, grind =] theorem fail_id (k : Link) : k.fail.id = k.id := rfl
@[simp, grind =] theorem fail_reqLoop (k : Link) : k.fail.reqLoop = k.reqLoop := rfl
@[simp, grind =] theorem fail_respLoop (k : Link) : k.fail.respLoop = k.respLoop := rfl
@[simp, grind =] theorem fail_pendingReq (k : Link) : k.fail.pendingReq = k.pendingReq := rfl
@[simp, grind =] theorem fail_ctx (k : Link) : k.fail.ctxCancelled = k.ctxCancelled := rfl
@[simp, grind =] theorem fail_reads (k : Link) : k.fail.readsFail = k.readsFail := rfl
@[simp, grind =] theorem fail_ended (k : Link) : k.fail.ended = true := rfl
@[simp, grind =] theorem fail_closed (k : Link) : k.fail.closed = true := rfl
@[simp, grind =] theorem fail_inflight (k : Link) : k.fail.inflight = 0 := rfl

theorem setErrLinks_facts {sk : Skeleton} (h : Facts sk) (links : Nat → Link) (l : Nat) :
    setErrLinks sk links l = upd links l (links l).fail := by
  funext i
  by_cases hi : i = l
  · subst hi; simp [setErrLinks, upd, Link.fail]
  · simp [setErrLinks, upd, hi, h.perLinkBc, h.perLinkSlot]

theorem connectEvs_facts {sk : Skeleton} (h : Facts sk) (l i : Nat) :
    connectEvs sk l i = [⟨.linkConnect, l, i⟩, ⟨.regConnect, l, i⟩] := by
  simp [connectEvs, h.regConnect, h.linkConnect]

theorem connectEvs_facts' {sk : Skeleton} (h : Facts sk) (l : Nat) :
    connectEvs sk l = fun i => [⟨.linkConnect, l, i⟩, ⟨.regConnect, l, i⟩] := by
  funext i; exact connectEvs_facts h l i

theorem disconnectEvs_facts {sk : Skeleton} (h : Facts sk) (l i : Nat) :
    disconnectEvs sk l i = [⟨.linkDisconnect, l, i⟩, ⟨.regDisconnect, l, i⟩] := by
  simp [disconnectEvs, h.regDisconnect, h.linkDisconnect]

theorem disconnectEvs_facts' {sk : Skeleton} (h : Facts sk) (l : Nat) :
    disconnectEvs sk l = fun i => [⟨.linkDisconnect, l, i⟩, ⟨.regDisconnect, l, i⟩] := by
  funext i; exact disconnectEvs_facts h l i

/-- The step function with every source fact of `Facts` substituted: the same transition
    system, specialised.  `step_facts` proves it equal to `step sk`; the invariant proofs
    work on this form. -/
def stepT (watcher : Bool) (s : State) (a : Act) : Option State :=
  let l := a.link
  let k := s.links l
  match a.op with
  | .linkStart =>
    if k.setup = .absent then
      some { s with links := upd s.links l { k with setup := .started }, lastImpl := l }
    else none
  | .setupRegister =>
    if k.setup = .started then
      some { s with remotes := upd s.remotes s.nextId (some l), nextId := s.nextId + 1,
                    links := upd s.links l { k with setup := .registered, id := some s.nextId },
                    hookLog := ⟨.linkConnect, l, s.nextId⟩ :: ⟨.regConnect, l, s.nextId⟩ :: s.hookLog }
    else none
  | .setupConnectHooks =>
    if k.setup = .inserted then
      match k.id with
      | some i =>
        some { s with links := upd s.links l { k with setup := .registered },
                      hookLog := ⟨.linkConnect, l, i⟩ :: ⟨.regConnect, l, i⟩ :: s.hookLog }
      | none => none
    else none
  | .loopsStart =>
    if k.setup = .registered then
      some { s with links := upd s.links l { k with
        setup := .waiting,
        reqLoop := if k.reqLoop = .notStarted then .reading else k.reqLoop,
        respLoop := if k.respLoop = .notStarted then .reading else k.respLoop } }
    else none
  | .reqRead =>
    if k.reqLoop = .reading ∧ k.readsFail = false then
      some { s with links := upd s.links l { k with pendingReq := k.pendingReq + 1 } }
    else none
  | .reqHandle =>
    if 0 < k.pendingReq then
      some { s with links := upd s.links l { k with pendingReq := k.pendingReq - 1 },
                    invocations := ⟨l, k.id⟩ :: s.invocations }
    else none
  | .reqReadFails =>
    if k.reqLoop = .reading ∧ (k.readsFail = true ∨ k.ctxCancelled = true) then
      some { s with links := upd s.links l { k.fail with reqLoop := .exited } }
    else none
  | .reqBadFrame =>
    if k.reqLoop = .reading ∧ k.readsFail = false then
      some { s with links := upd s.links l { k.fail with reqLoop := .exited } }
    else none
  | .respRead tgt =>
    if k.respLoop = .reading ∧ k.readsFail = false then
      match tgt with
      | none => some s
      | some t =>
        if t = l ∧ 0 < k.inflight then
          some { s with links := upd s.links l { k with inflight := k.inflight - 1 },
                        delivered := ⟨l, l⟩ :: s.delivered }
        else none
    else none
  | .respReadFails =>
    if k.respLoop = .reading ∧ (k.readsFail = true ∨ k.ctxCancelled = true) then
      some { s with links := upd s.links l { k.fail with respLoop := .exited } }
    else none
  | .respBadFrame =>
    if k.respLoop = .reading ∧ k.readsFail = false then
      some { s with links := upd s.links l { k.fail with respLoop := .exited } }
    else none
  | .setupLoopsDone =>
    if k.setup = .waiting ∧ k.reqLoop = .exited ∧ k.respLoop = .exited then
      some { s with links := upd s.links l { k with setup := .loopsDone } }
    else none
  | .setupUnregister =>
    if k.setup = .loopsDone then
      match k.id with
      | some i =>
        some { s with remotes := upd s.remotes i none,
                      links := upd s.links l { k with setup := .unregistered },
                      hookLog := ⟨.linkDisconnect, l, i⟩ :: ⟨.regDisconnect, l, i⟩ :: s.hookLog }
      | none => none
    else none
  | .setupDisconnectHooks =>
    if k.setup = .deleted then
      match k.id with
      | some i =>
        some { s with links := upd s.links l { k with setup := .unregistered },
                      hookLog := ⟨.linkDisconnect, l, i⟩ :: ⟨.regDisconnect, l, i⟩ :: s.hookLog }
      | none => none
    else none
  | .callOn =>
    if k.id.isSome = true then
      if k.closed = false ∧ k.ctxCancelled = false then
        some { s with links := upd s.links l { k with inflight := k.inflight + 1 },
                      written := ⟨l, l, some l⟩ :: s.written }
      else
        some { s with links := upd s.links l k.fail }
    else none
  | .callDone =>
    if 0 < k.inflight then
      some { s with links := upd s.links l { k with inflight := k.inflight - 1 } }
    else none
  | .cancel =>
    if k.setup ≠ .absent then
      some { s with links := upd s.links l { k with ctxCancelled := true } }
    else none
  | .ctxWatch =>
    if k.setup ≠ .absent ∧ k.ctxCancelled = true ∧ watcher = true then
      some { s with links := upd s.links l k.fail }
    else none
  | .failReads =>
    if k.setup ≠ .absent then
      some { s with links := upd s.links l { k with readsFail := true } }
    else none
  | .faultOn =>
    if k.setup ≠ .absent then
      some { s with links := upd s.links l k.fail }
    else none

theorem upd_upd {α : Type} (f : Nat → α) (k : Nat) (a b : α) : upd (upd f k a) k b = upd f k b := by
  funext i; simp only [upd]; split <;> rfl

theorem step_facts {sk : Skeleton} (h : Facts sk) (s : State) (a : Act) :
    step sk s a = stepT sk.watcherCallsSetErr s a := by
  obtain ⟨l, op⟩ := a
  cases op
  case respRead tgt =>
    simp only [step, stepT, h.perLinkBc]
    cases tgt with
    | none => rfl
    | some t =>
      by_cases ht : t = l
      · subst ht; simp
      · simp [ht]
  all_goals
    simp only [step, stepT, h.perLinkId, h.perLinkBc, h.perLinkRemote, h.regAtomic, h.unregAtomic,
      h.unregDeferred, h.regBeforeLoops, h.waitsBoth, h.ctxCarriesId, h.reqExits, h.respExits,
      setErrLinks_facts h, connectEvs_facts h, disconnectEvs_facts h, upd_upd, upd_same,
      List.cons_append, List.nil_append] <;>
    (try simp) <;> (try rfl)

/-- every step of link `l` writes `links` at `l` only -/
theorem isoT_links (w : Bool) {s s1 : State} {l l' : Nat} (op : Op) (hne : l' ≠ l)
    (hs : stepT w s ⟨l, op⟩ = some s1) : s1.links l' = s.links l' := by
  cases op <;> simp only [stepT] at hs
  all_goals (repeat' split at hs) <;> (try simp at hs) <;> (try subst hs)
  all_goals (first | rfl | simp [upd, hne] | grind [upd_apply])

end Panrpc.Rg
