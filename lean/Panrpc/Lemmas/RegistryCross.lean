/-
  Lemmas/RegistryCross.lean — the general (∀ sk, Facts sk → …) forms of the C13 statements of
  M4 (identity, routing, isolation) and of the registry part of C15.
-/
import Panrpc.Lemmas.RegistryLife

namespace Panrpc.Rg

/-! ### C13: identity -/

theorem identity_consistent {sk : Skeleton} (hF : Facts sk) : ∀ s, Reach sk s →
    ∀ v, v ∈ s.invocations →
    ∃ i, v.rid = some i ∧ (s.links v.link).id = some i ∧
      ⟨.regConnect, v.link, i⟩ ∈ s.hookLog ∧ ⟨.linkConnect, v.link, i⟩ ∈ s.hookLog ∧
      (∀ j, s.remotes j = some v.link → j = i) ∧
      (⟨.regDisconnect, v.link, i⟩ ∉ s.hookLog → s.remotes i = some v.link) ∧
      (∀ l', (s.links l').id = some i → l' = v.link) := by
  intro s hr v hv
  have hi := reach_inv hF hr
  obtain ⟨h1, h2⟩ := hi.ghost.inv_id v hv
  cases hrid : v.rid with
  | none => exact absurd hrid h2
  | some i =>
    have hid : (s.links v.link).id = some i := by rw [← h1, hrid]
    refine ⟨i, rfl, hid, (regConnect_mem hi.log _ i).mpr hid, (linkConnect_mem hi.log _ i).mpr hid,
      ?_, ?_, ?_⟩
    · intro j hj
      have := (hi.tab.rem_owner j _ hj).1
      rw [hid] at this; exact (Option.some.inj this).symm
    · intro hnd
      exact (enumeration_eq_live hi i v.link).mpr ⟨(regConnect_mem hi.log _ i).mpr hid, hnd⟩
    · intro l' hl'
      exact hi.tab.id_inj l' v.link i hl' hid

/-! ### C13: routing -/

theorem routing {sk : Skeleton} (hF : Facts sk) : ∀ s, Reach sk s →
    (∀ w, w ∈ s.written → w.writer = w.via ∧ w.table = some w.via) ∧
    (∀ d, d ∈ s.delivered → d.caller = d.reader) :=
  fun _ hr => ⟨(reach_inv hF hr).ghost.written, (reach_inv hF hr).ghost.delivered⟩

/-! ### C13: isolation -/

theorem isolation {sk : Skeleton} (hF : Facts sk) : ∀ s, Reach sk s →
    ∀ (l l' : Nat) (a : Op) (s1 : State), l' ≠ l → step sk s ⟨l, a⟩ = some s1 →
    s1.links l' = s.links l' ∧
    (∀ i, s1.remotes i = some l' ↔ s.remotes i = some l') ∧
    (∀ b, ¬(a = .setupRegister ∧ b = .setupRegister) →
      (step sk s1 ⟨l', b⟩).map (fun t => t.links l') = (step sk s ⟨l', b⟩).map (fun t => t.links l')) ∧
    (∀ b, (step sk s1 ⟨l', b⟩).map (fun t => (t.links l').eraseId) =
          (step sk s ⟨l', b⟩).map (fun t => (t.links l').eraseId)) := by
  intro s hr l l' a s1 hne hs
  have hi := reach_inv hF hr
  have hs' := hs
  rw [step_facts hF] at hs'
  have hk := isoT_links _ a hne hs'
  refine ⟨hk, isoT_remotes _ a hne hi.pc hi.tab hs', ?_, ?_⟩
  · intro b hb
    rw [step_facts hF, step_facts hF]
    apply stepT_local _ s s1 l' b hk
    by_cases hbr : b = .setupRegister
    · right
      have : a ≠ .setupRegister := fun ha => hb ⟨ha, hbr⟩
      exact stepT_nextId _ a this hs'
    · left; exact hbr
  · intro b
    rw [step_facts hF, step_facts hF]
    exact stepT_local_eraseId _ s s1 l' b hk

/-- the commuting-square form: whatever `l'` could do before `l`'s action it can do after it,
    with the same effect on its own component and on the table entries it owns -/
theorem isolation_commute {sk : Skeleton} (hF : Facts sk) : ∀ s, Reach sk s →
    ∀ (l l' : Nat) (a b : Op) (s1 s2 : State), l' ≠ l →
    ¬(a = .setupRegister ∧ b = .setupRegister) →
    step sk s ⟨l, a⟩ = some s1 → step sk s ⟨l', b⟩ = some s2 →
    ∃ s12, step sk s1 ⟨l', b⟩ = some s12 ∧ s12.links l' = s2.links l' ∧
      ∀ i, s12.remotes i = some l' ↔ s2.remotes i = some l' := by
  intro s hr l l' a b s1 s2 hne hab h1 h2
  have h := (isolation hF s hr l l' a s1 hne h1).2.2.1 b hab
  rw [h2] at h
  cases h12 : step sk s1 ⟨l', b⟩ with
  | none => simp [h12] at h
  | some s12 =>
    simp only [h12, Option.map_some, Option.some.injEq] at h
    refine ⟨s12, rfl, h, ?_⟩
    have i12 := reach_inv hF (Reach.step _ (Reach.step _ hr h1) h12)
    have i2 := reach_inv hF (Reach.step _ hr h2)
    intro i
    rw [owned_iff i12.tab, owned_iff i2.tab, h]

/-- a whole run of other links' actions — faults, cancellations, failing reads, teardown
    included — leaves `l'`'s component and the table entries it owns unchanged -/
theorem isolation_run {sk : Skeleton} (hF : Facts sk) (l' : Nat) : ∀ (acts : List Act) (s s' : State),
    Reach sk s → (∀ a, a ∈ acts → a.link ≠ l') → run sk s acts = some s' →
    s'.links l' = s.links l' ∧ ∀ i, s'.remotes i = some l' ↔ s.remotes i = some l' := by
  intro acts
  induction acts with
  | nil => intro s s' _ _ hrun; simp [run, runFrom] at hrun; subst hrun; exact ⟨rfl, fun _ => Iff.rfl⟩
  | cons a as ih =>
    intro s s' hr hall hrun
    simp only [run, runFrom] at hrun
    cases hst : step sk s a with
    | none => simp [hst] at hrun
    | some s1 =>
      simp only [hst] at hrun
      have ha : a.link ≠ l' := hall a (by simp)
      obtain ⟨l, op⟩ := a
      have hiso := isolation hF s hr l l' op s1 (fun h => ha h.symm) hst
      obtain ⟨e1, e2⟩ := ih s1 s' (Reach.step _ hr hst) (fun b hb => hall b (by simp [hb])) hrun
      exact ⟨e1.trans hiso.1, fun i => (e2 i).trans (hiso.2.1 i)⟩

/-! ### C15, registry part -/

theorem unregistered_final_run {sk : Skeleton} (hF : Facts sk) (l : Nat) : ∀ (acts : List Act) (s s' : State),
    (s.links l).setup = .unregistered → run sk s acts = some s' →
    (s'.links l).setup = .unregistered := by
  intro acts
  induction acts with
  | nil => intro s s' hu hrun; simp [run, runFrom] at hrun; subst hrun; exact hu
  | cons a as ih =>
    intro s s' hu hrun
    simp only [run, runFrom] at hrun
    cases hst : step sk s a with
    | none => simp [hst] at hrun
    | some s1 =>
      simp only [hst] at hrun
      rw [step_facts hF] at hst
      exact ih s1 s' (unregisteredT_final _ a l hu hst) hrun

theorem not_enumerated_after_teardown {sk : Skeleton} (hF : Facts sk) : ∀ s, Reach sk s → ∀ l,
    (s.links l).setup = .unregistered →
    ∀ acts s', run sk s acts = some s' →
      (s'.links l).setup = .unregistered ∧ ∀ i, s'.remotes i ≠ some l := by
  intro s hr l hu acts s' hrun
  have hu' := unregistered_final_run hF l acts s s' hu hrun
  refine ⟨hu', ?_⟩
  intro i hrm
  have hi' := reach_inv hF (reach_of_run _ _ hr hrun)
  have := (hi'.tab.rem_owner i l hrm).2
  simp [hu', Setup.live] at this

theorem setup_and_loops_exit {sk : Skeleton} (hF : Facts sk) : ∀ s, Reach sk s → ∀ l,
    (s.links l).setup ≠ .absent → (s.links l).ctxCancelled = true → (s.links l).readsFail = true →
    (∀ a, a ∈ exitRun (s.links l) l → a.link = l) ∧ (exitRun (s.links l) l).length ≤ 6 ∧
    ∃ s', run sk s (exitRun (s.links l) l) = some s' ∧
      (s'.links l).setup = .unregistered ∧ (s'.links l).reqLoop = .exited ∧
      (s'.links l).respLoop = .exited ∧ ∀ i, s'.remotes i ≠ some l := by
  intro s hr l hna hc hf
  have hi := reach_inv hF hr
  by_cases hu : (s.links l).setup = .unregistered
  · simp only [exitRun, hu, if_true]
    have hl := (hi.pc l).late (Or.inr hu)
    refine ⟨by simp, by simp, s, rfl, hu, hl.1, hl.2, ?_⟩
    exact (not_enumerated_after_teardown hF s hr l hu [] s rfl).2
  · simp only [exitRun, hu, if_false]
    have hset : (s.links l).setup = .started ∨ (s.links l).setup = .registered ∨
        (s.links l).setup = .waiting ∨ (s.links l).setup = .loopsDone := by
      have := (hi.pc l).no_ins; have := (hi.pc l).no_del
      cases hsu : (s.links l).setup <;> simp_all
    obtain ⟨h1, h2, _, s', hrun, e1, e2, e3, e4, _⟩ := disconnect_reachable hF s hr l hc hf hset
    exact ⟨h1, h2, s', hrun, e1, e2, e3, e4⟩

end Panrpc.Rg
