/-
  Lemmas/EndpointFatal.lean — invariants of the fatal-error slot, the ghost `fatalLog`, the
  Link thread and the order of the two halves of `setErr` (C16, C03).
-/
import Panrpc.Lemmas.Endpoint
import Panrpc.Lemmas.EndpointBc

namespace Panrpc.Ep
open Panrpc

/-! ### the store critical section, field by field (so that proofs never see the list append) -/

def snoc (l : List Nat) (e : Nat) : List Nat := l ++ [e]

theorem snoc_ne_nil (l : List Nat) (e : Nat) : snoc l e ≠ [] := by simp [snoc]
theorem head?_snoc (l : List Nat) (e : Nat) : (snoc l e).head? = firstOr l.head? e := by
  cases l <;> simp [snoc, firstOr]
theorem firstOr_some (x e : Nat) : firstOr (some x) e = some x := rfl
theorem firstOr_none (e : Nat) : firstOr none e = some e := rfl
theorem firstOr_of_ne_none (o : Option Nat) (e : Nat) (h : o ≠ none) : firstOr o e = o := by
  cases o <;> simp_all [firstOr]
theorem firstOr_ne_none (o : Option Nat) (e : Nat) : firstOr o e ≠ none := by cases o <;> simp [firstOr]
theorem firstOr_cases (o : Option Nat) (e : Nat) : firstOr o e = o ∨ firstOr o e = some e := by
  cases o <;> simp [firstOr]
theorem not_mem_snoc (l : List Nat) (e x : Nat) : x ∉ snoc l e ↔ (x ∉ l ∧ x ≠ e) := by simp [snoc]

@[simp] theorem store_bc (sk : Skeleton) (s : State) (e : Nat) : (store sk s e).bc = s.bc := rfl
@[simp] theorem store_calls (sk : Skeleton) (s : State) (e : Nat) : (store sk s e).calls = s.calls := rfl
@[simp] theorem store_waiters (sk : Skeleton) (s : State) (e : Nat) : (store sk s e).waiters = s.waiters := rfl
@[simp] theorem store_res (sk : Skeleton) (s : State) (e : Nat) : (store sk s e).res = s.res := rfl
@[simp] theorem store_pubErr (sk : Skeleton) (s : State) (e : Nat) : (store sk s e).pubErr = s.pubErr := rfl
@[simp] theorem store_closures (sk : Skeleton) (s : State) (e : Nat) : (store sk s e).closures = s.closures := rfl
@[simp] theorem store_nextClosure (sk : Skeleton) (s : State) (e : Nat) : (store sk s e).nextClosure = s.nextClosure := rfl
@[simp] theorem store_owner (sk : Skeleton) (s : State) (e : Nat) : (store sk s e).owner = s.owner := rfl
@[simp] theorem store_invokes (sk : Skeleton) (s : State) (e : Nat) : (store sk s e).invokes = s.invokes := rfl
@[simp] theorem store_linkCtxDone (sk : Skeleton) (s : State) (e : Nat) : (store sk s e).linkCtxDone = s.linkCtxDone := rfl
@[simp] theorem store_watcherFired (sk : Skeleton) (s : State) (e : Nat) : (store sk s e).watcherFired = s.watcherFired := rfl
@[simp] theorem store_setters (sk : Skeleton) (s : State) (e : Nat) : (store sk s e).setters = s.setters := rfl
@[simp] theorem store_crashed (sk : Skeleton) (s : State) (e : Nat) : (store sk s e).crashed = s.crashed := rfl
@[simp] theorem store_fatalLog (sk : Skeleton) (s : State) (e : Nat) : (store sk s e).fatalLog = snoc s.fatalLog e := rfl
@[simp] theorem store_slot (sk : Skeleton) (s : State) (e : Nat) :
    (store sk s e).slot = if sk.seFirstOnly = true then firstOr s.slot e else some e := rfl
@[simp] theorem store_link (sk : Skeleton) (s : State) (e : Nat) :
    (store sk s e).link = if s.link = .waiting ∧ sk.seBroadcasts = true then .woken else s.link := rfl

/-- Source facts: the slot keeps the first error; the store broadcasts; Link waits on the cond. -/
structure FirstOnly (sk : Skeleton) : Prop where
  first      : sk.seFirstOnly = true
  broadcasts : sk.seBroadcasts = true
  waits      : sk.linkWaitsOnCond = true

/-- slot / log / Link thread -/
structure FI (s : State) : Prop where
  slot_head   : s.slot = s.fatalLog.head?
  waiting_nil : s.link = .waiting → s.fatalLog = []
  woken_set   : s.link = .woken → s.fatalLog ≠ []
  read_ok     : ∀ e, s.link = .read e → e = s.slot ∧ e ≠ none
  ret_ok      : ∀ e, s.link = .returned e → e = s.slot ∧ e ≠ none

theorem fi_init : FI init := by constructor <;> simp [init]

theorem fi_step (sk : Skeleton) (hf : FirstOnly sk) {s s' : State} (a : Act)
    (h : FI s) (hs : step sk s a = some s') : FI s' := by
  obtain ⟨h1, h2, h3, h4, h5⟩ := h
  obtain ⟨f1, f2, f3⟩ := hf
  cases a <;> simp only [step] at hs
  all_goals (repeat' split at hs) <;> (try simp at hs) <;> (try subst hs)
  all_goals first
    | exact ⟨h1, h2, h3, h4, h5⟩
    | (refine ⟨?_, ?_, ?_, ?_, ?_⟩ <;> intros <;>
    grind [snoc_ne_nil, head?_snoc, firstOr_ne_none, firstOr_of_ne_none, firstOr_none, List.head?_eq_none_iff])

/-- Source fact: `setErr` stores the slot before it closes the pending-call table. -/
structure StoreFirst (sk : Skeleton) : Prop where
  order : sk.seOrder = .storeThenClose

/-- "table closed ⇒ an error has been stored", and `ErrClosed` is never the first stored error -/
structure PI (s : State) : Prop where
  stored_set : ∀ t e, s.setters t = .stored e → s.fatalLog ≠ []
  closed_set : s.bc.closed = true → s.fatalLog ≠ []
  pan_closed : ∀ c, (s.calls c).pc = .panicking eClosed → s.fatalLog ≠ []
  ent_closed : ∀ t, s.setters t = .entered eClosed → s.fatalLog ≠ []
  head_ne    : s.fatalLog.head? ≠ some eClosed

theorem pi_init : PI init := by constructor <;> simp [init, Bc.init, Call.none]

theorem pi_step (sk : Skeleton) (ho : StoreFirst sk) {s s' : State} (a : Act)
    (h : PI s) (hs : step sk s a = some s') : PI s' := by
  obtain ⟨h1, h2, h3, h4, h5⟩ := h
  obtain ⟨o1⟩ := ho
  cases a <;> simp only [step] at hs
  all_goals (repeat' split at hs) <;> (try simp at hs) <;> (try subst hs)
  all_goals try (have hcl := Bc.step_closed' sk (by assumption))
  all_goals try (have hrf := Bc.refused_closed sk (by assumption) (by assumption))
  all_goals first
    | exact ⟨h1, h2, h3, h4, h5⟩
    | (refine ⟨?_, ?_, ?_, ?_, ?_⟩ <;> intros <;>
    grind [upd_apply, eClosed, eLinkCtx, eMarshal, eDecode, eCallCtx, eExt, snoc_ne_nil, head?_snoc, firstOr_of_ne_none, firstOr_none, List.head?_eq_none_iff])

/-! ### only failures of the link reach `setErr`: a call's own context error never does -/

/-- The stub turns EVERY error of `Receive` into `panic(err)` → `recover` → `setErr(err)`.  Under the
    source fact that `Receive` fails only on a closed table (`sk.bcReceiveErrorsOnlyClosed`), the error of a
    call's own context is never such a panic value: no stub panics with it, no `setErr` carries it, it is
    never stored, and `Link` never reads or returns it. -/
structure CX (s : State) : Prop where
  pan  : ∀ c, (s.calls c).pc ≠ .panicking eCallCtx
  out  : ∀ c, (s.calls c).outcome ≠ .failed eCallCtx
  ent  : ∀ t, s.setters t ≠ .entered eCallCtx
  sto  : ∀ t, s.setters t ≠ .stored eCallCtx
  clf  : ∀ t, s.setters t ≠ .closedFirst eCallCtx
  log  : eCallCtx ∉ s.fatalLog
  slot : s.slot ≠ some eCallCtx
  read : s.link ≠ .read (some eCallCtx)
  ret  : s.link ≠ .returned (some eCallCtx)

theorem cx_init : CX init := by constructor <;> simp [init, Call.none]

theorem cx_step (sk : Skeleton) (ho : sk.bcReceiveErrorsOnlyClosed = true) (hp : sk.panicSitesCanonical = true) {s s' : State} (a : Act)
    (h : CX s) (hs : step sk s a = some s') : CX s' := by
  obtain ⟨h1, h2, h3, h4, h5, h6, h7, h8, h9⟩ := h
  cases a <;> simp only [step] at hs
  all_goals (repeat' split at hs) <;> (try simp at hs) <;> (try subst hs)
  all_goals try (have hrf := Bc.receive_not_refusedCtx sk ho (by assumption))
  all_goals first
    | exact ⟨h1, h2, h3, h4, h5, h6, h7, h8, h9⟩
    | (refine ⟨?_, ?_, ?_, ?_, ?_, ?_, ?_, ?_, ?_⟩ <;> intros <;>
    grind [upd_apply, eClosed, eLinkCtx, eMarshal, eDecode, eCallCtx, eExt, not_mem_snoc, firstOr_cases])

/-! ### general lemmas: reachability → invariants -/

theorem reach_cx (sk : Skeleton) (ho : sk.bcReceiveErrorsOnlyClosed = true) (hp : sk.panicSitesCanonical = true) {s : State} (h : Reach sk s) : CX s := by
  induction h with
  | init => exact cx_init
  | step a _ hs ih => exact cx_step sk ho hp a ih hs

theorem reach_fi (sk : Skeleton) (hf : FirstOnly sk) {s : State} (h : Reach sk s) : FI s := by
  induction h with
  | init => exact fi_init
  | step a _ hs ih => exact fi_step sk hf a ih hs

theorem reach_pi (sk : Skeleton) (ho : StoreFirst sk) {s : State} (h : Reach sk s) : PI s := by
  induction h with
  | init => exact pi_init
  | step a _ hs ih => exact pi_step sk ho a ih hs

/-- own steps of the Link thread still to go (an upper bound) -/
def linkMeasure : LinkPc → Nat
  | .running => 3
  | .waiting => 2
  | .woken => 2
  | .read _ => 1
  | .returned _ => 0

def isLinkAct : Act → Bool
  | .linkCheck | .linkWake | .linkReturn => true
  | _ => false

/-- every own step of the Link thread brings it closer to its return, and no step of any other
    thread takes it further away (general: any skeleton). -/
theorem link_measure_step (sk : Skeleton) {s s' : State} (a : Act) (hs : step sk s a = some s') :
    (isLinkAct a = true → linkMeasure s'.link < linkMeasure s.link) ∧
    (isLinkAct a = false → linkMeasure s'.link ≤ linkMeasure s.link) := by
  cases a <;> simp only [step] at hs
  all_goals (repeat' split at hs) <;> (try simp at hs) <;> (try subst hs)
  all_goals (constructor <;> intro hl <;> (try simp [isLinkAct] at hl) <;> (try dsimp only) <;>
    (try split) <;> simp_all [linkMeasure] <;> (try (cases s.link <;> simp_all)))

/-- from every state with a stored error the Link thread returns the slot by its own steps alone -/
theorem link_can_return (sk : Skeleton) (s : State) (hc : s.crashed = false)
    (hi : FI s) (hl : s.fatalLog ≠ []) :
    ∃ acts, acts.length ≤ 2 ∧ acts.all isLinkAct = true ∧
      (run sk s acts).map (·.link) = some (.returned s.slot) := by
  have hslot : s.slot ≠ none := by
    rw [hi.slot_head]; intro h; exact hl (List.head?_eq_none_iff.mp h)
  cases hk : s.link with
  | running => exact ⟨[.linkCheck, .linkReturn], by simp, by simp [isLinkAct], by simp [run, runFrom, step, hc, hk, hslot]⟩
  | waiting => exact absurd (hi.waiting_nil hk) hl
  | woken => exact ⟨[.linkWake, .linkReturn], by simp, by simp [isLinkAct], by simp [run, runFrom, step, hc, hk]⟩
  | read e =>
    have := (hi.read_ok e hk).1
    exact ⟨[.linkReturn], by simp, by simp [isLinkAct], by simp [run, runFrom, step, hc, hk, this]⟩
  | returned e =>
    have := (hi.ret_ok e hk).1
    exact ⟨[], by simp, by simp, by simp [run, runFrom, hk, this]⟩

end Panrpc.Ep
