/-
  Lemmas/EndpointRuns.lean — explicit runs (bounded own-steps) composed from the enabledness
  lemmas, and frame lemmas: which components a step cannot touch (C03, C04, C15).
-/
import Panrpc.Lemmas.EndpointLive
import Panrpc.Lemmas.EndpointRes
import Panrpc.Lemmas.EndpointFatal
import Panrpc.Lemmas.EndpointDeliv

namespace Panrpc.Ep
open Panrpc

theorem upd_upd_same {α : Type} (f : Nat → α) (k : Nat) (v w : α) : upd (upd f k v) k w = upd f k w := by
  funext i; simp [upd]; split <;> rfl

/-! ### a waiter's way out -/

/-- the own steps that take a waiter to its exit once its entry is gone -/
def waiterExitActs (w : Waiter) (c : Nat) : List Act :=
  match w with
  | .start  => [.waiterRecvCall c, .waiterGetsDone c, .waiterSend c, .waiterFree c]
  | .recv   => [.waiterGetsDone c, .waiterSend c, .waiterFree c]
  | .have _ => [.waiterSend c, .waiterFree c]
  | .sent   => [.waiterFree c]
  | _       => []

theorem waiterExitActs_length (w : Waiter) (c : Nat) : (waiterExitActs w c).length ≤ 4 := by
  cases w <;> simp [waiterExitActs]

section
variable (sk : Skeleton) (hv : Live sk)
include hv

theorem exit_from_sent {s : State} (hr : Reach sk s) (c : Nat) (hw : s.waiters c = .sent) :
    ∃ s', run sk s [.waiterFree c] = some s' ∧ s'.waiters c = .exited ∧ s'.bc.table c = none ∧
      s'.calls = s.calls ∧ s'.res = s.res := by
  obtain ⟨s1, h1, hw1, hc1, hr1, ht1, _⟩ := waiterFree_enabled sk hv hr c hw
  exact ⟨s1, run_cons sk h1 (run_nil sk s1), by simp [hw1], ht1, hc1, hr1⟩

/-- `waiterSend`, `waiterFree`: enabled in turn whatever the call thread does -/
theorem exit_from_have {s : State} (hr : Reach sk s) (c : Nat) (r : Resp) (hw : s.waiters c = .have r) :
    ∃ s', run sk s [.waiterSend c, .waiterFree c] = some s' ∧ s'.waiters c = .exited ∧
      s'.bc.table c = none ∧ s'.calls = s.calls ∧ s'.res = upd s.res c [r] := by
  obtain ⟨s1, h1, hw1, hc1, hr1, _⟩ := waiterSend_enabled sk hv hr c r hw
  obtain ⟨s', h2, hw2, ht2, hc2, hr2⟩ := exit_from_sent sk hv (Reach.step _ hr h1) c (by simp [hw1])
  exact ⟨s', run_cons sk h1 h2, hw2, ht2, by rw [hc2, hc1], by rw [hr2, hr1]⟩

theorem exit_from_recv {s : State} (hr : Reach sk s) (c : Nat) (hw : s.waiters c = .recv)
    (hgone : ∀ g, s.bc.rcvs c = .waiting c g (s.calls c).ctx → s.bc.table c ≠ some g) :
    ∃ s', run sk s [.waiterGetsDone c, .waiterSend c, .waiterFree c] = some s' ∧ s'.waiters c = .exited ∧
      s'.bc.table c = none ∧ s'.calls = s.calls ∧ s'.res = upd s.res c [{ fromFrame := none, err := .closed }] := by
  obtain ⟨s1, h1, hw1, hc1, hr1⟩ := waiterGetsDone_enabled sk hv hr c hw hgone
  obtain ⟨s', h2, hw2, ht2, hc2, hr2⟩ := exit_from_have sk hv (Reach.step _ hr h1) c
    { fromFrame := none, err := .closed } (by simp [hw1])
  exact ⟨s', run_cons sk h1 h2, hw2, ht2, by rw [hc2, hc1], by rw [hr2, hr1]⟩

theorem exit_from_start {s : State} (hr : Reach sk s) (c : Nat) (hw : s.waiters c = .start)
    (hcl : s.bc.closed = true) :
    ∃ s', run sk s [.waiterRecvCall c, .waiterGetsDone c, .waiterSend c, .waiterFree c] = some s' ∧
      s'.waiters c = .exited ∧ s'.bc.table c = none ∧ s'.calls = s.calls ∧
      s'.res = upd s.res c [{ fromFrame := none, err := .closed }] := by
  obtain ⟨s1, h1, hw1, hc1, hr1⟩ := waiterRecvCall_enabled sk hv hr c hw
  have hr1' := Reach.step _ hr h1
  have hcl1 := closed_mono sk _ h1 hcl
  have hemp := (reach_wk sk hv.hyg hv.wakes hr1').closed_empty hcl1
  obtain ⟨s', h2, hw2, ht2, hc2, hr2⟩ := exit_from_recv sk hv hr1' c (by simp [hw1])
    (fun g _ => by simp [hemp c])
  exact ⟨s', run_cons sk h1 h2, hw2, ht2, by rw [hc2, hc1], by rw [hr2, hr1]⟩

/-- Every waiter of a link whose pending-call table is closed reaches `exited` by at most four
    steps of its own, and its entry is gone. -/
theorem waiter_exits_when_closed {s : State} (hr : Reach sk s) (hcl : s.bc.closed = true) (c : Nat)
    (hw : s.waiters c ≠ .absent) :
    ∃ s', run sk s (waiterExitActs (s.waiters c) c) = some s' ∧ s'.waiters c = .exited ∧
      s'.bc.table c = none ∧ s'.calls = s.calls := by
  have hemp := (reach_wk sk hv.hyg hv.wakes hr).closed_empty hcl
  cases hk : s.waiters c with
  | absent => exact absurd hk hw
  | start =>
    obtain ⟨s', h, a, b, d, _⟩ := exit_from_start sk hv hr c hk hcl
    exact ⟨s', by simpa [waiterExitActs] using h, a, b, d⟩
  | recv =>
    obtain ⟨s', h, a, b, d, _⟩ := exit_from_recv sk hv hr c hk (fun g _ => by simp [hemp c])
    exact ⟨s', by simpa [waiterExitActs] using h, a, b, d⟩
  | «have» r =>
    obtain ⟨s', h, a, b, d, _⟩ := exit_from_have sk hv hr c r hk
    exact ⟨s', by simpa [waiterExitActs] using h, a, b, d⟩
  | sent =>
    obtain ⟨s', h, a, b, d, _⟩ := exit_from_sent sk hv hr c hk
    exact ⟨s', by simpa [waiterExitActs] using h, a, b, d⟩
  | exited => exact ⟨s, by simp [waiterExitActs, run_nil], hk, hemp c, rfl⟩

/-! ### cancelling one call -/

/-- the call's context is done, its waiter is inside the receive function, the call thread is at
    its select: five own steps (three of the waiter, two of the call thread) return
    `(zero, ctx error)`; the entry is freed on the way. -/
theorem cancel_run {s : State} (hr : Reach sk s) (c : Nat) (fail : Bool)
    (hw : s.waiters c = .recv) (hx : s.bc.ctxs (s.calls c).ctx = true) (hp : (s.calls c).pc = .written) :
    ∃ s', run sk s [.waiterGetsCtx c, .waiterSend c, .waiterFree c, .callTakeRes c fail, .callReturnOk c] = some s' ∧
      (s'.calls c).pc = .returned ∧ (s'.calls c).outcome = .ok { fromFrame := none, err := .ctxErr } ∧
      s'.waiters c = .exited ∧ s'.bc.table c = none := by
  obtain ⟨s1, h1, hw1, hc1, hr1, _⟩ := waiterGetsCtx_enabled sk hv hr c hw hx
  have hres : s.res c = [] := ((reach_lk sk hr).w_recv c hw).2
  obtain ⟨s3, h3, hw3, ht3, hc3, hr3⟩ := exit_from_have sk hv (Reach.step _ hr h1) c
    { fromFrame := none, err := .ctxErr } (by simp [hw1])
  have hr3' : Reach sk s3 := reach_of_run sk _ (Reach.step _ hr h1) h3
  have hp3 : (s3.calls c).pc = .written := by rw [hc3, hc1]; exact hp
  have hres3 : s3.res c = [{ fromFrame := none, err := .ctxErr }] := by rw [hr3]; simp
  have h4 := callTakeRes_enabled sk hv hr3' c fail _ [] hp3 hres3 (Or.inl (by simp [decodes, hv.skipDec]))
  have hr4' := Reach.step _ hr3' h4
  have h5 := callReturnOk_enabled sk hv hr4' c (by simp)
  have hrun := run_append sk (run_cons sk h1 h3) (run_cons sk h4 (run_cons sk h5 (run_nil sk _)))
  refine ⟨_, hrun, ?_, ?_, ?_, ?_⟩
  · simp
  · simp
  · simp [hw3]
  · simp [ht3]

/-! ### which steps can touch the fatal-error machinery -/

def touchesFatal : Act → Bool
  | .callRecover .. | .setErrEnter .. | .setErrStore .. | .setErrClose .. | .watcher .. => true
  | _ => false
end

/-- only a recovering stub, the watcher and the other setter threads enter or advance `setErr` -/
theorem fatal_frame (sk : Skeleton) {s s' : State} (a : Act) (hs : step sk s a = some s')
    (ha : touchesFatal a = false) :
    s'.setters = s.setters ∧ s'.fatalLog = s.fatalLog ∧ s'.slot = s.slot := by
  cases a <;> simp [touchesFatal] at ha <;> simp only [step] at hs
  all_goals (repeat' split at hs) <;> (try simp at hs) <;> (try subst hs)
  all_goals exact ⟨rfl, rfl, rfl⟩

theorem fatal_frame_run (sk : Skeleton) {s s' : State} (acts : List Act)
    (ha : acts.all (fun a => !touchesFatal a) = true) (hrun : run sk s acts = some s') :
    s'.setters = s.setters ∧ s'.fatalLog = s.fatalLog ∧ s'.slot = s.slot := by
  induction acts generalizing s with
  | nil => simp [run, runFrom] at hrun; subst hrun; exact ⟨rfl, rfl, rfl⟩
  | cons a as ih =>
    simp only [run, runFrom] at hrun
    simp only [List.all_cons, Bool.and_eq_true, Bool.not_eq_true'] at ha
    cases hs : step sk s a with
    | none => simp [hs] at hrun
    | some s1 =>
      simp only [hs] at hrun
      obtain ⟨a1, a2, a3⟩ := fatal_frame sk a hs ha.1
      obtain ⟨b1, b2, b3⟩ := ih ha.2 hrun
      exact ⟨by rw [b1, a1], by rw [b2, a2], by rw [b3, a3]⟩

/-! ### frame: steps of one call do not touch another call -/

/-- the call a step belongs to (stub and waiter steps) -/
def actCall : Act → Option Nat
  | .callStart c .. | .callMarshalFail c | .callReceive c | .callSpawn c | .callWrite c
  | .callWriteFail c _ | .waiterRecvCall c | .waiterGetsValue c _ | .waiterGetsDone c | .waiterGetsCtx c
  | .waiterSend c | .waiterFree c | .callTakeRes c _ | .callLinkCtx c | .callRecover c _
  | .callReturnOk c => some c
  | _ => none

def isPubAct : Act → Bool
  | .respFrame .. | .pubLookup .. | .pubCtx .. | .pubSendClosed .. => true
  | _ => false

theorem others_frame (sk : Skeleton) {s s' : State} (a : Act) (hs : step sk s a = some s')
    (c c' : Nat) (ha : actCall a = some c) (hne : c' ≠ c) :
    s'.calls c' = s.calls c' ∧ s'.waiters c' = s.waiters c' ∧ s'.res c' = s.res c' ∧
    s'.bc.rcvs c' = s.bc.rcvs c' ∧ s'.bc.table c' = s.bc.table c' := by
  cases a <;> simp [actCall] at ha <;> subst ha <;> simp only [step] at hs
  all_goals (repeat' split at hs) <;> (try simp at hs) <;> (try subst hs)
  bc_unfold
  all_goals simp [upd, hne]

/-- steps of publishers (response frames, late or not) touch no call, no waiter, no `res`
    channel, no receiver thread and no table entry at all -/
theorem pub_frame (sk : Skeleton) {s s' : State} (a : Act) (hs : step sk s a = some s')
    (ha : isPubAct a = true) :
    s'.calls = s.calls ∧ s'.waiters = s.waiters ∧ s'.res = s.res ∧
    s'.bc.rcvs = s.bc.rcvs ∧ s'.bc.table = s.bc.table ∧ s'.bc.entries = s.bc.entries ∧
    s'.closures = s.closures ∧ s'.setters = s.setters ∧ s'.fatalLog = s.fatalLog := by
  cases a <;> simp [isPubAct] at ha <;> simp only [step] at hs
  all_goals (repeat' split at hs) <;> (try simp at hs) <;> (try subst hs)
  bc_unfold
  all_goals simp

/-! ### dead ends and the way out of a panic -/

/-- with an unbuffered `res`: once the call thread is gone, a waiter holding a response never
    moves again (no step of any thread changes that) -/
theorem stranded_forever (sk : Skeleton) (hcap : sk.stubResChanCap = 0) {s s' : State} (a : Act)
    (hs : step sk s a = some s') (c : Nat) (r : Resp)
    (hp : (s.calls c).pc = .returned) (hw : s.waiters c = .have r) :
    (s'.calls c).pc = .returned ∧ s'.waiters c = .have r := by
  cases a <;> simp only [step] at hs
  all_goals (repeat' split at hs) <;> (try simp at hs) <;> (try subst hs)
  all_goals first
    | exact ⟨hp, hw⟩
    | (constructor <;> grind [upd_apply])

/-- a panicking stub leaves only through its recover: result `(zero, e)` -/
theorem panicking_exit (sk : Skeleton) {s s' : State} (a : Act) (hs : step sk s a = some s')
    (c e : Nat) (hp : (s.calls c).pc = .panicking e) :
    (s'.calls c).pc = .panicking e ∨ ((s'.calls c).pc = .returned ∧ (s'.calls c).outcome = .failed e) := by
  cases a <;> simp only [step] at hs
  all_goals (repeat' split at hs) <;> (try simp at hs) <;> (try subst hs)
  all_goals first
    | exact Or.inl hp
    | grind [upd_apply]

/-- a late response: a frame for a call id that has no entry (any more) ends its publisher at
    the lookup and changes nothing else -/
theorem late_response_inert (sk : Skeleton) (hv : Live sk) {s : State} (hr : Reach sk s)
    (p k f : Nat) (h : Bool) (hp : s.bc.pubs p = .absent) (ht : s.bc.table k = none) :
    run sk s [.respFrame p k f h, .pubLookup p] =
      some { s with bc := { s.bc with pubs := upd s.bc.pubs p (.done false) }, pubErr := upd s.pubErr p h } := by
  obtain ⟨hc, hbc, hlk⟩ := alive sk hv hr
  simp [run, runFrom, step, Bc.step, hc, hbc, hlk, hp, ht, upd_upd_same]

/-! ### the waiter's select when only the context is ready -/

/-- the entry is still live and no publisher stands at its hand-off: neither the closed-signal
    case nor the value case of the receive function's select is enabled -/
theorem only_ctx_ready (sk : Skeleton) (hv : Live sk) {s : State} (hr : Reach sk s) (c g : Nat)
    (hw : s.waiters c = .recv) (hrc : s.bc.rcvs c = .waiting c g (s.calls c).ctx)
    (ht : s.bc.table c = some g) (hnp : ∀ p k v, s.bc.pubs p ≠ .holding k v g) :
    step sk s (.waiterGetsDone c) = none ∧ ∀ p, step sk s (.waiterGetsValue c p) = none := by
  obtain ⟨hc, hbc, _⟩ := alive sk hv hr
  have hwk := reach_wk sk hv.hyg hv.wakes hr
  have he := (reach_wf sk hr).rcv_entry c c g (by simp [hrc, Bc.Rcv.binding])
  cases hent : s.bc.entries g with
  | none => simp [hent] at he
  | some e =>
    simp [hent] at he
    have hns : e.signalled ≠ true := fun h => hwk.sig_removed g e hent h (by rw [he]; exact ht)
    have hch : e.chanClosed = false := by
      cases h : e.chanClosed <;> simp_all [Bc.Entry.signalled]
    have hdn : e.doneClosed = false := by
      cases h : e.doneClosed <;> simp_all [Bc.Entry.signalled]
    constructor
    · simp [step, Bc.step, hc, hbc, hw, hrc, hent, hch, hdn]
    · intro p
      cases hp : s.bc.pubs p with
      | holding k v pg =>
        have : pg ≠ g := fun h => hnp p k v (by rw [hp, h])
        simp [step, Bc.step, hc, hbc, hw, hrc, hent, hp, this]
      | _ => simp [step, hp]

/-! ### the waiter's select when a response races the cancellation -/

/-- the actions that are outcomes of the select of call `c`'s waiter -/
def isRecvOutcome (a : Act) (c : Nat) : Bool :=
  match a with
  | .waiterGetsDone c' | .waiterGetsCtx c' | .waiterGetsValue c' _ => c' == c
  | _ => false

theorem recv_next (sk : Skeleton) {s s' : State} (a : Act) (hl : LK s) (hs : step sk s a = some s') (c : Nat)
    (hw : s.waiters c = .recv) : s'.waiters c = .recv ∨ isRecvOutcome a c = true := by
  have l4 := hl.reg
  cases a <;> simp only [step] at hs
  all_goals (repeat' split at hs) <;> (try simp at hs) <;> (try subst hs)
  all_goals first
    | exact Or.inl hw
    | (simp only [isRecvOutcome, upd_apply]; grind)

/-- While the entry is live, the closed-signal case of the waiter's select is not enabled. -/
theorem done_not_ready (sk : Skeleton) (hv : Live sk) {s : State} (hr : Reach sk s) (c g : Nat)
    (hw : s.waiters c = .recv) (hrc : s.bc.rcvs c = .waiting c g (s.calls c).ctx)
    (ht : s.bc.table c = some g) : step sk s (.waiterGetsDone c) = none := by
  obtain ⟨hc, hbc, _⟩ := alive sk hv hr
  have hwk := reach_wk sk hv.hyg hv.wakes hr
  have he := (reach_wf sk hr).rcv_entry c c g (by simp [hrc, Bc.Rcv.binding])
  cases hent : s.bc.entries g with
  | none => simp [hent] at he
  | some e =>
    simp [hent] at he
    have hns : e.signalled ≠ true := fun h => hwk.sig_removed g e hent h (by rw [he]; exact ht)
    have hch : e.chanClosed = false := by
      cases h : e.chanClosed <;> simp_all [Bc.Entry.signalled]
    have hdn : e.doneClosed = false := by
      cases h : e.doneClosed <;> simp_all [Bc.Entry.signalled]
    simp [step, Bc.step, hc, hbc, hw, hrc, hent, hch, hdn]

/-- Whatever happens next to a waiter inside the receive function of a live entry, it ends up
    with the context error or with a response frame of its own call id that a publisher handed
    to it — nothing else. -/
theorem recv_either (sk : Skeleton) (hv : Live sk) {s s' : State} (hr : Reach sk s) (a : Act)
    (hs : step sk s a = some s') (c g : Nat)
    (hw : s.waiters c = .recv) (hrc : s.bc.rcvs c = .waiting c g (s.calls c).ctx)
    (ht : s.bc.table c = some g) :
    s'.waiters c = .recv ∨ s'.waiters c = .have { fromFrame := none, err := .ctxErr } ∨
    ∃ v e, s'.waiters c = .have { fromFrame := some v, err := e } ∧ (e = .none ∨ e = .app) ∧
      delivered s' c v = true := by
  rcases recv_next sk a (reach_lk sk hr) hs c hw with h | h
  · exact Or.inl h
  · have hr' := Reach.step a hr hs
    have hju := reach_ju sk hr'
    cases a with
    | waiterGetsValue c' p =>
      have hc' : c' = c := by simpa [isRecvOutcome] using h
      subst hc'
      right; right
      simp only [step] at hs
      (repeat' split at hs) <;> (try simp at hs)
      all_goals
        subst hs
        have hg := hju.w_ok c' _ (by show upd _ _ _ _ = _; rw [upd_same])
        exact ⟨_, _, by show upd _ _ _ _ = _; rw [upd_same], by simp, hg.1 _ rfl⟩
    | waiterGetsDone c' =>
      have hc' : c' = c := by simpa [isRecvOutcome] using h
      subst hc'
      rw [done_not_ready sk hv hr _ g hw hrc ht] at hs; simp at hs
    | waiterGetsCtx c' =>
      have hc' : c' = c := by simpa [isRecvOutcome] using h
      subst hc'
      right; left
      simp only [step] at hs
      (repeat' split at hs) <;> (try simp at hs)
      subst hs; simp
    | _ => simp [isRecvOutcome] at h

/-! ### `setErr` always completes, and ends with the table closed -/

theorem setErr_completes (sk : Skeleton) (hv : Live sk) (ho : StoreFirst sk) {s : State} (hr : Reach sk s)
    (t e : Nat) (ht : s.setters t = .entered e) :
    ∃ s', run sk s [.setErrStore t, .setErrClose t] = some s' ∧ s'.bc.closed = true ∧
      s'.setters t = .done ∧ s'.fatalLog = s.fatalLog ++ [e] := by
  obtain ⟨hc, hbc, hlk⟩ := alive sk hv hr
  have h1 : step sk s (.setErrStore t) = some { store sk s e with setters := upd s.setters t (.stored e) } := by
    simp [step, hc, ht, ho.order]
  have hr1 := Reach.step _ hr h1
  cases h2 : step sk { store sk s e with setters := upd s.setters t (.stored e) } (.setErrClose t) with
  | none => simp [step, Bc.step, hc, hbc, hlk, ho.order, store] at h2
  | some s2 =>
    refine ⟨s2, run_cons sk h1 (run_cons sk h2 (run_nil sk _)), ?_, ?_, ?_⟩
    · simp [step, Bc.step, hc, hbc, hlk, ho.order, store] at h2
      subst h2; simp [hv.wakes.closeSets]
    · simp [step, Bc.step, hc, hbc, hlk, ho.order, store] at h2
      subst h2; simp
    · simp [step, Bc.step, hc, hbc, hlk, ho.order, store] at h2
      subst h2; simp

/-! ### an in-flight call on an ended link -/

/-- The table is closed and the call thread is at its select: at most four steps of its waiter and
    two of its own bring the call to `returned`. -/
theorem inflight_returns (sk : Skeleton) (hv : Live sk) {s : State} (hr : Reach sk s) (c : Nat)
    (hcl : s.bc.closed = true) (hp : (s.calls c).pc = .written) :
    ∃ acts s', acts.length ≤ 6 ∧ run sk s acts = some s' ∧ (s'.calls c).pc = .returned := by
  have hw := (reach_ri sk hr).has_waiter c (Or.inr hp)
  obtain ⟨s1, h1, hw1, _, hc1⟩ := waiter_exits_when_closed sk hv hr hcl c hw
  have hr1 := reach_of_run sk _ hr h1
  have hp1 : (s1.calls c).pc = .written := by rw [hc1]; exact hp
  have hres := (reach_ri sk hr1).res_ready c (Or.inr hp1) (Or.inr hw1)
  cases hrs : s1.res c with
  | nil => exact absurd hrs hres
  | cons r rest =>
    have h2 := callTakeRes_enabled sk hv hr1 c false r rest hp1 hrs (Or.inr rfl)
    have hr2 := Reach.step _ hr1 h2
    have h3 := callReturnOk_enabled sk hv hr2 c (by simp)
    refine ⟨waiterExitActs (s.waiters c) c ++ [.callTakeRes c false, .callReturnOk c], _, ?_,
      run_append sk h1 (run_cons sk h2 (run_cons sk h3 (run_nil sk _))), by simp⟩
    have := waiterExitActs_length (s.waiters c) c
    simp; omega

/-- The table is closed: whatever point of the stub a call thread has reached, at most eight
    steps of its own and of its waiter bring it to `returned` (spawn, write, four waiter steps,
    take, return). -/
theorem every_inflight_returns (sk : Skeleton) (hv : Live sk) {s : State} (hr : Reach sk s) (c : Nat)
    (hcl : s.bc.closed = true) (hp : (s.calls c).pc ≠ .absent) :
    ∃ acts s', acts.length ≤ 8 ∧ run sk s acts = some s' ∧ (s'.calls c).pc = .returned := by
  obtain ⟨hc, _, _⟩ := alive sk hv hr
  have from_written : ∀ {s : State}, Reach sk s → s.bc.closed = true → (s.calls c).pc = .written →
      ∃ acts s', acts.length ≤ 6 ∧ run sk s acts = some s' ∧ (s'.calls c).pc = .returned :=
    fun hr hcl hp => inflight_returns sk hv hr c hcl hp
  have from_spawned : ∀ {s : State}, Reach sk s → s.bc.closed = true → (s.calls c).pc = .spawned →
      ∃ acts s', acts.length ≤ 7 ∧ run sk s acts = some s' ∧ (s'.calls c).pc = .returned := by
    intro s hr hcl hp
    obtain ⟨hc, _, _⟩ := alive sk hv hr
    cases hl : s.linkCtxDone with
    | false =>
      have h1 : step sk s (.callWrite c) = some { s with calls := upd s.calls c { s.calls c with pc := .written } } := by
        simp [step, hc, hp, hl]
      obtain ⟨acts, s', hlen, hrun, hret⟩ := from_written (Reach.step _ hr h1) (closed_mono sk _ h1 hcl) (by simp)
      exact ⟨.callWrite c :: acts, s', by simp; omega, run_cons sk h1 hrun, hret⟩
    | true =>
      have h1 : step sk s (.callWriteFail c 0) = some { s with
          calls := upd s.calls c { s.calls c with pc := .panicking eLinkCtx } } := by
        simp [step, hc, hp, hl]
      have h2 := callRecover_enabled sk hv (Reach.step _ hr h1) c eLinkCtx (by simp)
      exact ⟨[.callWriteFail c 0, .callRecover c eLinkCtx], _, by simp,
        run_cons sk h1 (run_cons sk h2 (run_nil sk _)), by simp⟩
  cases hpc : (s.calls c).pc with
  | absent => exact absurd hpc hp
  | marshalled =>
    have h1 := callReceive_refused sk hv hr c hpc hcl
    have h2 := callRecover_enabled sk hv (Reach.step _ hr h1) c eClosed (by simp)
    exact ⟨[.callReceive c, .callRecover c eClosed], _, by simp,
      run_cons sk h1 (run_cons sk h2 (run_nil sk _)), by simp⟩
  | registered =>
    have h1 : step sk s (.callSpawn c) = some { s with
        calls := upd s.calls c { s.calls c with pc := .spawned }, waiters := upd s.waiters c .start } := by
      simp [step, hc, hpc]
    obtain ⟨acts, s', hlen, hrun, hret⟩ := from_spawned (Reach.step _ hr h1) (closed_mono sk _ h1 hcl) (by simp)
    exact ⟨.callSpawn c :: acts, s', by simp; omega, run_cons sk h1 hrun, hret⟩
  | spawned =>
    obtain ⟨acts, s', hlen, hrun, hret⟩ := from_spawned hr hcl hpc
    exact ⟨acts, s', by omega, hrun, hret⟩
  | written =>
    obtain ⟨acts, s', hlen, hrun, hret⟩ := from_written hr hcl hpc
    exact ⟨acts, s', by omega, hrun, hret⟩
  | decoded =>
    have h1 := callReturnOk_enabled sk hv hr c hpc
    exact ⟨[.callReturnOk c], _, by simp, run_cons sk h1 (run_nil sk _), by simp⟩
  | panicking e =>
    have h1 := callRecover_enabled sk hv hr c e hpc
    exact ⟨[.callRecover c e], _, by simp, run_cons sk h1 (run_nil sk _), by simp⟩
  | returned => exact ⟨[], s, by simp, run_nil sk s, hpc⟩

end Panrpc.Ep
