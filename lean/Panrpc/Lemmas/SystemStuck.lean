/-
  Lemmas/SystemStuck.lean — M3: the decidable test `stuck` (Model/System.lean) for "no thread of
  the link can take a step" is sound: for reachable states `candidates` is complete, so `stuck`
  really means that nothing but a new top-level call can happen.
-/
import Panrpc.Lemmas.SystemSafe

namespace Panrpc.Sys

/-- the free parameters of user code (what it calls, what it returns) do not matter for enabledness -/
def Act.norm : Act → Act
  | .handlerCallPeer e h _ _ => .handlerCallPeer e h 0 0
  | .handlerReturn e h _ _ => .handlerReturn e h 0 0
  | a => a

theorem step_norm_isSome (sk : Skeleton) (s : State) (a : Act) :
    (step sk s a.norm).isSome = (step sk s a).isSome := by
  cases a <;> simp only [Act.norm]
  all_goals (simp only [step]; split <;> rfl)

theorem mem_candidates_of_at {s : State} {a : Act} (e : E) (h : a ∈ candidatesAt s e) : a ∈ candidates s := by
  cases e <;> simp [candidates, h]

/-- in a reachable state every enabled action other than `callStart` has its representative
    in `candidates` -/
theorem norm_mem_candidates {s : State} (h : AllInv s) (sk : Skeleton) (a : Act)
    (hns : ∀ e fn args, a ≠ .callStart e fn args) (hen : (step sk s a).isSome = true) :
    a.norm ∈ candidates s := by
  cases a with
  | callStart e fn args => exact absurd rfl (hns e fn args)
  | callWrite e t =>
    apply mem_candidates_of_at e
    have : (s.calls e t).pc ≠ .absent := by
      intro h0; simp [step, h0] at hen
    have := h.c.call_lt e t this
    simp only [Act.norm, candidatesAt, List.mem_append, List.mem_flatMap, List.mem_range]
    exact Or.inl (Or.inl (Or.inl (Or.inl ⟨t, this, by simp⟩)))
  | callRegister e t =>
    apply mem_candidates_of_at e
    have : (s.calls e t).pc ≠ .absent := by
      intro h0; simp [step, h0] at hen
    have := h.c.call_lt e t this
    simp only [Act.norm, candidatesAt, List.mem_append, List.mem_flatMap, List.mem_range]
    exact Or.inl (Or.inl (Or.inl (Or.inl ⟨t, this, by simp⟩)))
  | callReturn e t =>
    apply mem_candidates_of_at e
    have : (s.calls e t).pc ≠ .absent := by
      intro h0; simp [step, h0] at hen
    have := h.c.call_lt e t this
    simp only [Act.norm, candidatesAt, List.mem_append, List.mem_flatMap, List.mem_range]
    exact Or.inl (Or.inl (Or.inl (Or.inl ⟨t, this, by simp⟩)))
  | reqDeliver e i =>
    apply mem_candidates_of_at e
    have : i < (s.reqs e).length := by
      simp only [step] at hen
      split at hen
      · cases hg : (s.reqs e)[i]? with
        | none => simp [hg] at hen
        | some f => exact (List.getElem?_eq_some_iff.mp hg).1
      · simp at hen
    simp only [Act.norm, candidatesAt, List.mem_append, List.mem_map, List.mem_range]
    exact Or.inl (Or.inl (Or.inl (Or.inr ⟨i, this, rfl⟩)))
  | resDeliver e i =>
    apply mem_candidates_of_at e
    have : i < (s.ress e).length := by
      simp only [step] at hen
      split at hen
      · cases hg : (s.ress e)[i]? with
        | none => simp [hg] at hen
        | some f => exact (List.getElem?_eq_some_iff.mp hg).1
      · simp at hen
    simp only [Act.norm, candidatesAt, List.mem_append, List.mem_map, List.mem_range]
    exact Or.inl (Or.inr ⟨i, this, rfl⟩)
  | handlerEnter e hh | handlerStall e hh | handlerResume e hh | handlerNestedDone e hh | respond e hh
  | handlerCallPeer e hh _ _ | handlerReturn e hh _ _ =>
    apply mem_candidates_of_at e
    have : (s.handlers e hh).pc ≠ .absent := by
      intro h0; simp [step, h0] at hen
    have := h.r.h_lt e hh this
    simp only [Act.norm, candidatesAt, List.mem_append, List.mem_flatMap, List.mem_range]
    exact Or.inl (Or.inl (Or.inr ⟨hh, this, by simp⟩))
  | publishDrop e p =>
    apply mem_candidates_of_at e
    have : s.pubs e p ≠ .absent := by
      intro h0; simp [step, h0] at hen
    have := h.sv.pub_lt e p this
    simp only [Act.norm, candidatesAt, List.mem_append, List.mem_flatMap, List.mem_range]
    exact Or.inr ⟨p, this, by simp⟩
  | publish e p t =>
    apply mem_candidates_of_at e
    have hp : s.pubs e p ≠ .absent := by
      intro h0; simp [step, h0] at hen
    have hp := h.sv.pub_lt e p hp
    have hc : (s.calls e t).pc ≠ .absent := by
      intro h0
      simp only [step] at hen
      split at hen
      · simp [h0, CPc.waiting] at hen
      · simp at hen
    have hc := h.c.call_lt e t hc
    simp only [Act.norm, candidatesAt, List.mem_append, List.mem_flatMap, List.mem_range]
    exact Or.inr ⟨p, hp, by simp [hc]⟩

/-- `stuck` means what it says: in a reachable state that passes the test, the only enabled
    actions are new top-level calls -/
theorem stuck_sound (sk : Skeleton) (hf : Facts sk) {s : State} (hr : Reach sk s) (hst : stuck sk s = true)
    (a : Act) (hns : ∀ e fn args, a ≠ .callStart e fn args) : step sk s a = none := by
  cases hen : step sk s a with
  | none => rfl
  | some s' =>
    have h1 : (step sk s a).isSome = true := by rw [hen]; rfl
    have hm := norm_mem_candidates (reach_all sk hf hr) sk a hns h1
    simp only [stuck, List.all_eq_true] at hst
    have := hst _ hm
    rw [← step_norm_isSome] at h1
    cases hq : step sk s a.norm with
    | none => rw [hq] at h1; simp at h1
    | some _ => rw [hq] at this; simp at this

end Panrpc.Sys
