/-
  Lemmas/EndpointLink.lean — how the M2 threads of a call (stub, waiter, `res` channel) and the
  embedded M1 receiver thread of the same index hang together.
-/
import Panrpc.Lemmas.Endpoint

namespace Panrpc.Ep
open Panrpc

/-- where an M1 receiver thread stands -/
inductive Phase where
  | absent | refused | have | waiting | got
  deriving DecidableEq, Repr

def phase : Bc.Rcv → Phase
  | .absent => .absent
  | .refused | .refusedCtx => .refused
  | .have _ _ _ => .have
  | .waiting _ _ _ => .waiting
  | .gotVal _ _ _ _ | .gotCtx _ _ _ | .gotClosed _ _ _ => .got

/-- the caller context an M1 receiver thread passed to `Receive` -/
def rcvCtx : Bc.Rcv → Option Nat
  | .have _ _ x | .waiting _ _ x | .gotVal _ _ x _ | .gotCtx _ _ x | .gotClosed _ _ x => some x
  | _ => none

structure LK (s : State) : Prop where
  key      : ∀ t k g, (s.bc.rcvs t).binding = some (k, g) → k = t
  ctx      : ∀ t x, rcvCtx (s.bc.rcvs t) = some x → x = (s.calls t).ctx
  early    : ∀ c, ((s.calls c).pc = .absent ∨ (s.calls c).pc = .marshalled) →
               s.bc.rcvs c = .absent ∧ s.waiters c = .absent
  reg      : ∀ c, (s.calls c).pc = .registered → phase (s.bc.rcvs c) = .have ∧ s.waiters c = .absent
  w_absent : ∀ c, s.waiters c = .absent → s.res c = []
  w_start  : ∀ c, s.waiters c = .start → phase (s.bc.rcvs c) = .have ∧ s.res c = []
  w_recv   : ∀ c, s.waiters c = .recv → phase (s.bc.rcvs c) = .waiting ∧ s.res c = []
  w_have   : ∀ c r, s.waiters c = .have r → phase (s.bc.rcvs c) = .got ∧ s.res c = []

theorem lk_init : LK init := by
  constructor <;> simp [init, Bc.init, Call.none, Bc.Rcv.binding, rcvCtx]

macro "lk_tac" a:ident h:ident hs:ident hg:ident : tactic => `(tactic| (
  obtain ⟨h1, h2, h3, h4, h5, h6, h7, h8⟩ := $h:ident
  ep_group $a:ident $hs:ident $hg:ident
  bc_unfold
  all_goals first
    | exact ⟨h1, h2, h3, h4, h5, h6, h7, h8⟩
    | (refine ⟨?_, ?_, ?_, ?_, ?_, ?_, ?_, ?_⟩ <;> intros <;>
        grind [upd_apply, phase, rcvCtx, Bc.Rcv.binding])))

theorem lk_g0 (sk : Skeleton) {s s' : State} (a : Act) (hg : a.grp = .g0)
    (h : LK s) (hs : step sk s a = some s') : LK s' := by lk_tac a h hs hg
theorem lk_g1 (sk : Skeleton) {s s' : State} (a : Act) (hg : a.grp = .g1)
    (h : LK s) (hs : step sk s a = some s') : LK s' := by lk_tac a h hs hg
theorem lk_g2 (sk : Skeleton) {s s' : State} (a : Act) (hg : a.grp = .g2)
    (h : LK s) (hs : step sk s a = some s') : LK s' := by lk_tac a h hs hg
theorem lk_g3 (sk : Skeleton) {s s' : State} (a : Act) (hg : a.grp = .g3)
    (h : LK s) (hs : step sk s a = some s') : LK s' := by lk_tac a h hs hg
theorem lk_g4 (sk : Skeleton) {s s' : State} (a : Act) (hg : a.grp = .g4)
    (h : LK s) (hs : step sk s a = some s') : LK s' := by lk_tac a h hs hg
theorem lk_g5 (sk : Skeleton) {s s' : State} (a : Act) (hg : a.grp = .g5)
    (h : LK s) (hs : step sk s a = some s') : LK s' := by lk_tac a h hs hg

theorem lk_step (sk : Skeleton) {s s' : State} (a : Act)
    (h : LK s) (hs : step sk s a = some s') : LK s' :=
  by_groups a (lk_g0 sk a · h hs) (lk_g1 sk a · h hs) (lk_g2 sk a · h hs)
    (lk_g3 sk a · h hs) (lk_g4 sk a · h hs) (lk_g5 sk a · h hs)

theorem reach_lk (sk : Skeleton) {s : State} (h : Reach sk s) : LK s := by
  induction h with
  | init => exact lk_init
  | step a _ hs ih => exact lk_step sk a ih hs

end Panrpc.Ep
