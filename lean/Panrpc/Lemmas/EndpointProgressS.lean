/-
  Lemmas/EndpointProgressS.lean — the stub at its select and the Link thread in `Cond.Wait` (C05):
  when they have no enabled step, and which steps can end that wait.
-/
import Panrpc.Lemmas.EndpointThreads
namespace Panrpc.Ep
open Panrpc

/-! ### a stub at its select without an enabled step -/

structure SQuiet (s : State) (c : Nat) : Prop where
  at_sel : (s.calls c).pc = .written
  nores  : s.res c = []
  nolink : s.linkCtxDone = false

theorem sq_of_blocked (sk : Skeleton) (hp : Prog sk) {s : State} (hr : Reach sk s) (c : Nat)
    (hpc : (s.calls c).pc = .written) (hb : ¬ CanStep sk s (.stub c)) : SQuiet s c := by
  refine ⟨hpc, ?_, ?_⟩
  · cases hrs : s.res c with
    | nil => rfl
    | cons r rest =>
      have := callTakeRes_enabled sk hp.lv hr c false r rest hpc hrs (Or.inr rfl)
      exact absurd (canStep_of sk (.callTakeRes c false) (by simp [actThreads]) (by simp [this])) hb
  · cases hl : s.linkCtxDone with
    | false => rfl
    | true =>
      have := callLinkCtx_enabled sk hp.lv hr c hpc hl
      exact absurd (canStep_of sk (.callLinkCtx c) (by simp [actThreads]) (by simp [this])) hb

theorem sq_blocked (sk : Skeleton) {s : State} (c : Nat) (hq : SQuiet s c) : ¬ CanStep sk s (.stub c) := by
  obtain ⟨hpc, hres, hl⟩ := hq
  rintro ⟨a, hm, hs⟩
  cases a <;> simp [actThreads] at hm <;> subst hm <;> simp [step, hpc, hres, hl] at hs

/-- the steps that can end the quiet wait of call `c`'s stub: its waiter sends, the link context
    is cancelled -/
def wakesStub (c : Nat) : Act → Bool
  | .waiterSend c' => c' == c
  | .cancelLink => true
  | _ => false

theorem sq_step (sk : Skeleton) {s s' : State} (a : Act) (c : Nat) (hl : LK s) (hq : SQuiet s c)
    (hown : Thread.stub c ∉ actThreads a) (hn : wakesStub c a = false)
    (hs : step sk s a = some s') : SQuiet s' c := by
  obtain ⟨q1, q2, q3⟩ := hq
  have l3 := hl.early
  cases a <;> simp only [step] at hs
  all_goals (repeat' split at hs) <;> (try simp at hs) <;> (try subst hs)
  all_goals first
    | exact ⟨q1, q2, q3⟩
    | (refine ⟨?_, ?_, ?_⟩ <;> grind [upd_apply, wakesStub, actThreads])

/-! ### the Link thread parked in `Cond.Wait` -/

theorem lq_blocked (sk : Skeleton) {s : State} (hq : s.link = .waiting) : ¬ CanStep sk s .link := by
  rintro ⟨a, hm, hs⟩
  cases a <;> simp [actThreads] at hm <;> simp [step, hq] at hs

/-- only the store critical section of some `setErr` wakes it -/
theorem lq_step (sk : Skeleton) {s s' : State} (a : Act) (hq : s.link = .waiting)
    (hn : ∀ t, a ≠ .setErrStore t) (hs : step sk s a = some s') : s'.link = .waiting := by
  cases a <;> simp only [step] at hs
  all_goals (repeat' split at hs) <;> (try simp at hs) <;> (try subst hs)
  all_goals first
    | exact hq
    | (exfalso; exact hn _ rfl)
    | simp_all

end Panrpc.Ep
