/-
  Lemmas/Callee.lean — general lemmas (∀ sk, hypotheses on sk → …) about Model/Callee.lean.
-/
import Panrpc.Model.Callee

namespace Panrpc.Ce
open Panrpc

theorem reach_of_run (sk : Skeleton) {cid : String} {cl : Bool} {s s' : State} (acts : List Act)
    (h : Reach sk cid cl s) (hr : run sk s acts = some s') : Reach sk cid cl s' := by
  induction acts generalizing s with
  | nil => simp [run, runFrom] at hr; subst hr; exact h
  | cons a as ih =>
    simp only [run, runFrom] at hr
    cases hs : step sk s a with
    | none => simp [hs] at hr
    | some s1 =>
      simp only [hs] at hr
      exact ih (Reach.step a h hs) hr

/-- The facts the containment / one-response invariant rests on. -/
structure Hyp (sk : Skeleton) : Prop where
  lkRec   : sk.lkRecoversPanics = true
  viaCall : sk.reqCallViaUtilsCall = true
  ucRec   : sk.ucRecovers = true
  onePer  : sk.reqOneResponsePerBranch = true
  callIs  : sk.reqResponseCallIsReqCall = true

/-- The invariant of one request's life. -/
structure Good (cid : String) (cl : Bool) (s : State) : Prop where
  idOk    : s.callId = cid
  clOk    : s.isClosureEntry = cl
  nocrash : s.crashed = false
  npanic  : s.pc ≠ .panicked
  /-- nothing is written and `setErr` is not called before the end; at the end exactly one of the two happened, once -/
  count   : s.responses.length + s.setErrCalls.length = (if s.pc = .done then 1 else 0)
  callOk  : ∀ x ∈ s.responses, x.1 = cid
  early   : (s.pc = .resolving ∨ s.pc = .resolved) → s.appCodeRan = false
  /-- a request refused by the lookup never reached application code -/
  notRun  : (.resolveError ∈ s.setErrCalls ∨ .lookupPanic ∈ s.setErrCalls) → s.appCodeRan = false

theorem good_init (cid : String) (cl : Bool) : Good cid cl (init cid cl) := by
  refine ⟨rfl, rfl, rfl, ?_, ?_, ?_, ?_, ?_⟩ <;> simp [init]

/-- Before the end nothing has been written and `setErr` has not been called. -/
theorem quiet {cid : String} {cl : Bool} {s : State} (g : Good cid cl s) (h : s.pc ≠ .done) :
    s.responses = [] ∧ s.setErrCalls = [] := by
  have := g.count
  simpa [h] using this

theorem utilsCall_rec (sk : Skeleton) (h : sk.ucRecovers = true) (p : PanicVal) :
    utilsCall sk p ≠ .propagates := by
  cases p <;> simp [utilsCall, h] <;> split <;> simp

/-- A panic leaving the invoked function never kills the goroutine. -/
theorem outerPanic_good (sk : Skeleton) (hy : Hyp sk) {cid : String} {cl : Bool} {s : State} (p : PanicVal)
    (g : Good cid cl s) (hpc : s.pc = .running) : Good cid cl (outerPanic sk s p) := by
  have hu := utilsCall_rec sk hy.ucRec p
  have g0 := g
  obtain ⟨h1, h2, h3, h4, h5, h6, h7, h8⟩ := g
  obtain ⟨hr, he⟩ := quiet g0 (by simp [hpc])
  simp only [outerPanic, hy.viaCall, if_true]
  cases hc : utilsCall sk p with
  | propagates => exact absurd hc hu
  | err m =>
    simp only []
    split
    · refine ⟨h1, h2, h3, ?_, ?_, ?_, ?_, ?_⟩ <;> simp [fatal, hr, he]
    · refine ⟨h1, h2, h3, ?_, ?_, ?_, ?_, ?_⟩ <;> simp [hr, he]
  | empty =>
    refine ⟨h1, h2, h3, ?_, ?_, ?_, ?_, ?_⟩ <;> simp [hr, he]

theorem step_good (sk : Skeleton) (hy : Hyp sk) {cid : String} {cl : Bool} {s s' : State} (a : Act)
    (g : Good cid cl s) (hs : step sk s a = some s') : Good cid cl s' := by
  have g0 := g
  obtain ⟨h1, h2, h3, h4, h5, h6, h7, h8⟩ := g
  cases a <;> simp only [step] at hs <;> split at hs <;> (try simp at hs) <;> rename_i hpc
  all_goals obtain ⟨hr, he⟩ := quiet g0 (by simp [hpc])
  · subst hs; refine ⟨h1, h2, h3, ?_, ?_, ?_, ?_, ?_⟩ <;> simp_all
  · subst hs; simp only [resolveErr]; split
    · refine ⟨h1, h2, h3, ?_, ?_, ?_, ?_, ?_⟩ <;> simp_all [fatal]
    · refine ⟨h1, h2, h3, ?_, ?_, ?_, ?_, ?_⟩ <;> simp_all
  · simp only [hy.lkRec, if_true] at hs
    subst hs; simp only [resolveErr]; split
    · refine ⟨h1, h2, h3, ?_, ?_, ?_, ?_, ?_⟩ <;> simp_all [fatal]
    · refine ⟨h1, h2, h3, ?_, ?_, ?_, ?_, ?_⟩ <;> simp_all
  · subst hs; refine ⟨h1, h2, h3, ?_, ?_, ?_, ?_, ?_⟩ <;> simp_all
  · subst hs; refine ⟨h1, h2, h3, ?_, ?_, ?_, ?_, ?_⟩ <;> simp_all
  · subst hs; exact outerPanic_good sk hy _ g0 hpc
  · subst hs
    simp only [innerPanic]
    split
    · exact outerPanic_good sk hy _ g0 hpc.1
    · refine ⟨h1, h2, h3, ?_, ?_, ?_, ?_, ?_⟩ <;> simp_all
    · exact outerPanic_good sk hy _ g0 hpc.1
  · subst hs; refine ⟨h1, h2, h3, ?_, ?_, ?_, ?_, ?_⟩ <;> simp_all
  · subst hs; refine ⟨h1, h2, h3, ?_, ?_, ?_, ?_, ?_⟩ <;> simp_all [fatal]
  · subst hs; refine ⟨h1, h2, h3, ?_, ?_, ?_, ?_, ?_⟩ <;> simp_all [fatal]
  · subst hs; simp only [hy.onePer, hy.callIs, if_true]
    refine ⟨h1, h2, h3, ?_, ?_, ?_, ?_, ?_⟩ <;> simp_all

theorem reach_good (sk : Skeleton) (hy : Hyp sk) {cid : String} {cl : Bool} {s : State}
    (h : Reach sk cid cl s) : Good cid cl s := by
  induction h with
  | init => exact good_init cid cl
  | step a _ hs ih => exact step_good sk hy a ih hs

/-! ### single steps -/

/-- A reflect panic during the lookup does not leave the goroutine if it is recovered anywhere. -/
theorem resolvePanics_no_crash (sk : Skeleton)
    (h : sk.lkRecoversPanics = true ∨ sk.reqResolverRecovers = true) {s s' : State}
    (hs : step sk s .resolvePanics = some s') :
    s'.crashed = s.crashed ∧ s'.pc ≠ .panicked ∧ s'.appCodeRan = s.appCodeRan ∧ s'.responses = s.responses := by
  simp only [step] at hs
  split at hs <;> (try simp at hs)
  subst hs
  rcases h with h | h
  · simp only [h, if_true, resolveErr]; split <;> simp [fatal]
  · split
    · simp only [resolveErr]; split <;> simp [fatal]
    · simp

/-- Recovered inside the lookup it is an ordinary lookup error: `setErr`, end of the request. -/
theorem resolvePanics_setErr (sk : Skeleton) (h1 : sk.lkRecoversPanics = true)
    (h2 : sk.reqResolveErrSetErr = true) {s s' : State} (hs : step sk s .resolvePanics = some s') :
    s.pc = .resolving ∧ s' = fatal s .lookupPanic := by
  simp only [step] at hs
  split at hs <;> (try simp at hs)
  rename_i hpc
  simp only [if_true, resolveErr, h2] at hs
  exact ⟨hpc, hs.symm⟩

theorem resolveFails_setErr (sk : Skeleton) (h2 : sk.reqResolveErrSetErr = true) {s s' : State}
    (hs : step sk s .resolveFails = some s') : s.pc = .resolving ∧ s' = fatal s .resolveError := by
  simp only [step] at hs
  split at hs <;> (try simp at hs)
  rename_i hpc
  simp only [resolveErr, h2, if_true] at hs
  exact ⟨hpc, hs.symm⟩

theorem outerPanic_fatal (sk : Skeleton) (h1 : sk.reqCallViaUtilsCall = true) (h2 : sk.ucRecovers = true)
    (h3 : sk.ucNonErrorPanicMapped = true) (h4 : sk.reqCallErrSetErr = true) (s : State) (p : PanicVal) :
    outerPanic sk s p = fatal s .handlerPanic := by
  cases p <;> simp [outerPanic, utilsCall, h1, h2, h3, h4]

/-- A panic of the invoked function: `utils.Call` returns it as an error, the goroutine calls `setErr`
    and returns. -/
theorem handlerPanics_setErr (sk : Skeleton) (h1 : sk.reqCallViaUtilsCall = true) (h2 : sk.ucRecovers = true)
    (h3 : sk.ucNonErrorPanicMapped = true) (h4 : sk.reqCallErrSetErr = true) (p : PanicVal) {s s' : State}
    (hs : step sk s (.handlerPanics p) = some s') : s.pc = .running ∧ s' = fatal s .handlerPanic := by
  simp only [step] at hs
  split at hs <;> (try simp at hs)
  rename_i hpc
  rw [outerPanic_fatal sk h1 h2 h3 h4] at hs
  exact ⟨hpc, hs.symm⟩

/-- A panic of the user's closure: the wrapper's own `utils.Call` returns it as an error and
    `CallClosure` RETURNS `(nil, err)`. -/
theorem closurePanics_returns (sk : Skeleton) (h1 : sk.clCallViaUtilsCall = true) (h2 : sk.ucRecovers = true)
    (h3 : sk.ucNonErrorPanicMapped = true) (p : PanicVal) {s s' : State}
    (hs : step sk s (.closurePanics p) = some s') :
    s.pc = .running ∧ s.isClosureEntry = true ∧ s' = { s with pc := .returned (.two (some p.msg)) } := by
  simp only [step] at hs
  split at hs <;> (try simp at hs)
  rename_i hpc
  refine ⟨hpc.1, hpc.2, ?_⟩
  subst hs
  cases p <;> simp [innerPanic, utilsCall, h1, h2, h3, PanicVal.msg]

/-! ### from the function's return to the end of the request -/

theorem step_done (sk : Skeleton) {s : State} (h : s.pc = .done) (a : Act) : step sk s a = none := by
  cases a <;> simp [step, h]

theorem run_done (sk : Skeleton) {s s' : State} (h : s.pc = .done) (acts : List Act)
    (hr : run sk s acts = some s') : s' = s := by
  cases acts with
  | nil => simp [run, runFrom] at hr; exact hr.symm
  | cons a as => simp [run, runFrom, step_done sk h a] at hr

theorem run_append (sk : Skeleton) (s : State) (l1 l2 : List Act) :
    run sk s (l1 ++ l2) = (run sk s l1).bind (fun m => run sk m l2) := by
  induction l1 generalizing s with
  | nil => simp [run, runFrom]
  | cons a as ih =>
    simp only [run, runFrom, List.cons_append] at ih ⊢
    cases step sk s a with
    | none => simp
    | some s1 => simpa using ih s1

/-- The facts the response depends on. -/
structure RespHyp (sk : Skeleton) : Prop where
  shapes : sk.reqRespShapesOk = true
  callIs : sk.reqResponseCallIsReqCall = true
  onePer : sk.reqOneResponsePerBranch = true
  untouched : sk.ucResultsUntouched = true   -- utils.Call hands back exactly what the function returned

/-- After the function returned `r`, as long as neither marshal nor write fails: no `setErr`, no
    crash, and the one thing written — at the end — is `(req.Call, Err r)`. -/
theorem returned_run (sk : Skeleton) (hy : RespHyp sk) (r : Shape) (acts : List Act) :
    ∀ (s s' : State), (s.pc = .returned r ∨ s.pc = .responding r.errStr) → run sk s acts = some s' →
      Act.marshalFails ∉ acts → Act.writeFails ∉ acts →
      s'.setErrCalls = s.setErrCalls ∧ s'.crashed = s.crashed ∧ s'.callId = s.callId ∧
      s'.responses = (if s'.pc = .done then s.responses ++ [(s.callId, r.errStr)] else s.responses) := by
  induction acts with
  | nil =>
    intro s s' hpc hr _ _
    simp [run, runFrom] at hr; subst hr
    rcases hpc with h | h <;> simp [h]
  | cons a as ih =>
    intro s s' hpc hr hm hw
    simp only [run, runFrom] at hr
    have hm' : Act.marshalFails ∉ as := fun h => hm (List.mem_cons_of_mem _ h)
    have hw' : Act.writeFails ∉ as := fun h => hw (List.mem_cons_of_mem _ h)
    rcases hpc with hpc | hpc
    · cases a <;> simp only [step, hpc] at hr <;> (try simp at hr) <;> (try simp at hm)
      have := ih _ _ (Or.inr (by simp [hy.shapes])) hr hm' hw'
      simpa using this
    · cases a <;> simp only [step, hpc] at hr <;> (try simp at hr) <;> (try simp at hw)
      simp only [hy.onePer, hy.callIs, if_true] at hr
      have := run_done sk (s := { s with pc := .done, responses := s.responses ++ [(s.callId, r.errStr)] })
        rfl as hr
      subst this; simp

/-- The whole request: if the function returns `r` and neither marshal nor write fails, the request
    ends with exactly one response `(req.Call, Err r)` and without any `setErr`. -/
theorem returns_not_fatal (sk : Skeleton) (hy : Hyp sk) (hr : RespHyp sk) (cid : String) (cl : Bool)
    (r : Shape) (acts : List Act) (s' : State) (hrun : run sk (init cid cl) acts = some s')
    (hret : Act.handlerReturns r ∈ acts) (hm : Act.marshalFails ∉ acts) (hw : Act.writeFails ∉ acts) :
    s'.setErrCalls = [] ∧ s'.crashed = false ∧
    s'.responses = (if s'.pc = .done then [(cid, r.errStr)] else []) := by
  obtain ⟨l1, l2, rfl⟩ := List.append_of_mem hret
  rw [run_append] at hrun
  cases h1 : run sk (init cid cl) l1 with
  | none => simp [h1] at hrun
  | some m =>
    simp only [h1, Option.bind_some] at hrun
    simp only [run, runFrom] at hrun
    have gm := reach_good sk hy (reach_of_run sk l1 Reach.init h1)
    cases h2 : step sk m (.handlerReturns r) with
    | none => simp [h2] at hrun
    | some m1 =>
      simp only [h2] at hrun
      simp only [step] at h2
      split at h2 <;> (try simp at h2)
      rename_i hpc
      obtain ⟨hq1, hq2⟩ := quiet gm (by simp [hpc])
      have hm' : Act.marshalFails ∉ l2 := fun h => hm (by simp [h])
      have hw' : Act.writeFails ∉ l2 := fun h => hw (by simp [h])
      have := returned_run sk hr r l2 m1 s' (Or.inl (by subst h2; simp [hr.untouched])) hrun hm' hw'
      subst h2
      simp only [hq1, hq2, gm.idOk, gm.nocrash, List.nil_append] at this
      exact ⟨this.1, this.2.1, this.2.2.2⟩

/-- … and that end is reachable: the three steps are enabled. -/
theorem returns_run (sk : Skeleton) (hr : RespHyp sk) (s : State) (r : Shape) (hpc : s.pc = .running)
    (hcl : s.isClosureEntry = false ∨ r.isTwo = true) :
    run sk s [.handlerReturns r, .marshalOk, .respond] =
      some { s with pc := .done, responses := s.responses ++ [(s.callId, r.errStr)] } := by
  rcases hcl with h | h <;> simp [run, runFrom, step, hpc, h, hr.shapes, hr.callIs, hr.onePer, hr.untouched]

/-! ### the statements the property files instantiate -/

/-- handler panic, from a reachable state: exactly one `setErr`, nothing written, no crash -/
theorem handlerPanics_contained (sk : Skeleton) (hy : Hyp sk) (h3 : sk.ucNonErrorPanicMapped = true)
    (h4 : sk.reqCallErrSetErr = true) {cid : String} {cl : Bool} {s s' : State} (p : PanicVal)
    (hreach : Reach sk cid cl s) (hs : step sk s (.handlerPanics p) = some s') :
    s'.setErrCalls = [.handlerPanic] ∧ s'.responses = [] ∧ s'.crashed = false ∧ s'.pc = .done := by
  have g := reach_good sk hy hreach
  obtain ⟨hpc, rfl⟩ := handlerPanics_setErr sk hy.viaCall hy.ucRec h3 h4 p hs
  obtain ⟨hq1, hq2⟩ := quiet g (by simp [hpc])
  simp [fatal, hq1, hq2, g.nocrash]

/-- closure panic, from a reachable state: `CallClosure` returns `(nil, err)`; from there, unless marshal
    or write fail, the request ends with the response `(req.Call, err.Error())` and no `setErr`; and
    that end is reachable. -/
theorem closurePanics_contained (sk : Skeleton) (hy : Hyp sk) (hr : RespHyp sk)
    (h1 : sk.clCallViaUtilsCall = true) (h3 : sk.ucNonErrorPanicMapped = true)
    {cid : String} {cl : Bool} {s s' : State} (p : PanicVal)
    (hreach : Reach sk cid cl s) (hs : step sk s (.closurePanics p) = some s') :
    s'.pc = .returned (.two (some p.msg)) ∧ s'.setErrCalls = [] ∧ s'.responses = [] ∧ s'.crashed = false ∧
    run sk s' [.marshalOk, .respond] = some { s' with pc := .done, responses := [(cid, p.msg)] } ∧
    ∀ (acts : List Act) (s'' : State), run sk s' acts = some s'' →
      Act.marshalFails ∉ acts → Act.writeFails ∉ acts →
      s''.setErrCalls = [] ∧ s''.crashed = false ∧
      s''.responses = (if s''.pc = .done then [(cid, p.msg)] else []) := by
  have g := reach_good sk hy hreach
  obtain ⟨hpc, _, rfl⟩ := closurePanics_returns sk h1 hy.ucRec h3 p hs
  obtain ⟨hq1, hq2⟩ := quiet g (by simp [hpc])
  refine ⟨rfl, hq2, hq1, g.nocrash, ?_, ?_⟩
  · simp [run, runFrom, step, hr.shapes, hr.callIs, hr.onePer, hq1, g.idOk, Shape.errStr]
  · intro acts s'' hrun hm hw
    have := returned_run sk hr (.two (some p.msg)) acts _ s'' (Or.inl rfl) hrun hm hw
    simp only [hq1, hq2, g.idOk, g.nocrash, List.nil_append, Shape.errStr] at this
    exact ⟨this.1, this.2.1, this.2.2.2⟩

theorem PanicVal.msg_ne_empty (p : PanicVal) (h : ∀ m, p = .err m → m ≠ "") : p.msg ≠ "" := by
  cases p with
  | err m => exact h m rfl
  | other => simp [PanicVal.msg, nonErrorMsg]

/-- lookup panic, from a reachable state -/
theorem resolvePanics_contained (sk : Skeleton) (hy : Hyp sk) (h2 : sk.reqResolveErrSetErr = true)
    {cid : String} {cl : Bool} {s s' : State}
    (hreach : Reach sk cid cl s) (hs : step sk s .resolvePanics = some s') :
    s'.setErrCalls = [.lookupPanic] ∧ s'.responses = [] ∧ s'.crashed = false ∧ s'.pc = .done ∧
    s'.appCodeRan = false := by
  have g := reach_good sk hy hreach
  obtain ⟨hpc, rfl⟩ := resolvePanics_setErr sk hy.lkRec h2 hs
  obtain ⟨hq1, hq2⟩ := quiet g (by simp [hpc])
  simp [fatal, hq1, hq2, g.nocrash, g.early (Or.inl hpc)]

/-- at most one response; one of {response, setErr}, once, exactly at the end -/
theorem one_response (sk : Skeleton) (hy : Hyp sk) {cid : String} {cl : Bool} {s : State}
    (hreach : Reach sk cid cl s) :
    s.responses.length ≤ 1 ∧ (∀ x ∈ s.responses, x.1 = cid) ∧
    (s.pc ≠ .done → s.responses = [] ∧ s.setErrCalls = []) ∧
    (s.pc = .done → s.setErrCalls = [] → s.responses.length = 1) ∧
    (s.setErrCalls ≠ [] → s.pc = .done ∧ s.responses = [] ∧ s.setErrCalls.length = 1) := by
  have g := reach_good sk hy hreach
  have hc := g.count
  refine ⟨?_, g.callOk, fun h => quiet g h, ?_, ?_⟩
  · split at hc <;> omega
  · intro h1 h2; simp [h1, h2] at hc; exact hc
  · intro h
    have hl : s.setErrCalls.length ≠ 0 := fun h0 => h (List.eq_nil_of_length_eq_zero h0)
    split at hc
    · rename_i hd
      exact ⟨hd, List.eq_nil_of_length_eq_zero (by omega), by omega⟩
    · omega

theorem onLoop_false (sk : Skeleton) (h1 : sk.reqResolveGoDepth ≠ 0) (h2 : sk.reqHandlerGoDepth ≠ 0)
    (s : State) : onLoopGoroutine sk s = false := by
  simp only [onLoopGoroutine]
  split <;> simp [h1, h2]

end Panrpc.Ce
