/-
  Model/BroadcasterAbs.lean — how an M1 state (Model/Broadcaster.lean) is read as a state of the
  mailbox specification (Spec/Mailbox.lean), and which specification operation an M1 step is.
  Definitions only (they are executed by Driver/Mailbox.lean); the refinement proof is in
  Lemmas/BcMailbox.lean.

      abs     : Bc.State → Mb.MState     generations are epochs, the table is `live`; forgets the
                                         entries' channels, signals and entry contexts, the lock,
                                         the crash flag, `have` vs `waiting`
      absAct  : Bc.State → Bc.Act → Option Mb.MAct      `none` = the step is invisible (stutter)
-/
import Panrpc.Model.Broadcaster
import Panrpc.Spec.Mailbox

namespace Panrpc.Bc
open Panrpc

def absPub : Pub → Mb.PStat
  | .absent => .absent
  | .start k v => .pending k v none
  | .holding k v g => .pending k v (some g)
  | .done true => .delivered
  | .done false => .dropped

def absRcv : Rcv → Mb.RStat
  | .absent => .absent
  | .refused => .refused
  | .refusedCtx => .refused   -- the specification knows one refusal only (closed mailbox): a context refusal is not a step of it
  | .have k g x | .waiting k g x => .bound k g x .none
  | .gotVal k g x v => .bound k g x (.val v)
  | .gotCtx k g x => .bound k g x .ctxErr
  | .gotClosed k g x => .bound k g x .closedErr

def absDel (d : Delivery) : Mb.Handoff :=
  { pub := d.pub, rcv := d.rcv, pkey := d.pkey, rkey := d.rkey, val := d.val }

def ownerOf : Option Entry → Nat
  | some e => e.parent
  | none => 0

/-- the abstraction function: generations are epochs, the table is `live` -/
def abs (s : State) : Mb.MState :=
  { closed := s.closed, live := s.table, next := s.nextGen,
    owner := fun g => ownerOf (s.entries g), done := s.ctxs,
    pubs := fun p => absPub (s.pubs p), rcvs := fun t => absRcv (s.rcvs t),
    handoffs := s.deliveries.map absDel }

/-- which specification operation an M1 step is; `none`: invisible -/
def absAct (s : State) : Act → Option Mb.MAct
  | .receive t k x => some (.register t k x)
  | .rcvCall t => match s.rcvs t with
    | .have .. => none                      -- first call of the receive function: already "no result"
    | _ => some (.again t)
  | .rcvValue t p => some (.handoff p t)
  | .rcvChanClosed t | .rcvDone t => some (.sayClosed t)
  | .rcvCtx t => some (.timeout t)
  | .pubStart p k v => some (.publish p k v)
  | .pubLookup p => some (.lookup p)
  | .pubCtx p => some (.giveUp p)
  | .pubSendClosed _ => none                -- (a crash; unreachable: `C19_no_panic`)
  | .free k => some (.free k)
  | .close => some .close
  | .ctxCancel x => some (.cancel x)
  | .ctxPropagate _ => none                 -- entry contexts are not part of the abstract state

end Panrpc.Bc
