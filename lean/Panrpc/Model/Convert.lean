/-
  Model/Convert.lean — P4: generic value conversion (`convertValue`, rpc/registry.go) and the
  closure wrapper returned by `createClosure` (rpc/manager.go), plus the result half of the
  closure proxy built in `findLocalFunctionToCallRecursively`.

  How values travel (C11).  The callee's proxy puts its arguments into `[]interface{}`, the
  serializer encodes the list, and on the closure owner's side
  `CallClosure(ctx, closureID, args []interface{})` receives the *generically decoded* list.
  The wrapper from `createClosure` converts each element to the declared parameter type with
  `convertValue(reflect.ValueOf(arg), functionType.In(i))` and then calls the function once.
  The function's result travels back the same way and is converted by the proxy with
  `convertValue(rcpRv[0].Elem(), <declared result type>)` — only when that element is valid.

  Universe and what is abstracted
  * `Ty` — declared (static) Go types by *class*.  `int` stands for int, int8 … int64, `uint`
    for uint, uint8 … uint64, uintptr, `float` for float32/float64.  Bit widths are not
    modelled: every conversion is taken inside the range where Go's `Convert` is exact
    (no wrap-around, no truncation of fractions, integers within ±2^53 when they pass through
    a float64).  `anyIface` is `interface{}`.  `other` is any type outside these classes
    (struct, map, pointer, chan, func, array, complex, non-empty interface) that is *not
    identical* to the source value's type.
    NOT in the universe: `[]byte`/`[]rune` (and named variants) — Go converts `string` ⇄ those
    directly; `slice uint` / `slice int` stand for the other element widths.
  * `GVal` — a `reflect.Value` as `convertValue` sees it.  `invalid` is the zero Value
    (`reflect.ValueOf(nil)`, `Elem()` of a nil interface).  `float x` is a float64 holding
    the integral value `x` (fractions are not represented: no modelled statement looks at
    them except `Convert`, which is outside the exact range then).  `slice true xs` is a
    `[]interface{}` whose elements (as returned by `Index(i)`) are interface-kinded, i.e.
    `iface _`; `slice false xs` is a slice with a concrete element type.  A valid nil slice
    and an empty slice are both `slice _ []` (length is all `convertValue` reads).
    `other` is a value of any other kind (map, struct, pointer …).
-/
import Panrpc.Skeleton

namespace Panrpc.Cv
open Panrpc

/-- Declared Go types, by class. -/
inductive Ty where
  | bool
  | int
  | uint
  | float
  | string
  | slice (elem : Ty)
  | anyIface
  | other
  deriving DecidableEq, Repr, Inhabited

/-- A `reflect.Value` as seen by `convertValue`. -/
inductive GVal where
  | invalid
  | bool (b : Bool)
  | int (i : Int)
  | uint (n : Nat)
  | float (x : Int)
  | string (s : String)
  | slice (elemsAreIface : Bool) (xs : List GVal)
  | iface (inner : GVal)
  | other
  deriving Repr, Inhabited

/-! Decidable equality for the nested type (the deriving handler does not cover nested
    inductives): a structural boolean test and its soundness / completeness. -/
mutual
def GVal.beq : GVal → GVal → Bool
  | .invalid, .invalid => true
  | .bool a, .bool b => a == b
  | .int a, .int b => a == b
  | .uint a, .uint b => a == b
  | .float a, .float b => a == b
  | .string a, .string b => a == b
  | .slice f xs, .slice g ys => f == g && GVal.beqList xs ys
  | .iface a, .iface b => GVal.beq a b
  | .other, .other => true
  | _, _ => false
def GVal.beqList : List GVal → List GVal → Bool
  | [], [] => true
  | x :: xs, y :: ys => GVal.beq x y && GVal.beqList xs ys
  | _, _ => false
end

mutual
theorem GVal.eq_of_beq : ∀ (a b : GVal), GVal.beq a b = true → a = b
  | .invalid, b, h => by cases b <;> simp_all [GVal.beq]
  | .bool _, b, h => by cases b <;> simp_all [GVal.beq]
  | .int _, b, h => by cases b <;> simp_all [GVal.beq]
  | .uint _, b, h => by cases b <;> simp_all [GVal.beq]
  | .float _, b, h => by cases b <;> simp_all [GVal.beq]
  | .string _, b, h => by cases b <;> simp_all [GVal.beq]
  | .other, b, h => by cases b <;> simp_all [GVal.beq]
  | .iface a, b, h => by
    cases b <;> simp only [GVal.beq] at h <;> try contradiction
    rw [GVal.eq_of_beq a _ h]
  | .slice f xs, b, h => by
    cases b <;> simp only [GVal.beq] at h <;> try contradiction
    simp only [Bool.and_eq_true, beq_iff_eq] at h
    rw [h.1, GVal.eq_of_beqList xs _ h.2]
theorem GVal.eq_of_beqList : ∀ (a b : List GVal), GVal.beqList a b = true → a = b
  | [], b, h => by cases b <;> simp_all [GVal.beqList]
  | x :: xs, b, h => by
    cases b <;> simp only [GVal.beqList] at h <;> try contradiction
    simp only [Bool.and_eq_true] at h
    rw [GVal.eq_of_beq x _ h.1, GVal.eq_of_beqList xs _ h.2]
end

mutual
theorem GVal.beq_refl : ∀ (a : GVal), GVal.beq a a = true
  | .invalid | .bool _ | .int _ | .uint _ | .float _ | .string _ | .other => by simp [GVal.beq]
  | .iface a => by simp only [GVal.beq]; exact GVal.beq_refl a
  | .slice f xs => by simp only [GVal.beq, beq_self_eq_true, Bool.true_and]; exact GVal.beqList_refl xs
theorem GVal.beqList_refl : ∀ (a : List GVal), GVal.beqList a a = true
  | [] => by simp [GVal.beqList]
  | x :: xs => by simp only [GVal.beqList, Bool.and_eq_true]; exact ⟨GVal.beq_refl x, GVal.beqList_refl xs⟩
end

instance : DecidableEq GVal := fun a b =>
  if h : GVal.beq a b = true then isTrue (GVal.eq_of_beq a b h)
  else isFalse (fun e => h (e ▸ GVal.beq_refl a))

mutual
/-- No zero Value / nil interface anywhere inside the value. -/
def GVal.noInvalid : GVal → Bool
  | .invalid => false
  | .iface v => v.noInvalid
  | .slice _ xs => GVal.noInvalidAll xs
  | _ => true
def GVal.noInvalidAll : List GVal → Bool
  | [] => true
  | x :: xs => x.noInvalid && GVal.noInvalidAll xs
end

/-- `reflect.Kind` (plus the one distinction on slices that `ConvertibleTo` needs). -/
inductive Kind where
  | invalid | bool | int | uint | float | string | sliceIface | sliceTyped | iface | other
  deriving DecidableEq, Repr, Inhabited

def GVal.kind : GVal → Kind
  | .invalid => .invalid
  | .bool _ => .bool
  | .int _ => .int
  | .uint _ => .uint
  | .float _ => .float
  | .string _ => .string
  | .slice true _ => .sliceIface
  | .slice false _ => .sliceTyped
  | .iface _ => .iface
  | .other => .other

def GVal.isInvalid : GVal → Bool
  | .invalid => true
  | _ => false

/-- `dstType.Kind() == reflect.Slice`, with `dstType.Elem()`. -/
def Ty.elem? : Ty → Option Ty
  | .slice e => some e
  | _ => none

def Ty.isAnyIface : Ty → Bool
  | .anyIface => true
  | _ => false

/-- `srcVal.Type().ConvertibleTo(dstType)` on the classes (Go spec, "Conversions"):
    everything is assignable to `interface{}`; numeric ⇄ numeric all ways; identical types;
    integer → string (yields the rune's UTF-8 text); `[]interface{}` → `[]interface{}`.
    A typed slice and a slice type are taken to have different element types (with identical
    ones Go converts directly and the value is the same as converting element by element);
    `other` destinations are by definition not identical to the source type. -/
def convertible : Kind → Ty → Bool
  | .invalid, _ => false            -- never asked: `.Type()` panics first
  | _, .anyIface => true
  | .bool, .bool => true
  | .int, .int => true
  | .int, .uint => true
  | .int, .float => true
  | .int, .string => true
  | .uint, .int => true
  | .uint, .uint => true
  | .uint, .float => true
  | .uint, .string => true
  | .float, .int => true
  | .float, .uint => true
  | .float, .float => true
  | .string, .string => true
  | .sliceIface, .slice .anyIface => true
  | _, _ => false

/-- `srcVal.Convert(dstType)` where `convertible` holds.  Integer → string produces a rune
    string, which is outside the supported domain: marked `other`. -/
def convertDirect : GVal → Ty → GVal
  | .iface w, .anyIface => .iface w       -- (only without the unwrap loop) interface{} → interface{}
  | v, .anyIface => .iface v
  | .int i, .uint => .uint i.toNat
  | .int i, .float => .float i
  | .int _, .string => .other
  | .uint n, .int => .int n
  | .uint n, .float => .float n
  | .uint _, .string => .other
  | .float x, .int => .int x
  | .float x, .uint => .uint x.toNat
  | v, _ => v

/-- `reflect.Zero(dstType)`. -/
def zeroOf : Ty → GVal
  | .bool => .bool false
  | .int => .int 0
  | .uint => .uint 0
  | .float => .float 0
  | .string => .string ""
  | .slice e => .slice e.isAnyIface []
  | .anyIface => .iface .invalid
  | .other => .other

inductive Outcome where
  | ok (v : GVal)
  | err                -- ErrReturnValueTooComplex
  | panic              -- a reflect panic
  deriving DecidableEq, Repr, Inhabited

inductive ElemsOutcome where
  | ok (vs : List GVal)
  | err
  | panic
  deriving DecidableEq, Repr, Inhabited

/-- Statements 2 and 3 of `convertValue`, on the (already unwrapped) source:
      `if !srcVal.IsValid() { return reflect.Zero(dstType), nil }`       (repaired tree only)
      `if srcVal.Type().ConvertibleTo(dstType) { return srcVal.Convert(dstType), nil }`
    `none` = fell through.  `.Type()` on the zero Value panics. -/
def front (sk : Skeleton) (v : GVal) (τ : Ty) : Option Outcome :=
  if sk.cvHandlesInvalid && v.isInvalid then some (.ok (zeroOf τ))
  else if sk.cvUsesConvertibleTo then
    if v.isInvalid then some .panic
    else if convertible v.kind τ then some (.ok (convertDirect v τ))
    else none
  else none

/-- The last statement: `return reflect.Value{}, ErrReturnValueTooComplex`.  Without it the
    model cannot know what the function answers; it says `ok other`, and every theorem that
    depends on it assumes `cvFallbackError`. -/
def fallback (sk : Skeleton) : Outcome :=
  if sk.cvFallbackError then .err else .ok .other

mutual
/-- `convertValue(srcVal, dstType)`, statement by statement. -/
def convertValue (sk : Skeleton) : GVal → Ty → Outcome
  | .iface inner, τ =>
    -- for srcVal.Kind() == reflect.Interface { srcVal = srcVal.Elem() }
    if sk.cvUnwrapsInterfaces then convertValue sk inner τ
    else (front sk (.iface inner) τ).getD (fallback sk)
  | .slice f xs, τ =>
    match front sk (.slice f xs) τ with
    | some o => o
    | none =>
      -- if srcVal.Kind() == reflect.Slice && dstType.Kind() == reflect.Slice { … }
      if sk.cvSliceElementwise then
        match τ.elem? with
        | some e =>
          match convertElems sk xs e with
          | .ok vs => .ok (.slice e.isAnyIface vs)     -- reflect.MakeSlice(dstType, …)
          | .err => .err
          | .panic => .panic
        | none => fallback sk
      else fallback sk
  | .invalid, τ => (front sk .invalid τ).getD (fallback sk)
  | .bool b, τ => (front sk (.bool b) τ).getD (fallback sk)
  | .int i, τ => (front sk (.int i) τ).getD (fallback sk)
  | .uint n, τ => (front sk (.uint n) τ).getD (fallback sk)
  | .float x, τ => (front sk (.float x) τ).getD (fallback sk)
  | .string s, τ => (front sk (.string s) τ).getD (fallback sk)
  | .other, τ => (front sk .other τ).getD (fallback sk)
/-- The element loop: in order, stops at the first error (or panic). -/
def convertElems (sk : Skeleton) : List GVal → Ty → ElemsOutcome
  | [], _ => .ok []
  | x :: xs, e =>
    match convertValue sk x e with
    | .ok v =>
      match convertElems sk xs e with
      | .ok vs => .ok (v :: vs)
      | o => o
    | .err => .err
    | .panic => .panic
end

/-! ### the wrapper returned by `createClosure`, as called by `CallClosure`

`CallClosure` calls `closure(ctx :: args…)`.  `paramTys` are the declared parameter types
*after* the leading `context.Context` (so `functionType.NumIn() = paramTys.length + 1`);
`args` is the generically decoded list that `CallClosure` received.  Position 0 is the
non-nil context the request loop built; its type implements `context.Context`, so its
conversion is `Convert` to an interface type and succeeds.  (Precondition from the README:
the function's first parameter is a `context.Context` and it is not variadic;
`createClosure` does not check either.) -/

inductive WErr where
  | argsCount      -- ErrInvalidArgsCount
  | arg            -- ErrInvalidArg
  | call           -- the error `utils.Call` made out of a recovered panic
  deriving DecidableEq, Repr, Inhabited

inductive ArgsOutcome where
  | ok (vs : List GVal)
  | err
  | panic
  deriving DecidableEq, Repr, Inhabited

inductive WrapperOutcome where
  | ran (converted : List GVal)   -- `utils.Call(reflect.ValueOf(fn), in)` reached, once, with `in`
  | errResult (e : WErr)          -- `return nil, <error>` before the function was called
  | panicOut                      -- a panic leaves the wrapper (recovered further out by `utils.Call`
                                  -- around `CallClosure`: fatal link error on the closure owner's side)
  deriving DecidableEq, Repr, Inhabited

/-- The `for i, arg := range args` loop.  `functionType.In(i)` past the last parameter panics
    (reachable only without the count check). -/
def convertArgs (sk : Skeleton) : List Ty → List GVal → ArgsOutcome
  | _, [] => .ok []
  | [], _ :: _ => .panic
  | τ :: ts, a :: as =>
    match convertValue sk a τ with
    | .ok v =>
      match convertArgs sk ts as with
      | .ok vs => .ok (v :: vs)
      | o => o
    | .err => .err
    | .panic => .panic

def wrapper (sk : Skeleton) (paramTys : List Ty) (args : List GVal) : WrapperOutcome :=
  -- if len(args) != functionType.NumIn() { return nil, ErrInvalidArgsCount }
  if sk.clArgCountChecked && (args.length + 1 != paramTys.length + 1) then .errResult .argsCount
  else
    match convertArgs sk paramTys args with
    | .panic => .panicOut
    | .err => .errResult .arg
    | .ok vs =>
      if vs.length == paramTys.length then .ran vs
      else
        -- too few arguments: `reflect.Value.Call` panics before the function is entered
        if sk.clCallViaUtilsCall && sk.ucRecovers then .errResult .call else .panicOut

/-- What the function did once it was called. -/
inductive FnOut where
  | ret1 (err : Option String)                 -- `func(ctx, …) error`
  | ret2 (v : GVal) (err : Option String)      -- `func(ctx, …) (T, error)`
  | panicked
  deriving DecidableEq, Repr, Inhabited

/-- The wrapper's own `(interface{}, error)` result. -/
structure WRet where
  value : Option GVal          -- `none` = nil interface
  err   : Option String
  recoveredPanic : Bool := false
  deriving DecidableEq, Repr, Inhabited

/-- The tail of the wrapper after `utils.Call`; `none` = the panic propagates. -/
def wrapperReturn (sk : Skeleton) : FnOut → Option WRet
  | .ret1 e => some { value := none, err := e }
  | .ret2 v e => some { value := some v, err := e }        -- out[0].Interface() in both branches
  | .panicked =>
    if sk.clCallViaUtilsCall && sk.ucRecovers then
      some { value := none, err := none, recoveredPanic := true }
    else none

/-! ### the proxy's result half

    valueReturnValue := reflect.New(functionType.Out(0))
    if el := rcpRv[0].Elem(); el.IsValid() {
        convertedValueReturnType, err := convertValue(el, valueReturnValue.Type().Elem())
        if err != nil { panic(err) }
        valueReturnValue.Elem().Set(convertedValueReturnType)
    }

`guarded` says whether the `el.IsValid()` guard is there (it is on the pinned tree; the fact is
not in `Skeleton` yet).  `el` is the generically decoded result.  Outcome `err` is the
`panic(err)` that the proxy's own deferred `recover` turns into `setErr(err)`. -/
def proxyResult (sk : Skeleton) (guarded : Bool) (ρ : Ty) (el : GVal) : Outcome :=
  if guarded && el.isInvalid then .ok (zeroOf ρ) else convertValue sk el ρ

/-! ### typed values and their generic image -/

/-- Supported typed values (C11: numbers, booleans, strings and slices of those — nesting of
    slices is allowed here).  A slice carries its declared element type and whether it is nil. -/
inductive TVal where
  | bool (b : Bool)
  | int (i : Int)
  | uint (n : Nat)
  | float (x : Int)
  | string (s : String)
  | slice (elem : Ty) (isNil : Bool) (xs : List TVal)
  deriving Repr, Inhabited

def TVal.ty : TVal → Ty
  | .bool _ => .bool
  | .int _ => .int
  | .uint _ => .uint
  | .float _ => .float
  | .string _ => .string
  | .slice e _ _ => .slice e

/-- Supported declared types. -/
def Ty.supported : Ty → Bool
  | .bool | .int | .uint | .float | .string => true
  | .slice e => e.supported
  | .anyIface | .other => false

mutual
/-- Well-typed: elements have the declared element type, a nil slice has no elements. -/
def TVal.wt : TVal → Bool
  | .slice e isNil xs => e.supported && (!isNil || xs.isEmpty) && TVal.wtAll e xs
  | _ => true
def TVal.wtAll (e : Ty) : List TVal → Bool
  | [] => true
  | x :: xs => x.wt && decide (x.ty = e) && TVal.wtAll e xs
end

mutual
/-- No nil slice anywhere inside. -/
def TVal.nilFree : TVal → Bool
  | .slice _ isNil xs => !isNil && TVal.nilFreeAll xs
  | _ => true
def TVal.nilFreeAll : List TVal → Bool
  | [] => true
  | x :: xs => x.nilFree && TVal.nilFreeAll xs
end

/-- The value may itself be a nil slice, but contains none. -/
def TVal.innerNilFree : TVal → Bool
  | .slice _ _ xs => TVal.nilFreeAll xs
  | _ => true

mutual
/-- The typed value as a `reflect.Value` of its declared type (what the function receives). -/
def TVal.embed : TVal → GVal
  | .bool b => .bool b
  | .int i => .int i
  | .uint n => .uint n
  | .float x => .float x
  | .string s => .string s
  | .slice _ _ xs => .slice false (TVal.embedAll xs)
def TVal.embedAll : List TVal → List GVal
  | [] => []
  | x :: xs => x.embed :: TVal.embedAll xs
end

/-- Generic decoders. -/
inductive Codec where
  | json   -- encoding/json into interface{}: every number is a float64
  | cbor   -- fxamacker/cbor into interface{}: non-negative integers uint64, negative int64, floats float64
  deriving DecidableEq, Repr, Inhabited

def genericInt : Codec → Int → GVal
  | .json, i => .float i
  | .cbor, i => if i < 0 then .int i else .uint i.toNat

def genericUint : Codec → Nat → GVal
  | .json, n => .float n
  | .cbor, n => .uint n

def genericFloat : Codec → Int → GVal
  | _, x => .float x

mutual
/-- `genericDec (enc v)`: what the generic decoder produces for the encoding of a typed value.
    A nil slice encodes as null and decodes as `nil` (→ the zero Value); a slice decodes as
    `[]interface{}`, its elements interface-wrapped. -/
def genericOf (c : Codec) : TVal → GVal
  | .bool b => .bool b
  | .int i => genericInt c i
  | .uint n => genericUint c n
  | .float x => genericFloat c x
  | .string s => .string s
  | .slice _ true _ => .invalid
  | .slice _ false xs => .slice true (genericOfAll c xs)
def genericOfAll (c : Codec) : List TVal → List GVal
  | [] => []
  | x :: xs => .iface (genericOf c x) :: genericOfAll c xs
end

end Panrpc.Cv
