/-
  Model/Registry.lean — M4: labelled transition system of the link life-cycle part of
  rpc/registry.go (`LinkMessage`'s setup goroutine, the remotes table, the connect /
  disconnect hooks, `ForRemotes`, the remote id a handler reads from its context).

  One registry, unboundedly many links `l : Nat` (every `Link*` call is a fresh `l`; a link
  is a thread group: setup goroutine, request loop, response loop, context watcher, the
  handler goroutines, the application threads calling through the link's remote).  One
  constructor of `Op` per atomic step; an action is an `Op` tagged with the link it belongs
  to, so "every action of link l" is literally `{ a // a.link = l }`.  Every effect that
  differs between source trees is selected by a `Skeleton` fact (`sk.rg…`, `sk.req…`,
  `sk.resp…`), regenerated from /repo on every run.

  Source map (rpc/registry.go, `LinkMessage`):
    linkStart            the `Link*` call: per-link closures are built
                         (`responseResolver`, `remote`, `fatalErr`), setup goroutine spawned
    setupRegister        `remoteID := uuid.NewString()`; lock; `r.remotes[remoteID] = …`;
                         [registry hook; link hook;] unlock          (one step iff rgRegisterAtomic)
    setupConnectHooks    the connect hooks when they are NOT in the insert's critical section
    loopsStart           `wg.Add(1); go requestLoop; wg.Add(1); go responseLoop`, then `wg.Wait()`
    reqRead              request loop: `readRequestCtx()` + `Unmarshal` succeed, `go resolve…`
    reqHandle            a resolver goroutine enters the handler: the handler's context carries
                         `context.WithValue(ctx, RemoteIDContextKey, remoteID)`
    reqReadFails         `readRequestCtx()` returns an error → `setErr(err); return`
    reqBadFrame          `req.Unmarshal` fails                  → `setErr(err); return`
    respRead tgt         response loop: read + unmarshal succeed, `go responseResolver.Publish`;
                         `tgt` = link whose pending call is completed by it (none: unknown call id)
    respReadFails / respBadFrame   as for the request loop
    setupLoopsDone       `wg.Wait()` returns
    setupUnregister      deferred: lock; `delete(r.remotes, remoteID)`; [hooks;] unlock
    setupDisconnectHooks the disconnect hooks when they are NOT in the delete's critical section
    callOn               the application calls a stub of link l's remote (makeRPC closure)
    callDone             one call in flight on l returns without a response (its own ctx)
    cancel               the application cancels the context it passed to this `Link*` call
    ctxWatch             `go func(){ <-ctx.Done(); setErr(ctx.Err()) }()`
    failReads            the application makes this link's transport reads fail (closes the conn)
    faultOn              any other fatal error on l (write error, codec error, handler error,
                         remote-walk error, recovered panic): `setErr(err)`

  `ForRemotes` iterates `r.remotes` inside one `remotesLock` region
  (`sk.rgForRemotesUnderLock`): what it enumerates is the key set of `remotes` at one instant.
-/
import Panrpc.Go.Prim
import Panrpc.Skeleton

namespace Panrpc.Rg

inductive HookKind where
  | regConnect       -- r.hooks.OnClientConnect      (registry-wide)
  | regDisconnect    -- r.hooks.OnClientDisconnect
  | linkConnect      -- hooks.OnClientConnect        (the *LinkHooks of this Link call)
  | linkDisconnect   -- hooks.OnClientDisconnect
  deriving DecidableEq, Repr, Inhabited

structure HookEv where
  kind : HookKind
  link : Nat
  id   : Nat
  deriving DecidableEq, Repr, Inhabited

/-- program counter of the setup goroutine -/
inductive Setup where
  | absent         -- no `Link*` call with this index yet
  | started        -- goroutine spawned, before the registration region
  | inserted       -- (only if registration is not atomic) in the table, hooks not yet called
  | registered     -- past the registration region, loops not yet spawned / not yet waiting
  | waiting        -- in `wg.Wait()`
  | loopsDone      -- `wg.Wait()` returned, deferred function not yet run
  | deleted        -- (only if removal is not atomic) out of the table, hooks not yet called
  | unregistered   -- goroutine exited
  deriving DecidableEq, Repr, Inhabited

inductive Loop where
  | notStarted
  | reading
  | exited
  deriving DecidableEq, Repr, Inhabited

structure Link where
  setup        : Setup
  id           : Option Nat   -- the `remoteID` local of the setup goroutine
  reqLoop      : Loop
  respLoop     : Loop
  ended        : Bool         -- fatal slot set: `Link*` returns / has returned
  closed       : Bool         -- pending-call table (`responseResolver`) closed
  ctxCancelled : Bool
  readsFail    : Bool
  inflight     : Nat          -- calls in flight on this link (entries of its pending-call table)
  pendingReq   : Nat          -- request frames read whose handler has not been entered yet
  deriving DecidableEq, Repr, Inhabited

def Link.fresh : Link :=
  { setup := .absent, id := none, reqLoop := .notStarted, respLoop := .notStarted,
    ended := false, closed := false, ctxCancelled := false, readsFail := false,
    inflight := 0, pendingReq := 0 }

/-- ghost: a handler was entered on `link`; `rid` is what `GetRemoteID(ctx)` yields there -/
structure Invocation where
  link : Nat
  rid  : Option Nat
  deriving DecidableEq, Repr, Inhabited

/-- ghost: a call through the remote of link `via` wrote its request frame with the writer of
    link `writer` and waits in the pending-call table `table` (`some l`: link l's own table,
    `none`: a table shared by all links) -/
structure Sent where
  via    : Nat
  writer : Nat
  table  : Option Nat
  deriving DecidableEq, Repr, Inhabited

/-- ghost: a response frame read by the response loop of link `reader` completed a call that was
    made through the remote of link `caller` -/
structure Delivered where
  reader : Nat
  caller : Nat
  deriving DecidableEq, Repr, Inhabited

structure State where
  remotes     : Nat → Option Nat     -- r.remotes: remote id → owning link
  nextId      : Nat                  -- uuid.NewString() counter (freshness assumption)
  lastImpl    : Nat                  -- link that last ran implementRemoteStructRecursively
                                     --   (only read if the remote value is NOT per link)
  links       : Nat → Link
  hookLog     : List HookEv          -- ghost, newest first
  invocations : List Invocation      -- ghost, newest first
  written     : List Sent            -- ghost, newest first
  delivered   : List Delivered       -- ghost, newest first
  deriving Inhabited

def init : State :=
  { remotes := fun _ => none, nextId := 0, lastImpl := 0, links := fun _ => Link.fresh,
    hookLog := [], invocations := [], written := [], delivered := [] }

inductive Op where
  | linkStart
  | setupRegister
  | setupConnectHooks
  | loopsStart
  | reqRead
  | reqHandle
  | reqReadFails
  | reqBadFrame
  | respRead (tgt : Option Nat)
  | respReadFails
  | respBadFrame
  | setupLoopsDone
  | setupUnregister
  | setupDisconnectHooks
  | callOn
  | callDone
  | cancel
  | ctxWatch
  | failReads
  | faultOn
  deriving DecidableEq, Repr, Inhabited

structure Act where
  link : Nat
  op   : Op
  deriving DecidableEq, Repr, Inhabited

/-- `setErr` of link `l`: sets the fatal slot and closes the pending-call table.  Both are
    per-link objects iff the source creates them inside `LinkMessage`
    (`rgPerLinkFatalSlot`, `rgPerLinkBroadcaster`); a shared one is hit for every link. -/
def setErrLinks (sk : Skeleton) (links : Nat → Link) (l : Nat) : Nat → Link := fun i =>
  let k := links i
  { k with
    ended    := k.ended || (decide (i = l) || !sk.rgPerLinkFatalSlot),
    closed   := k.closed || (decide (i = l) || !sk.rgPerLinkBroadcaster),
    inflight := if i = l ∨ sk.rgPerLinkBroadcaster = false then 0 else k.inflight }

/-- hook events of the connect side, newest first -/
def connectEvs (sk : Skeleton) (l i : Nat) : List HookEv :=
  (if sk.rgLinkConnectHook = true then [⟨.linkConnect, l, i⟩] else []) ++
  (if sk.rgRegistryConnectHook = true then [⟨.regConnect, l, i⟩] else [])

def disconnectEvs (sk : Skeleton) (l i : Nat) : List HookEv :=
  (if sk.rgLinkDisconnectHook = true then [⟨.linkDisconnect, l, i⟩] else []) ++
  (if sk.rgRegistryDisconnectHook = true then [⟨.regDisconnect, l, i⟩] else [])

def step (sk : Skeleton) (s : State) (a : Act) : Option State :=
  let l := a.link
  let k := s.links l
  match a.op with
  | .linkStart =>
    if k.setup = .absent then
      some { s with links := upd s.links l { k with setup := .started }, lastImpl := l }
    else none
  | .setupRegister =>
    if k.setup = .started then
      let i := if sk.rgPerLinkRemoteId = true then s.nextId else 0
      if sk.rgRegisterAtomic = true then
        some { s with remotes := upd s.remotes i (some l), nextId := s.nextId + 1,
                      links := upd s.links l { k with setup := .registered, id := some i },
                      hookLog := connectEvs sk l i ++ s.hookLog }
      else
        some { s with remotes := upd s.remotes i (some l), nextId := s.nextId + 1,
                      links := upd s.links l { k with setup := .inserted, id := some i } }
    else none
  | .setupConnectHooks =>
    if k.setup = .inserted then
      match k.id with
      | some i =>
        some { s with links := upd s.links l { k with setup := .registered },
                      hookLog := connectEvs sk l i ++ s.hookLog }
      | none => none   -- unreachable: `inserted` is entered with the id assigned
    else none
  | .loopsStart =>
    if k.setup = .registered then
      some { s with links := upd s.links l { k with
        setup := .waiting,
        reqLoop := if k.reqLoop = .notStarted then .reading else k.reqLoop,
        respLoop := if k.respLoop = .notStarted then .reading else k.respLoop } }
    else if sk.rgRegisterBeforeLoops = false ∧ k.setup = .started ∧ k.reqLoop = .notStarted then
      -- the loops are spawned before the registration region is reached
      some { s with links := upd s.links l { k with reqLoop := .reading, respLoop := .reading } }
    else none
  | .reqRead =>
    if k.reqLoop = .reading ∧ k.readsFail = false then
      some { s with links := upd s.links l { k with pendingReq := k.pendingReq + 1 } }
    else none
  | .reqHandle =>
    if 0 < k.pendingReq then
      some { s with links := upd s.links l { k with pendingReq := k.pendingReq - 1 },
                    invocations :=
                      ⟨l, if sk.reqCtxCarriesRemoteId = true then k.id else none⟩ :: s.invocations }
    else none
  | .reqReadFails =>
    if k.reqLoop = .reading ∧ (k.readsFail = true ∨ k.ctxCancelled = true) then
      let ls := setErrLinks sk s.links l
      some { s with links := upd ls l { (ls l) with
        reqLoop := if sk.reqLoopExitsOnReadErr = true then .exited else .reading } }
    else none
  | .reqBadFrame =>
    if k.reqLoop = .reading ∧ k.readsFail = false then
      let ls := setErrLinks sk s.links l
      some { s with links := upd ls l { (ls l) with
        reqLoop := if sk.reqLoopExitsOnReadErr = true then .exited else .reading } }
    else none
  | .respRead tgt =>
    if k.respLoop = .reading ∧ k.readsFail = false then
      match tgt with
      | none => some s
      | some t =>
        -- the frame is published into the table the response loop of l closes over
        if (t = l ∨ sk.rgPerLinkBroadcaster = false) ∧ 0 < (s.links t).inflight then
          some { s with links := upd s.links t { (s.links t) with inflight := (s.links t).inflight - 1 },
                        delivered := ⟨l, t⟩ :: s.delivered }
        else none
    else none
  | .respReadFails =>
    if k.respLoop = .reading ∧ (k.readsFail = true ∨ k.ctxCancelled = true) then
      let ls := setErrLinks sk s.links l
      some { s with links := upd ls l { (ls l) with
        respLoop := if sk.respLoopExitsOnReadErr = true then .exited else .reading } }
    else none
  | .respBadFrame =>
    if k.respLoop = .reading ∧ k.readsFail = false then
      let ls := setErrLinks sk s.links l
      some { s with links := upd ls l { (ls l) with
        respLoop := if sk.respLoopExitsOnReadErr = true then .exited else .reading } }
    else none
  | .setupLoopsDone =>
    if k.setup = .waiting ∧
       (sk.rgWaitsForBothLoops = false ∨ (k.reqLoop = .exited ∧ k.respLoop = .exited)) then
      some { s with links := upd s.links l { k with setup := .loopsDone } }
    else none
  | .setupUnregister =>
    if k.setup = .loopsDone ∨
       (sk.rgUnregisterDeferredAfterWait = false ∧ (k.setup = .registered ∨ k.setup = .waiting)) then
      match k.id with
      | some i =>
        if sk.rgUnregisterAtomic = true then
          some { s with remotes := upd s.remotes i none,
                        links := upd s.links l { k with setup := .unregistered },
                        hookLog := disconnectEvs sk l i ++ s.hookLog }
        else
          some { s with remotes := upd s.remotes i none,
                        links := upd s.links l { k with setup := .deleted } }
      | none => none   -- unreachable: the `defer` is executed after `remoteID` is assigned
    else none
  | .setupDisconnectHooks =>
    if k.setup = .deleted then
      match k.id with
      | some i =>
        some { s with links := upd s.links l { k with setup := .unregistered },
                      hookLog := disconnectEvs sk l i ++ s.hookLog }
      | none => none
    else none
  | .callOn =>
    -- the application holds link l's remote: it got it from ForRemotes or a connect hook
    if k.id.isSome = true then
      let w := if sk.rgPerLinkRemoteValue = true then l else s.lastImpl
      if (s.links w).closed = false ∧ (s.links w).ctxCancelled = false then
        some { s with links := upd s.links w { (s.links w) with inflight := (s.links w).inflight + 1 },
                      written := ⟨l, w, if sk.rgPerLinkBroadcaster = true then some w else none⟩ :: s.written }
      else
        -- Receive refuses / the write fails: recovered panic → that stub's setErr
        some { s with links := setErrLinks sk s.links w }
    else none
  | .callDone =>
    if 0 < k.inflight then
      some { s with links := upd s.links l { k with inflight := k.inflight - 1 } }
    else none
  | .cancel =>
    if k.setup ≠ .absent then
      some { s with links := upd s.links l { k with ctxCancelled := true } }
    else none
  | .ctxWatch =>
    if k.setup ≠ .absent ∧ k.ctxCancelled = true ∧ sk.watcherCallsSetErr = true then
      some { s with links := setErrLinks sk s.links l }
    else none
  | .failReads =>
    if k.setup ≠ .absent then
      some { s with links := upd s.links l { k with readsFail := true } }
    else none
  | .faultOn =>
    if k.setup ≠ .absent then
      some { s with links := setErrLinks sk s.links l }
    else none

inductive Reach (sk : Skeleton) : State → Prop where
  | init : Reach sk init
  | step {s s' : State} (a : Act) : Reach sk s → step sk s a = some s' → Reach sk s'

def run (sk : Skeleton) (s : State) (acts : List Act) : Option State := runFrom (step sk) s acts

theorem reach_of_run (sk : Skeleton) {s s' : State} (acts : List Act)
    (h : Reach sk s) (hr : run sk s acts = some s') : Reach sk s' := by
  induction acts generalizing s with
  | nil => simp [run, runFrom] at hr; subst hr; exact h
  | cons a as ih =>
    simp only [run, runFrom] at hr
    cases hs : step sk s a with
    | none => simp [hs] at hr
    | some s1 =>
      simp only [hs] at hr
      exact ih (Reach.step a h hs) hr

/-! ### vocabulary of the property statements (derived, never read by `step`) -/

/-- setup pcs at which the link's entry is in `r.remotes` (atomic registration / removal) -/
def Setup.live : Setup → Bool
  | .registered | .waiting | .loopsDone => true
  | _ => false

/-- the events of kind `k` of link `l`, newest first -/
def evs (log : List HookEv) (k : HookKind) (l : Nat) : List HookEv :=
  log.filter (fun e => decide (e.kind = k ∧ e.link = l))

/-- the expected events of one kind of one link, given the id they must carry (if any) -/
def expect (k : HookKind) (l : Nat) : Option Nat → List HookEv
  | some i => [⟨k, l, i⟩]
  | none => []

/-- the id of the link's disconnect events: present once the setup goroutine has exited -/
def Link.discId (k : Link) : Option Nat := if k.setup = .unregistered then k.id else none

def HookKind.isLink : HookKind → Bool
  | .linkConnect | .linkDisconnect => true
  | _ => false

def HookKind.isReg : HookKind → Bool
  | .regConnect | .regDisconnect => true
  | _ => false

/-- the registry-wide counterpart of a hook kind -/
def HookKind.toReg : HookKind → HookKind
  | .linkConnect => .regConnect
  | .linkDisconnect => .regDisconnect
  | k => k

def HookEv.toReg (e : HookEv) : HookEv := { e with kind := e.kind.toReg }

/-- events of link `l` delivered to the hooks passed to its own `Link*` call, newest first -/
def linkEvs (log : List HookEv) (l : Nat) : List HookEv :=
  log.filter (fun e => e.kind.isLink && decide (e.link = l))

/-- events of link `l` delivered to the registry-wide hooks, newest first -/
def regEvs (log : List HookEv) (l : Nat) : List HookEv :=
  log.filter (fun e => e.kind.isReg && decide (e.link = l))

def Link.eraseId (k : Link) : Link := { k with id := none }

/-- The own steps of link `l` that take it from its current pc to the exit of all three of its
    goroutines, once its transport reads fail. -/
def teardownRun (k : Link) (l : Nat) : List Act :=
  (if k.setup = .started then [⟨l, .setupRegister⟩] else []) ++
  (if k.setup = .started ∨ k.setup = .registered then [⟨l, .loopsStart⟩] else []) ++
  (if k.reqLoop ≠ .exited then [⟨l, .reqReadFails⟩] else []) ++
  (if k.respLoop ≠ .exited then [⟨l, .respReadFails⟩] else []) ++
  (if k.setup ≠ .loopsDone then [⟨l, .setupLoopsDone⟩] else []) ++
  [⟨l, .setupUnregister⟩]

/-- projection used to observe the three goroutines of a link -/
def Link.pcs (k : Link) : Setup × Loop × Loop := (k.setup, k.reqLoop, k.respLoop)

/-- the own steps that let the setup goroutine and both loops of `l` exit, from any pc -/
def exitRun (k : Link) (l : Nat) : List Act :=
  if k.setup = .unregistered then [] else teardownRun k l

end Panrpc.Rg
