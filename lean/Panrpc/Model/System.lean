/-
  Model/System.lean — M3: two endpoints of one healthy link, the message-correlation core of
  rpc/registry.go (stub `makeRPC`, request loop, response loop of `LinkMessage`).

  * Endpoints `E = A | B`, `peer`.  The link is *healthy*: the model has no fault action.  The
    transport may reorder and delay arbitrarily: frames in flight are multisets (`reqDeliver e i`
    / `resDeliver e i` consume ANY frame `i` of the buffer).
  * One constructor of `Act` per atomic step; every nondeterministic choice (which frame, which
    thread, what the application code returns, when it stalls, whether it calls the peer) is an
    argument of the action, so `step` is a total function `Skeleton → State → Act → Option State`.
  * The effects that depend on the source tree are selected by `Skeleton` facts:
      stubCallIdFresh            call id = fresh per call (else: one constant id)
      stubReceiveKeyIsCallId     `Receive(callID, …)`: the waiter is registered under the call's id
      stubRecvBeforeWrite        `Receive(callID)` before `writeRequest` (else the write comes first
                                 and registration is a later, separate step `callRegister`)
      stubRequestCallIsCallId / stubRequestFunctionIsName    contents of the request frame
      reqResolveGoDepth / reqHandlerGoDepth   number of `go` between the request loop and the
                                 resolver / `utils.Call`: 0 ⇒ the loop runs it inline (`reqLoopBusy`)
      reqCallViaUtilsCall        exactly one `utils.Call(function,args)` per request
      reqResponseCallIsReqCall   `Response{Call: req.Call}`
      reqOneResponsePerBranch    exactly one `writeResponse` per handler
      respPublishAsync           `go responseResolver.Publish(…)` (else the response loop blocks in
                                 Publish: `resLoopBusy`)
      reqLoopBlocksOnlyOnRead / respLoopBlocksOnlyOnRead   false ⇒ something in the loop body between two reads can wait
                                 (a semaphore, a lock, a channel): modelled as the strictest such limit, "the loop does not
                                 take the next frame until the goroutine it started for this one has finished"
      respPublishKeyIsResCall / respPublishValueIsResValue   key and payload of the Publish

  Source map (rpc/registry.go):
    callStart      makeRPC literal: `callID := uuid.NewString()`; `responseResolver.Receive(callID, ctx)`
                   (when `stubRecvBeforeWrite`), `go func(){ rr() … }` waiter
    callWrite      `writeRequest(b)` with `Request{Call: callID, Function: name, Args}`
    callRegister   (only if the source registers after writing)
    reqDeliver     request loop: `readRequest()`; `req.Unmarshal`; `go func(){ resolve …`
    handlerEnter   `go func(){ utils.Call(function, args)`       — user code entered (invocation log)
    handlerStall / handlerResume     user code blocks / continues
    handlerCallPeer                  user code calls a remote function of the peer (nested call)
    handlerNestedDone                that call returned
    handlerReturn  user code returns (value, err): ARBITRARY, chosen by the action
    respond        `writeResponse(Response{Call: req.Call, Value, Err})`
    resDeliver     response loop: `readResponse()`; `res.Unmarshal`; `go responseResolver.Publish(res.Call, …)`
    publish        Publish finds the entry for its key and hands the value to the waiter (M1 `rcvValue`);
                   the waiter then `Free`s the key
    publishDrop    Publish finds no entry for its key and returns
    callReturn     `case rawReturnValue := <-res` in the stub's final select
-/
import Panrpc.Go.Prim
import Panrpc.Skeleton

namespace Panrpc.Sys

inductive E where
  | A | B
  deriving DecidableEq, Repr, Inhabited

def peer : E → E
  | .A => .B
  | .B => .A

@[simp, grind =] theorem peer_peer (e : E) : peer (peer e) = e := by cases e <;> rfl
@[simp, grind .] theorem peer_ne (e : E) : peer e ≠ e := by cases e <;> simp [peer]
@[simp, grind .] theorem ne_peer (e : E) : e ≠ peer e := by cases e <;> simp [peer]
theorem eq_peer_of_ne {e e' : E} (h : e' ≠ e) : e' = peer e := by
  cases e <;> cases e' <;> simp_all [peer]

/-- point update of a per-endpoint value -/
def updE {α : Type} (f : E → α) (e : E) (v : α) : E → α :=
  fun x => if x = e then v else f x

/-- point update of a per-endpoint table -/
def upd2 {α : Type} (f : E → Nat → α) (e : E) (k : Nat) (v : α) : E → Nat → α :=
  fun x i => if x = e ∧ i = k then v else f x i

theorem updE_apply {α : Type} (f : E → α) (e x : E) (v : α) :
    updE f e v x = if x = e then v else f x := rfl

theorem upd2_apply {α : Type} (f : E → Nat → α) (e x : E) (k i : Nat) (v : α) :
    upd2 f e k v x i = if x = e ∧ i = k then v else f x i := rfl

@[simp] theorem updE_same {α : Type} (f : E → α) (e : E) (v : α) : updE f e v e = v := by
  simp [updE]

@[simp] theorem upd2_same {α : Type} (f : E → Nat → α) (e : E) (k : Nat) (v : α) :
    upd2 f e k v e k = v := by
  simp [upd2]

/-- program counter of a call thread (the stub literal of `makeRPC`) -/
inductive CPc where
  | absent
  | started        -- id chosen, nothing registered, nothing written (only if the source writes first)
  | registered     -- `Receive(callID)` done, waiter spawned, request not yet written
  | writtenUnreg   -- request written, not yet registered (only if the source writes first)
  | written        -- registered and request written: in the final `select`
  | returned
  deriving DecidableEq, Repr, Inhabited

/-- the request has been written -/
def CPc.wrote : CPc → Bool
  | .writtenUnreg | .written | .returned => true
  | _ => false

/-- the waiter goroutine of the call is inside `rr()` -/
def CPc.waiting : CPc → Bool
  | .registered | .written => true
  | _ => false

structure Call where
  pc     : CPc := .absent
  id     : Nat := 0                         -- the call id (`callID`)
  fn     : Nat := 0                         -- the remote function's name
  args   : Nat := 0                         -- the (abstract) argument tuple
  parent : Option (E × Nat) := none         -- the handler thread that issued it (nested calls)
  result : Option (Nat × Nat) := none       -- (value, err) the waiter was handed
  deriving DecidableEq, Repr, Inhabited

structure ReqFrame where
  call : Nat
  fn   : Nat
  args : Nat
  deriving DecidableEq, Repr, Inhabited

structure ResFrame where
  call  : Nat
  value : Nat
  err   : Nat
  deriving DecidableEq, Repr, Inhabited

/-- program counter of a resolver+handler thread -/
inductive HPc where
  | absent
  | resolving                     -- `findLocalFunctionToCallRecursively`
  | running                       -- inside user code
  | stalled                       -- inside user code, blocked for as long as it likes
  | waitingNested (t : Nat)       -- inside user code, inside a call to the peer (call thread `t`)
  | returned                      -- user code returned, response not yet written
  | finished
  deriving DecidableEq, Repr, Inhabited

/-- user code has been entered -/
def HPc.entered : HPc → Bool
  | .absent | .resolving => false
  | _ => true

structure Handler where
  pc  : HPc := .absent
  req : ReqFrame := ⟨0, 0, 0⟩
  ret : Option (Nat × Nat) := none
  deriving DecidableEq, Repr, Inhabited

/-- ghost: one record per entry of user code -/
structure Invocation where
  ep   : E
  h    : Nat                      -- the handler thread that made it
  call : Nat                      -- the request's call id
  fn   : Nat
  args : Nat
  ret  : Option (Nat × Nat)       -- filled in at return
  deriving DecidableEq, Repr, Inhabited

inductive Pub where
  | absent
  | pending (f : ResFrame)
  | done (f : ResFrame) (delivered : Bool)
  deriving DecidableEq, Repr, Inhabited

/-- ghost: one record per value handed to a waiter -/
structure Delivery where
  ep        : E
  pub       : Nat
  waiter    : Nat     -- call thread whose waiter got the value
  waiterId  : Nat     -- that call's id
  frameCall : Nat     -- call id in the response frame
  value     : Nat
  err       : Nat
  deriving DecidableEq, Repr, Inhabited

structure State where
  nextCall    : E → Nat
  calls       : E → Nat → Call
  pending     : E → Nat → Bool          -- the response resolver's key table
  reqs        : E → List ReqFrame       -- requests in flight TOWARDS the endpoint
  ress        : E → List ResFrame       -- responses in flight TOWARDS the endpoint
  nextHandler : E → Nat
  handlers    : E → Nat → Handler
  served      : E → Nat → Bool          -- ghost: a request carrying this call id has been consumed here
  servedBy    : E → Nat → Nat           -- ghost: … by this handler thread (meaningful where `served`)
  nextPub     : E → Nat
  pubs        : E → Nat → Pub
  reqLoopBusy : E → Option Nat          -- the request loop is running this handler thread inline
  resLoopBusy : E → Option Nat          -- the response loop is inside this Publish
  invocations : List Invocation         -- ghost
  deliveries  : List Delivery           -- ghost
  deriving Inhabited

def init : State :=
  { nextCall := fun _ => 0, calls := fun _ _ => {}, pending := fun _ _ => false,
    reqs := fun _ => [], ress := fun _ => [],
    nextHandler := fun _ => 0, handlers := fun _ _ => {}, served := fun _ _ => false, servedBy := fun _ _ => 0,
    nextPub := fun _ => 0, pubs := fun _ _ => .absent,
    reqLoopBusy := fun _ => none, resLoopBusy := fun _ => none,
    invocations := [], deliveries := [] }

inductive Act where
  | callStart (e : E) (fn args : Nat)
  | callWrite (e : E) (t : Nat)
  | callRegister (e : E) (t : Nat)
  | reqDeliver (e : E) (i : Nat)
  | handlerEnter (e : E) (h : Nat)
  | handlerStall (e : E) (h : Nat)
  | handlerResume (e : E) (h : Nat)
  | handlerCallPeer (e : E) (h : Nat) (fn args : Nat)
  | handlerNestedDone (e : E) (h : Nat)
  | handlerReturn (e : E) (h : Nat) (value err : Nat)
  | respond (e : E) (h : Nat)
  | resDeliver (e : E) (i : Nat)
  | publish (e : E) (p : Nat) (t : Nat)
  | publishDrop (e : E) (p : Nat)
  | callReturn (e : E) (t : Nat)
  deriving DecidableEq, Repr, Inhabited

/-- the key under which the stub registers its waiter in the response resolver -/
def recvKey (sk : Skeleton) (id : Nat) : Nat :=
  if sk.stubReceiveKeyIsCallId = true then id else 0

/-- the first steps of the stub literal: choose the call id and (if the source does it first)
    register it in the response resolver -/
def startCall (sk : Skeleton) (s : State) (e : E) (fn args : Nat) (parent : Option (E × Nat)) : State :=
  let t := s.nextCall e
  let id := if sk.stubCallIdFresh = true then t else 0
  { s with
    nextCall := updE s.nextCall e (t + 1),
    calls := upd2 s.calls e t
      { pc := if sk.stubRecvBeforeWrite = true then .registered else .started,
        id := id, fn := fn, args := args, parent := parent, result := none },
    pending := if sk.stubRecvBeforeWrite = true then upd2 s.pending e (recvKey sk id) true else s.pending }

/-- the request frame the stub writes -/
def mkReq (sk : Skeleton) (c : Call) : ReqFrame :=
  { call := if sk.stubRequestCallIsCallId = true then c.id else 0,
    fn := if sk.stubRequestFunctionIsName = true then c.fn else 0,
    args := c.args }

/-- the response frame a handler thread writes -/
def mkRes (sk : Skeleton) (req : ReqFrame) (r : Nat × Nat) : ResFrame :=
  { call := if sk.reqResponseCallIsReqCall = true then req.call else 0, value := r.1, err := r.2 }

/-- key / value of the Publish the response loop spawns -/
def pubKey (sk : Skeleton) (f : ResFrame) : Nat :=
  if sk.respPublishKeyIsResCall = true then f.call else 0

def pubVal (sk : Skeleton) (f : ResFrame) : Nat :=
  if sk.respPublishValueIsResValue = true then f.value else 0

/-- the invocation record(s) made when the handler thread enters user code -/
def mkInv (sk : Skeleton) (e : E) (h : Nat) (req : ReqFrame) : List Invocation :=
  let r : Invocation := { ep := e, h := h, call := req.call, fn := req.fn, args := req.args, ret := none }
  if sk.reqCallViaUtilsCall = true then [r] else [r, r]

/-- fill in the return of the invocation(s) of handler thread `h` of `e` -/
def setRet (e : E) (h : Nat) (v : Nat × Nat) (r : Invocation) : Invocation :=
  if r.ep = e ∧ r.h = h then { r with ret := some v } else r

/-- the loop stops being busy with thread `x` -/
def release (b : Option Nat) (x : Nat) : Option Nat :=
  if b = some x then none else b

/-- The write wrapper lets a request through.  The wrappers of the current source never wait
    (`ioWrappersNonBlocking`); a window / semaphore / queue in one of them is modelled as the strictest such
    limit: one written, unanswered request per endpoint. -/
def windowFree (sk : Skeleton) (s : State) (e : E) : Bool :=
  sk.ioWrappersNonBlocking ||
    (List.range (s.nextCall e)).all (fun t => decide ((s.calls e t).pc ≠ .written ∧ (s.calls e t).pc ≠ .writtenUnreg))

def step (sk : Skeleton) (s : State) : Act → Option State
  | .callStart e fn args => some (startCall sk s e fn args none)
  | .callWrite e t =>
    let c := s.calls e t
    if windowFree sk s e = false then none else
    match c.pc with
    | .registered =>
      some { s with calls := upd2 s.calls e t { c with pc := .written },
                    reqs := updE s.reqs (peer e) (s.reqs (peer e) ++ [mkReq sk c]) }
    | .started =>
      some { s with calls := upd2 s.calls e t { c with pc := .writtenUnreg },
                    reqs := updE s.reqs (peer e) (s.reqs (peer e) ++ [mkReq sk c]) }
    | _ => none
  | .callRegister e t =>
    let c := s.calls e t
    match c.pc with
    | .writtenUnreg =>
      some { s with calls := upd2 s.calls e t { c with pc := .written },
                    pending := upd2 s.pending e (recvKey sk c.id) true }
    | _ => none
  | .reqDeliver e i =>
    if s.reqLoopBusy e = none then
      match (s.reqs e)[i]? with
      | some f =>
        let h := s.nextHandler e
        some { s with reqs := updE s.reqs e ((s.reqs e).eraseIdx i),
                      nextHandler := updE s.nextHandler e (h + 1),
                      handlers := upd2 s.handlers e h { pc := .resolving, req := f, ret := none },
                      served := upd2 s.served e f.call true,
                      servedBy := upd2 s.servedBy e f.call h,
                      reqLoopBusy := updE s.reqLoopBusy e
                        (if sk.reqResolveGoDepth = 0 ∨ sk.reqHandlerGoDepth = 0 ∨ sk.reqLoopBlocksOnlyOnRead = false
                         then some h else none) }
      | none => none
    else none
  | .handlerEnter e h =>
    let hd := s.handlers e h
    match hd.pc with
    | .resolving =>
      some { s with handlers := upd2 s.handlers e h { hd with pc := .running },
                    invocations := s.invocations ++ mkInv sk e h hd.req,
                    reqLoopBusy := if sk.reqHandlerGoDepth = 0 ∨ sk.reqLoopBlocksOnlyOnRead = false then s.reqLoopBusy
                                   else updE s.reqLoopBusy e (release (s.reqLoopBusy e) h) }
    | _ => none
  | .handlerStall e h =>
    let hd := s.handlers e h
    match hd.pc with
    | .running => some { s with handlers := upd2 s.handlers e h { hd with pc := .stalled } }
    | _ => none
  | .handlerResume e h =>
    let hd := s.handlers e h
    match hd.pc with
    | .stalled => some { s with handlers := upd2 s.handlers e h { hd with pc := .running } }
    | _ => none
  | .handlerCallPeer e h fn args =>
    let hd := s.handlers e h
    match hd.pc with
    | .running =>
      let s1 := startCall sk s e fn args (some (e, h))
      some { s1 with handlers := upd2 s1.handlers e h { hd with pc := .waitingNested (s.nextCall e) } }
    | _ => none
  | .handlerNestedDone e h =>
    let hd := s.handlers e h
    match hd.pc with
    | .waitingNested t =>
      if (s.calls e t).pc = .returned then
        some { s with handlers := upd2 s.handlers e h { hd with pc := .running } }
      else none
    | _ => none
  | .handlerReturn e h value err =>
    let hd := s.handlers e h
    match hd.pc with
    | .running =>
      some { s with handlers := upd2 s.handlers e h { hd with pc := .returned, ret := some (value, err) },
                    invocations := s.invocations.map (setRet e h (value, err)) }
    | _ => none
  | .respond e h =>
    let hd := s.handlers e h
    match hd.pc, hd.ret with
    | .returned, some r =>
      some { s with handlers := upd2 s.handlers e h
                      { hd with pc := if sk.reqOneResponsePerBranch = true then .finished else .returned },
                    ress := updE s.ress (peer e) (s.ress (peer e) ++ [mkRes sk hd.req r]),
                    reqLoopBusy := updE s.reqLoopBusy e (release (s.reqLoopBusy e) h) }
    | _, _ => none
  | .resDeliver e i =>
    if s.resLoopBusy e = none then
      match (s.ress e)[i]? with
      | some f =>
        let p := s.nextPub e
        some { s with ress := updE s.ress e ((s.ress e).eraseIdx i),
                      nextPub := updE s.nextPub e (p + 1),
                      pubs := upd2 s.pubs e p (.pending f),
                      resLoopBusy := updE s.resLoopBusy e
                        (if sk.respPublishAsync = true ∧ sk.respLoopBlocksOnlyOnRead = true then none else some p) }
      | none => none
    else none
  | .publish e p t =>
    match s.pubs e p with
    | .pending f =>
      let c := s.calls e t
      if s.pending e (pubKey sk f) = true ∧ c.id = pubKey sk f ∧ c.pc.waiting = true ∧ c.result = none then
        some { s with calls := upd2 s.calls e t { c with result := some (pubVal sk f, f.err) },
                      pending := upd2 s.pending e (pubKey sk f) false,
                      pubs := upd2 s.pubs e p (.done f true),
                      resLoopBusy := updE s.resLoopBusy e (release (s.resLoopBusy e) p),
                      deliveries := s.deliveries ++
                        [{ ep := e, pub := p, waiter := t, waiterId := c.id, frameCall := f.call,
                           value := pubVal sk f, err := f.err }] }
      else none
    | _ => none
  | .publishDrop e p =>
    match s.pubs e p with
    | .pending f =>
      if s.pending e (pubKey sk f) = false then
        some { s with pubs := upd2 s.pubs e p (.done f false),
                      resLoopBusy := updE s.resLoopBusy e (release (s.resLoopBusy e) p) }
      else none
    | _ => none
  | .callReturn e t =>
    let c := s.calls e t
    match c.pc with
    | .written =>
      if c.result.isSome = true then
        some { s with calls := upd2 s.calls e t { c with pc := .returned } }
      else none
    | _ => none

inductive Reach (sk : Skeleton) : State → Prop where
  | init : Reach sk init
  | step {s s' : State} (a : Act) : Reach sk s → step sk s a = some s' → Reach sk s'

def run (sk : Skeleton) (s : State) (acts : List Act) : Option State := runFrom (step sk) s acts

theorem run_nil (sk : Skeleton) (s : State) : run sk s [] = some s := rfl

theorem run_cons (sk : Skeleton) (s : State) (a : Act) (as : List Act) :
    run sk s (a :: as) = (step sk s a).bind fun s' => run sk s' as := by
  simp only [run, runFrom]
  cases step sk s a <;> rfl

theorem run_append (sk : Skeleton) (s : State) (as bs : List Act) :
    run sk s (as ++ bs) = (run sk s as).bind fun s' => run sk s' bs := by
  induction as generalizing s with
  | nil => simp [run_nil]
  | cons a as ih =>
    simp only [List.cons_append, run_cons]
    cases step sk s a with
    | none => rfl
    | some s1 => simp [ih]

theorem reach_of_run (sk : Skeleton) {s s' : State} (acts : List Act)
    (h : Reach sk s) (hr : run sk s acts = some s') : Reach sk s' := by
  induction acts generalizing s with
  | nil => simp [run, runFrom] at hr; subst hr; exact h
  | cons a as ih =>
    simp only [run, runFrom] at hr
    cases hs : step sk s a with
    | none => simp [hs] at hr
    | some s1 =>
      simp only [hs] at hr
      exact ih (Reach.step a h hs) hr

/-! ### a decidable test for "no thread of the link can take a step"

  `candidates s` lists one representative of every action other than `callStart` (a new top-level
  call of the application) whose thread / frame index lies inside the tables of `s`; `stuck sk s`
  says none of them is enabled.  (Completeness of the list for reachable states:
  Lemmas/SystemStuck.lean.) -/

def candidatesAt (s : State) (e : E) : List Act :=
  (List.range (s.nextCall e)).flatMap (fun t => [Act.callWrite e t, .callRegister e t, .callReturn e t]) ++
  (List.range (s.reqs e).length).map (Act.reqDeliver e) ++
  (List.range (s.nextHandler e)).flatMap (fun h =>
    [Act.handlerEnter e h, .handlerStall e h, .handlerResume e h, .handlerCallPeer e h 0 0,
     .handlerNestedDone e h, .handlerReturn e h 0 0, .respond e h]) ++
  (List.range (s.ress e).length).map (Act.resDeliver e) ++
  (List.range (s.nextPub e)).flatMap (fun p =>
    Act.publishDrop e p :: (List.range (s.nextCall e)).map (Act.publish e p))

def candidates (s : State) : List Act := candidatesAt s .A ++ candidatesAt s .B

/-- no action other than starting a new top-level call is enabled -/
def stuck (sk : Skeleton) (s : State) : Bool :=
  (candidates s).all fun a => (step sk s a).isNone

end Panrpc.Sys
