/-
  Model/Lookup.lean — P1: `findMethodByFunctionCallPathRecursively`, the fallback and the
  argument-count check of `findLocalFunctionToCallRecursively`, and what the request loop
  does with the result (rpc/registry.go), statement by statement, over the reflect model P0.

      parts := strings.Split(path, ".")                                   sk.lkSplitOnDot
      if len(parts) == 1 && parts[0] == "" { return ErrInvalidFunctionCallPath }   sk.lkEmptyPathRejected
      field := reflect.ValueOf(root)
      for _, name := range parts[:len(parts)-1] {                          sk.lkWalksAllButLast
          if field.Kind() == reflect.Ptr { field = field.Elem() }          sk.lkDerefPtrOnce
          if field.Kind() != reflect.Struct { return Err… }                sk.lkRejectsNonStruct
          field = field.FieldByName(name)                                  sk.lkFieldByName
          if !field.IsValid() { return Err… }                              sk.lkRejectsInvalidField
          [ if !field.CanInterface() { return Err… } ]                     sk.lkRejectsUnexportedField  (NOT in the tree; see below)
      }
      function := field.MethodByName(parts[len(parts)-1])                  sk.lkMethodByNameOnLast
      if function.Kind() != reflect.Func { return Err… }                   sk.lkRejectsNonFunc
      [ defer recover → error ]                                            sk.lkRecoversPanics

      function, err = find…(r.local.wrappee, req.Function)
      if err != nil {
          function = reflect.ValueOf(r.local.wrapper).MethodByName(req.Function)   sk.lkFallbackIsClosureManager, sk.lkClosureManagerMethods
          if function.Kind() != reflect.Func { return Err… }               sk.lkFallbackRejectsNonFunc
      }
      if function.Type().NumIn() != len(req.Args)+1 { return ErrInvalidArgsCount }  sk.lkArgCountChecked
      … (argument decoding: not modelled here; an undecodable argument is one more `rejected`) …
      request loop:  go func(){ function,args,err := find…; if err != nil { setErr(err); return }   -- no recover: sk.reqResolverRecovers
                                go func(){ res, err := utils.Call(function, args) … }() }()          -- sk.reqCallViaUtilsCall, sk.ucRecovers

  A statement whose fact is `false` is treated as absent.

  MISSING SKELETON FACT.  `lkRejectsUnexportedField` ("the walk rejects a field reached by an
  unexported name") is not a field of `Skeleton` yet.  It is defined below as the constant
  `false` (which is what the pinned and the current tree do).  All functions take the value of
  the fact as an explicit parameter `chk` (`walkX`, `lookupX`, `resolveX`), and the general
  lemmas are proved for every `chk`, so nothing is proved from the constant.  When the field is
  added to `Skeleton`, delete the `def Skeleton.lkRejectsUnexportedField` below.
-/
import Panrpc.Skeleton
import Panrpc.Model.Reflect


namespace Panrpc.Lk
open Panrpc

/-! ### strings.Split(s, ".") -/

/-- `strings.Split(s, ".")` on the characters of `s`: always at least one element. -/
def splitOnDot : List Char → List (List Char)
  | [] => [[]]
  | c :: cs =>
    if c = '.' then [] :: splitOnDot cs
    else
      match splitOnDot cs with
      | [] => [[c]]
      | seg :: segs => (c :: seg) :: segs

/-- `strings.Join(segs, ".")` -/
def joinDot : List (List Char) → List Char
  | [] => []
  | [s] => s
  | s :: t :: rest => s ++ '.' :: joinDot (t :: rest)

/-- the dot-joined path of a list of names, as a `String` -/
def joinPath (segs : List String) : String :=
  String.ofList (joinDot (segs.map String.toList))

/-! ### the walk -/

inductive Walk where
  | at (cur : Option RV)
  | err (why : String)
  | panic (why : String)
  deriving Repr, Inhabited

def errNonStruct    : String := "cannot call non function: path crosses a non-struct value"
def errInvalidField : String := "cannot call non function: no such field"
def errUnexported   : String := "cannot call non function: unexported field"
def errNonFunc      : String := "cannot call non function: no such method"
def errEmptyPath    : String := "invalid function call path"
def errArgCount     : String := "invalid argument count"
def errCallRO       : String := "reflect.Value.Call using value obtained using unexported field"
def errCallUnexp    : String := "reflect: Call of unexported method"

/-- the `for` loop over all path parts but the last -/
def walkX (sk : Skeleton) (chk : Bool) (tt : TypeTable) : Option RV → List String → Walk
  | cur, [] => .at cur
  | cur, name :: rest =>
    let cur1 := if sk.lkDerefPtrOnce then elemIfPtr cur else cur
    if sk.lkRejectsNonStruct && kindOf tt cur1 != .struct then .err errNonStruct
    else if !sk.lkFieldByName then walkX sk chk tt cur1 rest
    else
      match fieldByName tt cur1 name with
      | .panic p => .panic p
      | .invalid => if sk.lkRejectsInvalidField then .err errInvalidField else walkX sk chk tt none rest
      | .found y =>
        if chk && (y.sticky || y.embed) then .err errUnexported
        else walkX sk chk tt (some y) rest

/-- result of `findMethodByFunctionCallPathRecursively` -/
inductive LkRes where
  | func (m : MethodVal)      -- a method value, err == nil
  | zero                      -- the zero Value, err == nil (only if the source lacks the Kind check)
  | err (why : String)
  | panic (why : String)      -- a reflect panic leaves the function
  deriving DecidableEq, Repr, Inhabited

def pathParts (sk : Skeleton) (path : String) : List String :=
  if sk.lkSplitOnDot then (splitOnDot path.toList).map String.ofList else [path]

def lookupBody (sk : Skeleton) (chk : Bool) (tt : TypeTable) (root : Option Val) (path : String) : LkRes :=
  let parts := pathParts sk path
  if sk.lkEmptyPathRejected && parts == [""] then .err errEmptyPath
  else
    let segs := if sk.lkWalksAllButLast then parts.dropLast else []
    match walkX sk chk tt (rootValue root) segs with
    | .err e => .err e
    | .panic p => .panic p
    | .at cur =>
      if sk.lkMethodByNameOnLast then
        match methodByName tt cur (parts.getLast?.getD "") with
        | .panic p => .panic p
        | .invalid => if sk.lkRejectsNonFunc then .err errNonFunc else .zero
        | .found m => .func m
      else if sk.lkRejectsNonFunc then .err errNonFunc else .zero

/-- `findMethodByFunctionCallPathRecursively(root, path)` -/
def lookupX (sk : Skeleton) (chk : Bool) (tt : TypeTable) (root : Option Val) (path : String) : LkRes :=
  match lookupBody sk chk tt root path with
  | .panic p => if sk.lkRecoversPanics then .err ("recovered: " ++ p) else .panic p
  | r => r

def lookup (sk : Skeleton) (tt : TypeTable) (root : Option Val) (path : String) : LkRes :=
  lookupX sk sk.lkRejectsUnexportedField tt root path

/-! ### resolution of a request -/

inductive Resolution where
  | runs (inst : Nat) (method : String)   -- application method `method` of object `inst` is invoked
  | runsNil (method : String)             -- the method value is bound to a NIL POINTER and is Called (inside utils.Call):
                                          -- a pointer-receiver method runs with a nil receiver (application code, no object);
                                          -- a value-receiver / promoted one panics in the compiler's wrapper (recovered → link error)
  | closureEntry                          -- the built-in CallClosure entry point is invoked
  | rejected (why : String)               -- an error ends this link (setErr); no application code runs
  | crash (why : String)                  -- a panic in the un-recovered resolver goroutine: the process dies
  deriving DecidableEq, Repr, Inhabited

def Resolution.isRejected : Resolution → Bool
  | .rejected _ => true
  | _ => false

/-- a panic raised while `findLocalFunctionToCallRecursively` runs in the request loop's goroutine -/
def resolverPanic (sk : Skeleton) (why : String) : Resolution :=
  if sk.reqResolverRecovers then .rejected ("recovered: " ++ why) else .crash why

/-- a panic raised by `function.Call` -/
def callPanic (sk : Skeleton) (why : String) : Resolution :=
  if sk.reqCallViaUtilsCall && sk.ucRecovers then .rejected why else .crash why

/-- `utils.Call(function, args)` on a resolved method value -/
def callMethod (sk : Skeleton) (m : MethodVal) : Resolution :=
  if m.ro then callPanic sk errCallRO
  else if m.unexpIface then callPanic sk errCallUnexp
  else
    match m.recv with
    | some i => .runs i m.name
    | none => .runsNil m.name

/-- `*closureManager`'s `CallClosure(ctx, closureID, args)`: NumIn() of the method value -/
def closureEntryNumIn : Nat := 3

/-- the argument-count check, then the call -/
def argCheck (sk : Skeleton) (numIn nargs : Nat) (k : Resolution) : Resolution :=
  if sk.lkArgCountChecked then
    if numIn != nargs + 1 then .rejected errArgCount else k
  else if nargs + 1 < numIn then resolverPanic sk "index out of range (req.Args)"
  else k

def resolveX (sk : Skeleton) (chk : Bool) (tt : TypeTable) (root : Option Val) (path : String) (nargs : Nat) : Resolution :=
  match lookupX sk chk tt root path with
  | .panic p => resolverPanic sk p
  | .func m => argCheck sk m.numIn nargs (callMethod sk m)
  | .zero => resolverPanic sk "reflect: call of reflect.Value.Type on zero Value"
  | .err e =>
    if sk.lkFallbackIsClosureManager then
      if sk.lkClosureManagerMethods.contains path then argCheck sk closureEntryNumIn nargs .closureEntry
      else if sk.lkFallbackRejectsNonFunc then .rejected e
      else resolverPanic sk "reflect: call of reflect.Value.Type on zero Value"
    else .rejected e

/-- What a request `{Function: path, Args: nargs values}` leads to on the callee. -/
def resolve (sk : Skeleton) (tt : TypeTable) (root : Option Val) (path : String) (nargs : Nat) : Resolution :=
  resolveX sk sk.lkRejectsUnexportedField tt root path nargs

end Panrpc.Lk
