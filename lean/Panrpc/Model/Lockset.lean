/-
  Model/Lockset.lean — P6: the fragment of the Go memory model that C20 needs, and the
  lockset / close-ordering discipline on the extractor's access table.

  Threads (goroutines) execute events; a *trace* is one interleaving of them, i.e. a list
  of `(thread, event)`; the position in the list is the event's identity.

    acq m / rel m        sync.Mutex Lock / Unlock  (also the `L` of a sync.Cond)
    rd x / wr x          plain read / write of the shared variable x
    closeCh c            close(c)
    recvClosed c         a receive on c that returns because c is closed

  Well-formed traces (`WF`) respect the mutex semantics (acquire only a free mutex, release
  only a mutex one holds) and the channel semantics (a channel is closed at most once — a
  second close panics —, a receive observes "closed" only after the close).

  Happens-before (`HB`), following https://go.dev/ref/mem :
    * program order inside one goroutine;
    * "call n of l.Unlock() is synchronized before call m of l.Lock() returns, n < m"
      = every release of m happens-before every later acquire of m;
    * "the closing of a channel is synchronized before a receive that returns because the
      channel is closed";
    * transitive closure.
  A *race* is a pair of accesses to the same variable by different threads, at least one a
  write, that are not ordered by happens-before either way.

  What is NOT modelled (it is not needed for the table at hand): `go` statement edges
  (order = "init" entries are therefore never accepted by `disciplined`), channel
  send/receive edges, sync.Cond wake-ups (Wait is just rel;acq of its L), atomics, Once.
-/
import Panrpc.Skeleton

namespace Panrpc.Ls

inductive Ev where
  | acq (m : String)
  | rel (m : String)
  | rd (x : String)
  | wr (x : String)
  | closeCh (c : String)
  | recvClosed (c : String)
  deriving DecidableEq, Repr, Inhabited

abbrev Trace := List (Nat × Ev)

/-- the variable an event accesses and whether it writes it -/
def Ev.access : Ev → Option (String × Bool)
  | .rd x => some (x, false)
  | .wr x => some (x, true)
  | _ => none

/-! ### state reached by a prefix of the trace (structural recursion on the prefix length) -/

/-- holder of mutex `m` just before event number `i` -/
def holdAt (tr : Trace) : Nat → String → Option Nat
  | 0, _ => none
  | i + 1, m =>
    match tr[i]? with
    | some (t, .acq m') => if m' = m then some t else holdAt tr i m
    | some (_, .rel m') => if m' = m then none else holdAt tr i m
    | _ => holdAt tr i m

/-- is channel `c` closed just before event number `i` -/
def closedAt (tr : Trace) : Nat → String → Bool
  | 0, _ => false
  | i + 1, c =>
    match tr[i]? with
    | some (_, .closeCh c') => if c' = c then true else closedAt tr i c
    | _ => closedAt tr i c

/-- the interleaving respects mutex and channel semantics -/
structure WF (tr : Trace) : Prop where
  acq_free    : ∀ i t m, tr[i]? = some (t, .acq m) → holdAt tr i m = none
  rel_held    : ∀ i t m, tr[i]? = some (t, .rel m) → holdAt tr i m = some t
  close_once  : ∀ i t c, tr[i]? = some (t, .closeCh c) → closedAt tr i c = false
  recv_closed : ∀ i t c, tr[i]? = some (t, .recvClosed c) → closedAt tr i c = true

/-- executable version of `WF` (for examples) -/
def evOk (tr : Trace) (i : Nat) : Bool :=
  match tr[i]? with
  | some (_, .acq m) => holdAt tr i m == none
  | some (t, .rel m) => holdAt tr i m == some t
  | some (_, .closeCh c) => closedAt tr i c == false
  | some (_, .recvClosed c) => closedAt tr i c == true
  | _ => true

def wfB (tr : Trace) : Bool := (List.range tr.length).all (evOk tr)

/-! ### happens-before and races -/

inductive HB (tr : Trace) : Nat → Nat → Prop where
  | po {i j t e e'} : i < j → tr[i]? = some (t, e) → tr[j]? = some (t, e') → HB tr i j
  | mutex {i j t t' m} : i < j → tr[i]? = some (t, .rel m) → tr[j]? = some (t', .acq m) → HB tr i j
  | chan {i j t t' c} : i < j → tr[i]? = some (t, .closeCh c) → tr[j]? = some (t', .recvClosed c) → HB tr i j
  | trans {i j k} : HB tr i k → HB tr k j → HB tr i j

/-- events `i` and `j` are accesses to one variable by different threads, one of them a write -/
def Conflict (tr : Trace) (i j : Nat) : Prop :=
  ∃ t1 t2 e1 e2 x w1 w2, tr[i]? = some (t1, e1) ∧ tr[j]? = some (t2, e2) ∧
    e1.access = some (x, w1) ∧ e2.access = some (x, w2) ∧ (w1 = true ∨ w2 = true) ∧ t1 ≠ t2

def Race (tr : Trace) (i j : Nat) : Prop :=
  Conflict tr i j ∧ ¬ HB tr i j ∧ ¬ HB tr j i

/-! ### the discipline on an access table -/

/-- `order = "close:<chan>"` -/
def isClose (o : String) : Bool := o.toList.take 6 == "close:".toList

/-- the channel named by a `close:<chan>` order -/
def chanOf (o : String) : String := String.ofList (o.toList.drop 6)

def neverWritten (es : List Access) : Bool := es.all (fun a => !a.write)

/-- one mutex is in the lexical lock set of every entry -/
def commonLock (es : List Access) : Bool :=
  match es with
  | [] => true
  | e :: _ => e.locks.any (fun m => es.all (fun a => a.locks.contains m))

/-- every entry (read or write) carries the same `close:<chan>` order, and all writes sit in
    one site (the site that goes on to close the channel) -/
def closeOrdered (es : List Access) : Bool :=
  match es with
  | [] => true
  | e :: _ =>
    isClose e.order && es.all (fun a => a.order == e.order) &&
    (match es.filter (·.write) with
     | [] => true
     | w :: ws => ws.all (fun a => a.site == w.site))

def varOk (accs : List Access) (x : String) : Bool :=
  let es := accs.filter (fun a => a.var == x)
  neverWritten es || commonLock es || closeOrdered es

def disciplined (accs : List Access) : Bool := accs.all (fun a => varOk accs a.var)

/-- the same as a proposition -/
def Disciplined (accs : List Access) : Prop :=
  ∀ x, (∀ a ∈ accs, a.var = x → a.write = false) ∨
       (∃ m, ∀ a ∈ accs, a.var = x → m ∈ a.locks) ∨
       (∃ o, isClose o = true ∧ ∀ a ∈ accs, a.var = x → a.order = o)

/-! ### what it means for the threads of a trace to follow the table -/

/-- event number `i`, an access by thread `t`, is performed the way table entry `a` says -/
structure EntryOk (tr : Trace) (i t : Nat) (a : Access) : Prop where
  /-- every mutex of the lexical lock set is held by the thread at that moment -/
  locks : ∀ m, m ∈ a.locks → holdAt tr i m = some t
  /-- `close:c` write: this thread is the only one that ever closes `c`, every such close comes
      after the write, and it is the only thread that writes the variable -/
  close_wr : isClose a.order = true → a.write = true →
    (∀ (k t' : Nat), tr[k]? = some (t', Ev.closeCh (chanOf a.order)) → t' = t ∧ i < k) ∧
    (∀ (k t' : Nat), tr[k]? = some (t', Ev.wr a.var) → t' = t)
  /-- `close:c` read: earlier in its program order the thread received from the closed `c` -/
  close_rd : isClose a.order = true → a.write = false →
    ∃ r : Nat, r < i ∧ tr[r]? = some (t, Ev.recvClosed (chanOf a.order))

/-- every access event of the trace is covered by some table entry of that variable and kind -/
def Follows (accs : List Access) (tr : Trace) : Prop :=
  ∀ (i t : Nat) (e : Ev) (x : String) (w : Bool), tr[i]? = some (t, e) → e.access = some (x, w) →
    ∃ a, a ∈ accs ∧ a.var = x ∧ a.write = w ∧ EntryOk tr i t a

/-! ### executable version of `Follows` (for examples) -/

def closeWrOk (tr : Trace) (i t : Nat) (a : Access) (k : Nat) : Bool :=
  match tr[k]? with
  | some (t', .closeCh c) => c != chanOf a.order || (t' == t && decide (i < k))
  | some (t', .wr x) => x != a.var || t' == t
  | _ => true

def entryOkB (tr : Trace) (i t : Nat) (a : Access) : Bool :=
  a.locks.all (fun m => holdAt tr i m == some t) &&
  (!isClose a.order ||
    (if a.write then (List.range tr.length).all (closeWrOk tr i t a)
     else (List.range i).any (fun r => tr[r]? == some (t, Ev.recvClosed (chanOf a.order)))))

def followsAt (accs : List Access) (tr : Trace) (i : Nat) : Bool :=
  match tr[i]? with
  | some (t, e) =>
    match e.access with
    | some (x, w) => accs.any (fun a => a.var == x && a.write == w && entryOkB tr i t a)
    | none => true
  | none => true

def followsB (accs : List Access) (tr : Trace) : Bool :=
  (List.range tr.length).all (followsAt accs tr)

end Panrpc.Ls
