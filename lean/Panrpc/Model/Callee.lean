/-
  Model/Callee.lean — the CALLEE side of ONE incoming request (rpc/registry.go, `LinkMessage`, request
  loop, from a successful `req.Unmarshal` to the handler goroutine's last statement).

      go func() {                                         -- sk.reqResolveGoDepth `go`s from the loop
        function, args, err := findLocalFunctionToCallRecursively(…)     resolveOk / resolveFails / resolvePanics
        if err != nil { setErr(err); return }             -- sk.reqResolveErrSetErr
        go func() {                                       -- sk.reqHandlerGoDepth `go`s from the loop
          res, err := utils.Call(function, args)          -- start; handlerReturns r / handlerPanics p / closurePanics p
          if err != nil { setErr(err); return }           -- sk.reqCallErrSetErr
          switch len(res) { … utils.Response{Call: req.Call, Value, Err} …   marshalOk / marshalFails
                            … writeResponseCtx(b) … }                         respond / writeFails
        }() }()

  Every choice of the environment is an action or an argument of one, so `step` is a function.  Ghost
  fields: the `setErr` calls (by cause), the responses written (`Call`, `Err`), `crashed` (a panic left
  a goroutine: the process dies), `appCodeRan`.  `utilsCall` is utils/call.go: a deferred `recover()`
  (`sk.ucRecovers`) turns the panic value into `err` — itself if an `error`, else
  `ErrPanickedWithNonErrorValue` (`sk.ucNonErrorPanicMapped`; without it the caller sees `(nil, nil)`).
  Closure entry (`isClosureEntry`): the request resolves to the closure manager's `CallClosure`, which
  runs `createClosure`'s wrapper (rpc/manager.go); the wrapper invokes the user's closure through an
  INNER `utils.Call` (`sk.clCallViaUtilsCall`) and returns its error as the `(nil, err)` result.
  Where a Boolean fact is `false` the model does something definite *and wrong* (noted at the use).

  Environment assumptions (not skeleton facts, see the report): the function has one of the four result
  shapes of `Shape` (three results: no `case`, nothing written; a non-nilable single result implementing
  `error`: `IsNil` panics; a non-nil non-error second result: the type assertion panics — outside
  `utils.Call`), and the returned error's `Error()` — called outside `utils.Call` — does not panic.
  `marshal` / `res.Marshal` / `writeResponseCtx` failure → `setErr(err); return` is hard-wired (no fact).
-/
import Panrpc.Go.Prim
import Panrpc.Skeleton

namespace Panrpc.Ce

/-- Why `setErr` was called from this request's goroutines. -/
inductive Cause where
  | resolveError   -- findLocalFunctionToCallRecursively returned an error
  | lookupPanic    -- a reflect panic during the lookup, recovered there and returned as an error
  | handlerPanic   -- utils.Call(function, args) returned an error (= the function panicked)
  | marshalFail    -- marshal(value) / res.Marshal(marshal) failed
  | writeFail      -- writeResponseCtx failed (or the link context is done)
  deriving DecidableEq, Repr, Inhabited

/-- What the local function returned, by the four shapes `switch len(res)` distinguishes (values
    abstracted away; `Wire.Ret` carries them).  `some m`: a non-nil `error` with `Error() = m`. -/
inductive Shape where
  | none0
  | oneErr (e : Option String)
  | oneVal
  | two (e : Option String)
  deriving DecidableEq, Repr, Inhabited

/-- `Err:` of the five `Response` literals (= `Wire.respErrStr`). -/
def Shape.errStr : Shape → String
  | .none0 => ""
  | .oneErr none => ""
  | .oneErr (some m) => m
  | .oneVal => ""
  | .two none => ""
  | .two (some m) => m

/-- what a `utils.Call` that "normalises" its result list makes of a return (the definite wrong thing the model does
    when `ucResultsUntouched = false`): the error is gone -/
def Shape.dropErr : Shape → Shape
  | .oneErr _ => .oneErr none
  | .two _ => .two none
  | r => r

def Shape.isTwo : Shape → Bool
  | .two _ => true
  | _ => false

/-- The value handed to `panic`: an `error` with `Error() = msg` (runtime errors and, from go 1.21,
    `panic(nil)` are of this kind), or anything else. -/
inductive PanicVal where
  | err (msg : String)
  | other
  deriving DecidableEq, Repr, Inhabited

def nonErrorMsg : String := "panicked with no error value"   -- utils.ErrPanickedWithNonErrorValue.Error()
def indexMsg : String := "runtime error: index out of range [1] with length 0"   -- the wrapper's `out[1]` of an empty `out`

/-- the message of the error `utils.Call` returns for the panic (mapping in place) -/
def PanicVal.msg : PanicVal → String
  | .err m => m
  | .other => nonErrorMsg

/-- What the caller of `utils.Call(fn, in)` sees when `fn` panics with `p`. -/
inductive CallOut where
  | propagates          -- no recover: the panic continues up the stack
  | err (m : String)    -- (nil, err), err.Error() = m
  | empty               -- (nil, nil)
  deriving DecidableEq, Repr, Inhabited

def utilsCall (sk : Skeleton) (p : PanicVal) : CallOut :=
  if !sk.ucRecovers then .propagates
  else match p with
    | .err m => .err m
    | .other => if sk.ucNonErrorPanicMapped then .err nonErrorMsg else .empty

inductive Pc where
  | resolving                      -- first goroutine: inside findLocalFunctionToCallRecursively
  | resolved                       -- function and args in hand, second goroutine not yet inside utils.Call
  | running                        -- inside utils.Call(function, args): application code
  | returned (r : Shape)           -- utils.Call returned (res, nil); `switch len(res)` not yet done
  | panicked                       -- a panic left the goroutine un-recovered (terminal)
  | responding (errField : String) -- frame marshalled, before writeResponseCtx
  | done
  deriving DecidableEq, Repr, Inhabited

structure State where
  callId         : String                   -- req.Call
  isClosureEntry : Bool                     -- req.Function resolves to the closure manager's CallClosure
  pc             : Pc
  setErrCalls    : List Cause               -- ghost: setErr calls made by this request's goroutines
  responses      : List (String × String)   -- ghost: (Call, Err) of every response handed to writeResponse
  crashed        : Bool                     -- ghost: un-recovered panic in a goroutine = process exit
  appCodeRan     : Bool                     -- ghost: the application's function was entered
  deriving DecidableEq, Repr, Inhabited

def init (callId : String) (isClosureEntry : Bool) : State :=
  { callId, isClosureEntry, pc := .resolving, setErrCalls := [], responses := [],
    crashed := false, appCodeRan := false }

inductive Act where
  | resolveOk                      -- lookup and argument decoding succeed
  | resolveFails                   -- … return an error (unknown name, arity, unmarshal of an argument)
  | resolvePanics                  -- reflect panics during the lookup (and the fallback does not hit)
  | start                          -- the handler goroutine enters utils.Call
  | handlerReturns (r : Shape)
  | handlerPanics (p : PanicVal)   -- the invoked function panics (closure entry: outside the inner utils.Call)
  | closurePanics (p : PanicVal)   -- closure entry: the user's closure panics
  | marshalOk
  | marshalFails
  | writeFails
  | respond                        -- writeResponseCtx(b) returns nil
  deriving DecidableEq, Repr, Inhabited

/-- `setErr(err); return` -/
def fatal (s : State) (c : Cause) : State := { s with pc := .done, setErrCalls := s.setErrCalls ++ [c] }
/-- the goroutine dies with the panic -/
def crash (s : State) : State := { s with pc := .panicked, crashed := true }

/-- The error path out of findLocalFunctionToCallRecursively.
    (`reqResolveErrSetErr = false`: the check is gone, the goroutine goes on with what it has.) -/
def resolveErr (sk : Skeleton) (s : State) (c : Cause) : State :=
  if sk.reqResolveErrSetErr then fatal s c else { s with pc := .resolved }

/-- A panic `p` leaves the function invoked by the handler goroutine.
    (`reqCallViaUtilsCall = false`: `function.Call(args)` directly in the goroutine.
     `reqCallErrSetErr = false`, or `(nil, nil)`: `res` is nil, `len(res) == 0`, first `case`.) -/
def outerPanic (sk : Skeleton) (s : State) (p : PanicVal) : State :=
  match (if sk.reqCallViaUtilsCall then utilsCall sk p else .propagates) with
  | .propagates => crash s
  | .err _ => if sk.reqCallErrSetErr then fatal s .handlerPanic else { s with pc := .returned .none0 }
  | .empty => { s with pc := .returned .none0 }

/-- The user's closure panics with `p` inside `createClosure`'s wrapper. -/
def innerPanic (sk : Skeleton) (s : State) (p : PanicVal) : State :=
  match (if sk.clCallViaUtilsCall then utilsCall sk p else .propagates) with
  | .propagates => outerPanic sk s p
  | .err m => { s with pc := .returned (.two (some m)) }      -- `return nil, err`
  | .empty => outerPanic sk s (.err indexMsg)                 -- `out[1]` of an empty slice

def step (sk : Skeleton) (s : State) : Act → Option State
  | .resolveOk => if s.pc = .resolving then some { s with pc := .resolved } else none
  | .resolveFails => if s.pc = .resolving then some (resolveErr sk s .resolveError) else none
  | .resolvePanics =>
    if s.pc = .resolving then some (
      if sk.lkRecoversPanics then resolveErr sk s .lookupPanic         -- recovered → ErrCannotCallNonFunction
      else if sk.reqResolverRecovers then { s with pc := .done }       -- a recover further out: request dropped
      else crash s)
    else none
  | .start => if s.pc = .resolved then some { s with pc := .running, appCodeRan := true } else none
  | .handlerReturns r =>   -- `CallClosure` has two results
    -- (`utils.Call` hands the results back as they are: `ucResultsUntouched`)
    if s.pc = .running ∧ (s.isClosureEntry = false ∨ r.isTwo = true) then
      some { s with pc := .returned (if sk.ucResultsUntouched then r else r.dropErr) } else none
  | .handlerPanics p => if s.pc = .running then some (outerPanic sk s p) else none
  | .closurePanics p => if s.pc = .running ∧ s.isClosureEntry = true then some (innerPanic sk s p) else none
  | .marshalOk => match s.pc with   -- (`reqRespShapesOk = false`: the error is dropped, as in Wire.mkResponse)
    | .returned r => some { s with pc := .responding (if sk.reqRespShapesOk then r.errStr else "") }
    | _ => none
  | .marshalFails => match s.pc with
    | .returned _ => some (fatal s .marshalFail)
    | _ => none
  | .writeFails => match s.pc with
    | .responding _ => some (fatal s .writeFail)
    | _ => none
  | .respond => match s.pc with     -- (`reqOneResponsePerBranch = false`: the branch may write again)
    | .responding e =>
      some { s with pc := if sk.reqOneResponsePerBranch then .done else .responding e,
                    responses := s.responses ++ [(if sk.reqResponseCallIsReqCall then s.callId else "", e)] }
    | _ => none

/-- This request's code currently runs on the request loop's own goroutine (no `go` in between),
    i.e. no further request is read meanwhile. -/
def onLoopGoroutine (sk : Skeleton) (s : State) : Bool :=
  match s.pc with
  | .resolving => sk.reqResolveGoDepth == 0
  | .done | .panicked => false
  | _ => sk.reqHandlerGoDepth == 0

inductive Reach (sk : Skeleton) (cid : String) (cl : Bool) : State → Prop where
  | init : Reach sk cid cl (init cid cl)
  | step {s s' : State} (a : Act) : Reach sk cid cl s → step sk s a = some s' → Reach sk cid cl s'

def run (sk : Skeleton) (s : State) (acts : List Act) : Option State := runFrom (step sk) s acts

end Panrpc.Ce
