/-
  Model/Stream.lean — M4: `Registry.LinkStream` as a labelled transition system.

  LinkStream = one decoder goroutine + two unbuffered hand-off channels (`requests`,
  `responses`) + `decodeDone`/`decodeErr` + four adapter closures around LinkMessage.
  The two read adapters are called by LinkMessage's request loop and response loop; these
  loops are abstracted to "waiting in the adapter's select" / "exited".

  Source map (rpc/registry.go, LinkStream):
    decRead      `decode(&msg)` returns: the next element of `inp`
                   some env : the call wrote `env`; the decoder goes on to hand msg.Request, then
                              msg.Response, of `msg = decoded sk carry env` (see below)
                   none     : decode error; first of the two effects `decodeErr = err`, `close(decodeDone)`
                              (their order is `sk.stDecodeErrBeforeClose`)
    decFinish    the second of the two effects; then `break` (if `sk.stDecoderExitsOnErr`: the goroutine
                 leaves, `leave`) or loop on
    handReq      rendezvous `requests <- *msg.Request`  ×  `case request := <-requests` (request loop)
    handRes      rendezvous `responses <- *msg.Response` × `case response := <-responses` (response loop)
    decAbort c   (only if `sk.stHandoffGuarded` and `c = sk.stAbortClosesDone`) the hand-off send
                 sits in a select with the link context; the context is done: the decoder leaves.
                 c = true: it first signals the readers (`decodeErr = ctx.Err(); close(decodeDone)`
                 in the `case <-ctx.Done():` arm — what the repaired source does); c = false: it
                 just returns.  Which of the two the source has is the fact `stAbortClosesDone`;
                 the other one is not a step of the model
    readDoneReq / readDoneRes   `case <-decodeDone: return *new(T), decodeErr` (if `sk.stReadersSelectDone`);
                 LinkMessage's loop then reports the error and returns
    exitReq / exitRes  the loop leaves for any other reason (context cancelled, unmarshal error, …)
    ctxCancel    the link context is cancelled

  `inp` is the arbitrary sequence of results `decode` is going to produce; `none` is a decode
  error.  If `inp` is exhausted the decoder blocks in `decode` (no step).  Ghost fields:
  `consumed`, `gotReq`, `gotRes`, `reqEnd`, `resEnd`, `lostReq`, `lostRes`.
  A decode error is identified by the number of the `decode` call that returned it.

  The envelope variable (`stMsgFreshPerIteration`).  An element `some env` of `inp` is what ONE
  `decode(&msg)` call WROTE: a member `none` means "this frame did not mention the member" (JSON
  decoding leaves absent fields of the target untouched).  What the decoder then finds in `msg`
  depends on where `msg` is declared: inside the `for` loop (`stMsgFreshPerIteration = true`) the
  call wrote into a zero envelope and `msg = env`; hoisted out of the loop (`= false`) the call wrote
  over what the previous iteration left, `msg = env` laid over `carry` member by member (`decoded`),
  and a member the frame omits is the previous frame's — handed over again.  `carry` is the
  variable as the previous iteration left it (only maintained when it survives, i.e. when not
  fresh).  `consumed` records what the peer SENT (`env`), not what the decoder made of it.

  Leaving the goroutine (`stDoneClosedOncePerExit`).  `decodeDone` is closed once in front of each
  exit (the regular effects of `decFinish` / `decAbort true`).  If the fact is false — the reading
  modelled: a `defer close(decodeDone)` was added while an explicit close remained — leaving the
  goroutine closes once more (`leave`): on an exit that had closed already this is
  `panic: close of closed channel` in a goroutine without recover (`closeDone` sets `crashed`).

  Guard of `decAbort`: `stAbortClosesDone : Bool` says whether, in the `case <-ctx.Done():` arm of
  each hand-off select, `decodeErr` is assigned and `decodeDone` closed before the return.
  `decAbort c` is enabled only for `c = sk.stAbortClosesDone` (and only if `stHandoffGuarded`; on
  a tree without the guard there is no abort at all and the flag is irrelevant).  Hence, for a
  source with `stAbortClosesDone = true`, `dec = .done` implies that the readers have been told
  (`done_signalled` in Lemmas/Stream.lean).
-/
import Panrpc.Go.Prim
import Panrpc.Skeleton

namespace Panrpc.St

abbrev Payload := Nat

/-- the errors a read adapter can return -/
inductive StErr where
  | decode (k : Nat)     -- the error returned by `decode` call number k (0-based)
  | ctx                  -- `ctx.Err()` of the link context
  deriving DecidableEq, Repr, Inhabited

/-- `rpc.Message[T]`: optional request, optional response -/
structure Envelope where
  req : Option Payload
  res : Option Payload
  deriving DecidableEq, Repr, Inhabited

inductive Dec where
  | reading
  | handReq (p : Payload) (next : Option Payload)   -- blocked in `requests <- p`; `next` = response still to hand
  | handRes (p : Payload)                            -- blocked in `responses <- p`
  | failing (k : Nat)                                -- decode call k failed; between the two effects
  | done
  deriving DecidableEq, Repr, Inhabited

inductive Rd where
  | waiting
  | exited
  deriving DecidableEq, Repr, Inhabited

structure State where
  inp         : List (Option Envelope)
  consumed    : List (Option Envelope)     -- ghost: results `decode` already returned, in order
  dec         : Dec
  decodeErr   : Option StErr               -- the captured variable; none = nil
  decodeDone  : Bool                       -- channel closed
  reqRd       : Rd
  resRd       : Rd
  linkCtxDone : Bool
  crashed     : Bool                       -- panic: close of closed channel
  gotReq      : List Payload               -- ghost: values the request-read adapter returned
  gotRes      : List Payload               -- ghost: values the response-read adapter returned
  reqEnd      : Option (Option StErr)      -- ghost: error the request-read adapter returned (some none = nil error)
  resEnd      : Option (Option StErr)
  lostReq     : List Payload               -- ghost: decoded members the decoder dropped when it aborted
  lostRes     : List Payload
  carry       : Envelope                   -- the decoder's `msg` as the previous iteration left it (used only if it is not fresh per iteration)
  deriving DecidableEq, Repr, Inhabited

def init (inp : List (Option Envelope)) : State :=
  { inp := inp, consumed := [], dec := .reading, decodeErr := none, decodeDone := false,
    reqRd := .waiting, resRd := .waiting, linkCtxDone := false, crashed := false,
    gotReq := [], gotRes := [], reqEnd := none, resEnd := none, lostReq := [], lostRes := [],
    carry := { req := none, res := none } }

inductive Act where
  | decRead
  | decFinish
  | handReq
  | handRes
  | decAbort (signal : Bool)
  | readDoneReq
  | readDoneRes
  | exitReq
  | exitRes
  | ctxCancel
  deriving DecidableEq, Repr, Inhabited

/-- where the decoder goes after a successful decode -/
def afterDecode (sk : Skeleton) (env : Envelope) : Dec :=
  match (if sk.stDecoderHandsRequests = true then env.req else none),
        (if sk.stDecoderHandsResponses = true then env.res else none) with
  | some p, n => .handReq p n
  | none, some q => .handRes q
  | none, none => .reading

/-- `decode(&msg)` wrote `env` over a variable holding `old`: members the frame does not mention
    keep their old value -/
def Envelope.over (env old : Envelope) : Envelope :=
  { req := env.req <|> old.req, res := env.res <|> old.res }

/-- what the decoder finds in `msg` after a `decode` call that wrote `env`: `env` itself if `msg`
    is declared inside the loop, `env` over the previous iteration's `msg` if it is hoisted out -/
def decoded (sk : Skeleton) (carry env : Envelope) : Envelope :=
  if sk.stMsgFreshPerIteration = true then env else env.over carry

/-- `close(decodeDone)` -/
def closeDone (s : State) : State :=
  if s.decodeDone = true then { s with crashed := true } else { s with decodeDone := true }

/-- the decoder goroutine returns: nothing more if `decodeDone` is closed exactly once per exit
    (the regular effects); otherwise the surplus close -/
def leave (sk : Skeleton) (s : State) : State :=
  if sk.stDoneClosedOncePerExit = true then s else closeDone s

/-- `decodeErr = ctx.Err(); close(decodeDone)` if the aborting decoder signals the readers -/
def abortWith (signal : Bool) (s : State) : State :=
  if signal = true then closeDone { s with decodeErr := some .ctx } else s

def step (sk : Skeleton) (s : State) : Act → Option State
  | .decRead =>
    if s.crashed = false ∧ s.dec = .reading then
      match s.inp with
      | [] => none
      | some env :: rest =>
        let msg := decoded sk s.carry env
        some { s with inp := rest, consumed := s.consumed ++ [some env], dec := afterDecode sk msg,
                      carry := if sk.stMsgFreshPerIteration = true then s.carry else msg }
      | none :: rest =>
        let k := s.consumed.length
        let s1 := { s with inp := rest, consumed := s.consumed ++ [none], dec := .failing k }
        if sk.stDecodeErrBeforeClose = true then some { s1 with decodeErr := some (.decode k) }
        else some (closeDone s1)
    else none
  | .decFinish =>
    if s.crashed = false then
      match s.dec with
      | .failing k =>
        let s1 := { s with dec := if sk.stDecoderExitsOnErr = true then .done else .reading }
        let s2 := if sk.stDecodeErrBeforeClose = true then closeDone s1
                  else { s1 with decodeErr := some (.decode k) }
        some (if sk.stDecoderExitsOnErr = true then leave sk s2 else s2)
      | _ => none
    else none
  | .handReq =>
    if s.crashed = false ∧ s.reqRd = .waiting then
      match s.dec with
      | .handReq p next =>
        some { s with gotReq := s.gotReq ++ [p],
                      dec := match next with | some q => .handRes q | none => .reading }
      | _ => none
    else none
  | .handRes =>
    if s.crashed = false ∧ s.resRd = .waiting then
      match s.dec with
      | .handRes q => some { s with gotRes := s.gotRes ++ [q], dec := .reading }
      | _ => none
    else none
  | .decAbort signal =>
    if s.crashed = false ∧ sk.stHandoffGuarded = true ∧ s.linkCtxDone = true ∧
        signal = sk.stAbortClosesDone then
      match s.dec with
      | .handReq p next =>
        some (leave sk (abortWith signal { s with dec := .done, lostReq := [p], lostRes := next.toList }))
      | .handRes q => some (leave sk (abortWith signal { s with dec := .done, lostRes := [q] }))
      | _ => none
    else none
  | .readDoneReq =>
    if s.crashed = false ∧ s.reqRd = .waiting ∧ s.decodeDone = true ∧ sk.stReadersSelectDone = true then
      some { s with reqRd := .exited, reqEnd := some s.decodeErr }
    else none
  | .readDoneRes =>
    if s.crashed = false ∧ s.resRd = .waiting ∧ s.decodeDone = true ∧ sk.stReadersSelectDone = true then
      some { s with resRd := .exited, resEnd := some s.decodeErr }
    else none
  | .exitReq =>
    if s.crashed = false ∧ s.reqRd = .waiting then some { s with reqRd := .exited } else none
  | .exitRes =>
    if s.crashed = false ∧ s.resRd = .waiting then some { s with resRd := .exited } else none
  | .ctxCancel =>
    if s.crashed = false then some { s with linkCtxDone := true } else none

inductive Reach (sk : Skeleton) (inp : List (Option Envelope)) : State → Prop where
  | init : Reach sk inp (init inp)
  | step {s s' : State} (a : Act) : Reach sk inp s → step sk s a = some s' → Reach sk inp s'

def run (sk : Skeleton) (s : State) (acts : List Act) : Option State := runFrom (step sk) s acts

theorem reach_of_run (sk : Skeleton) {inp : List (Option Envelope)} {s s' : State} (acts : List Act)
    (h : Reach sk inp s) (hr : run sk s acts = some s') : Reach sk inp s' := by
  induction acts generalizing s with
  | nil => simp [run, runFrom] at hr; subst hr; exact h
  | cons a as ih =>
    simp only [run, runFrom] at hr
    cases hs : step sk s a with
    | none => simp [hs] at hr
    | some s1 =>
      simp only [hs] at hr
      exact ih (Reach.step a h hs) hr

/-- is the action one of the decoder goroutine's own steps (hand-offs are joint steps) -/
def Act.ofDecoder : Act → Bool
  | .decRead | .decFinish | .handReq | .handRes | .decAbort _ => true
  | _ => false

/-! ### what a message transport would deliver: the members of the decoded envelopes, in order -/

def reqsOf (l : List (Option Envelope)) : List Payload := l.filterMap (fun o => o.bind (·.req))
def ressOf (l : List (Option Envelope)) : List Payload := l.filterMap (fun o => o.bind (·.res))

/-- members the decoder has decoded and not yet handed over -/
def pendReq : Dec → List Payload
  | .handReq p _ => [p]
  | _ => []

def pendRes : Dec → List Payload
  | .handReq _ next => next.toList
  | .handRes q => [q]
  | _ => []

/-! ### the write adapters -/

/-- `encode(Message[T]{Request: &b})`; `other` stands for whatever a non-conforming literal
    would put into the second member -/
def writeReq (sk : Skeleton) (b : Payload) (other : Option Payload) : Envelope :=
  { req := some b, res := if sk.stEncodeRequestOnly = true then none else other }

def writeRes (sk : Skeleton) (b : Payload) (other : Option Payload) : Envelope :=
  { req := if sk.stEncodeResponseOnly = true then none else other, res := some b }

end Panrpc.St
