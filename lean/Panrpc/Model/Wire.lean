/-
  Model/Wire.lean — P3: construction and decoding of panrpc's frames.

  What is modelled (all of it pure, thread-local computation):

  * `mkRequest`   — the `utils.Request[T]` literal of the stub (`makeRPC`'s function literal in
                    rpc/registry.go) plus the `append(cmd.Args, b)` loop;
  * `mkResponse`  — the five `utils.Response[T]` literals of the handler goroutine in
                    `LinkMessage` (`switch len(res)`);
  * `mkEnvelope`  — `Message[T]{Request: &b}` / `Message[T]{Response: &b}` of `LinkStream`;
  * `respErr`     — the response loop's `if strings.TrimSpace(res.Err) != "" { err = errors.New(res.Err) }`;
  * `decodeResult`— the stub's decoding of the `callResponse` per `functionType.NumOut()`;
  * `handlerArgs` — the callee's position-wise `unmarshal(req.Args[i-1], new(In(i)))`;
  * `isGoSpace` / `trimSpace` — Go's `unicode.IsSpace` table and `strings.TrimSpace`.

  Abstractions.
  * Application values `V` and wire payloads `P` (Go's type parameter `T`) are type parameters; the
    configured serializer is the record `Codec V P`.  `enc` is `marshal` on its success path
    (a failing `marshal` makes the stub panic → recover → setErr, resp. the handler call setErr:
    that is M2's business, not a frame).  `dec p τ = none` is a failing `unmarshal`.
  * A frame is a `Tree P`: what the frame serializer sees when it walks the Go struct with the
    struct tags of `Request` / `Response` / `Message`.  `raw p` is a position that holds a value of
    type `T`, i.e. a separately encoded payload.
  * Every fact about the source that the construction depends on is read from the `Skeleton`.
    Where a Boolean fact is `false` the model does something definite *and wrong* (documented at
    each use), so that no theorem can be proved without the fact.
-/
import Panrpc.Skeleton

namespace Panrpc.Wire
open Panrpc

/-! ### serializer -/

/-- The configured serializer (`marshal` / `unmarshal`), plus the three Go values the library
    itself hands to `marshal`: `nil`, a `string` (closure ids) and — only if the source stopped
    skipping it — a `context.Context`. -/
structure Codec (V P : Type) where
  /-- `marshal(v)` -/
  enc : V → P
  /-- `marshal(nil)` -/
  encNil : P
  /-- `unmarshal(p, new(τ))`; `none` = error -/
  dec : P → Nat → Option V
  /-- a Go `string` as an application value (closure ids are marshalled as strings) -/
  ofStr : String → V
  /-- the type tag of Go's `string` (the callee decodes a closure id with `unmarshal(…, &closureID)`) -/
  strTy : Nat
  /-- a `context.Context` as `marshal` would see it (unreachable under the current skeleton) -/
  ctxVal : V

/-- one encode/decode round trip into the declared type `τ` -/
def rt {V P : Type} (σ : Codec V P) (τ : Nat) (v : V) : Option V := σ.dec (σ.enc v) τ

/-! ### frames -/

inductive Tree (P : Type) where
  | null
  | str (s : String)
  | arr (xs : List (Tree P))
  | obj (kvs : List (String × Tree P))
  | raw (p : P)
  deriving Repr, Inhabited

/-- Last binding of `k` (duplicate keys: the last one wins, as in encoding/json and JSON.parse). -/
def lookupLast {α : Type} (k : String) : List (String × α) → Option α
  | [] => none
  | (k', v) :: r =>
    match lookupLast k r with
    | some w => some w
    | none => if k' = k then some v else none

/-- member `k` of an object; `none` for a non-object or an absent key -/
def Tree.field {P : Type} (k : String) : Tree P → Option (Tree P)
  | .obj kvs => lookupLast k kvs
  | _ => none

def Tree.isNull {P : Type} : Tree P → Bool
  | .null => true
  | _ => false

/-- the keys of an object, in order -/
def Tree.keys {P : Type} : Tree P → List String
  | .obj kvs => kvs.map Prod.fst
  | _ => []

/-- all elements are payloads -/
def payloads {P : Type} : List (Tree P) → Option (List P)
  | [] => some []
  | .raw p :: r => (payloads r).map (p :: ·)
  | _ :: _ => none

/-! ### the caller's stub: building the request -/

/-- One element of the `args []reflect.Value` the stub is called with. -/
inductive Arg (V : Type) where
  | ctx                                -- a context.Context
  | val (v : V) (ty : Nat)             -- any non-func value, with the declared parameter type
  | func (closureId : String)          -- a func value; `closureId` = the id registerClosure hands out
  deriving Repr

/-- The Go value handed to `marshal` for one argument that reaches the marshalling branch of the
    loop: `Kind()==Func` → the closure id (a string); otherwise `arg.Interface()`. -/
def argValue {V P : Type} (σ : Codec V P) : Arg V → V
  | .ctx => σ.ctxVal
  | .val v _ => v
  | .func id => σ.ofStr id

/-- The element appended for it.
    (`stubFuncArgsRegistered = false`: the func itself would go to `marshal`, which no serializer
    accepts — `stubBuild` reports the panic; the placeholder here is `null`.) -/
def argElem {V P : Type} (sk : Skeleton) (σ : Codec V P) : Arg V → Tree P
  | .func id => if sk.stubFuncArgsRegistered then .raw (σ.enc (σ.ofStr id)) else .null
  | a => .raw (σ.enc (argValue σ a))

/-- The arguments that reach the marshalling branch, in the order their encodings are appended.
    `i == 0 → continue` is positional: the *first* argument is skipped, whatever it is.
    (`stubArgsAppendInOrder = false` is modelled as the reverse order.) -/
def wireArgs {V : Type} (sk : Skeleton) (args : List (Arg V)) : List (Arg V) :=
  let sent := if sk.stubCtxSkipped then args.drop 1 else args
  if sk.stubArgsAppendInOrder then sent else sent.reverse

/-- `cmd.Args` as the frame serializer sees it: `[]T{}` + appends is an array; a nil slice
    (`stubRequestArgsInitEmpty = false` and nothing appended) is `null`. -/
def argsTree {V P : Type} (sk : Skeleton) (σ : Codec V P) (args : List (Arg V)) : Tree P :=
  match wireArgs sk args with
  | [] => if sk.stubRequestArgsInitEmpty then .arr [] else .null
  | a :: as => .arr ((a :: as).map (argElem sk σ))

/-- The request frame the stub marshals for a call with id `callId` of the remote function `name`
    with the full argument list `args` (context first). -/
def mkRequest {V P : Type} (sk : Skeleton) (σ : Codec V P) (callId name : String)
    (args : List (Arg V)) : Tree P :=
  .obj [ (sk.tagReqCall,     .str (if sk.stubRequestCallIsCallId then callId else "")),
         (sk.tagReqFunction, .str (if sk.stubRequestFunctionIsName then name else "")),
         (sk.tagReqArgs,     argsTree sk σ args) ]

/-- Outcome of the frame-building part of the stub. -/
inductive Built (P : Type) where
  | frame (t : Tree P)
  | panic (why : String)
  deriving Repr

def hasFunc {V : Type} : List (Arg V) → Bool
  | [] => false
  | .func _ :: _ => true
  | _ :: r => hasFunc r

/-- The stub up to `cmd.Marshal`: panics (recovered by the stub's deferred function → `setErr`) when
    the first argument is not a context (`panic(ErrInvalidArgs)`; with no argument at all `ctx` stays
    nil and `Receive(callID, nil)` panics in package context), or when a func reaches `marshal`. -/
def stubBuild {V P : Type} (sk : Skeleton) (σ : Codec V P) (callId name : String)
    (args : List (Arg V)) : Built P :=
  match args with
  | [] => .panic "nil context"
  | .ctx :: _ =>
    if !sk.stubFuncArgsRegistered && hasFunc (wireArgs sk args) then .panic "marshal func"
    else .frame (mkRequest sk σ callId name args)
  | _ :: _ => .panic "ErrInvalidArgs"

/-! ### the callee: decoding the arguments, building the response -/

/-- `unmarshal(req.Args[i-1], new(In(i)))`, position by position (`none` = the call is refused with
    the unmarshal error).  A func parameter's closure stub decodes its position into a `string`
    (`σ.strTy`) when it is invoked.  The arity check `NumIn() != len(req.Args)+1` (P1) precedes it. -/
def handlerArgs {V P : Type} (σ : Codec V P) (reqArgs : List P) (paramTys : List Nat) : List (Option V) :=
  List.zipWith (fun p τ => σ.dec p τ) reqArgs paramTys

/-- What a local function returned, by the four shapes `switch len(res)` distinguishes.
    `e = some m`: a non-nil `error` with `Error() = m`. -/
inductive Ret (V : Type) where
  | none0                                  -- no results
  | oneErr (e : Option String)             -- one result, of a type implementing `error`
  | oneVal (v : V)                         -- one result, anything else
  | two (v : V) (e : Option String)        -- value, error
  deriving Repr

def Ret.err {V : Type} : Ret V → Option String
  | .none0 => none
  | .oneErr e => e
  | .oneVal _ => none
  | .two _ e => e

def Ret.val {V : Type} : Ret V → Option V
  | .none0 => none
  | .oneErr _ => none
  | .oneVal v => some v
  | .two v _ => some v

/-- `Value:` of the five literals.  (`oneErr none`: the `else` branch marshals
    `res[0].Interface()`, the nil interface, i.e. `marshal(nil)`.) -/
def respValue {V P : Type} (σ : Codec V P) : Ret V → P
  | .none0 => σ.encNil
  | .oneErr _ => σ.encNil
  | .oneVal v => σ.enc v
  | .two v _ => σ.enc v

/-- `Err:` of the five literals: `""` or `….(error).Error()`. -/
def respErrStr {V : Type} : Ret V → String
  | .none0 => ""
  | .oneErr none => ""
  | .oneErr (some m) => m
  | .oneVal _ => ""
  | .two _ none => ""
  | .two _ (some m) => m

/-- The response frame written for the request with `Call = reqCall` after the local function
    returned `r`.  (`reqRespShapesOk = false` is modelled as "value and error are dropped".) -/
def mkResponse {V P : Type} (sk : Skeleton) (σ : Codec V P) (reqCall : String) (r : Ret V) : Tree P :=
  .obj [ (sk.tagResCall,  .str (if sk.reqResponseCallIsReqCall then reqCall else "")),
         (sk.tagResValue, .raw (if sk.reqRespShapesOk then respValue σ r else σ.encNil)),
         (sk.tagResErr,   .str (if sk.reqRespShapesOk then respErrStr r else "")) ]

/-! ### stream envelope -/

/-- `encode(Message[T]{Request: &b})` / `encode(Message[T]{Response: &b})`: the struct has both
    pointer fields, the one not named in the literal is nil, i.e. `null`.
    (`stEncode…Only = false` is modelled as "the other member is set as well".) -/
def mkEnvelope {P : Type} (sk : Skeleton) (isRequest : Bool) (frame : Tree P) : Tree P :=
  if isRequest then
    .obj [ (sk.tagMsgRequest, frame), (sk.tagMsgResponse, if sk.stEncodeRequestOnly then .null else frame) ]
  else
    .obj [ (sk.tagMsgRequest, if sk.stEncodeResponseOnly then .null else frame), (sk.tagMsgResponse, frame) ]

/-! ### Go's `unicode.IsSpace` and `strings.TrimSpace` -/

/-- `unicode.IsSpace`: Latin-1 '\t' '\n' '\v' '\f' '\r' ' ' U+0085 U+00A0, and beyond Latin-1 the
    White_Space property: U+1680, U+2000–U+200A, U+2028, U+2029, U+202F, U+205F, U+3000. -/
def isGoSpaceNat (n : Nat) : Bool :=
  n == 0x09 || n == 0x0A || n == 0x0B || n == 0x0C || n == 0x0D || n == 0x20 ||
  n == 0x85 || n == 0xA0 || n == 0x1680 || (0x2000 ≤ n && n ≤ 0x200A) ||
  n == 0x2028 || n == 0x2029 || n == 0x202F || n == 0x205F || n == 0x3000

def isGoSpace (c : Char) : Bool := isGoSpaceNat c.toNat

/-- `strings.TrimSpace`: all leading and trailing white space removed. -/
def trimSpace (s : List Char) : List Char :=
  ((s.dropWhile isGoSpace).reverse.dropWhile isGoSpace).reverse

/-- `strings.TrimSpace(s) != ""` -/
def nonBlank (s : String) : Bool := !(trimSpace s.toList).isEmpty

/-! ### the caller: response loop and result decoding -/

/-- The `err` the response loop publishes for a frame whose `Err` field is `errField`.
    `prev` is the value `err` had before the `if`: with `respErrFreshPerFrame` the variable is
    declared by `b, err := readResponseCtx()` inside the loop body and is nil here; otherwise the
    error of an earlier frame would stick.  (`respErrIffTrimNonEmpty = false`: never assigned.) -/
def respErr (sk : Skeleton) (prev : Option String) (errField : String) : Option String :=
  let base := if sk.respErrFreshPerFrame then none else prev
  if sk.respErrIffTrimNonEmpty && nonBlank errField then some errField else base

/-- What the remote function's stub returns to the application. -/
inductive CallResult (V : Type) where
  | noResults                                   -- NumOut() is neither 1 nor 2: `returnValues` stays empty
  | errOnly (e : Option String)                 -- NumOut()==1, Out(0) implements error
  | valOnly (v : V)                             -- NumOut()==1, Out(0) is a value type
  | valErr (v : Option V) (e : Option String)   -- NumOut()==2; `v = none`: decode skipped, zero value
  | panic (why : String)                        -- recovered by the stub's deferred function → setErr
  deriving Repr

/-- `unmarshal(value, new(Out(0)))` for a one-result function: a failure panics -/
def CallResult.ofDec1 {V : Type} : Option V → CallResult V
  | some v => .valOnly v
  | none => .panic "unmarshal"

/-- the same for a two-result function, `e` being the error result -/
def CallResult.ofDec2 {V : Type} (e : Option String) : Option V → CallResult V
  | some v => .valErr (some v) e
  | none => .panic "unmarshal"

/-- The `case rawReturnValue := <-res` branch of the stub for
    `rawReturnValue = callResponse{value, err, cancelled}`.

    NumOut()==1: a non-nil error is `Set` into the single result — reflect panics if `Out(0)` is not an
    error type (more exactly: not an interface the error value implements; remote definitions are
    validated to end in `error`, so this is unreachable through the public API); with a nil error
    the value is unmarshalled only if `Out(0)` does not implement `error`.
    NumOut()==2: the value is unmarshalled unless `cancelled`; the error is set if non-nil. -/
def decodeResult {V P : Type} (sk : Skeleton) (σ : Codec V P) (numOut : Nat) (outIsErrorType : Bool)
    (cancelled : Bool) (value : P) (err : Option String) (ty : Nat) : CallResult V :=
  let e := if sk.stubErrResultFromResponse then err else none
  match numOut with
  | 1 =>
    match e with
    | some m => if outIsErrorType then .errOnly (some m) else .panic "reflect.Set: error into non-error result"
    | none =>
      if outIsErrorType && sk.stubOneOutDecodesValueOnlyIfNotError then .errOnly none
      else .ofDec1 (σ.dec value ty)
  | 2 =>
    if cancelled && sk.stubTwoOutSkipsDecodeWhenCancelled then .valErr none e
    else .ofDec2 e (σ.dec value ty)
  | _ => .noResults

/-- Go's own decoding of a response frame (`res.Unmarshal`, same struct tags as the encoder) followed
    by the response loop and the stub.  `none`: the frame does not decode as a `Response` (→ setErr). -/
def callerResult {V P : Type} (sk : Skeleton) (σ : Codec V P) (prev : Option String) (numOut : Nat)
    (outIsErrorType : Bool) (ty : Nat) (frame : Tree P) : Option (CallResult V) :=
  match frame.field sk.tagResValue, frame.field sk.tagResErr with
  | some (.raw p), some (.str e) =>
    some (decodeResult sk σ numOut outIsErrorType false p (respErr sk prev e) ty)
  | _, _ => none

/-- the `Err` field as Go's decoder reads it -/
def resErrField {P : Type} (sk : Skeleton) (frame : Tree P) : Option String :=
  match frame.field sk.tagResErr with
  | some (.str e) => some e
  | _ => none

/-- the `Args` of a request frame as Go's decoder reads them (absent / null: a nil slice, no arguments) -/
def reqArgsField {P : Type} (sk : Skeleton) (frame : Tree P) : Option (List P) :=
  match frame.field sk.tagReqArgs with
  | none => some []
  | some .null => some []
  | some (.arr xs) => payloads xs
  | some _ => none

/-- a `string` field as Go's decoder reads it (absent / null: the zero value) -/
def strField {P : Type} (k : String) (frame : Tree P) : Option String :=
  match frame.field k with
  | none => some ""
  | some .null => some ""
  | some (.str s) => some s
  | some _ => none

/-- Go's own decoding of a request frame (`req.Unmarshal`, the struct tags of `Request`):
    `none` = unmarshal error (→ setErr). -/
def goDecodeRequest {P : Type} (sk : Skeleton) (frame : Tree P) : Option (String × String × List P) :=
  match frame with
  | .obj _ =>
    match strField sk.tagReqCall frame, strField sk.tagReqFunction frame, reqArgsField sk frame with
    | some c, some f, some ps => some (c, f, ps)
    | _, _, _ => none
  | _ => none

/-! ### an independent decoder, written against the documented protocol (README, "Protocol")

  Keys are the documented literals, not the struct tags; key order is free, unknown keys are
  ignored, `args` may be absent or `null` when there are no arguments. -/

def parseRequest {P : Type} (t : Tree P) : Option (String × String × List P) :=
  match t with
  | .obj kvs =>
    match lookupLast "call" kvs, lookupLast "function" kvs with
    | some (.str c), some (.str f) =>
      match lookupLast "args" kvs with
      | none => some (c, f, [])
      | some .null => some (c, f, [])
      | some (.arr xs) => (payloads xs).map fun ps => (c, f, ps)
      | some _ => none
    | _, _ => none
  | _ => none

def parseResponse {P : Type} (t : Tree P) : Option (String × P × String) :=
  match t with
  | .obj kvs =>
    match lookupLast "call" kvs, lookupLast "value" kvs, lookupLast "err" kvs with
    | some (.str c), some (.raw p), some (.str e) => some (c, p, e)
    | _, _, _ => none
  | _ => none

/-- `some true`: request member only; `some false`: response member only; `none`: neither/both/not an object -/
def parseEnvelope {P : Type} (t : Tree P) : Option (Bool × Tree P) :=
  match t with
  | .obj kvs =>
    let rq := (lookupLast "request" kvs).getD .null     -- an absent member reads as a nil pointer
    let rs := (lookupLast "response" kvs).getD .null
    match rq.isNull, rs.isNull with
    | false, true => some (true, rq)
    | true, false => some (false, rs)
    | _, _ => none
  | _ => none

/-! ### concrete data for the non-vacuity examples -/

/-- `V = P = String`; `unmarshal` into type 9 fails, anything else succeeds unchanged. -/
def idCodec : Codec String String where
  enc := id
  encNil := "null"
  dec := fun p τ => if τ = 9 then none else some p
  ofStr := id
  strTy := 0
  ctxVal := "<context>"

end Panrpc.Wire
