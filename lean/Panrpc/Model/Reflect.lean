/-
  Model/Reflect.lean — P0: the part of Go's `reflect` that the local function lookup uses.

  A *type table* lists the Go types that occur in the exposed object graph (struct, pointer,
  interface, everything else) with the method set `reflect` reports for each; a *value tree*
  is the object graph itself (struct values with an instance identity, pointers with nil,
  interface-typed slots with nil, opaque other values).  The harness serialises real Go
  values into these shapes; identical Go types MUST get the same table index (type identity
  = index); blank (`_`) fields are serialised like any other field, with name "_" (a struct with
  two of them is modelled faithfully but lies outside `WFShape`, Spec/Exposed.lean).
  Identities: `inst` of a struct / other value names the object; a method value obtained from a
  pointer is bound to the target's `inst`, one obtained from an interface-typed slot to the
  dynamic value's (`Val.recvOf`); a method PROMOTED from an embedded field is bound to the
  OUTER value it was looked up on (that is what `reflect` binds), not to the embedded one.

  Modelled operations, each with its panics as explicit outcomes (Go 1.23 `reflect`):
    Value.Kind                     `kindOf`
    Value.Elem on a pointer        `elemIfPtr`      nil pointer → zero Value, no panic; flags kept
    Type.FieldByName               `typeFieldByName` quick scan of the top level (first match), then
                                   breadth-first by embedding depth: at the shallowest depth where the
                                   name occurs it must occur exactly once, otherwise "not found".
                                   Embedded `*T` is searched like embedded `T`.  The frontier is kept
                                   as a plain list of (struct type, index path): a type reached along
                                   two routes is in the list twice, which is what reflect's `count`
                                   map records.  reflect's `visited` set (termination on recursive
                                   embedding) is replaced by FUEL: `tt.length + 1` levels are searched
                                   (an embedding chain without a repeated type is shorter than that; that the fuel always
                                   suffices is proved: `MinD.lt_length`, Lemmas/Lookup.lean).
    Value.FieldByIndex / Field     `RV.fieldByIndex` / `RV.field`: crossing a nil embedded pointer
                                   **panics**; flags: a non-embedded unexported field sets the sticky
                                   read-only flag (flagStickyRO, inherited by everything below), an
                                   embedded unexported field sets flagEmbedRO, which `Field` DROPS
                                   again on the next step down (this is how Go lets you reach exported
                                   fields promoted through an unexported embedded struct).
    Value.FieldByName              `fieldByName`
    Value.MethodByName             `methodByName`: zero Value → **panic**; name looked up in the method
                                   set of the static type (exported methods only, except for interface
                                   types where all methods are found); found on a nil interface value →
                                   **panic**; the method value is read-only if either RO flag is set.
    Value.Call preconditions       `MethodVal.ro`, `MethodVal.unexpIface` (both panic inside Call)
-/
namespace Panrpc.Lk

structure FieldDecl where
  name     : String
  exported : Bool
  embedded : Bool
  ty       : Nat            -- index into the type table
  deriving DecidableEq, Repr, Inhabited

structure MethodDecl where
  name     : String
  exported : Bool
  numIn    : Nat            -- EXCLUDES the receiver (= reflect method value's Type().NumIn())
  deriving DecidableEq, Repr, Inhabited

inductive TypeDecl where
  | struct (fields : List FieldDecl) (methods : List MethodDecl)  -- method set reflect reports for the NON-pointer type T
  | ptr    (elem : Nat) (methods : List MethodDecl)               -- method set reflect reports for *T
  | iface  (methods : List MethodDecl)                            -- ALL methods of the interface, unexported included
  | other  (isFunc : Bool) (methods : List MethodDecl)            -- any other kind; named ones may carry methods
  deriving DecidableEq, Repr, Inhabited

abbrev TypeTable := List TypeDecl

inductive Val where
  | struct (ty : Nat) (inst : Nat) (fields : List Val)   -- fields in declaration order; inst = identity of this (sub-)object
  | ptr    (ty : Nat) (target : Option Val)              -- nil pointer = none
  | iface  (ty : Nat) (dyn : Option Val)                 -- value of static interface type; nil interface = none
  | other  (ty : Nat) (inst : Nat)
  deriving Repr, Inhabited

inductive Kind where
  | invalid | struct | ptr | iface | func | other
  deriving DecidableEq, Repr, Inhabited

/-- A valid `reflect.Value`: the value plus reflect's two read-only flags.
    The zero `reflect.Value` is `none : Option RV`. -/
structure RV where
  v      : Val
  sticky : Bool     -- flagStickyRO: obtained via an unexported non-embedded field (inherited below)
  embed  : Bool     -- flagEmbedRO : obtained via an unexported embedded field (dropped by the next Field)
  deriving Repr, Inhabited

/-- `reflect.ValueOf(root)`; `ValueOf(nil)` is the zero Value. -/
def rootValue (root : Option Val) : Option RV :=
  root.map fun v => { v := v, sticky := false, embed := false }

/-! ### type table access -/

def structFields (tt : TypeTable) (T : Nat) : List FieldDecl :=
  match tt[T]? with
  | some (.struct fs _) => fs
  | _ => []

/-- The struct type whose fields are promoted through field `fd`: `fd` is embedded and of type
    `T` or `*T` with `T` a struct type. -/
def embTarget (tt : TypeTable) (fd : FieldDecl) : Option Nat :=
  if fd.embedded then
    match tt[fd.ty]? with
    | some (.struct _ _) => some fd.ty
    | some (.ptr e _) =>
      match tt[e]? with
      | some (.struct _ _) => some e
      | _ => none
    | _ => none
  else none

def withIdx : List α → Nat → List (α × Nat)
  | [], _ => []
  | a :: as, n => (a, n) :: withIdx as (n + 1)

def kindOfVal (tt : TypeTable) : Val → Kind
  | .struct _ _ _ => .struct
  | .ptr _ _ => .ptr
  | .iface _ _ => .iface
  | .other ty _ =>
    match tt[ty]? with
    | some (.other true _) => .func
    | _ => .other

/-- `Value.Kind()`. -/
def kindOf (tt : TypeTable) : Option RV → Kind
  | none => .invalid
  | some x => kindOfVal tt x.v

/-- `if v.Kind() == reflect.Ptr { v = v.Elem() }` — Elem of a nil pointer is the zero Value. -/
def elemIfPtr : Option RV → Option RV
  | some { v := .ptr _ t, sticky := s, embed := e } => t.map fun w => { v := w, sticky := s, embed := e }
  | x => x

/-! ### Type.FieldByName -/

/-- One entry of the breadth-first frontier: a struct type and the index path leading to it. -/
abbrev Scan := Nat × List Nat

def scanMatches (tt : TypeTable) (name : String) (sc : Scan) : List (List Nat) :=
  (withIdx (structFields tt sc.1) 0).flatMap fun fi =>
    if fi.1.name == name then [sc.2 ++ [fi.2]] else []

def scanNext (tt : TypeTable) (sc : Scan) : List Scan :=
  (withIdx (structFields tt sc.1) 0).flatMap fun fi =>
    match embTarget tt fi.1 with
    | some T' => [(T', sc.2 ++ [fi.2])]
    | none => []

/-- Level-by-level search: the first level with a match decides (exactly one → found). -/
def bfs (tt : TypeTable) (name : String) : Nat → List Scan → Option (List Nat)
  | 0, _ => none
  | fuel + 1, cur =>
    match cur.flatMap (scanMatches tt name) with
    | [p] => some p
    | _ :: _ :: _ => none
    | [] => bfs tt name fuel (cur.flatMap (scanNext tt))

def quickScan (fs : List (FieldDecl × Nat)) (name : String) : Option Nat :=
  (fs.find? fun fi => fi.1.name == name).map (·.2)

/-- `reflect.Type.FieldByName` on struct type `T`: index path of the field, if any. -/
def typeFieldByName (tt : TypeTable) (T : Nat) (name : String) : Option (List Nat) :=
  if name = "" then none else
  match quickScan (withIdx (structFields tt T) 0) name with
  | some i => some [i]
  | none => bfs tt name (tt.length + 1) [(T, [])]

/-! ### Value.Field / FieldByIndex / FieldByName -/

def msgNilEmb   : String := "reflect: indirection through nil pointer to embedded struct"
def msgNilIface : String := "reflect: Method on nil interface value"
def msgZeroMeth : String := "reflect: call of reflect.Value.MethodByName on zero Value"

inductive FieldRes where
  | found (x : RV)
  | invalid                  -- the zero Value
  | panic (why : String)
  deriving Repr, Inhabited

/-- `Value.Field(i)`. -/
def RV.field (tt : TypeTable) (x : RV) (i : Nat) : FieldRes :=
  match x.v with
  | .struct ty _ fs =>
    match (structFields tt ty)[i]?, fs[i]? with
    | some fd, some fv =>
      .found { v := fv
               sticky := x.sticky || (!fd.exported && !fd.embedded)
               embed := !fd.exported && fd.embedded }
    | _, _ => .panic "reflect: Field index out of range"
  | _ => .panic "reflect: call of reflect.Value.Field on non-struct Value"

/-- The `if i > 0 { if v is a pointer to struct { if nil panic; v = v.Elem() } }` part of FieldByIndex. -/
def RV.derefEmb (x : RV) : Option RV :=
  match x.v with
  | .ptr _ none => none
  | .ptr _ (some t) => some { x with v := t }
  | _ => some x

/-- `Value.FieldByIndex(index)`: `Field` for a one-element index; otherwise every step after the
    first dereferences an embedded pointer first and **panics** when that pointer is nil. -/
def RV.fieldByIndex (tt : TypeTable) : RV → List Nat → FieldRes
  | x, [] => .found x
  | x, [i] => x.field tt i
  | x, i :: j :: rest =>
    match x.field tt i with
    | .found y =>
      match y.derefEmb with
      | none => .panic msgNilEmb
      | some y' => RV.fieldByIndex tt y' (j :: rest)
    | r => r

/-- `Value.FieldByName(name)` (panics unless the value is of struct kind). -/
def fieldByName (tt : TypeTable) (x : Option RV) (name : String) : FieldRes :=
  match x with
  | none => .panic "reflect: call of reflect.Value.FieldByName on zero Value"
  | some x =>
    match x.v with
    | .struct ty _ _ =>
      match typeFieldByName tt ty name with
      | none => .invalid
      | some p => x.fieldByIndex tt p
    | _ => .panic "reflect: call of reflect.Value.FieldByName on non-struct Value"

/-! ### Value.MethodByName -/

/-- A method value (kind Func, `flagMethod` set). -/
structure MethodVal where
  recv       : Option Nat   -- identity of the object the method is bound to; none = a nil pointer
  name       : String
  numIn      : Nat          -- Type().NumIn() of the method value (receiver not counted)
  ro         : Bool         -- flagRO: Call panics "using value obtained using unexported field"
  unexpIface : Bool         -- unexported method of an interface type: Call panics "Call of unexported method"
  deriving DecidableEq, Repr, Inhabited

inductive MethRes where
  | found (m : MethodVal)
  | invalid                  -- the zero Value
  | panic (why : String)
  deriving DecidableEq, Repr, Inhabited

/-- The methods `rtype.MethodByName` searches: exported methods of a concrete type, all methods of
    an interface type. -/
def methodsOf (tt : TypeTable) : Val → List MethodDecl
  | .struct ty _ _ => match tt[ty]? with | some (.struct _ ms) => ms.filter (·.exported) | _ => []
  | .ptr ty _      => match tt[ty]? with | some (.ptr _ ms) => ms.filter (·.exported) | _ => []
  | .iface ty _    => match tt[ty]? with | some (.iface ms) => ms | _ => []
  | .other ty _    => match tt[ty]? with | some (.other _ ms) => ms.filter (·.exported) | _ => []

/-- identity of a non-pointer object -/
def Val.inst0 : Val → Option Nat
  | .struct _ i _ => some i
  | .other _ i => some i
  | _ => none

/-- identity of the object a concrete (non-interface) value denotes: the struct itself, or the
    target of a pointer (none for a nil pointer) -/
def Val.inst1 : Val → Option Nat
  | .ptr _ t => t.bind Val.inst0
  | v => v.inst0

/-- receiver identity of a method value obtained from `v` -/
def Val.recvOf : Val → Option Nat
  | .iface _ d => d.bind Val.inst1
  | v => v.inst1

def Val.isIface : Val → Bool
  | .iface _ _ => true
  | _ => false

/-- `Value.MethodByName(name)`. -/
def methodByName (tt : TypeTable) (x : Option RV) (name : String) : MethRes :=
  match x with
  | none => .panic msgZeroMeth
  | some x =>
    match (methodsOf tt x.v).find? (·.name == name) with
    | none => .invalid
    | some md =>
      match x.v with
      | .iface _ none => .panic msgNilIface
      | v => .found { recv := v.recvOf, name := md.name, numIn := md.numIn
                      ro := x.sticky || x.embed
                      unexpIface := v.isIface && !md.exported }

end Panrpc.Lk
