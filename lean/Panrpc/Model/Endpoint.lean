/-
  Model/Endpoint.lean — M2: the caller side of one endpoint of one link
  (rpc/registry.go: the stub built by `makeRPC`, `setErr`, the tail of `LinkMessage`, the
  response loop's `go responseResolver.Publish(…)`; rpc/manager.go: `registerClosure`,
  `CallClosure`).  The pending-call table of the link is the broadcaster: M1's state and
  `Bc.step` are embedded unchanged (`State.bc`); every M2 step either leaves `bc` alone or is
  exactly one `Bc.step` (projection lemma in Lemmas/Endpoint.lean), so M1's invariants are reused.

  Thread ids are one namespace of `Nat`s: a thread is a call thread (`calls c`, whose call id,
  broadcaster key, M1 receiver thread and waiter index are all `c` — fresh ids,
  `uuid.NewString()`), or another thread of the link that may report a fatal error
  (`setters t`: loops, handlers, the ctx watcher).  A call thread that recovers a panic enters
  `setErr` as setter `c`.

  Error values are `Nat` codes.  The five values panrpc produces itself are fixed; every value
  injected from outside (transport, codec, handler, signature errors) is `eExt n`, distinct from
  those five:
      eClosed   utils.ErrClosed               (only ever produced by the broadcaster)
      eLinkCtx  linkCtx.Err()
      eMarshal  marshal failure of an argument / of the request
      eDecode   unmarshal failure of a response value
      eCallCtx  the call's own ctx.Err(), as a PANIC value of the stub: only if `Receive` refuses a
                context that is done already (`sk.bcReceiveErrorsOnlyClosed = false`); the regular
                way a call learns of its context's end is `RespErr.ctxErr` through the waiter

  Source map (registry.go, stub literal passed to reflect.MakeFunc):
    callStart        callID := uuid.NewString(); the arg loop: registerClosure + defer freeClosure
                     for every func argument (`sk.stubFuncArgsRegistered`), marshal
    callMarshalFail  `panic(err)` after a marshal failure of a later argument / cmd.Marshal
    callReceive      responseResolver.Receive(callID, ctx); every error is `panic(err)`:
                     refused → panic(ErrClosed); refusedCtx → panic(ctx.Err())
    callSpawn        `go func() { defer Free(callID); r, err := rr(); …; res <- *r }()`
    callWrite        writeRequest(b) through the ctx-checking wrapper; callWriteFail: panic(err)
    waiterRecvCall   the waiter calls rr(): enters the receive function's select
    waiterGets*      the outcomes of that select (M1 rcvValue / rcvDone|rcvChanClosed / rcvCtx);
                     an error becomes `callResponse{zero, err, cancelled}`  (`fromFrame = none`)
    waiterSend       `res <- *r`  (capacity `sk.stubResChanCap`; 0 = rendezvous with the stub's select)
    waiterFree       deferred `responseResolver.Free(callID, …)`, runs when the waiter returns
    callTakeRes      `case rawReturnValue := <-res` + decoding per NumOut/cancelled/err
    callLinkCtx      `case <-linkCtx.Done(): panic(linkCtx.Err())`
    callReturnOk     `return returnValues` : deferred freeClosure()s run
    callRecover      the panic path: deferred freeClosure()s run first (LIFO: they were deferred
                     after the recovering frame), then `recover()`, `setErr(err)`, arity patch
    respFrame        response loop: `go responseResolver.Publish(res.Call, {res.Value, err, false})`
    pubLookup/pubCtx/pubSendClosed   M1 publisher steps
    closureInvoke    closureManager.CallClosure: `closuresLock.Lock()`, the lookup (hit / miss logged);
                     a miss unlocks and returns; a hit starts the closure's body on the invoking thread
                     — after `Unlock()` (`sk.clInvokeOutsideLock`), or with the mutex still held
                     (`Lock(); defer Unlock()`: the fact is false)
    closureBodyDone  the closure's body returns to CallClosure (which releases the mutex if it still holds it)
    setErrEnter      some other thread of the link calls setErr(err)
    setErrStore      `L.Lock(); if fatalErr == nil { fatalErr = err }; Broadcast(); L.Unlock()`
    setErrClose      `responseResolver.Close(err)`;   order of the two by `sk.seOrder`
    watcher          `go func() { <-ctx.Done(); setErr(ctx.Err()) }()`
    linkCheck        `L.Lock(); err := fatalErr; if err == nil { Wait() …`  (parks, releasing L)
    linkWake         Wait() returns (after a Broadcast): `err = fatalErr; L.Unlock()`
    linkReturn       `return err`
    ctxCancel / ctxPropagate / cancelLink   environment

  Modelling decisions (all over-approximate the interleavings of the source):
  * `callRecover` marks the call `returned` and makes the call thread a setter (`setters c`);
    in the source the stub runs `setErr` to completion before it returns.  Everything the call
    thread does after `callRecover` is the two `setErr` steps, so the only difference is the
    moment at which `returned` is recorded (trace validation maps the stub's `seterr.enter`
    event to `callRecover`, not its `call.return` event).
  * `callStart` registers all closures of the call in one step and `callRecover`/`callReturnOk`
    release them in one step (in the source: one critical section per closure; the ids are
    fresh and unknown to the peer before the request is written).
  * the closure table's mutex (`closuresLock`, one per registry) is `clLock`: `some q` = held by the
    invoking thread `q` across the body it runs.  Every other critical section of the mutex
    (registerClosure, the free function, the look-up itself) is one atomic step, enabled only
    while `clLock = none`: `callStart` of a call that registers at least one closure,
    `callRecover` / `callReturnOk` of a call that has closures to release (the deferred
    `freeClosure()`s run before the stub returns, on the normal and on the panic path), and
    `closureInvoke`.  Calls without closures never touch the mutex.  `running q = some id`: thread
    `q` is inside the body of closure `id`; a finished body that is never reported
    (`closureBodyDone`) disables nothing as long as the mutex is not held across bodies.
  * unbuffered `res` (`sk.stubResChanCap = 0`): `waiterSend c` is the rendezvous — enabled only
    while the call thread is at its select; it puts the value into `res c`, and a non-empty
    `res c` disables `callLinkCtx` (the select has committed to the receive case).
  * `sk.respPublishAsync` is not consulted: a publisher is an M1 publisher thread either way;
    what the flag decides (whether a parked publisher stalls the response loop) belongs to the
    loop model, not to the caller side.
  * NumOut = 1 never decodes a value (the only result is the error, by the remote-definition
    check `lastOutIsError`); NumOut = 2 decodes unless `cancelled`.
-/
import Panrpc.Model.Broadcaster

namespace Panrpc.Ep
open Panrpc

/-! ### error values -/
def eClosed  : Nat := 0
def eLinkCtx : Nat := 1
def eMarshal : Nat := 2
def eDecode  : Nat := 3
/-- the call's own context error, as the value `Receive` returned for a context that was done already -/
def eCallCtx : Nat := 4
/-- an error value that comes from outside panrpc (transport, codec, handler, …) -/
def eExt (n : Nat) : Nat := n + 5

inductive RespErr where
  | none      -- nil
  | app       -- errors.New(res.Err): the peer's handler returned an error
  | ctxErr    -- the call's own context error (from the receive function)
  | closed    -- utils.ErrClosed (entry freed / table closed)
  deriving DecidableEq, Repr, Inhabited

/-- a `callResponse`: `fromFrame = some v` ⇔ it came from a response frame (`cancelled = false`) -/
structure Resp where
  fromFrame : Option Nat
  err       : RespErr
  deriving DecidableEq, Repr, Inhabited

inductive Outcome where
  | pending
  | ok (r : Resp)        -- results built from a callResponse: error result is nil iff `r.err = .none`
  | failed (e : Nat)     -- recovered panic: (zero, e)
  deriving DecidableEq, Repr, Inhabited

inductive CallPc where
  | absent
  | marshalled          -- args marshalled, closures registered
  | registered          -- Receive done
  | spawned             -- waiter goroutine started
  | written             -- request written; at the select
  | decoded             -- results built, about to return
  | panicking (e : Nat) -- a panic with value e is unwinding the stub
  | returned
  deriving DecidableEq, Repr, Inhabited

structure Call where
  pc       : CallPc
  ctx      : Nat         -- the call's own context (an M1 context id)
  numOut   : Nat         -- 1 or 2
  closures : List Nat    -- closure ids registered by this call
  outcome  : Outcome
  deriving DecidableEq, Repr, Inhabited

def Call.none : Call := { pc := .absent, ctx := 0, numOut := 1, closures := [], outcome := .pending }

inductive Waiter where
  | absent
  | start
  | recv                -- inside rr()'s select
  | have (r : Resp)     -- about to `res <- *r`
  | sent
  | exited
  deriving DecidableEq, Repr, Inhabited

inductive SetErrPc where
  | absent
  | entered (e : Nat)
  | stored (e : Nat)       -- slot critical section done, Close still to come (storeThenClose)
  | closedFirst (e : Nat)  -- Close done, slot critical section still to come (closeThenStore)
  | done
  deriving DecidableEq, Repr, Inhabited

inductive LinkPc where
  | running
  | waiting                       -- parked in Cond.Wait
  | woken                         -- Broadcast seen, has not re-acquired the lock yet
  | read (e : Option Nat)         -- has read the slot, about to return it
  | returned (e : Option Nat)
  deriving DecidableEq, Repr, Inhabited

structure Invoke where
  thread : Nat
  id     : Nat
  hit    : Bool
  deriving DecidableEq, Repr, Inhabited

structure State where
  bc           : Bc.State
  calls        : Nat → Call
  waiters      : Nat → Waiter
  res          : Nat → List Resp     -- the per-call `res` channel
  pubErr       : Nat → Bool          -- publisher p's frame had a non-blank Err
  closures     : Nat → Bool          -- closure table
  nextClosure  : Nat
  owner        : Nat → Option Nat    -- ghost: the call that registered a closure id
  invokes      : List Invoke         -- ghost: CallClosure lookups, newest first
  clLock       : Option Nat          -- closuresLock: the invoking thread that holds it across a closure body
  running      : Nat → Option Nat    -- invoking thread ↦ the closure whose body it is running
  linkCtxDone  : Bool
  watcherFired : Bool
  slot         : Option Nat          -- fatalErr
  fatalLog     : List Nat            -- ghost: arguments of the store critical sections, in order
  setters      : Nat → SetErrPc
  link         : LinkPc
  crashed      : Bool
  deriving Inhabited

def init : State :=
  { bc := Bc.init, calls := fun _ => Call.none, waiters := fun _ => .absent, res := fun _ => [],
    pubErr := fun _ => false, closures := fun _ => false, nextClosure := 0, owner := fun _ => none,
    invokes := [], clLock := none, running := fun _ => none, linkCtxDone := false, watcherFired := false, slot := none, fatalLog := [],
    setters := fun _ => .absent, link := .running, crashed := false }

inductive Act where
  | callStart (c x numOut nClosures : Nat)
  | callMarshalFail (c : Nat)
  | callReceive (c : Nat)
  | callSpawn (c : Nat)
  | callWrite (c : Nat)
  | callWriteFail (c e : Nat)
  | waiterRecvCall (c : Nat)
  | waiterGetsValue (c p : Nat)
  | waiterGetsDone (c : Nat)
  | waiterGetsCtx (c : Nat)
  | waiterSend (c : Nat)
  | waiterFree (c : Nat)
  | callTakeRes (c : Nat) (decodeFails : Bool)
  | callLinkCtx (c : Nat)
  | callRecover (c e : Nat)
  | callReturnOk (c : Nat)
  | respFrame (p callId frameId : Nat) (hasErr : Bool)
  | pubLookup (p : Nat)
  | pubCtx (p : Nat)
  | pubSendClosed (p : Nat)
  | closureInvoke (q id : Nat)
  | closureBodyDone (q : Nat)
  | setErrEnter (t e : Nat)
  | setErrStore (t : Nat)
  | setErrClose (t : Nat)
  | watcher (t : Nat)
  | linkCheck
  | linkWake
  | linkReturn
  | ctxCancel (x : Nat)
  | ctxPropagate (g : Nat)
  | cancelLink
  deriving DecidableEq, Repr, Inhabited

/-- does the stub unmarshal the value of this response? (NumOut = 2: unless `cancelled`;
    NumOut = 1: the only result is the error, nothing is decoded) -/
def decodes (sk : Skeleton) (numOut : Nat) (r : Resp) : Bool :=
  numOut == 2 && (r.fromFrame.isSome || !sk.stubTwoOutSkipsDecodeWhenCancelled)

/-- the closure table after the deferred `freeClosure()`s of call `c` ran -/
def freeClosures (sk : Skeleton) (s : State) (c : Nat) : Nat → Bool :=
  fun id => if sk.stubClosureFreeDeferred = true ∧ id ∈ (s.calls c).closures then false else s.closures id

/-- the ids `callStart` registers -/
def newClosures (sk : Skeleton) (s : State) (nCl : Nat) : List Nat :=
  if sk.stubFuncArgsRegistered = true then
    -- a fresh id per registration (`clIdFresh`: a UUID); an id derived from the table's current SIZE instead repeats as
    -- soon as an earlier call has returned while a later one is pending
    List.range' (if sk.clIdFresh = true then s.nextClosure
                 else ((List.range s.nextClosure).filter (fun id => s.closures id)).length) nCl
  else []

/-- does the return of call `c` run a `freeClosure()` (and so take `closuresLock`)? -/
def releases (sk : Skeleton) (s : State) (c : Nat) : Prop :=
  sk.stubClosureFreeDeferred = true ∧ (s.calls c).closures ≠ []

instance (sk : Skeleton) (s : State) (c : Nat) : Decidable (releases sk s c) := by
  unfold releases; exact inferInstance

/-- no invoking thread is inside the body of one of call `c`'s closures -/
def noneRunning (s : State) (c : Nat) : Bool :=
  s.invokes.all fun iv => match s.running iv.thread with
    | some id => !((s.calls c).closures.contains id)
    | none => true

/-- The deferred `freeClosure()`s of call `c` can run to their end: the table's mutex is free, and — only if the
    release function WAITS for running invocations (`clFreeNeverWaits = false`, e.g. a `WaitGroup` "so that the
    caller's function is never still executing after the closure has been freed") — none of its closures is running. -/
def canRelease (sk : Skeleton) (s : State) (c : Nat) : Prop :=
  releases sk s c → s.clLock = none ∧ (sk.clFreeNeverWaits = true ∨ noneRunning s c = true)

instance (sk : Skeleton) (s : State) (c : Nat) : Decidable (canRelease sk s c) := by
  unfold canRelease; exact inferInstance

/-- `if fatalErr == nil { fatalErr = err }` -/
def firstOr (o : Option Nat) (e : Nat) : Option Nat :=
  match o with
  | some x => some x
  | none => some e

/-- the slot critical section of `setErr e` -/
def store (sk : Skeleton) (s : State) (e : Nat) : State :=
  { s with slot := if sk.seFirstOnly = true then firstOr s.slot e else some e,
           fatalLog := s.fatalLog ++ [e],
           link := if s.link = .waiting ∧ sk.seBroadcasts = true then .woken else s.link }

def step (sk : Skeleton) (s : State) : Act → Option State
  | .callStart c x numOut nCl =>
    if s.crashed = false ∧ (s.calls c).pc = .absent ∧ s.setters c = .absent ∧ (numOut = 1 ∨ numOut = 2) ∧
       (newClosures sk s nCl ≠ [] → s.clLock = none) then
      let ids := newClosures sk s nCl
      some { s with calls := upd s.calls c { pc := .marshalled, ctx := x, numOut := numOut, closures := ids, outcome := .pending },
                    closures := fun id => if id ∈ ids then true else s.closures id,
                    owner := fun id => if id ∈ ids then some c else s.owner id,
                    nextClosure := s.nextClosure + ids.length }
    else none
  | .callMarshalFail c =>
    if s.crashed = false ∧ (s.calls c).pc = .marshalled then
      some { s with calls := upd s.calls c { s.calls c with pc := .panicking eMarshal } }
    else none
  | .callReceive c =>
    if s.crashed = false ∧ (s.calls c).pc = .marshalled then
      match Bc.step sk s.bc (.receive c c (s.calls c).ctx) with
      | some bc' =>
        if bc'.rcvs c = .refused then
          some { s with bc := bc', crashed := bc'.crashed, calls := upd s.calls c { s.calls c with pc := .panicking eClosed } }
        else if bc'.rcvs c = .refusedCtx then
          some { s with bc := bc', crashed := bc'.crashed, calls := upd s.calls c { s.calls c with pc := .panicking eCallCtx } }
        else
          some { s with bc := bc', crashed := bc'.crashed, calls := upd s.calls c { s.calls c with pc := .registered } }
      | none => none
    else none
  | .callSpawn c =>
    if s.crashed = false ∧ (s.calls c).pc = .registered then
      some { s with calls := upd s.calls c { s.calls c with pc := .spawned }, waiters := upd s.waiters c .start }
    else none
  | .callWrite c =>
    if s.crashed = false ∧ (s.calls c).pc = .spawned ∧ s.linkCtxDone = false then
      some { s with calls := upd s.calls c { s.calls c with pc := .written } }
    else none
  | .callWriteFail c e =>
    if s.crashed = false ∧ (s.calls c).pc = .spawned then
      some { s with calls := upd s.calls c { s.calls c with pc := .panicking (if s.linkCtxDone = true then eLinkCtx else eExt e) } }
    else none
  | .waiterRecvCall c =>
    if s.crashed = false ∧ s.waiters c = .start then
      match Bc.step sk s.bc (.rcvCall c) with
      | some bc' => some { s with bc := bc', crashed := bc'.crashed, waiters := upd s.waiters c .recv }
      | none => none
    else none
  | .waiterGetsValue c p =>
    if s.crashed = false ∧ s.waiters c = .recv then
      match s.bc.pubs p with
      | .holding _ v _ =>
        match Bc.step sk s.bc (.rcvValue c p) with
        | some bc' =>
          some { s with bc := bc', crashed := bc'.crashed,
                        waiters := upd s.waiters c (.have { fromFrame := some v, err := if s.pubErr p = true then .app else .none }) }
        | none => none
      | _ => none
    else none
  | .waiterGetsDone c =>
    if s.crashed = false ∧ s.waiters c = .recv then
      match Bc.step sk s.bc (.rcvDone c) with
      | some bc' => some { s with bc := bc', crashed := bc'.crashed, waiters := upd s.waiters c (.have { fromFrame := none, err := .closed }) }
      | none =>
        match Bc.step sk s.bc (.rcvChanClosed c) with
        | some bc' => some { s with bc := bc', crashed := bc'.crashed, waiters := upd s.waiters c (.have { fromFrame := none, err := .closed }) }
        | none => none
    else none
  | .waiterGetsCtx c =>
    if s.crashed = false ∧ s.waiters c = .recv then
      match Bc.step sk s.bc (.rcvCtx c) with
      | some bc' => some { s with bc := bc', crashed := bc'.crashed, waiters := upd s.waiters c (.have { fromFrame := none, err := .ctxErr }) }
      | none => none
    else none
  | .waiterSend c =>
    match s.waiters c with
    | .have r =>
      if s.crashed = false ∧
         (if sk.stubResChanCap = 0 then (s.calls c).pc = .written ∧ s.res c = [] else (s.res c).length < sk.stubResChanCap) then
        some { s with res := upd s.res c (s.res c ++ [r]), waiters := upd s.waiters c .sent }
      else none
    | _ => none
  | .waiterFree c =>
    if s.crashed = false ∧ s.waiters c = .sent then
      if sk.stubWaiterFreesOnExit = true then
        match Bc.step sk s.bc (.free c) with
        | some bc' => some { s with bc := bc', crashed := bc'.crashed, waiters := upd s.waiters c .exited }
        | none => none
      else some { s with waiters := upd s.waiters c .exited }
    else none
  | .callTakeRes c fail =>
    if s.crashed = false ∧ (s.calls c).pc = .written ∧ sk.stubSelectsRes = true then
      match s.res c with
      | r :: rest =>
        if sk.panicSitesCanonical = false ∧ r.err = .ctxErr then
          -- (a stub that panics on an OUTCOME — here the call's own context error — and not only on failures of the link)
          some { s with res := upd s.res c rest, calls := upd s.calls c { s.calls c with pc := .panicking eCallCtx } }
        else if decodes sk (s.calls c).numOut r = true ∧ fail = true then
          some { s with res := upd s.res c rest, calls := upd s.calls c { s.calls c with pc := .panicking eDecode } }
        else
          some { s with res := upd s.res c rest, calls := upd s.calls c { s.calls c with pc := .decoded, outcome := .ok r } }
      | [] => none
    else none
  | .callLinkCtx c =>
    -- with an unbuffered `res`, a non-empty `res c` means the rendezvous has happened: the
    -- select has already committed to the receive case
    if s.crashed = false ∧ (s.calls c).pc = .written ∧ s.linkCtxDone = true ∧ sk.stubSelectsLinkCtx = true ∧
       (sk.stubResChanCap = 0 → s.res c = []) then
      some { s with calls := upd s.calls c { s.calls c with pc := .panicking eLinkCtx } }
    else none
  | .callRecover c e =>
    if s.crashed = false ∧ (s.calls c).pc = .panicking e ∧ canRelease sk s c then
      if sk.stubRecovers = true then
        some { s with closures := freeClosures sk s c,
                      calls := upd s.calls c { s.calls c with pc := .returned, outcome := .failed e },
                      setters := if sk.stubRecoverCallsSetErr = true then upd s.setters c (.entered e) else s.setters }
      else some { s with crashed := true }       -- the panic leaves the stub: process dies
    else none
  | .callReturnOk c =>
    if s.crashed = false ∧ (s.calls c).pc = .decoded ∧ canRelease sk s c then
      some { s with closures := freeClosures sk s c,
                    calls := upd s.calls c { s.calls c with pc := .returned } }
    else none
  | .respFrame p callId frameId hasErr =>
    if s.crashed = false then
      match Bc.step sk s.bc (.pubStart p callId frameId) with
      | some bc' => some { s with bc := bc', crashed := bc'.crashed, pubErr := upd s.pubErr p hasErr }
      | none => none
    else none
  | .pubLookup p =>
    if s.crashed = false then
      match Bc.step sk s.bc (.pubLookup p) with
      | some bc' => some { s with bc := bc', crashed := bc'.crashed }
      | none => none
    else none
  | .pubCtx p =>
    if s.crashed = false then
      match Bc.step sk s.bc (.pubCtx p) with
      | some bc' => some { s with bc := bc', crashed := bc'.crashed }
      | none => none
    else none
  | .pubSendClosed p =>
    if s.crashed = false then
      match Bc.step sk s.bc (.pubSendClosed p) with
      | some bc' => some { s with bc := bc', crashed := bc'.crashed }
      | none => none
    else none
  | .closureInvoke q id =>
    -- (the table holds the closure's wrapper itself: `clStoresCreatedClosure`; a wrapper that serialises invocations
    --  with a per-closure mutex lets nobody in while some thread is inside that closure's body)
    if s.crashed = false ∧ s.clLock = none ∧
       (sk.clStoresCreatedClosure = true ∨ s.invokes.all (fun iv => decide (s.running iv.thread ≠ some id)) = true) then
      some { s with invokes := { thread := q, id := id, hit := s.closures id } :: s.invokes,
                    running := if s.closures id = true then upd s.running q (some id) else s.running,
                    clLock := if s.closures id = true ∧ sk.clInvokeOutsideLock = false then some q else none }
    else none
  | .closureBodyDone q =>
    if s.crashed = false ∧ s.running q ≠ none then
      some { s with running := upd s.running q none,
                    clLock := if s.clLock = some q then none else s.clLock }
    else none
  | .setErrEnter t e =>
    if s.crashed = false ∧ s.setters t = .absent ∧ (s.calls t).pc = .absent then
      some { s with setters := upd s.setters t (.entered (eExt e)) }
    else none
  | .setErrStore t =>
    if s.crashed = false then
      match s.setters t, sk.seOrder with
      | .entered e, .storeThenClose => some { store sk s e with setters := upd s.setters t (.stored e) }
      | .entered e, .noClose => some { store sk s e with setters := upd s.setters t .done }
      | .closedFirst e, .closeThenStore => some { store sk s e with setters := upd s.setters t .done }
      | _, _ => none
    else none
  | .setErrClose t =>
    if s.crashed = false then
      match s.setters t, sk.seOrder with
      | .stored _, .storeThenClose =>
        match Bc.step sk s.bc .close with
        | some bc' => some { s with bc := bc', crashed := bc'.crashed, setters := upd s.setters t .done }
        | none => none
      | .entered e, .closeThenStore =>
        match Bc.step sk s.bc .close with
        | some bc' => some { s with bc := bc', crashed := bc'.crashed, setters := upd s.setters t (.closedFirst e) }
        | none => none
      | _, _ => none
    else none
  | .watcher t =>
    if s.crashed = false ∧ s.linkCtxDone = true ∧ s.watcherFired = false ∧ sk.watcherCallsSetErr = true ∧
       s.setters t = .absent ∧ (s.calls t).pc = .absent then
      some { s with watcherFired := true, setters := upd s.setters t (.entered eLinkCtx) }
    else none
  | .linkCheck =>
    if s.crashed = false ∧ s.link = .running then
      if s.slot = none ∧ sk.linkWaitsOnCond = true then some { s with link := .waiting }
      else some { s with link := .read s.slot }
    else none
  | .linkWake =>
    if s.crashed = false ∧ s.link = .woken then some { s with link := .read s.slot } else none
  | .linkReturn =>
    if s.crashed = false then
      match s.link with
      | .read e => some { s with link := .returned e }
      | _ => none
    else none
  | .ctxCancel x =>
    if s.crashed = false then
      match Bc.step sk s.bc (.ctxCancel x) with
      | some bc' => some { s with bc := bc', crashed := bc'.crashed }
      | none => none
    else none
  | .ctxPropagate g =>
    if s.crashed = false then
      match Bc.step sk s.bc (.ctxPropagate g) with
      | some bc' => some { s with bc := bc', crashed := bc'.crashed }
      | none => none
    else none
  | .cancelLink =>
    if s.crashed = false then some { s with linkCtxDone := true } else none

inductive Reach (sk : Skeleton) : State → Prop where
  | init : Reach sk init
  | step {s s' : State} (a : Act) : Reach sk s → step sk s a = some s' → Reach sk s'

def run (sk : Skeleton) (s : State) (acts : List Act) : Option State := runFrom (step sk) s acts

theorem reach_of_run (sk : Skeleton) {s s' : State} (acts : List Act)
    (h : Reach sk s) (hr : run sk s acts = some s') : Reach sk s' := by
  induction acts generalizing s with
  | nil => simp [run, runFrom] at hr; subst hr; exact h
  | cons a as ih =>
    simp only [run, runFrom] at hr
    cases hs : step sk s a with
    | none => simp [hs] at hr
    | some s1 =>
      simp only [hs] at hr
      exact ih (Reach.step a h hs) hr

end Panrpc.Ep
