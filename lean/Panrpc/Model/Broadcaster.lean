/-
  Model/Broadcaster.lean — M1: labelled transition system of utils/broadcaster.go.

  Any number of client threads (publishers `p`, receivers `t`), any number of keys and
  caller contexts.  One constructor of `Act` per atomic step (DESIGN.md A.1); every
  nondeterministic choice is an argument of the action, so `step` is a function.
  The effects that differ between source trees are selected by `Skeleton` facts
  (`sk.bc…`), which are regenerated from /repo on every run.

  Source map (utils/broadcaster.go):
    receive      Receive(): closed check, (only if `sk.bcReceiveErrorsOnlyClosed = false`: refusal of a
                 caller context that is done already), lookup-or-create entry, all under the lock
    rcvCall      calling the returned function: it enters its `select`
    rcvValue     rendezvous  `case v := <-c.channel`  ×  `case c.channel <- v`
    rcvChanClosed `case _, ok := <-c.channel; !ok`     (value channel was closed)
    rcvDone      `case <-c.done`                       (separate closed signal, if any)
    rcvCtx       `case <-ctx.Done()`
    pubStart     a goroutine calls Publish(k, v)
    pubLookup    Publish(): closed check + lookup under the lock
    pubCtx       `case <-c.ctx.Done()` in Publish's select
    pubSendClosed `case c.channel <- v` chosen on a closed channel  → runtime panic
    free / close Free(k) / Close(), one critical section each
    ctxCancel    the application cancels a caller context
    ctxPropagate package context propagates a parent's cancellation to the entry ctx
-/
import Panrpc.Go.Prim
import Panrpc.Skeleton

namespace Panrpc.Bc

structure Entry where
  key        : Nat
  parent     : Nat    -- caller context the entry context derives from
  chanClosed : Bool   -- value channel closed
  doneClosed : Bool   -- separate "freed/closed" signal closed (if the source has one)
  ctxDone    : Bool   -- entry context cancelled
  deriving DecidableEq, Repr, Inhabited

inductive Pub where
  | absent
  | start   (key val : Nat)
  | holding (key val gen : Nat)       -- past the unlock, before/inside the select
  | done    (delivered : Bool)
  deriving DecidableEq, Repr, Inhabited

inductive Rcv where
  | absent
  | refused                            -- Receive returned ErrClosed
  | refusedCtx                         -- Receive returned the caller context's error (only if the source refuses a done context)
  | have      (key gen ctx : Nat)      -- holds the receive function, not inside it
  | waiting   (key gen ctx : Nat)      -- inside the function's select
  | gotVal    (key gen ctx val : Nat)
  | gotCtx    (key gen ctx : Nat)
  | gotClosed (key gen ctx : Nat)
  deriving DecidableEq, Repr, Inhabited

structure Delivery where
  pub  : Nat
  rcv  : Nat
  pkey : Nat   -- key the value was published on
  rkey : Nat   -- key the receiver asked for
  val  : Nat
  deriving DecidableEq, Repr, Inhabited

structure State where
  table      : Nat → Option Nat      -- key → generation of the live entry
  entries    : Nat → Option Entry    -- generation → entry (entries are never forgotten: ghost)
  nextGen    : Nat
  closed     : Bool
  lockHolder : Option Nat            -- a publisher that keeps the mutex across its select (only if the source does)
  ctxs       : Nat → Bool            -- caller contexts: done?
  pubs       : Nat → Pub
  rcvs       : Nat → Rcv
  crashed    : Bool
  deliveries : List Delivery         -- ghost
  deriving Inhabited

def init : State :=
  { table := fun _ => none, entries := fun _ => none, nextGen := 0, closed := false,
    lockHolder := none, ctxs := fun _ => false, pubs := fun _ => .absent,
    rcvs := fun _ => .absent, crashed := false, deliveries := [] }

inductive Act where
  | receive (t k x : Nat)
  | rcvCall (t : Nat)
  | rcvValue (t p : Nat)
  | rcvChanClosed (t : Nat)
  | rcvDone (t : Nat)
  | rcvCtx (t : Nat)
  | pubStart (p k v : Nat)
  | pubLookup (p : Nat)
  | pubCtx (p : Nat)
  | pubSendClosed (p : Nat)
  | free (k : Nat)
  | close
  | ctxCancel (x : Nat)
  | ctxPropagate (g : Nat)
  deriving DecidableEq, Repr, Inhabited

/-- what `Free` does to the entry it removes -/
def freeEntry (sk : Skeleton) (e : Entry) : Entry :=
  { e with ctxDone := e.ctxDone || sk.bcFreeCancels,
           chanClosed := e.chanClosed || sk.bcFreeClosesChan,
           doneClosed := e.doneClosed || sk.bcFreeClosesDone }

/-- what `Close` does to every live entry -/
def closeEntry (sk : Skeleton) (e : Entry) : Entry :=
  { e with ctxDone := e.ctxDone || sk.bcCloseCancelsAll,
           chanClosed := e.chanClosed || sk.bcCloseClosesChans,
           doneClosed := e.doneClosed || sk.bcCloseClosesDone }

def rcvKey : Rcv → Option (Nat × Nat × Nat)
  | .waiting k g x => some (k, g, x)
  | _ => none

def step (sk : Skeleton) (s : State) : Act → Option State
  | .receive t k x =>
    if s.crashed = false ∧ s.lockHolder = none ∧ s.rcvs t = .absent then
      if s.closed = true ∧ sk.bcReceiveRefusesWhenClosed = true then
        some { s with rcvs := upd s.rcvs t .refused }
      else if s.ctxs x = true ∧ sk.bcReceiveErrorsOnlyClosed = false then
        -- `if err := ctx.Err(); err != nil { return nil, err }`: a caller context that is done already
        -- is refused with ITS error; no entry is created
        some { s with rcvs := upd s.rcvs t .refusedCtx }
      else match s.table k with
        | some g => some { s with rcvs := upd s.rcvs t (.have k g x) }
        | none =>
          let g := s.nextGen
          some { s with table := upd s.table k (some g),
                        entries := upd s.entries g
                          (some { key := k, parent := x, chanClosed := false, doneClosed := false,
                                  ctxDone := s.ctxs x }),
                        nextGen := g + 1,
                        rcvs := upd s.rcvs t (.have k g x) }
    else none
  | .rcvCall t =>
    if s.crashed = false then
      match s.rcvs t with
      | .have k g x | .gotVal k g x _ | .gotCtx k g x | .gotClosed k g x =>
        some { s with rcvs := upd s.rcvs t (.waiting k g x) }
      | _ => none
    else none
  | .rcvValue t p =>
    if s.crashed = false then
      match s.rcvs t, s.pubs p with
      | .waiting k g x, .holding pk v pg =>
        match s.entries g with
        | some e =>
          if pg = g ∧ e.chanClosed = false ∧ sk.bcRecvSelectsChan = true ∧ sk.bcPublishSelectsSend = true then
            some { s with rcvs := upd s.rcvs t (.gotVal k g x v),
                          pubs := upd s.pubs p (.done true),
                          lockHolder := if s.lockHolder = some p then none else s.lockHolder,
                          deliveries := { pub := p, rcv := t, pkey := pk, rkey := k, val := v } :: s.deliveries }
          else none
        | none => none
      | _, _ => none
    else none
  | .rcvChanClosed t =>
    if s.crashed = false then
      match s.rcvs t with
      | .waiting k g x =>
        match s.entries g with
        | some e => if e.chanClosed = true ∧ sk.bcRecvSelectsChan = true then
            some { s with rcvs := upd s.rcvs t (.gotClosed k g x) } else none
        | none => none
      | _ => none
    else none
  | .rcvDone t =>
    if s.crashed = false then
      match s.rcvs t with
      | .waiting k g x =>
        match s.entries g with
        | some e => if e.doneClosed = true ∧ sk.bcRecvSelectsDone = true then
            some { s with rcvs := upd s.rcvs t (.gotClosed k g x) } else none
        | none => none
      | _ => none
    else none
  | .rcvCtx t =>
    if s.crashed = false then
      match s.rcvs t with
      | .waiting k g x =>
        if s.ctxs x = true ∧ sk.bcRecvSelectsCallerCtx = true then
          some { s with rcvs := upd s.rcvs t (.gotCtx k g x) } else none
      | _ => none
    else none
  | .pubStart p k v =>
    if s.crashed = false ∧ s.pubs p = .absent then
      some { s with pubs := upd s.pubs p (.start k v) }
    else none
  | .pubLookup p =>
    if s.crashed = false ∧ s.lockHolder = none then
      match s.pubs p with
      | .start k v =>
        if s.closed = true ∧ sk.bcPublishChecksClosed = true then
          some { s with pubs := upd s.pubs p (.done false) }
        else match s.table k with
          | none => some { s with pubs := upd s.pubs p (.done false) }
          | some g => some { s with pubs := upd s.pubs p (.holding k v g),
                                    lockHolder := if sk.bcPublishSelectOutsideLock = true then none else some p }
      | _ => none
    else none
  | .pubCtx p =>
    if s.crashed = false then
      match s.pubs p with
      | .holding _ _ g =>
        match s.entries g with
        | some e => if e.ctxDone = true ∧ sk.bcPublishSelectsEntryCtx = true then
            some { s with pubs := upd s.pubs p (.done false),
                          lockHolder := if s.lockHolder = some p then none else s.lockHolder } else none
        | none => none
      | _ => none
    else none
  | .pubSendClosed p =>
    if s.crashed = false then
      match s.pubs p with
      | .holding _ _ g =>
        match s.entries g with
        | some e => if e.chanClosed = true ∧ sk.bcPublishSelectsSend = true then
            some { s with crashed := true } else none   -- panic: send on closed channel
        | none => none
      | _ => none
    else none
  | .free k =>
    if s.crashed = false ∧ s.lockHolder = none then
      match s.table k with
      | none => some s
      | some g =>
        match s.entries g with
        | none => some s
        | some e =>
          if (e.chanClosed = true ∧ sk.bcFreeClosesChan = true) ∨ (e.doneClosed = true ∧ sk.bcFreeClosesDone = true) then
            some { s with crashed := true }              -- panic: close of closed channel
          else
            some { s with entries := upd s.entries g (some (freeEntry sk e)),
                          table := if sk.bcFreeDeletes = true then upd s.table k none else s.table }
    else none
  | .close =>
    if s.crashed = false ∧ s.lockHolder = none then
      some { s with entries := fun g => match s.entries g with
                      | some e => if s.table e.key = some g then some (closeEntry sk e) else some e
                      | none => none,
                    table := if sk.bcCloseClearsTable = true then (fun _ => none) else s.table,
                    closed := s.closed || sk.bcCloseSetsClosed }
    else none
  | .ctxCancel x =>
    if s.crashed = false then some { s with ctxs := upd s.ctxs x true } else none
  | .ctxPropagate g =>
    if s.crashed = false then
      match s.entries g with
      | some e => if s.ctxs e.parent = true ∧ sk.bcReceiveChildCtx = true then
          some { s with entries := upd s.entries g (some { e with ctxDone := true }) } else none
      | none => none
    else none

/-- The source facts that justify treating `Receive`, `Free`, `Close` and `Publish`'s lookup as ONE
    atomic step each: a single lock…unlock region that contains the closed check, the map access
    and every effect on the entry.  (If an operation were split into two regions, another thread's
    step could fall between them and this model would not describe the code.) -/
structure Atomic (sk : Skeleton) : Prop where
  receive  : sk.bcReceiveOneSection = true
  free     : sk.bcFreeOneSection = true
  close    : sk.bcCloseOneSection = true
  publish  : sk.bcPublishOneLookupSection = true
  lookup   : sk.bcPublishLooksUpUnderLock = true
  freeL    : sk.bcFreeUnderLock = true
  closeL   : sk.bcCloseUnderLock = true
  reuse    : sk.bcReceiveReusesEntry = true

inductive Reach (sk : Skeleton) : State → Prop where
  | init : Reach sk init
  | step {s s' : State} (a : Act) : Reach sk s → step sk s a = some s' → Reach sk s'

def run (sk : Skeleton) (s : State) (acts : List Act) : Option State := runFrom (step sk) s acts

theorem reach_of_run (sk : Skeleton) {s s' : State} (acts : List Act)
    (h : Reach sk s) (hr : run sk s acts = some s') : Reach sk s' := by
  induction acts generalizing s with
  | nil => simp [run, runFrom] at hr; subst hr; exact h
  | cons a as ih =>
    simp only [run, runFrom] at hr
    cases hs : step sk s a with
    | none => simp [hs] at hr
    | some s1 =>
      simp only [hs] at hr
      exact ih (Reach.step a h hs) hr

end Panrpc.Bc
