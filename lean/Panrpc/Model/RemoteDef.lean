/-
  Model/RemoteDef.lean — P2: the remote-definition walk
  (`implementRemoteStructRecursively`, rpc/registry.go) as `LinkMessage` runs it in its
  un-recovered setup goroutine.

  Input: the *type* of the remote struct `R`, as the list of its fields in declaration
  order (`reflect.Type.Field(i)`, i = 0 … NumField()-1).  What the Go loop looks at per field:

    * `Type.Kind()`      : Func / Struct (by value) / anything else (pointers to structs,
                            interfaces, ints, … are all "other": no recursion, no check);
    * for a Func          : `NumIn()`, `In(0).Implements(context.Context)`, `NumOut()`,
                            `Out(NumOut()-1).Implements(error)`                  → `Sig`;
    * `Name`              : joined into the `Request.Function` string of the stub;
    * settable-ness of `remote.FieldByName(Name)`: the root value is addressable
      (`reflect.New(T).Elem()`), so a field value can be `Set` unless it carries a read-only
      flag.  `exported = false`
        - on a `func` field  : the field is unexported (`!StructField.IsExported()`,
                               embedded or not: flagStickyRO resp. flagEmbedRO, `Set` panics on both);
        - on a `struct` field: values reached THROUGH it are read-only, i.e. the field is
                               unexported and NOT embedded (flagStickyRO is inherited by
                               `Value.Field`; flagEmbedRO of an unexported *embedded* struct is
                               not, Go's promoted-field rule) — encode such a field with
                               `exported := f.IsExported() || f.Anonymous`.
      (checked against go1.23 reflect, see the notes of this round.)

  Output: what `Link` observes — the stubs installed (with the function string each one will
  send), or the returned signature error (→ `setErr(err)` → `Link` returns it), or a panic in
  the goroutine (process crash).

  Modelling assumption (trusted, holds for every Go struct type except ones with several
  blank `_` fields): sibling field names are distinct, so `remote.FieldByName(f.Name)` is the
  i-th field itself.  With two `_` fields of struct kind Go would walk the FIRST one twice.

  Every source-dependent choice is read from the `Skeleton`:
    rwRecursesOnStructKind  Kind()==Struct → recursive call, error propagated, `continue`
    rwSkipsNonFunc          Kind()!=Func → `continue`   (otherwise `NumOut()` of a non-func panics)
    rwChecks                the validation tests in source order
    rwNameJoinsWithDot      namePrefix + ("." iff namePrefix != "") + Name
    rwSetsStub              remote.FieldByName(Name).Set(makeRPC(…))
    rwStubNameIsPath        makeRPC's `name` argument (= Request.Function) is that joined name
    rwGuardsUnsettable      (repaired tree) a field that cannot be set is skipped after validation
-/
import Panrpc.Skeleton

namespace Panrpc.Rw
open Panrpc

/-- What the walk inspects of a func-typed field's type.
    `firstIsCtx` is meaningful when `numIn ≥ 1`, `lastIsError` when `numOut ≥ 1`. -/
structure Sig where
  numIn : Nat
  firstIsCtx : Bool
  numOut : Nat
  lastIsError : Bool
  deriving DecidableEq, Repr, Inhabited

/-- One field of the remote struct type, in declaration order. -/
inductive Field where
  | func (name : String) (exported : Bool) (sig : Sig)
  /-- field whose type KIND is struct (by value); pointer-to-struct fields are `other` -/
  | struct (name : String) (exported : Bool) (fields : List Field)
  | other (name : String) (exported : Bool)
  deriving Repr, Inhabited

inductive WalkErr where
  | invalidReturn   -- ErrInvalidReturn
  | invalidArgs     -- ErrInvalidArgs
  deriving DecidableEq, Repr, Inhabited

inductive Outcome where
  /-- (path of field names from the root of this walk, `Request.Function` the stub sends), in walk order -/
  | ok (stubs : List (List String × String))
  /-- returned error → `setErr(err)` → `Link` returns it -/
  | err (e : WalkErr)
  /-- reflect panic in the un-recovered setup goroutine: process crash -/
  | panic
  deriving DecidableEq, Repr, Inhabited

/-- Result of one validation test. -/
inductive CheckRes where
  | pass
  | fail (e : WalkErr)
  | panic              -- `Out(-1)` / `In(0)` out of range: only if the range test does not come first
  deriving DecidableEq, Repr

/-- One validation test of the loop body, on a func-typed field. -/
def runCheck (c : RwCheck) (s : Sig) : CheckRes :=
  match c with
  | .numOutRange     => if s.numOut = 0 ∨ s.numOut > 2 then .fail .invalidReturn else .pass
  | .lastOutIsError  => if s.numOut = 0 then .panic
                        else if s.lastIsError then .pass else .fail .invalidReturn
  | .numInAtLeastOne => if s.numIn < 1 then .fail .invalidArgs else .pass
  | .firstInIsCtx    => if s.numIn = 0 then .panic
                        else if s.firstIsCtx then .pass else .fail .invalidArgs

/-- The tests in source order; the first one that fires decides. -/
def runChecks : List RwCheck → Sig → CheckRes
  | [], _ => .pass
  | c :: cs, s =>
    match runCheck c s with
    | .pass => runChecks cs s
    | r => r

/-- `namePrefix + prefix + functionField.Name` with `prefix = "."` iff `namePrefix != ""`. -/
def joinName (sk : Skeleton) (pre name : String) : String :=
  if sk.rwNameJoinsWithDot then (if pre = "" then name else pre ++ "." ++ name)
  else pre ++ name

/-- A field that is neither recursed into nor a func. -/
def nonFunc (sk : Skeleton) : Outcome :=
  if sk.rwSkipsNonFunc then .ok [] else .panic   -- `functionType.NumOut()` of a non-func type panics

mutual
/-- One iteration of the loop.  `pre` is `namePrefix`, `ro` says whether `remote` is read-only. -/
def walkField (sk : Skeleton) (pre : String) (ro : Bool) : Field → Outcome
  | .func name exported sig =>
    match runChecks sk.rwChecks sig with
    | .fail e => .err e
    | .panic => .panic
    | .pass =>
      -- validation passed: `remote.FieldByName(name).Set(makeRPC(ctx, joined name, …))`
      if !sk.rwSetsStub then .ok []
      else if ro || !exported then
        (if sk.rwGuardsUnsettable then .ok [] else .panic)
      else .ok [([name], if sk.rwStubNameIsPath then joinName sk pre name else name)]
  | .struct name exported fields =>
    if sk.rwRecursesOnStructKind then
      match walk sk (joinName sk pre name) (ro || !exported) fields with
      | .ok stubs => .ok (stubs.map fun st => (name :: st.1, st.2))
      | o => o                                  -- `if err != nil { return err }`; a panic unwinds
    else nonFunc sk
  | .other _ _ => nonFunc sk

/-- The loop over the fields of one struct value: stops at the first error / panic. -/
def walk (sk : Skeleton) (pre : String) (ro : Bool) : List Field → Outcome
  | [] => .ok []                                -- `return nil`
  | f :: rest =>
    match walkField sk pre ro f with
    | .ok s₁ =>
      match walk sk pre ro rest with
      | .ok s₂ => .ok (s₁ ++ s₂)
      | o => o
    | o => o
end

/-- `LinkMessage`: `implementRemoteStructRecursively(ctx, "", reflect.New(R).Elem(), …)`. -/
def link (sk : Skeleton) (fields : List Field) : Outcome := walk sk "" false fields

end Panrpc.Rw
