package main

// C07, "exactly that method of exactly that (sub-)object runs": the exposed object graph is reachable
// through a pointer, so the application may re-point parts of it between calls.  Every request must be
// resolved against the graph held NOW (the model's `resolve` is a function of the current root).

import (
	"context"
	"encoding/json"
	"fmt"
	"sync"
	"time"

	"github.com/pojntfx/panrpc/go/pkg/rpc"
)

type mutLog struct {
	mu   sync.Mutex
	hits []string
}

func (l *mutLog) add(s string) { l.mu.Lock(); l.hits = append(l.hits, s); l.mu.Unlock() }
func (l *mutLog) take() []string {
	l.mu.Lock()
	defer l.mu.Unlock()
	h := l.hits
	l.hits = nil
	return h
}

type MutLeaf struct {
	id  string
	log *mutLog
}

func (l *MutLeaf) Who(ctx context.Context) (string, error) { l.log.add(l.id); return l.id, nil }

type MutMid struct {
	Leaf *MutLeaf
	Val  MutLeaf
	Next *MutMid
}

type mutRoot struct {
	Mid  *MutMid
	Leaf *MutLeaf
	Own  MutMid
}

type mutWho struct {
	Who func(ctx context.Context) (string, error)
}

type mutRemote struct {
	Leaf mutWho
	Mid  struct {
		Leaf mutWho
		Next struct {
			Leaf mutWho
		}
	}
	Own struct {
		Leaf mutWho
	}
}

func c07Mutation(rep *Report, api string) {
	log := &mutLog{}
	n := 0
	leaf := func() *MutLeaf { n++; return &MutLeaf{id: fmt.Sprintf("leaf#%d", n), log: log} }
	mid := func() *MutMid { return &MutMid{Leaf: leaf(), Val: *leaf(), Next: &MutMid{Leaf: leaf()}} }
	root := &mutRoot{Mid: mid(), Leaf: leaf(), Own: *mid()}
	codec := jsonRaw()
	regA := rpc.NewRegistry[struct{}, json.RawMessage](root, nil)
	regB := rpc.NewRegistry[mutRemote, json.RawMessage](struct{}{}, nil)
	q := [4]*Queue{NewQueue(), NewQueue(), NewQueue(), NewQueue()}
	ctx, cancel := context.WithCancel(context.Background())
	defer func() {
		cancel()
		for _, x := range q {
			x.Close(nil)
		}
	}()
	if api == "message" {
		go regA.LinkMessage(ctx,
			func(b json.RawMessage) error { return q[0].Put(b) }, func(b json.RawMessage) error { return q[1].Put(b) },
			func() (json.RawMessage, error) { b, e := q[2].Get(); return b, e }, func() (json.RawMessage, error) { b, e := q[3].Get(); return b, e },
			codec.Marshal, codec.Unmarshal, nil)
		go regB.LinkMessage(ctx,
			func(b json.RawMessage) error { return q[2].Put(b) }, func(b json.RawMessage) error { return q[3].Put(b) },
			func() (json.RawMessage, error) { b, e := q[0].Get(); return b, e }, func() (json.RawMessage, error) { b, e := q[1].Get(); return b, e },
			codec.Marshal, codec.Unmarshal, nil)
	} else {
		type env = rpc.Message[json.RawMessage]
		ab, ba := make(chan env, 64), make(chan env, 64)
		mk := func(out chan env, in chan env) (func(env) error, func(*env) error) {
			return func(m env) error {
					select {
					case out <- m:
						return nil
					case <-ctx.Done():
						return ctx.Err()
					}
				}, func(m *env) error {
					select {
					case x := <-in:
						*m = x
						return nil
					case <-ctx.Done():
						return ctx.Err()
					}
				}
		}
		ea, da := mk(ab, ba)
		eb, db := mk(ba, ab)
		go regA.LinkStream(ctx, ea, da, codec.Marshal, codec.Unmarshal, nil)
		go regB.LinkStream(ctx, eb, db, codec.Marshal, codec.Unmarshal, nil)
	}
	var rem mutRemote
	up := false
	for i := 0; i < 3000 && !up; i++ {
		regB.ForRemotes(func(id string, r mutRemote) error { rem, up = r, true; return nil })
		if !up {
			time.Sleep(time.Millisecond)
		}
	}
	if !up {
		rep.addViolation("property", "C07:mutation:setup", "link did not come up", nil)
		return
	}
	type path struct {
		name string
		call func(ctx context.Context) (string, error)
		cur  func() *MutLeaf
	}
	paths := []path{
		{"Leaf.Who", rem.Leaf.Who, func() *MutLeaf { return root.Leaf }},
		{"Mid.Leaf.Who", rem.Mid.Leaf.Who, func() *MutLeaf { return root.Mid.Leaf }},
		{"Mid.Next.Leaf.Who", rem.Mid.Next.Leaf.Who, func() *MutLeaf { return root.Mid.Next.Leaf }},
		{"Own.Leaf.Who", rem.Own.Leaf.Who, func() *MutLeaf { return root.Own.Leaf }},
	}
	mutations := []struct {
		name string
		do   func()
	}{
		{"none", func() {}},
		{"replace the last pointer of a path (root.Leaf)", func() { root.Leaf = leaf() }},
		{"replace a pointer in the middle of a path (root.Mid)", func() { root.Mid = mid() }},
		{"replace a pointer two levels down (root.Mid.Next)", func() { root.Mid.Next = &MutMid{Leaf: leaf()} }},
		{"replace a pointer inside a by-value sub-object (root.Own.Leaf)", func() { root.Own.Leaf = leaf() }},
		{"overwrite a by-value sub-object (root.Own)", func() { root.Own = *mid() }},
		{"replace the middle pointer again (root.Mid)", func() { root.Mid = mid() }},
	}
	for _, m := range mutations {
		m.do() // no call is in flight here
		for round := 0; round < 2; round++ {
			for _, p := range paths {
				rep.Evaluations++
				rep.Distinct++
				want := p.cur().id
				log.take()
				r := withWatchdog(func() (any, error) { return p.call(context.Background()) })
				ran := log.take()
				d := map[string]any{"suite": "C07-mutation", "api": api, "after": m.name, "path": p.name}
				switch {
				case !r.ok:
					rep.addViolation("property", "C07:mutation:hang", fmt.Sprintf("%s after %q did not return", p.name, m.name), d)
					return
				case r.err != nil:
					rep.addViolation("property", "C07:mutation:error", fmt.Sprintf("%s after %q failed: %v", p.name, m.name, r.err), d)
					return
				case len(ran) != 1 || ran[0] != want || r.val.(string) != want:
					rep.addViolation("property", "C07:mutation:"+p.name, fmt.Sprintf("after %q, a request for %s ran %v and returned %q; the object held at that path is %s", m.name, p.name, ran, r.val, want), d)
				}
			}
		}
	}
}
