package main

// C09 (arguments/results unchanged, in order) and C17 (wire frames follow the documented protocol).

import (
	"sync"
	"errors"
	"bytes"
	"context"
	"encoding/base64"
	"encoding/hex"
	"encoding/json"
	"fmt"
	"math"
	"math/rand"
	"reflect"
	"sort"
	"strings"
	"time"
)

// ---------------------------------------------------------------- C09

func randAll(rng *rand.Rand, boundary bool) (a int, b string, c []byte, d []int, e map[string]int, f Inner, g *Inner, h float64, i bool, j []string, k [][]int, l *int) {
	ints := []int{0, 1, -1, 42, math.MaxInt32, math.MinInt32, 1 << 40, -(1 << 40)}
	strs := []string{"", "x", "hello world", "üñí ✓ 日本", "\"quoted\"\n\ttab", "null", "{}", strings.Repeat("z", 300)}
	pi := func() int {
		if boundary || rng.Intn(3) == 0 {
			return ints[rng.Intn(len(ints))]
		}
		return rng.Intn(2000) - 1000
	}
	ps := func() string {
		if boundary || rng.Intn(3) == 0 {
			return strs[rng.Intn(len(strs))]
		}
		return fmt.Sprintf("s%d", rng.Intn(1e6))
	}
	a = pi()
	b = ps()
	switch rng.Intn(3) {
	case 0:
		c = nil
	case 1:
		c = []byte{}
	default:
		c = make([]byte, rng.Intn(20))
		rng.Read(c)
	}
	switch rng.Intn(3) {
	case 0:
		d = nil
	case 1:
		d = []int{}
	default:
		for n := rng.Intn(6); n > 0; n-- {
			d = append(d, pi())
		}
	}
	if rng.Intn(3) > 0 {
		e = map[string]int{}
		for n := rng.Intn(4); n > 0; n-- {
			e[ps()] = pi()
		}
	}
	f = Inner{N: pi(), S: ps()}
	if rng.Intn(2) == 0 {
		f.L = []int{pi(), pi()}
	}
	if rng.Intn(2) == 0 {
		g = &Inner{N: pi(), S: ps()}
	}
	hs := []float64{0, 1.5, -2.25, 1e100, 1e-100, math.MaxFloat64, 3}
	h = hs[rng.Intn(len(hs))]
	i = rng.Intn(2) == 0
	for n := rng.Intn(4); n > 0; n-- {
		j = append(j, ps())
	}
	if rng.Intn(2) == 0 {
		k = [][]int{{pi()}, {}, nil, {pi(), pi()}}
	}
	if rng.Intn(2) == 0 {
		v := pi()
		l = &v
	}
	return
}

// rtInto: one encode/decode through the codec into a fresh value of the same type.
func rtInto[T any](codec Codec[T], v any) (any, error) {
	p, err := codec.Marshal(v)
	if err != nil {
		return nil, err
	}
	out := reflect.New(reflect.TypeOf(v))
	if err := codec.Unmarshal(p, out.Interface()); err != nil {
		return nil, err
	}
	return out.Elem().Interface(), nil
}

func c09Workload[T any](rep *Report, codec Codec[T], api string, rng *rand.Rand, n int) {
	p, err := NewPair(codec, PairOpts{API: api})
	desc := map[string]any{"suite": "C09", "codec": codec.Name, "api": api}
	if err != nil {
		rep.addViolation("property", "C09:setup", "link setup failed: "+err.Error(), desc)
		return
	}
	defer p.Shutdown()
	ra, _, _ := p.A.AnyRemote()
	rb, _, _ := p.B.AnyRemote()
	for it := 0; it < n; it++ {
		rem, callee := ra, p.B
		if it%2 == 1 {
			rem, callee = rb, p.A
		}
		a, b, c, d, e, f, g, h, i, j, k, l := randAll(rng, it < 8)
		withErr := it%4 == 3
		if withErr {
			b = "ERR:" + b // the handler returns its value TOGETHER with an error carrying this text
		}
		sent := All{a, b, c, d, e, f, g, h, i, j, k, l}
		rep.Evaluations++
		rep.Distinct++
		r := withWatchdog(func() (any, error) { return rem.EchoAll(context.Background(), a, b, c, d, e, f, g, h, i, j, k, l) })
		dj, _ := json.Marshal(sent)
		cd := map[string]any{"suite": "C09", "codec": codec.Name, "api": api, "args": string(dj)}
		if it < 2 {
			rep.sample(cd)
		}
		if withErr && r.ok && r.err != nil && hasNonBlank(b) {
			if r.err.Error() != b {
				rep.addViolation("property", "C09:"+api+":value+error", fmt.Sprintf("handler returned its value with error %q, the caller got error %q", b, r.err), cd)
				continue
			}
		} else if !r.ok || r.err != nil {
			rep.addViolation("property", "C09:"+api+":call", fmt.Sprintf("EchoAll failed: ok=%v err=%v", r.ok, r.err), cd)
			return
		} else if withErr {
			rep.addViolation("property", "C09:"+api+":value+error", fmt.Sprintf("handler returned its value with error %q, the caller got a nil error", b), cd)
			continue
		}
		// what the handler must have seen: each argument after one round-trip into its declared type
		var seenWant All
		fields := []any{a, b, c, d, e, f, g, h, i, j, k, l}
		sv := reflect.ValueOf(&seenWant).Elem()
		bad := false
		for x, fv := range fields {
			var rv any
			var err error
			if fv == nil {
				continue
			}
			// typed nils (nil *Inner, nil slices) still have their static type through the variable
			rv, err = rtInto(codec, reflect.ValueOf(&sent).Elem().Field(x).Interface())
			if err != nil {
				bad = true
				break
			}
			sv.Field(x).Set(reflect.ValueOf(rv))
		}
		if bad {
			continue // outside the serializer's domain
		}
		gotSeen := callee.Svc.LastAll()
		if !reflect.DeepEqual(gotSeen, seenWant) {
			gj, _ := json.Marshal(gotSeen)
			wj, _ := json.Marshal(seenWant)
			rep.addViolation("property", "C09:"+api+":handler-args", fmt.Sprintf("handler received %s, one round-trip of the caller's arguments gives %s", gj, wj), cd)
			continue
		}
		// and the caller gets the handler's return value after the same round-trip
		wantBack, err := rtInto(codec, seenWant)
		if err != nil {
			continue
		}
		if !reflect.DeepEqual(r.val.(All), wantBack.(All)) {
			gj, _ := json.Marshal(r.val)
			wj, _ := json.Marshal(wantBack)
			rep.addViolation("property", "C09:"+api+":result", fmt.Sprintf("caller got %s, one round-trip of the handler's value gives %s", gj, wj), cd)
		}
	}
	// the same remote function called from many goroutines at once: every call's arguments arrive as ITS caller sent them
	{
		const g, per = 8, 12
		var wg sync.WaitGroup
		var mu sync.Mutex
		var bad []string
		for w := 0; w < g; w++ {
			w := w
			wg.Add(1)
			go func() {
				defer wg.Done()
				for k := 0; k < per; k++ {
					xs := []int{w, k, w*1000 + k, 7}
					want := w + k + w*1000 + k + 7
					r := withWatchdog(func() (any, error) { return ra.Sum(context.Background(), xs) })
					str := fmt.Sprintf("w%d-k%d", w, k)
					r2 := withWatchdog(func() (any, error) { return ra.Echo(context.Background(), w*100+k, str) })
					mu.Lock()
					if !r.ok || r.err != nil || r.val.(int) != want {
						bad = append(bad, fmt.Sprintf("Sum(%v) = %+v, want %d", xs, r, want))
					}
					if !r2.ok || r2.err != nil || !strings.HasSuffix(r2.val.(string), fmt.Sprintf("#%d#%s", w*100+k, str)) {
						bad = append(bad, fmt.Sprintf("Echo(%d,%q) = %+v", w*100+k, str, r2))
					}
					mu.Unlock()
				}
			}()
		}
		wg.Wait()
		rep.Evaluations += g * per * 2
		if len(bad) > 0 {
			rep.addViolation("property", "C09:"+api+":concurrent-args", fmt.Sprintf("%d goroutines calling the same remote functions concurrently: %d calls got another call's arguments or result, e.g. %s", g, len(bad), bad[0]), desc)
		}
	}
	// other arities
	for _, xs := range [][]int{nil, {}, {1}, {1, 2, 3, 4, 5, 6, 7, 8, 9}} {
		r := withWatchdog(func() (any, error) { return ra.Sum(context.Background(), xs) })
		want := 0
		for _, x := range xs {
			want += x
		}
		rep.Evaluations++
		if !r.ok || r.err != nil || r.val.(int) != want {
			rep.addViolation("property", "C09:"+api+":sum", fmt.Sprintf("Sum(%v) = %+v", xs, r), desc)
		}
	}
	r := withWatchdog(func() (any, error) { return ra.Add(context.Background(), math.MaxInt64-1, 1) })
	if !r.ok || r.err != nil || r.val.(int64) != math.MaxInt64 {
		if codec.Name != "json-raw" && codec.Name != "json-bytes" { // JSON numbers are exact for int64 in encoding/json too, so check always
		}
		rep.addViolation("property", "C09:"+api+":int64", fmt.Sprintf("Add(MaxInt64-1,1) = %+v", r), desc)
	}
}

func runC09(rep *Report, tier string, seed int64) {
	rep.Rule = "argument tuples for a 12-parameter handler (int, string, []byte, []int, map, struct, *struct incl. nil, float64, bool, []string, [][]int, *int) drawn from boundary values (first 8 per link) and a PRNG; nil and empty slices/maps/pointers included; " +
		"oracle: handler saw each argument after ONE direct marshal→unmarshal with the same codec into the declared type, caller got the handler's struct after the same round-trip; plus arities 1..9 through Sum. distinct = argument tuples"
	rng := rand.New(rand.NewSource(seed))
	n := 300
	if tier == "thorough" {
		n = 2000
	}
	for _, api := range apis() {
		c09Workload(rep, jsonRaw(), api, rng, n)
		c09Workload(rep, jsonBytes(), api, rng, n)
		c09Workload(rep, cborRaw(), api, rng, n)
	}
}

// ---------------------------------------------------------------- C17

type wireCall struct {
	Name    string // dotted function name
	NArgs   int    // non-context arguments
	Shape   string // none0 oneErr oneVal two
	ErrMsg  *string
	Closure bool
	ArgJSON [][]byte // marshalled arguments (for position check)
}

func payloadBytes(codecName string, v any) ([]byte, bool) {
	// how a payload of type T shows up inside a generically decoded frame
	switch codecName {
	case "json-bytes":
		s, ok := v.(string)
		if !ok {
			if v == nil {
				return nil, true
			}
			return nil, false
		}
		b, err := base64.StdEncoding.DecodeString(s)
		return b, err == nil
	}
	b, err := json.Marshal(v)
	return b, err == nil
}

func c17Workload[T any](rep *Report, codec Codec[T], api string) {
	p, err := NewPair(codec, PairOpts{API: api})
	desc := map[string]any{"suite": "C17", "codec": codec.Name, "api": api}
	if err != nil {
		rep.addViolation("property", "C17:setup", "link setup failed: "+err.Error(), desc)
		return
	}
	ra, _, _ := p.A.AnyRemote()
	ctx := context.Background()
	empty, blank, msg := "", " \t", "boom: \"x\""
	// the workload: A calls B, one call per (arity, return shape, outcome); sequential so frames pair up in order
	var calls []wireCall
	hung := ""
	do := func(c wireCall, f func()) {
		if hung != "" {
			return
		}
		calls = append(calls, c)
		if r := withWatchdog(func() (any, error) { f(); return nil, nil }); !r.ok {
			hung = c.Name
		}
	}
	do(wireCall{Name: "Nop", NArgs: 0, Shape: "oneErr"}, func() { ra.Nop(ctx) })
	do(wireCall{Name: "NoRet", NArgs: 1, Shape: "none0"}, func() { ra.NoRet(ctx, 7) })
	do(wireCall{Name: "Echo", NArgs: 2, Shape: "two"}, func() { ra.Echo(ctx, 3, "x") })
	do(wireCall{Name: "Fail", NArgs: 1, Shape: "oneErr", ErrMsg: &msg}, func() { ra.Fail(ctx, msg) })
	do(wireCall{Name: "Fail", NArgs: 1, Shape: "oneErr", ErrMsg: &blank}, func() { ra.Fail(ctx, blank) })
	do(wireCall{Name: "Fail", NArgs: 1, Shape: "oneErr", ErrMsg: &empty}, func() { ra.Fail(ctx, empty) })
	do(wireCall{Name: "FailVal", NArgs: 3, Shape: "two", ErrMsg: &msg}, func() { ra.FailVal(ctx, 5, msg, true) })
	do(wireCall{Name: "FailVal", NArgs: 3, Shape: "two"}, func() { ra.FailVal(ctx, 5, msg, false) })
	do(wireCall{Name: "Sub.Ping", NArgs: 1, Shape: "two"}, func() { ra.Sub.Ping(ctx, 1) })
	do(wireCall{Name: "Deep.Leaf.Ping", NArgs: 1, Shape: "two"}, func() { ra.Deep.Leaf.Ping(ctx, 2) })
	do(wireCall{Name: "Sum", NArgs: 1, Shape: "two"}, func() { ra.Sum(ctx, nil) })
	do(wireCall{Name: "WithClosure", NArgs: 3, Shape: "two", Closure: true}, func() {
		ra.WithClosure(ctx, 0, false, func(ctx context.Context, i int, s string) (string, error) { return s, nil })
	})
	if hung != "" {
		rep.addViolation("property", "C17:"+api+":unanswered", fmt.Sprintf("the call of %s (a well-formed request) was never answered: the caller still waits after %v", hung, watchdog), desc)
		p.Shutdown()
		return
	}
	time.Sleep(5 * time.Millisecond)
	var reqFrames, resFrames [][]byte
	if api == "message" {
		reqFrames, resFrames = p.AReq.Frames(), p.BRes.Frames()
	} else {
		// split the byte streams into envelopes
		split := func(b []byte) [][]byte {
			var out [][]byte
			switch codec.Name {
			case "cbor-raw":
				// cbor: decode sequentially
				rest := b
				for len(rest) > 0 {
					var raw rawCBOR
					n, err := raw.decodeFirst(rest)
					if err != nil {
						break
					}
					out = append(out, rest[:n])
					rest = rest[n:]
				}
			default:
				for _, l := range bytes.Split(b, []byte("\n")) {
					if len(bytes.TrimSpace(l)) > 0 {
						out = append(out, l)
					}
				}
			}
			return out
		}
		for _, env := range split(p.StreamA.Bytes()) {
			g, err := codec.Generic(env)
			m, ok := normMap(g)
			if err != nil || !ok {
				rep.addViolation("property", "C17:"+api+":envelope-undecodable", fmt.Sprintf("envelope %q does not decode to a map", env), desc)
				continue
			}
			req, res := m["request"], m["response"]
			if (req == nil) == (res == nil) || len(m) != 2 {
				rep.addViolation("property", "C17:"+api+":envelope-xor", fmt.Sprintf("envelope %v does not carry exactly one of request and response", m), desc)
				continue
			}
			if req != nil {
				b, _ := payloadBytes(codec.Name, req)
				if codec.Name == "cbor-raw" {
					b = reencodeCBOR(req)
				}
				reqFrames = append(reqFrames, b)
			}
		}
		for _, env := range split(p.StreamB.Bytes()) {
			g, err := codec.Generic(env)
			m, ok := normMap(g)
			if err != nil || !ok {
				continue
			}
			req, res := m["request"], m["response"]
			if (req == nil) == (res == nil) || len(m) != 2 {
				rep.addViolation("property", "C17:"+api+":envelope-xor", fmt.Sprintf("envelope %v does not carry exactly one of request and response", m), desc)
				continue
			}
			if res != nil {
				b, _ := payloadBytes(codec.Name, res)
				if codec.Name == "cbor-raw" {
					b = reencodeCBOR(res)
				}
				resFrames = append(resFrames, b)
			}
		}
	}
	p.Shutdown()
	// B also received CallClosure-free workload, so requests from A are exactly `calls`
	if len(reqFrames) != len(calls) || len(resFrames) != len(calls) {
		rep.addViolation("property", "C17:"+api+":frame-count", fmt.Sprintf("%d calls produced %d request and %d response frames", len(calls), len(reqFrames), len(resFrames)), desc)
		return
	}
	ids := map[string]bool{}
	reqIDs := []string{}
	var lines []string
	var impl []string
	for i, c := range calls {
		rep.Evaluations++
		rep.Distinct++
		cd := map[string]any{"suite": "C17", "codec": codec.Name, "api": api, "call": c.Name, "frame": string(reqFrames[i])}
		g, err := codec.Generic(reqFrames[i])
		m, ok := normMap(g)
		if err != nil || !ok {
			rep.addViolation("property", "C17:"+api+":request-undecodable", fmt.Sprintf("request frame of %s does not decode to a map: %v", c.Name, err), cd)
			reqIDs = append(reqIDs, "")
			continue
		}
		id, _ := m["call"].(string)
		fn, _ := m["function"].(string)
		args, isArr := m["args"].([]any)
		reqIDs = append(reqIDs, id)
		keys := []string{}
		for k := range m {
			keys = append(keys, k)
		}
		sort.Strings(keys)
		switch {
		case strings.Join(keys, ",") != "args,call,function":
			rep.addViolation("property", "C17:"+api+":request-keys", fmt.Sprintf("request of %s has keys %v", c.Name, keys), cd)
		case id == "" || ids[id]:
			rep.addViolation("property", "C17:"+api+":request-id", fmt.Sprintf("request of %s carries call id %q (empty or reused)", c.Name, id), cd)
		case fn != c.Name:
			rep.addViolation("property", "C17:"+api+":request-function", fmt.Sprintf("request of %s carries function %q", c.Name, fn), cd)
		case !isArr:
			rep.addViolation("property", "C17:"+api+":request-args-null", fmt.Sprintf("request of %s carries args=%v (must be an array, never null)", c.Name, m["args"]), cd)
		case len(args) != c.NArgs:
			rep.addViolation("property", "C17:"+api+":request-args-len", fmt.Sprintf("request of %s carries %d args, want %d (context must not be transmitted)", c.Name, len(args), c.NArgs), cd)
		}
		ids[id] = true
		// model rendering of this request
		kinds := []string{"c"}
		for k := 0; k < c.NArgs; k++ {
			kinds = append(kinds, "v")
		}
		argR := []string{}
		for k := range args {
			argR = append(argR, fmt.Sprintf("#%d", k+1))
		}
		if c.Closure && isArr && len(args) == 3 {
			// the closure id travels as an encoded string at its position
			if pb, ok := payloadBytes(codec.Name, args[2]); ok {
				var cid string
				if codec.Name == "cbor-raw" {
					cid, _ = args[2].(string)
				} else {
					json.Unmarshal(pb, &cid)
				}
				if cid == "" {
					rep.addViolation("property", "C17:"+api+":closure-arg", "closure argument is not transmitted as an encoded id string", cd)
				}
				kinds[3] = "f:" + hex.EncodeToString([]byte(cid))
				argR[2] = "#s:" + hex.EncodeToString([]byte(cid))
			}
		}
		lines = append(lines, fmt.Sprintf("wire request %s %s %d %s", hexOrDash(id), hexOrDash(c.Name), len(kinds), strings.Join(kinds, " ")))
		argsTxt := "null"
		if isArr {
			argsTxt = "[" + strings.Join(argR, ",") + "]"
		}
		impl = append(impl, fmt.Sprintf("{call=s:%s,function=s:%s,args=%s}", hexOrDash(id), hexOrDash(fn), argsTxt))
	}
	for i, c := range calls {
		cd := map[string]any{"suite": "C17", "codec": codec.Name, "api": api, "call": c.Name, "frame": string(resFrames[i])}
		g, err := codec.Generic(resFrames[i])
		m, ok := normMap(g)
		if err != nil || !ok {
			rep.addViolation("property", "C17:"+api+":response-undecodable", fmt.Sprintf("response frame of %s does not decode to a map", c.Name), cd)
			continue
		}
		id, _ := m["call"].(string)
		errS, errIsStr := m["err"].(string)
		keys := []string{}
		for k := range m {
			keys = append(keys, k)
		}
		sort.Strings(keys)
		_, hasValue := m["value"]
		switch {
		case strings.Join(keys, ",") != "call,err,value":
			rep.addViolation("property", "C17:"+api+":response-keys", fmt.Sprintf("response of %s has keys %v", c.Name, keys), cd)
		case id != reqIDs[i]:
			rep.addViolation("property", "C17:"+api+":response-id", fmt.Sprintf("response of %s carries call id %q, the request had %q", c.Name, id, reqIDs[i]), cd)
		case !errIsStr || !hasValue:
			rep.addViolation("property", "C17:"+api+":response-shape", fmt.Sprintf("response of %s: err=%v value present=%v", c.Name, m["err"], hasValue), cd)
		case (errS == "") != (c.ErrMsg == nil):
			key := "C17:" + api + ":err-empty-iff-nil"
			if c.ErrMsg != nil && *c.ErrMsg == "" {
				key = "C17:empty-error-message"
			}
			rep.addViolation("property", key, fmt.Sprintf("response of %s: handler error %v was sent as err=%q (the error string must be empty exactly when the error is nil)", c.Name, strPtr(c.ErrMsg), errS), cd)
		case c.ErrMsg != nil && errS != *c.ErrMsg:
			rep.addViolation("property", "C17:"+api+":err-text", fmt.Sprintf("response of %s: err=%q, handler returned %q", c.Name, errS, *c.ErrMsg), cd)
		}
		// value must be a validly encoded value (null when there is none)
		if pb, ok := payloadBytes(codec.Name, m["value"]); !ok {
			rep.addViolation("property", "C17:"+api+":response-value", fmt.Sprintf("response of %s: value is not a validly encoded payload", c.Name), cd)
		} else if codec.Name != "cbor-raw" {
			var x any
			if json.Unmarshal(pb, &x) != nil {
				rep.addViolation("property", "C17:"+api+":response-value", fmt.Sprintf("response of %s: value %q is not valid JSON", c.Name, pb), cd)
			}
			hasVal := c.Shape == "oneVal" || c.Shape == "two"
			if !hasVal && string(pb) != "null" {
				rep.addViolation("property", "C17:"+api+":response-null", fmt.Sprintf("response of %s: no value, but value=%q (want null)", c.Name, pb), cd)
			}
		}
		shape := c.Shape
		arg := ""
		if c.ErrMsg != nil {
			arg = " " + hexOrDash(*c.ErrMsg)
		} else if shape == "oneErr" || shape == "two" {
			arg = " nil"
		}
		lines = append(lines, fmt.Sprintf("wire response %s %s%s", hexOrDash(reqIDs[i]), shape, arg))
		val := "#v"
		if shape == "none0" || shape == "oneErr" {
			val = "#nil"
		}
		impl = append(impl, fmt.Sprintf("{call=s:%s,value=%s,err=s:%s}", hexOrDash(id), val, hexOrDash(errS)))
	}
	ans, err := runDriver(lines)
	if err != nil {
		rep.addViolation("correspondence", "C17:driver", "Lean driver failed: "+err.Error(), nil)
		return
	}
	for i := range ans {
		rep.TracesValidated++
		if ans[i] != impl[i] {
			// the F7 frame: model and implementation agree with each other, the property disagrees with both
			rep.addViolation("correspondence", "C17:model:"+api, fmt.Sprintf("frame %d: model %q, implementation %q (query %q)", i, ans[i], impl[i], lines[i]), desc)
		} else {
			rep.ModelSteps++
		}
	}
}

func strPtr(s *string) string {
	if s == nil {
		return "<nil>"
	}
	return fmt.Sprintf("%q", *s)
}

func hexOrDash(s string) string {
	if s == "" {
		return "-"
	}
	return hex.EncodeToString([]byte(s))
}

func normMap(g any) (map[string]any, bool) {
	switch m := g.(type) {
	case map[string]any:
		return m, true
	case map[any]any:
		out := map[string]any{}
		for k, v := range m {
			ks, ok := k.(string)
			if !ok {
				return nil, false
			}
			out[ks] = v
		}
		return out, true
	}
	return nil, false
}

// foreign frames: hand-written requests against a real registry (as purl / the TypeScript peer would)
func c17Foreign(rep *Report) {
	codec := jsonRaw()
	reg := newSide[json.RawMessage]("F")
	aReq, aRes, bReq, bRes := NewQueue(), NewQueue(), NewQueue(), NewQueue()
	ctx, cancel := context.WithCancel(context.Background())
	defer cancel()
	go reg.Reg.LinkMessage(ctx,
		func(b json.RawMessage) error { return aReq.Put(b) },
		func(b json.RawMessage) error { return aRes.Put(b) },
		func() (json.RawMessage, error) { b, e := bReq.Get(); return b, e },
		func() (json.RawMessage, error) { b, e := bRes.Get(); return b, e },
		codec.Marshal, codec.Unmarshal, nil)
	frames := []struct{ name, frame, wantValue string }{
		{"documented order", `{"call":"c1","function":"Add","args":[2,3]}`, "5"},
		{"permuted keys", `{"args":[4,5],"function":"Add","call":"c2"}`, "9"},
		{"extra key", `{"call":"c3","function":"Add","args":[1,1],"trace":"abc"}`, "2"},
		{"absent args for none", `{"call":"c4","function":"Nop"}`, "null"},
		{"null args for none", `{"call":"c5","function":"Nop","args":null}`, "null"},
		{"nested path", `{"call":"c6","function":"Sub.Ping","args":[7]}`, `"F/sub/7"`},
		{"whitespace and unicode id", "{ \"call\" : \"ü-7\" ,\n \"function\":\"WhoAmI\", \"args\": [] }", ""},
		{"method without results", `{"call":"c8","function":"NoRet","args":[1]}`, "null"},
		{"upper-case uuid as call id", `{"call":"E621E1F8-C36C-495A-93FC-0C247A3E6E5F","function":"Add","args":[2,2]}`, "4"},
		{"mixed-case call id with blanks", `{"call":" Req 9 ","function":"Add","args":[3,3]}`, "6"},
	}
	for _, f := range frames {
		rep.Evaluations++
		rep.Distinct++
		desc := map[string]any{"suite": "C17-foreign", "frame": f.frame}
		bReq.Put([]byte(f.frame))
		got := make(chan []byte, 1)
		go func() { b, _ := aRes.Get(); got <- b }()
		select {
		case b := <-got:
			var res struct {
				Call  string          `json:"call"`
				Value json.RawMessage `json:"value"`
				Err   string          `json:"err"`
			}
			var want struct{ Call string `json:"call"` }
			json.Unmarshal([]byte(f.frame), &want)
			if err := json.Unmarshal(b, &res); err != nil || res.Call != want.Call || res.Err != "" || (f.wantValue != "" && string(res.Value) != f.wantValue) {
				rep.addViolation("property", "C17:foreign:"+f.name, fmt.Sprintf("foreign frame (%s) %s was answered with %s", f.name, f.frame, b), desc)
			}
		case <-time.After(2 * time.Second):
			rep.addViolation("property", "C17:foreign:"+f.name, fmt.Sprintf("foreign frame (%s) %s was not answered", f.name, f.frame), desc)
		}
	}
	cancel()
	for _, q := range []*Queue{aReq, aRes, bReq, bRes} {
		q.Close(nil)
	}
}

// c17ClosureFrames: the requests the CALLEE emits when it invokes a closure it was handed
// ({function: "CallClosure", args: [<closure id>, [<closure arguments>]]}): the argument list is an array with one
// element per closure argument — an empty array, never null, for a closure that takes only the context.
func c17ClosureFrames[T any](rep *Report, codec Codec[T]) {
	p, err := NewPair(codec, PairOpts{API: "message"})
	desc := map[string]any{"suite": "C17-closure-frames", "codec": codec.Name}
	if err != nil {
		rep.addViolation("property", "C17:setup", "link setup failed: "+err.Error(), desc)
		return
	}
	ra, _, _ := p.A.AnyRemote()
	ctx := context.Background()
	r1 := withWatchdog(func() (any, error) {
		return ra.Tick(ctx, 2, func(ctx context.Context) (int, error) { return 21, nil })
	})
	r2 := withWatchdog(func() (any, error) {
		return ra.WithClosure(ctx, 2, false, func(ctx context.Context, i int, s string) (string, error) { return s, nil })
	})
	time.Sleep(5 * time.Millisecond)
	frames := p.BReq.Frames()
	p.Shutdown()
	if !r1.ok || r1.err != nil || r1.val.(int) != 42 || !r2.ok || r2.err != nil {
		rep.addViolation("property", "C17:closure-frames:call", fmt.Sprintf("closure-carrying calls failed: %+v %+v", r1, r2), desc)
		return
	}
	want := []int{0, 0, 2, 2} // closure arities, in the order the invocations happen
	if len(frames) != len(want) {
		rep.addViolation("property", "C17:closure-frames:count", fmt.Sprintf("4 closure invocations produced %d request frames from the callee", len(frames)), desc)
		return
	}
	ids := map[string]bool{}
	for i, fr := range frames {
		rep.Evaluations++
		rep.Distinct++
		cd := map[string]any{"suite": "C17-closure-frames", "codec": codec.Name, "frame": string(fr), "closure_arity": want[i]}
		g, err := codec.Generic(fr)
		m, ok := normMap(g)
		if err != nil || !ok {
			rep.addViolation("property", "C17:closure-frames:undecodable", "CallClosure request does not decode to a map", cd)
			continue
		}
		id, _ := m["call"].(string)
		fn, _ := m["function"].(string)
		args, isArr := m["args"].([]any)
		switch {
		case len(m) != 3 || id == "" || ids[id] || fn != "CallClosure":
			rep.addViolation("property", "C17:closure-frames:shape", fmt.Sprintf("closure invocation request has members %v", m), cd)
			continue
		case !isArr || len(args) != 2:
			rep.addViolation("property", "C17:closure-frames:args", fmt.Sprintf("closure invocation request carries args=%v (want [id, argument list])", m["args"]), cd)
			continue
		}
		ids[id] = true
		// the second argument, separately encoded: the closure's argument list
		var list any
		var derr error
		if codec.Name == "cbor-raw" {
			list = args[1]
		} else if pb, ok := payloadBytes(codec.Name, args[1]); ok {
			list, derr = codec.Generic(pb)
		} else {
			derr = errors.New("not a payload")
		}
		xs, isList := list.([]any)
		if derr != nil || !isList {
			rep.addViolation("property", "C17:closure-frames:arglist-null", fmt.Sprintf("a closure taking %d argument(s) is invoked with the argument list %v: it must be an array (an empty array, never null, for none)", want[i], list), cd)
		} else if len(xs) != want[i] {
			rep.addViolation("property", "C17:closure-frames:arglist-len", fmt.Sprintf("a closure taking %d argument(s) is invoked with %d", want[i], len(xs)), cd)
		}
	}
}

func runC17(rep *Report, tier string, seed int64) {
	rep.Rule = "every frame emitted for a workload covering arity 0..3, the four return shapes, nil / non-blank / blank / empty error messages, nested names and a closure argument is captured at the transport, decoded with an independent generic decoder " +
		"and checked against the documented shape, for 3 serializer configurations × 2 link APIs (stream: envelope carries exactly one member); each frame is also compared with the Lean wire model's rendering; hand-written foreign frames are sent to a real registry. distinct = frames"
	for _, api := range apis() {
		c17Workload(rep, jsonRaw(), api)
		c17Workload(rep, jsonBytes(), api)
		c17Workload(rep, cborRaw(), api)
	}
	c17ClosureFrames(rep, jsonRaw())
	c17ClosureFrames(rep, jsonBytes())
	c17ClosureFrames(rep, cborRaw())
	c17Foreign(rep)
	_ = tier
	_ = seed
}
