package main

// Trace validation against the Lean system model M3: the frames seen at the transport taps and the
// hook events of a real workload (message API, plain and nested calls) are turned into `sys …` actions.

import (
	"encoding/json"
	"fmt"
	"strings"
)

type sysTap struct {
	rec *traceRec
}

// tapPair wires the four queues of a message-API pair into the recorder.
func tapPair[T any](p *Pair[T], rec *traceRec) {
	tap := func(name string) func(string, []byte) {
		return func(op string, frame []byte) { rec.add("q."+op+"."+name, string(frame)) }
	}
	p.AReq.Tap, p.ARes.Tap, p.BReq.Tap, p.BRes.Tap = tap("AReq"), tap("ARes"), tap("BReq"), tap("BRes")
}

var sysFn = map[string]int{}

func fnCode(name string) int {
	if c, ok := sysFn[name]; ok {
		return c
	}
	c := len(sysFn)
	sysFn[name] = c
	return c
}

// sysLines turns a recorded run into M3 actions. decode turns a frame into (call, function, firstArg, err).
func sysLines(evs []Event, decode func([]byte) (call, function string, arg int, errs string, isReq bool)) []string {
	lines := []string{"sys reset"}
	type callInfo struct {
		e      string // endpoint that issued it
		id     int    // model id (= thread index)
		parent *[2]any
	}
	calls := map[string]*callInfo{}
	nextID := map[string]int{"A": 0, "B": 0}
	nextH := map[string]int{"A": 0, "B": 0}
	nextP := map[string]int{"A": 0, "B": 0}
	handlerOfCall := map[string][2]any{} // call id -> (endpoint, h) of the handler serving it
	handlerOfG := map[string][]string{}  // goroutine -> stack of call ids it is handling
	pubOfCall := map[string]int{}
	peer := map[string]string{"A": "B", "B": "A"}
	add := func(f string, a ...any) { lines = append(lines, "sys "+fmt.Sprintf(f, a...)) }
	for _, e := range evs {
		switch {
		case strings.HasPrefix(e.Point, "q.put."):
			q := e.Point[6:]
			side := q[:1]
			call, fn, arg, errS, isReq := decode([]byte(e.Key))
			if strings.HasSuffix(q, "Req") && isReq {
				ci := &callInfo{e: side, id: nextID[side]}
				nextID[side]++
				calls[call] = ci
				// nested? the writing goroutine is inside a handler
				if st := handlerOfG[e.G]; len(st) > 0 {
					h := handlerOfCall[st[len(st)-1]]
					ci.parent = &h
					add("handlerCallPeer %s %d %d %d", h[0], h[1], fnCode(fn), arg)
				} else {
					add("callStart %s %d %d", side, fnCode(fn), arg)
				}
				add("callWrite %s %d", side, ci.id)
			} else if strings.HasSuffix(q, "Res") && !isReq {
				if h, ok := handlerOfCall[call]; ok {
					ev := 0
					if errS != "" {
						ev = 1
					}
					add("handlerReturn %s %d %d %d", h[0], h[1], arg, ev)
					add("respond %s %d", h[0], h[1])
				}
			}
		case strings.HasPrefix(e.Point, "q.get."):
			q := e.Point[6:]
			from := q[:1]
			to := peer[from]
			call, _, _, _, isReq := decode([]byte(e.Key))
			ci := calls[call]
			if ci == nil {
				continue
			}
			if strings.HasSuffix(q, "Req") && isReq {
				add("reqDeliverCall %s %d", to, ci.id)
				handlerOfCall[call] = [2]any{to, nextH[to]}
				nextH[to]++
			} else if strings.HasSuffix(q, "Res") && !isReq {
				add("resDeliverCall %s %d", to, ci.id)
				pubOfCall[call] = nextP[to]
				nextP[to]++
			}
		case e.Point == "handler.start":
			if h, ok := handlerOfCall[e.Key]; ok {
				add("handlerEnter %s %d", h[0], h[1])
				handlerOfG[e.G] = append(handlerOfG[e.G], e.Key)
			}
		case e.Point == "handler.done":
			if st := handlerOfG[e.G]; len(st) > 0 {
				handlerOfG[e.G] = st[:len(st)-1]
			}
		case e.Point == "call.res":
			if ci := calls[e.Key]; ci != nil {
				if p, ok := pubOfCall[e.Key]; ok {
					add("publishAuto %s %d", ci.e, p)
				}
				add("callReturn %s %d", ci.e, ci.id)
				if ci.parent != nil {
					add("handlerNestedDone %s %d", ci.parent[0], ci.parent[1])
				}
			}
		}
	}
	lines = append(lines, "sys state")
	return lines
}

func jsonFrameDecode(b []byte) (call, function string, arg int, errs string, isReq bool) {
	var m struct {
		Call     string            `json:"call"`
		Function *string           `json:"function"`
		Args     []json.RawMessage `json:"args"`
		Value    json.RawMessage   `json:"value"`
		Err      string            `json:"err"`
	}
	json.Unmarshal(b, &m)
	if m.Function != nil {
		if len(m.Args) > 0 {
			json.Unmarshal(m.Args[0], &arg)
		}
		return m.Call, *m.Function, arg, "", true
	}
	// a response: use a small number derived from the value's length as the abstract value
	return m.Call, "", len(m.Value) % 97, m.Err, false
}

// validateSys replays the lines on the driver; any rejected step is a correspondence finding.
func validateSys(rep *Report, prop, what string, lines []string, wantReturned int) {
	ans, err := runDriver(lines)
	if err != nil {
		rep.addViolation("correspondence", prop+":driver", "Lean driver failed: "+err.Error(), nil)
		return
	}
	rep.TracesValidated++
	for i, a := range ans {
		if strings.HasPrefix(a, "rejected") || strings.HasPrefix(a, "bad-op") {
			rep.addViolation("correspondence", prop+":system-model", fmt.Sprintf("%s: M3 rejects an implementation step: %s (step %d of %d: %q)", what, a, i, len(ans), lines[i]), map[string]any{"lines": lines})
			return
		}
		rep.ModelSteps++
	}
	last := ans[len(ans)-1]
	if got := strings.Count(last, ":returned"); got != wantReturned {
		rep.addViolation("correspondence", prop+":system-model-state", fmt.Sprintf("%s: the model ends with %d returned calls, the implementation completed %d: %s", what, got, wantReturned, last), map[string]any{"lines": lines})
	}
}
