package main

// C19: the publish/receive utility, explored bounded-exhaustively at its yield points.
//
// A scenario is a small multiset of operations on ≤ 2 keys, each run in its own goroutine:
//   R<k><x>  rr, err := Receive(k, ctx x); if err == nil { rr() }      (x ∈ {0,1})
//   P<k>     Publish(k, fresh value)
//   F<k>     Free(k)
//   C        Close()
//   X<x>     cancel context x
// Every schedule of the goroutines at the yield points is executed against the real
// Broadcaster; the oracle below is written against the property statement; the event trace is
// additionally replayed on the Lean model M1 by the driver (trace validation).

import (
	"context"
	"errors"
	"fmt"
	"sort"
	"strings"
	"time"

	"github.com/pojntfx/panrpc/go/pkg/utils"
)

type bcOp struct {
	Kind string // R P F C X
	Key  int
	Ctx  int
}

func (o bcOp) String() string {
	switch o.Kind {
	case "R":
		return fmt.Sprintf("R%d%d", o.Key, o.Ctx)
	case "P", "F":
		return fmt.Sprintf("%s%d", o.Kind, o.Key)
	case "X":
		return fmt.Sprintf("X%d", o.Ctx)
	}
	return o.Kind
}

func parseBcOps(s string) []bcOp {
	var out []bcOp
	for _, f := range strings.Fields(s) {
		o := bcOp{Kind: f[:1]}
		switch o.Kind {
		case "R":
			o.Key, o.Ctx = int(f[1]-'0'), int(f[2]-'0')
		case "P", "F":
			o.Key = int(f[1] - '0')
		case "X":
			o.Ctx = int(f[1] - '0')
		}
		out = append(out, o)
	}
	return out
}

type bcRun struct {
	Ops       []bcOp
	Schedule  []int
	NChoices  []int
	Trace     []Event
	Outcome   map[string]string // op name -> outcome ("" = did not finish)
	Panics    []string
	Blocked   []string // ops still blocked at quiescence
	Problems  []string // oracle findings
	TimedOut  bool
	ModelLines []string
}

func opName(i int, o bcOp) string { return fmt.Sprintf("%d:%s", i, o) }

// runBcSchedule executes one schedule. prefix[i] selects the i-th decision (index into the
// sorted list of parked goroutines); beyond the prefix the first parked goroutine is chosen.
func runBcSchedule(ops []bcOp, prefix []int) *bcRun { return runBcSchedulePolicy(ops, prefix, "") }

// runBcSchedulePolicy: beyond the prefix, a goroutine parked at the yield point `holdAt` (e.g. "rcvf.select": a
// receiver about to enter its select; "pub.select": a publisher about to enter its) is chosen only when nothing else
// can move — the schedules in which a STALE receive function (or a publisher holding an old entry) acts last.
func runBcSchedulePolicy(ops []bcOp, prefix []int, holdAt string) *bcRun {
	r := &bcRun{Ops: ops, Outcome: map[string]string{}}
	sch := NewSched()
	utils.SetVerifHooks(sch.Trace, sch.Yield)
	defer utils.SetVerifHooks(nil, nil)

	b := utils.NewBroadcaster[int]()
	var ctxs [2]context.Context
	var cancels [2]context.CancelFunc
	for i := range ctxs {
		ctxs[i], cancels[i] = context.WithCancel(context.Background())
	}
	type done struct {
		name, outcome, panic string
	}
	doneCh := make(chan done, len(ops))
	sch.Start()
	for i, o := range ops {
		i, o := i, o
		name := opName(i, o)
		go func() {
			sch.Name(name)
			d := done{name: name}
			defer func() {
				if e := recover(); e != nil {
					d.panic = fmt.Sprint(e)
				}
				doneCh <- d
			}()
			sch.Yield("op.start", name)
			switch o.Kind {
			case "R":
				rr, err := b.Receive(fmt.Sprint(o.Key), ctxs[o.Ctx])
				if err != nil {
					d.outcome = "refused:" + errName(err)
					return
				}
				v, err := rr()
				if err != nil {
					d.outcome = "err:" + errName(err)
				} else {
					d.outcome = fmt.Sprintf("val:%d", *v)
				}
			case "P":
				b.Publish(fmt.Sprint(o.Key), 100+i)
				d.outcome = "returned"
			case "F":
				// (the cause is optional: every other Free passes none)
				if i%2 == 0 {
					b.Free(fmt.Sprint(o.Key), nil)
				} else {
					b.Free(fmt.Sprint(o.Key), errors.New("freed"))
				}
				d.outcome = "returned"
			case "C":
				// (the cause is optional here too)
				if i%2 == 0 {
					b.Close(nil)
				} else {
					b.Close(errors.New("closed-by-test"))
				}
				d.outcome = "returned"
			case "X":
				sch.Trace("ctx.cancelled", fmt.Sprint(o.Ctx)) // logged first: goroutines woken by the cancellation log concurrently
				cancels[o.Ctx]()
				d.outcome = "returned"
			}
		}()
	}
	finished := 0
	collect := func() {
		for {
			select {
			case d := <-doneCh:
				finished++
				r.Outcome[d.name] = d.outcome
				if d.panic != "" {
					r.Panics = append(r.Panics, d.name+": "+d.panic)
					r.Outcome[d.name] = "panic"
				}
			default:
				return
			}
		}
	}
	for step := 0; step < 200; step++ {
		ok, _ := sch.WaitSettled(2 * time.Second)
		if !ok {
			r.TimedOut = true
			break
		}
		collect()
		ps := sch.Parked()
		if len(ps) == 0 {
			break
		}
		c := 0
		if step < len(prefix) {
			c = prefix[step]
		} else if holdAt != "" {
			for i, p := range ps {
				if p.point != holdAt {
					c = i
					break
				}
			}
		}
		if c >= len(ps) {
			c = len(ps) - 1 // diverged from the recorded schedule (select coin): clamp
		}
		r.Schedule = append(r.Schedule, c)
		r.NChoices = append(r.NChoices, len(ps))
		sch.Release(ps[c])
	}
	collect()
	r.Trace = sch.TraceCopy()
	for i, o := range ops {
		if _, ok := r.Outcome[opName(i, o)]; !ok {
			r.Blocked = append(r.Blocked, opName(i, o))
		}
	}
	// ---- cleanup (outside the scenario; anything that happens from here on is not judged)
	sch.Stop()
	for _, c := range cancels {
		c()
	}
	lockLeaked := false
	cl := make(chan struct{})
	go func() {
		defer close(cl)
		defer func() { recover() }()
		b.Close(errors.New("cleanup"))
	}()
	select {
	case <-cl:
	case <-time.After(500 * time.Millisecond):
		// an operation left the broadcaster's lock held (e.g. it panicked inside its critical section)
		lockLeaked = true
	}
	deadline := time.After(2 * time.Second)
	for finished < len(ops) {
		select {
		case <-doneCh:
			finished++
		case <-deadline:
			r.TimedOut = true
			finished = len(ops)
		}
	}
	bcOracle(r)
	if lockLeaked {
		r.Problems = append(r.Problems, "after the scenario the broadcaster's lock is still held: a final Close blocks for ever")
	}
	return r
}

func errName(err error) string {
	switch {
	case errors.Is(err, utils.ErrClosed):
		return "closed"
	case errors.Is(err, context.Canceled):
		return "ctx"
	}
	return err.Error()
}

// bcOracle judges one run against the statement of C19, from the trace and the outcomes only.
func bcOracle(r *bcRun) {
	if r.TimedOut {
		r.Problems = append(r.Problems, "harness: run did not settle / terminate (possible deadlock)")
	}
	for _, p := range r.Panics {
		r.Problems = append(r.Problems, "panic: "+p)
	}
	// abstract history
	gen := map[string]int{}      // key -> current generation (0 = none)
	nextGen := 0
	freed := map[int]bool{}      // generations freed or closed
	genKey := map[int]string{}
	genParent := map[int]int{}   // generation -> ctx of the creating receiver
	bound := map[string]int{}    // op name -> generation it is bound to
	cancelled := map[int]bool{}
	closed := false
	opByName := map[string]bcOp{}
	for i, o := range r.Ops {
		opByName[opName(i, o)] = o
	}
	regAt := map[string]int{}     // op name -> trace index of its registration
	regKey := map[string]string{} // op name -> key it registered on
	freedAt := map[string][]int{} // key -> trace indices at which it was freed ("*" = the broadcaster was closed)
	for ti, e := range r.Trace {
		switch e.Point {
		case "rcv.registered":
			regAt[e.G], regKey[e.G] = ti, e.Key
		case "free.done":
			freedAt[e.Key] = append(freedAt[e.Key], ti)
		case "close.done":
			freedAt["*"] = append(freedAt["*"], ti)
		}
	}
	// "…or a 'closed' error and never blocks once one of those applies": judged by KEY — a Free of the key (or a Close)
	// after the receiver registered releases it, whatever table entry it happens to stand on
	freedAfterReg := func(name string) bool {
		at, ok := regAt[name]
		if !ok {
			return false
		}
		for _, k := range []string{regKey[name], "*"} {
			for _, f := range freedAt[k] {
				if f > at {
					return true
				}
			}
		}
		return false
	}
	for _, e := range r.Trace {
		switch e.Point {
		case "rcv.created":
			nextGen++
			gen[e.Key] = nextGen
			genKey[nextGen] = e.Key
			genParent[nextGen] = opByName[e.G].Ctx
		case "rcv.registered":
			bound[e.G] = gen[e.Key]
		case "pub.hit":
			bound[e.G] = gen[e.Key]
		case "free.done":
			if g := gen[e.Key]; g != 0 {
				freed[g] = true
				delete(gen, e.Key)
			}
		case "close.done":
			for k, g := range gen {
				freed[g] = true
				delete(gen, k)
			}
			closed = true
		case "ctx.cancelled":
			cancelled[int(e.Key[0]-'0')] = true
		}
	}
	_ = closed
	// deliveries: value -> receivers
	got := map[int][]string{}
	for name, out := range r.Outcome {
		o := opByName[name]
		if o.Kind != "R" {
			continue
		}
		if strings.HasPrefix(out, "val:") {
			var v int
			fmt.Sscanf(out, "val:%d", &v)
			got[v] = append(got[v], name)
			// the value must have been published on this receiver's key
			pi := v - 100
			if pi < 0 || pi >= len(r.Ops) || r.Ops[pi].Kind != "P" {
				r.Problems = append(r.Problems, fmt.Sprintf("%s received %d, which nobody published", name, v))
			} else if r.Ops[pi].Key != o.Key {
				r.Problems = append(r.Problems, fmt.Sprintf("%s (key %d) received a value published on key %d", name, o.Key, r.Ops[pi].Key))
			}
		}
		if out == "err:ctx" && !cancelled[o.Ctx] {
			r.Problems = append(r.Problems, name+" returned the context's error but its context is not done")
		}
		if out == "err:closed" && !freed[bound[name]] {
			r.Problems = append(r.Problems, name+" returned 'closed' but its key was neither freed nor the broadcaster closed")
		}
	}
	for v, rs := range got {
		if len(rs) > 1 {
			sort.Strings(rs)
			r.Problems = append(r.Problems, fmt.Sprintf("value %d delivered to %d receivers: %v", v, len(rs), rs))
		}
	}
	// nobody may stay blocked once a reason to return applies
	for _, name := range r.Blocked {
		o := opByName[name]
		g := bound[name]
		switch o.Kind {
		case "R":
			if g == 0 {
				r.Problems = append(r.Problems, name+" is blocked inside Receive itself")
			} else if cancelled[o.Ctx] {
				r.Problems = append(r.Problems, name+" still blocked although its context is done")
			} else if freed[g] || freedAfterReg(name) {
				r.Problems = append(r.Problems, name+" still blocked although its key was freed / the broadcaster closed")
			} else if len(freedAt["*"]) > 0 {
				// (registered on a broadcaster that had been closed already: Receive must refuse, not hand out a function that blocks)
				r.Problems = append(r.Problems, name+" still blocked although the broadcaster is closed (its Receive was accepted after Close)")
			}
		case "P":
			if g == 0 {
				r.Problems = append(r.Problems, name+" is blocked although it found no entry")
			} else if freed[g] {
				r.Problems = append(r.Problems, name+" still blocked although its key was freed / the broadcaster closed")
			} else if cancelled[genParent[g]] {
				r.Problems = append(r.Problems, name+" still blocked although the entry's context is done")
			}
		default:
			r.Problems = append(r.Problems, name+" (free/close/cancel) is blocked")
		}
	}
}
