package main

// C08: what arrives over the stream API must not depend on how the peer's encoder spells an envelope or on
// how its bytes are chunked.  (a) A peer whose encoder OMITS the empty member of an envelope (instead of
// writing `null`): every request is handled exactly once and answered exactly once.  (b) Many requests
// delivered in ONE write (pipelined): every call is answered exactly once, with its own argument.

import (
	"context"
	"encoding/json"
	"fmt"
	"io"
	"strings"
	"sync"
	"sync/atomic"
	"time"

	"github.com/pojntfx/panrpc/go/pkg/rpc"
)

type envLocal struct{ ran int64 }

func (l *envLocal) Echo(ctx context.Context, s string) (string, error) {
	atomic.AddInt64(&l.ran, 1)
	return s, nil
}

func c08Envelopes(rep *Report) {
	// (one-chunk-slow-encoder: the user-supplied encode function takes its time before it looks at the envelope it was
	// given — as a buffered or network-bound encoder does; every envelope must still carry ITS OWN payload then)
	for _, variant := range []string{"omitted-members", "one-chunk", "one-chunk-slow-encoder"} {
		rep.Evaluations++
		rep.Distinct++
		d := map[string]any{"suite": "C08-envelopes", "variant": variant}
		local := &envLocal{}
		reg := rpc.NewRegistry[struct{}, json.RawMessage](local, nil)
		pr, pw := io.Pipe()
		dec := json.NewDecoder(pr)
		var mu sync.Mutex
		answers := map[string][]string{}
		ctx, cancel := context.WithCancel(context.Background())
		linkErr := make(chan error, 1)
		go func() {
			linkErr <- reg.LinkStream(ctx,
				func(m rpc.Message[json.RawMessage]) error {
					if variant == "one-chunk-slow-encoder" {
						time.Sleep(40 * time.Microsecond)
					}
					if m.Response != nil {
						var res struct {
							Call  string          `json:"call"`
							Value json.RawMessage `json:"value"`
						}
						json.Unmarshal(*m.Response, &res)
						mu.Lock()
						answers[res.Call] = append(answers[res.Call], string(res.Value))
						mu.Unlock()
					}
					return nil
				},
				func(m *rpc.Message[json.RawMessage]) error { return dec.Decode(m) },
				func(v any) (json.RawMessage, error) { b, err := json.Marshal(v); return b, err },
				func(data json.RawMessage, v any) error { return json.Unmarshal([]byte(data), v) }, nil)
		}()
		want := map[string]string{}
		switch variant {
		case "omitted-members":
			// request-only and response-only envelopes, as an encoder that drops empty members writes them
			for i := 0; i < 6; i++ {
				id, arg := fmt.Sprintf("q%d", i), fmt.Sprintf("arg-%d", i)
				want[id] = fmt.Sprintf("%q", arg)
				pw.Write([]byte(fmt.Sprintf(`{"request":{"call":%q,"function":"Echo","args":[%q]}}`+"\n", id, arg)))
				for k := 0; k < 3; k++ {
					// responses to calls nobody made: ignored
					pw.Write([]byte(fmt.Sprintf(`{"response":{"call":"nobody-%d-%d","value":null,"err":""}}`+"\n", i, k)))
				}
			}
		case "one-chunk", "one-chunk-slow-encoder":
			var sb strings.Builder
			for i := 0; i < 300; i++ {
				id, arg := fmt.Sprintf("c%04d", i), strings.Repeat(fmt.Sprintf("%04d", i), 12)
				want[id] = fmt.Sprintf("%q", arg)
				sb.WriteString(fmt.Sprintf(`{"request":{"call":%q,"function":"Echo","args":[%q]},"response":null}`+"\n", id, arg))
			}
			go pw.Write([]byte(sb.String()))
		}
		// wait until every call has an answer (or give up), then a little longer for duplicates
		deadline := time.Now().Add(watchdog)
		for time.Now().Before(deadline) {
			mu.Lock()
			n := len(answers)
			mu.Unlock()
			if n >= len(want) {
				break
			}
			select {
			case err := <-linkErr:
				rep.addViolation("property", "C08:envelopes:"+variant+":link", fmt.Sprintf("the stream link ended while well-formed requests were being delivered (%s): %v", variant, err), d)
				deadline = time.Now()
			default:
			}
			time.Sleep(time.Millisecond)
		}
		time.Sleep(20 * time.Millisecond)
		mu.Lock()
		missing, dup, wrong := 0, 0, 0
		example := ""
		for id, w := range want {
			a := answers[id]
			switch {
			case len(a) == 0:
				missing++
			case len(a) > 1:
				dup++
				example = fmt.Sprintf("call %s was answered %d times", id, len(a))
			case a[0] != w:
				wrong++
				example = fmt.Sprintf("call %s (argument %s) was answered with %s", id, w, a[0])
			}
		}
		mu.Unlock()
		ran := atomic.LoadInt64(&local.ran)
		if missing+dup+wrong > 0 || int(ran) != len(want) {
			rep.addViolation("property", "C08:envelopes:"+variant, fmt.Sprintf("%d requests over the stream API (%s): the handler ran %d times; %d calls unanswered, %d answered more than once, %d answered with another call's value; %s", len(want), variant, ran, missing, dup, wrong, example), d)
		}
		cancel()
		pw.Close()
	}
}
