package main

// Results pass through utils.Call and the closure wrapper UNTOUCHED (round 6 of the seeded changes: properties
// attacked through files outside their anchors).
//   errKindScenarios    handlers and closures return non-nil errors whose dynamic type is NOT a pointer — an empty
//                       struct (context.DeadlineExceeded), a zero-valued struct, a string kind, an integer kind with
//                       value 0 — and, as controls, pointer errors and nil: message (and value) arrive, nil stays nil,
//                       the link survives                                                     (C01, C10, C11, C17)
//   collectionScenarios handlers return nil / empty / non-empty top-level slices, maps and byte slices: the caller
//                       gets the handler's value after ONE direct round-trip through the codec  (C09)

import (
	"context"
	"errors"
	"fmt"
	"io"
	"reflect"
	"time"

	"github.com/pojntfx/panrpc/go/pkg/utils"
)

type zooEmptyErr struct{}

func (zooEmptyErr) Error() string { return "zoo: empty struct error" }

type zooStructErr struct {
	Code int
	Note string
}

func (e zooStructErr) Error() string { return fmt.Sprintf("zoo: struct error %d%s", e.Code, e.Note) }

type zooStrErr string

func (e zooStrErr) Error() string { return "zoo: string error " + string(e) }

type zooIntErr int

func (e zooIntErr) Error() string { return fmt.Sprintf("zoo: code %d", int(e)) }

// errOfKind: the error value for a kind number (nil for 0).
func errOfKind(kind int) error {
	switch kind {
	case 1:
		return context.DeadlineExceeded // deadlineExceededError{}: an empty struct
	case 2:
		return zooEmptyErr{}
	case 3:
		return zooStructErr{} // zero value of a struct with fields
	case 4:
		return zooStructErr{Code: 7, Note: "!"}
	case 5:
		return zooStrErr("") // zero value of a string kind
	case 6:
		return zooStrErr("x")
	case 7:
		return zooIntErr(0) // zero value of an integer kind
	case 8:
		return zooIntErr(42)
	case 9:
		return &ZooErr{"pointer error"}
	// errors the library itself gives a meaning to elsewhere — as APPLICATION errors of a handler or a closure they
	// are messages like any other: sentinels of package context, io and of panrpc, bare and wrapped
	case 10:
		return context.Canceled
	case 11:
		return fmt.Errorf("upstream fetch failed: %w", context.Canceled)
	case 12:
		return fmt.Errorf("upstream fetch failed: %w", context.DeadlineExceeded)
	case 13:
		return errors.Join(errors.New("first"), context.Canceled)
	case 14:
		return io.EOF
	case 15:
		return fmt.Errorf("store: %w", io.ErrUnexpectedEOF)
	case 16:
		return utils.ErrClosed
	case 17:
		return fmt.Errorf("pool: %w", utils.ErrClosed)
	}
	return nil
}

const errKinds = 18

// KindErr returns (kind, errOfKind(kind)); KindErrOnly only the error.
func (s *Svc) KindErr(ctx context.Context, kind int) (int, error) {
	s.log(ctx, "KindErr", fmt.Sprint(kind))
	return 100 + kind, errOfKind(kind)
}

func (s *Svc) KindErrOnly(ctx context.Context, kind int) error {
	s.log(ctx, "KindErrOnly", fmt.Sprint(kind))
	return errOfKind(kind)
}

// KindClosure invokes both closures with kind and reports what they handed back.
func (s *Svc) KindClosure(ctx context.Context, kind int, cb func(ctx context.Context, kind int) (int, error), cbe func(ctx context.Context, kind int) error) (string, error) {
	s.log(ctx, "KindClosure", fmt.Sprint(kind))
	v, err := cb(ctx, kind)
	err2 := cbe(ctx, kind)
	return fmt.Sprintf("%d|%v|%v", v, err, err2), nil
}

func (s *Svc) RetSlice(ctx context.Context, kind int) ([]string, error) {
	s.log(ctx, "RetSlice", fmt.Sprint(kind))
	return [][]string{nil, {}, {"a", ""}}[kind%3], nil
}

func (s *Svc) RetMap(ctx context.Context, kind int) (map[string]int, error) {
	s.log(ctx, "RetMap", fmt.Sprint(kind))
	return []map[string]int{nil, {}, {"k": 1}}[kind%3], nil
}

func (s *Svc) RetBytes(ctx context.Context, kind int) ([]byte, error) {
	s.log(ctx, "RetBytes", fmt.Sprint(kind))
	return [][]byte{nil, {}, {0, 255}}[kind%3], nil
}

func (s *Svc) RetNested(ctx context.Context, kind int) ([][]int, error) {
	s.log(ctx, "RetNested", fmt.Sprint(kind))
	return [][][]int{nil, {}, {nil, {}, {1}}}[kind%3], nil
}

func errKindScenarios[T any](rep *Report, prop string, codec Codec[T], api string) {
	p, err := NewPair(codec, PairOpts{API: api})
	desc := map[string]any{"suite": "error-kinds", "codec": codec.Name, "api": api}
	if err != nil {
		rep.addViolation("property", prop+":error-kinds:setup", "link setup failed: "+err.Error(), desc)
		return
	}
	defer p.Shutdown()
	ra, _, _ := p.A.AnyRemote()
	rb, _, _ := p.B.AnyRemote()
	key := prop + ":error-kinds:" + api
	text := func(e error) string {
		if e == nil {
			return "<nil>"
		}
		return e.Error()
	}
	for kind := 0; kind < errKinds; kind++ {
		for di, rem := range []Remote{ra, rb} {
			want := errOfKind(kind)
			d := map[string]any{"suite": "error-kinds", "codec": codec.Name, "api": api, "dir": []string{"A->B", "B->A"}[di], "kind": kind, "error": fmt.Sprintf("%T(%q)", want, text(want))}
			rep.Evaluations++
			rep.Distinct++
			r := withWatchdog(func() (any, error) { return rem.KindErr(context.Background(), kind) })
			if !r.ok {
				rep.addViolation("property", key+":hang", "KindErr did not return", d)
				return
			}
			if text(r.err) != text(want) || r.val.(int) != 100+kind {
				rep.addViolation("property", key+":handler-value+error", fmt.Sprintf("handler returned (%d, %T %q); the caller got (%v, %q)", 100+kind, want, text(want), r.val, text(r.err)), d)
			}
			r = withWatchdog(func() (any, error) { return nil, rem.KindErrOnly(context.Background(), kind) })
			if !r.ok {
				rep.addViolation("property", key+":hang", "KindErrOnly did not return", d)
				return
			}
			if text(r.err) != text(want) {
				rep.addViolation("property", key+":handler-error", fmt.Sprintf("handler returned %T %q; the caller got %q", want, text(want), text(r.err)), d)
			}
			r = withWatchdog(func() (any, error) {
				return rem.KindClosure(context.Background(), kind,
					func(ctx context.Context, k int) (int, error) { return 200 + k, errOfKind(k) },
					func(ctx context.Context, k int) error { return errOfKind(k) })
			})
			wantS := fmt.Sprintf("%d|%v|%v", 200+kind, text(want), text(want))
			if want == nil {
				wantS = fmt.Sprintf("%d|<nil>|<nil>", 200+kind)
			}
			if !r.ok {
				rep.addViolation("property", key+":hang", "KindClosure did not return", d)
				return
			}
			if r.err != nil || r.val.(string) != wantS {
				rep.addViolation("property", key+":closure-value+error", fmt.Sprintf("closures returned (%d, %T %q) and that error alone; the invoking handler saw %q (call error %v), want %q", 200+kind, want, text(want), r.val, r.err, wantS), d)
			}
			select {
			case e := <-p.A.LinkErr:
				rep.addViolation("property", key+":link-ended", fmt.Sprintf("an application-level error of type %T ended the link: %v", want, e), d)
				return
			case e := <-p.B.LinkErr:
				rep.addViolation("property", key+":link-ended", fmt.Sprintf("an application-level error of type %T ended the link: %v", want, e), d)
				return
			default:
			}
		}
	}
	_ = time.Now
}

func collectionScenarios[T any](rep *Report, prop string, codec Codec[T], api string) {
	p, err := NewPair(codec, PairOpts{API: api})
	desc := map[string]any{"suite": "top-level-collections", "codec": codec.Name, "api": api}
	if err != nil {
		rep.addViolation("property", prop+":collections:setup", "link setup failed: "+err.Error(), desc)
		return
	}
	defer p.Shutdown()
	ra, _, _ := p.A.AnyRemote()
	rb, _, _ := p.B.AnyRemote()
	// one direct round-trip of v through the codec into a fresh value of v's type
	direct := func(v any) (any, error) {
		t, err := codec.Marshal(v)
		if err != nil {
			return nil, err
		}
		out := reflect.New(reflect.TypeOf(v))
		if err := codec.Unmarshal(t, out.Interface()); err != nil {
			return nil, err
		}
		return out.Elem().Interface(), nil
	}
	for kind := 0; kind < 3; kind++ {
		for di, rem := range []Remote{ra, rb} {
			calls := []struct {
				name string
				have any
				call func() (any, error)
			}{
				{"RetSlice", [][]string{nil, {}, {"a", ""}}[kind], func() (any, error) { return rem.RetSlice(context.Background(), kind) }},
				{"RetMap", []map[string]int{nil, {}, {"k": 1}}[kind], func() (any, error) { return rem.RetMap(context.Background(), kind) }},
				{"RetBytes", [][]byte{nil, {}, {0, 255}}[kind], func() (any, error) { return rem.RetBytes(context.Background(), kind) }},
				{"RetNested", [][][]int{nil, {}, {nil, {}, {1}}}[kind], func() (any, error) { return rem.RetNested(context.Background(), kind) }},
			}
			for _, c := range calls {
				rep.Evaluations++
				rep.Distinct++
				d := map[string]any{"suite": "top-level-collections", "codec": codec.Name, "api": api, "dir": []string{"A->B", "B->A"}[di], "handler": c.name, "returns": fmt.Sprintf("%#v", c.have)}
				want, derr := direct(c.have)
				if derr != nil {
					continue
				}
				r := withWatchdog(c.call)
				if !r.ok || r.err != nil {
					rep.addViolation("property", prop+":collections:"+api+":call", fmt.Sprintf("%s(%d) failed: %+v", c.name, kind, r), d)
					continue
				}
				if !reflect.DeepEqual(r.val, want) {
					rep.addViolation("property", prop+":collections:"+api+":"+c.name, fmt.Sprintf("handler returned %#v; one round-trip through the codec gives %#v, the caller got %#v", c.have, want, r.val), d)
				}
			}
		}
	}
}

// typedNilClosure: a closure whose declared error result is a CONCRETE pointer type returns its nil pointer ("no
// error": the response frame's err member is the empty string) and a non-nil one.
func typedNilClosure(rep *Report, prop, api string) {
	p, err := NewPair(jsonRaw(), PairOpts{API: api})
	desc := map[string]any{"suite": "typed-nil-closure-error", "api": api}
	if err != nil {
		rep.addViolation("property", prop+":typed-nil:setup", "link setup failed: "+err.Error(), desc)
		return
	}
	defer p.Shutdown()
	ra, _, _ := p.A.AnyRemote()
	rb, _, _ := p.B.AnyRemote()
	for _, rem := range []Remote{ra, rb} {
		rep.Evaluations++
		r := withWatchdog(func() (any, error) {
			return rem.ErrClosure(context.Background(), 3, func(ctx context.Context, i int) *ZooErr {
				if i == 1 {
					return &ZooErr{"typed boom"}
				}
				return nil
			})
		})
		if !r.ok || r.err != nil || r.val.(string) != "nil|typed boom|nil" {
			rep.addViolation("property", prop+":"+api+":typed-nil-error", fmt.Sprintf("a closure declared to return *ZooErr returned nil, &ZooErr{\"typed boom\"}, nil: the callee saw %v (call error %v); want \"nil|typed boom|nil\" — the response to an invocation that returned no error must carry err \"\"", r.val, r.err), desc)
			return
		}
	}
}
