package main

// C14 (hooks balanced, enumeration = live links) and C15 (a finished link leaves nothing behind).

import (
	"github.com/pojntfx/panrpc/go/pkg/rpc"
	"io"
	"encoding/json"
	"context"
	"fmt"
	"math/rand"
	"runtime"
	"strings"
	"sync"
	"time"
)

// panrpcGoroutines returns the stacks of goroutines that have a panrpc frame but are not
// executing harness (application) code.
func panrpcGoroutines() []string {
	buf := make([]byte, 1<<20)
	for {
		n := runtime.Stack(buf, true)
		if n < len(buf) {
			buf = buf[:n]
			break
		}
		buf = make([]byte, 2*len(buf))
	}
	var out []string
	for _, blk := range strings.Split(string(buf), "\n\n") {
		if !strings.Contains(blk, "github.com/pojntfx/panrpc/go/pkg/") {
			continue
		}
		if strings.Contains(blk, "verif/harness.(*Svc)") || strings.Contains(blk, "verif/harness.(*Sub)") {
			continue // still inside an application handler
		}
		if strings.Contains(blk, "verif/harness.") && !strings.Contains(blk, "created by github.com/pojntfx/panrpc") {
			// a harness goroutine that is inside a panrpc call (e.g. a caller in a stub, Link itself): judged by its own oracle
			continue
		}
		out = append(out, blk)
	}
	return out
}

func topFrames(stack string) string {
	lines := strings.Split(stack, "\n")
	var fr []string
	for _, l := range lines[1:] {
		if strings.HasPrefix(l, "\t") || strings.HasPrefix(l, "created by") {
			continue
		}
		if strings.Contains(l, "panrpc") {
			fn := l
			if i := strings.LastIndex(fn, "/"); i >= 0 {
				fn = fn[i+1:]
			}
			if i := strings.Index(fn, "("); i > 0 && !strings.Contains(fn[:i], ".") {
				fn = fn[:i]
			}
			fr = append(fr, strings.TrimSpace(fn))
			if len(fr) == 2 {
				break
			}
		}
	}
	hdr := lines[0]
	st := hdr[strings.Index(hdr, "[")+1:]
	if i := strings.IndexAny(st, ",]"); i >= 0 {
		st = st[:i]
	}
	return strings.Join(fr, " < ") + " [" + st + "]"
}

type tdCase struct {
	API    string
	Cause  string // cancel | readerr | peer-cancel
	K      int    // gated calls in flight A→B and B→A
	Peer   string // silent | sends-requests | sends-responses
	Codec  string
}

func (c tdCase) String() string {
	return fmt.Sprintf("%s/%s cause=%s k=%d peer=%s", c.API, c.Codec, c.Cause, c.K, c.Peer)
}

type modelCheck struct {
	lines []string
	want  string
}

type tdOutcome struct {
	p14, p15 []string
	models   []modelCheck
}

func runTeardownCase[T any](codec Codec[T], tc tdCase) *tdOutcome {
	out := &tdOutcome{}
	rec, stopRec := startTraceRec()
	defer stopRec()
	before := len(panrpcGoroutines())
	plan := NewFaultPlan()
	p, err := NewPair(codec, PairOpts{API: tc.API, Plan: plan})
	if err != nil {
		out.p14 = append(out.p14, "setup: "+err.Error())
		return out
	}
	ra, idA, _ := p.A.AnyRemote()
	rb, _, _ := p.B.AnyRemote()
	// enumeration equals the announced set (while healthy)
	checkEnum := func(s *Side[T], when string) {
		live := map[string]int{}
		for _, h := range s.Hooks() {
			switch h.Kind {
			case "reg.connect":
				live[h.RemoteID]++
			case "reg.disconnect":
				live[h.RemoteID]--
			}
		}
		en := s.Remotes()
		for id, n := range live {
			if _, ok := en[id]; (n > 0) != ok {
				out.p14 = append(out.p14, fmt.Sprintf("%s: side %s: remote %s announced-live=%v enumerated=%v", when, s.Name, id[:8], n > 0, ok))
			}
		}
		for id := range en {
			if live[id] <= 0 {
				out.p14 = append(out.p14, fmt.Sprintf("%s: side %s enumerates %s which is not announced as connected", when, s.Name, id[:8]))
			}
		}
	}
	checkEnum(p.A, "healthy")
	checkEnum(p.B, "healthy")
	var wg sync.WaitGroup
	app := newAppCtx()
	watchersBefore := ctxWatchers()
	for i := 0; i < tc.K; i++ {
		i := i
		wg.Add(2)
		// the calls run under an application-wide context that outlives the link and is not a plain
		// context.cancelCtx (its Done channel is its own): every context panrpc derives from it costs a watcher
		// goroutine of package context until that derived context is cancelled
		go func() { defer wg.Done(); ra.Gate(app, 100+i) }()
		go func() { defer wg.Done(); rb.Gate(app, 200+i) }()
	}
	// let the handlers start
	deadline := time.Now().Add(2 * time.Second)
	for time.Now().Before(deadline) {
		c := 0
		for _, inv := range append(p.A.Svc.Invocations(), p.B.Svc.Invocations()...) {
			if inv.Method == "Gate" {
				c++
			}
		}
		if c >= 2*tc.K {
			break
		}
		time.Sleep(200 * time.Microsecond)
	}
	// one completed call each way, with a closure, so that tables were in use
	ra.WithClosure(context.Background(), 1, false, func(ctx context.Context, i int, s string) (string, error) { return s, nil })
	// ---- the link ends on side A
	switch tc.Cause {
	case "cancel":
		p.A.Cancel()
	case "readerr":
		plan.FailNext("A.readRes")
		plan.FailNext("A.decode")
		// provoke a read: B answers a call from A
		go ra.Echo(context.Background(), 1, "x")
	case "peer-cancel":
		p.B.Cancel()
	case "readres-only":
		// only A's response read fails (message API: the two reads are independent); A's request read keeps working
		plan.FailNext("A.readRes")
		go ra.Echo(context.Background(), 1, "x")
	}
	first := p.A
	if tc.Cause == "peer-cancel" {
		first = p.B
	}
	select {
	case e := <-first.LinkErr:
		_ = e
	case <-time.After(watchdog):
		out.p15 = append(out.p15, "Link did not return after "+tc.Cause)
	}
	if tc.Cause == "readres-only" {
		// the link has ended, but one of its transport reads has not returned: requests that still arrive are
		// handled, so the disconnect must not have been announced and the remote must still be enumerated
		time.Sleep(3 * time.Millisecond)
		r := withWatchdog(func() (any, error) { return rb.WhoAmI(context.Background()) })
		handled := r.ok && r.err == nil
		disc := 0
		for _, h := range p.A.Hooks() {
			if h.Kind == "reg.disconnect" || h.Kind == "link.disconnect" {
				disc++
			}
		}
		if handled && disc > 0 {
			out.p14 = append(out.p14, fmt.Sprintf("a request was handled on side A (%v) after %d disconnect notification(s) for that link had been announced: the request read had not returned yet", r.val, disc))
		}
		if handled && len(p.A.Remotes()) == 0 {
			out.p14 = append(out.p14, "a request was handled on side A while its remote was no longer enumerated")
		}
		checkEnum(p.A, "link ended, one read still open")
	}
	// the peer may keep sending for a while before the application closes the connection
	switch tc.Peer {
	case "sends-requests":
		sender := rb
		if first == p.B {
			sender = ra
		}
		for i := 0; i < 3; i++ {
			i := i
			go sender.Echo(context.Background(), 900+i, "late")
		}
		time.Sleep(2 * time.Millisecond)
	case "sends-responses":
		// open the gates of the handlers running on the peer: their responses are written now
		for i := 0; i < tc.K; i++ {
			p.B.Svc.OpenGate(100 + i)
			p.A.Svc.OpenGate(200 + i)
		}
		time.Sleep(2 * time.Millisecond)
	}
	// the application cancels the context and makes transport reads fail (both ends: the connection is gone)
	p.A.Cancel()
	p.B.Cancel()
	p.CloseTransport()
	for i := 0; i < tc.K; i++ {
		p.B.Svc.OpenGate(100 + i)
		p.A.Svc.OpenGate(200 + i)
	}
	done := make(chan struct{})
	go func() { wg.Wait(); p.wg.Wait(); close(done) }()
	select {
	case <-done:
	case <-time.After(watchdog):
		out.p15 = append(out.p15, "in-flight calls / Link calls did not all return after teardown")
	}
	// quiescence: give panrpc's goroutines time to leave
	var left []string
	deadline = time.Now().Add(1500 * time.Millisecond)
	for {
		left = panrpcGoroutines()
		if len(left) <= before || time.Now().After(deadline) {
			break
		}
		time.Sleep(2 * time.Millisecond)
	}
	if len(left) > before {
		kinds := map[string]int{}
		for _, g := range left {
			kinds[topFrames(g)]++
		}
		for k, n := range kinds {
			out.p15 = append(out.p15, fmt.Sprintf("goroutine left behind ×%d: %s", n, k))
		}
	}
	// calls made through the dead remotes afterwards (they fail at once) must leave nothing behind either
	for _, rem := range []Remote{ra, rb} {
		rem := rem
		r := withWatchdog(func() (any, error) {
			return rem.WithClosure(context.Background(), 1, false, func(ctx context.Context, i int, s string) (string, error) { return s, nil })
		})
		if !r.ok {
			out.p15 = append(out.p15, "a closure-carrying call made after teardown hangs")
		}
	}
	// contexts derived for the in-flight calls must have been released (cancelled): none of package context's
	// watcher goroutines for children of the application's context may remain
	wd := time.Now().Add(500 * time.Millisecond)
	for ctxWatchers() > watchersBefore && time.Now().Before(wd) {
		time.Sleep(time.Millisecond)
	}
	if n := ctxWatchers() - watchersBefore; n > 0 {
		out.p15 = append(out.p15, fmt.Sprintf("%d context(s) derived from the application's context for calls that were in flight are still live after teardown (their watcher goroutines remain: nobody cancelled them)", n))
	}
	app.stop()
	for _, s := range []*Side[T]{p.A, p.B} {
		if n := s.Reg.VerifClosureCount(); n != 0 {
			out.p15 = append(out.p15, fmt.Sprintf("side %s: %d closure registrations remain", s.Name, n))
		}
		if n := len(s.Remotes()); n != 0 {
			out.p15 = append(out.p15, fmt.Sprintf("side %s: remote still enumerated after teardown", s.Name))
		}
		// hooks: exactly one connect and one disconnect of each kind, same id, in order
		var rc, rd, lc, ld []string
		for _, h := range s.Hooks() {
			switch h.Kind {
			case "reg.connect":
				rc = append(rc, h.RemoteID)
			case "reg.disconnect":
				rd = append(rd, h.RemoteID)
			case "link.connect":
				lc = append(lc, h.RemoteID)
			case "link.disconnect":
				ld = append(ld, h.RemoteID)
			}
		}
		if len(rc) != 1 || len(rd) != 1 || (len(rc) == 1 && len(rd) == 1 && rc[0] != rd[0]) {
			out.p14 = append(out.p14, fmt.Sprintf("side %s: registry hooks: %d connect / %d disconnect notifications (want 1/1 with the same id)", s.Name, len(rc), len(rd)))
		}
		if len(lc) != 1 || len(ld) != 1 || (len(lc) == 1 && len(rc) == 1 && lc[0] != rc[0]) || (len(ld) == 1 && len(rc) == 1 && ld[0] != rc[0]) {
			out.p14 = append(out.p14, fmt.Sprintf("side %s: per-link hooks: %d connect / %d disconnect notifications (want 1/1 with the registry's id)", s.Name, len(lc), len(ld)))
		}
		// "once the link has ended AND its transport reads have returned": no disconnect while a read is still open
		for _, h := range s.Hooks() {
			if (h.Kind == "reg.disconnect" || h.Kind == "link.disconnect") && h.ReadsOpen > 0 {
				out.p14 = append(out.p14, fmt.Sprintf("side %s: the %s notification was delivered while %d transport read(s) of the link had not returned yet (requests arriving on them are still handled)", s.Name, h.Kind, h.ReadsOpen))
				break
			}
		}
		checkEnum(s, "after teardown")
		// connect precedes every invocation: the first invocation's remote id is the announced one
		for _, inv := range s.Svc.Invocations() {
			if len(rc) == 1 && inv.RemoteID != rc[0] {
				out.p14 = append(out.p14, fmt.Sprintf("side %s: handler saw remote id %q, announced %q", s.Name, inv.RemoteID, rc[0]))
				break
			}
		}
	}
	_ = idA
	// trace validation against the Lean registry model M4 (one model instance per registry)
	for _, s := range []*Side[T]{p.A, p.B} {
		lines, want := rgReplay(rec.events(), s.Hooks())
		out.models = append(out.models, modelCheck{lines, want})
	}
	return out
}

func runTeardownSuite(rep *Report, tier string, seed int64, prop string) {
	rep.Rule = "teardown matrix: link API × cause (context cancelled / transport read fails / peer's context cancelled) × k gated calls in flight per direction × peer behaviour before the connection is closed " +
		"(silent / keeps sending requests / its handlers' responses arrive); then the application cancels the context and fails the transport. C15 oracle: no goroutine with a panrpc frame outside application code survives, " +
		"no closure registration, nothing enumerated. C14 oracle: exactly one connect and one disconnect notification per hook kind with one id, enumeration = announced set. distinct = matrix cells × repetitions"
	ks := []int{0, 2}
	reps := 6
	if tier == "thorough" {
		ks = []int{0, 1, 3, 8}
		reps = 25
	}
	rng := rand.New(rand.NewSource(seed))
	_ = rng
	if prop == "C14" {
		c14EnumDuringTeardown(rep)
		c14HookCombos(rep)
		c14InheritedIDLink(rep)
	}
	if prop == "C15" {
		if tier == "thorough" {
			c15CallsStartingAtTeardown(rep, prop, 6000, 24, 60*time.Second, true)
		} else {
			c15CallsStartingAtTeardown(rep, prop, 1500, 24, 8*time.Second, true)
		}
		for _, api := range apis() {
			c15NestedClosureTeardown(rep, prop, api)
			for _, cause := range []string{"cancel", "transport"} {
				c03ClosureRunningAtLinkEnd(rep, prop, api, cause)
			}
		}
	}
	// a link whose context is ALREADY cancelled when Link is called (or is cancelled while it sets up)
	for _, api := range apis() {
		for _, when := range []string{"before", "during"} {
			rep.Evaluations++
			rep.Distinct++
			p14, p15 := preCancelledLink(api, when)
			probs := p14
			if prop == "C15" {
				probs = p15
			}
			for _, m := range probs {
				rep.addViolation("property", prop+":pre-cancelled:"+api, "link context cancelled "+when+" set-up: "+m, map[string]any{"suite": "pre-cancelled-link", "api": api, "cancelled": when})
			}
		}
	}
	var pendingModels []modelCheck
	var pendingCases []string
	defer func() { validateRg(rep, prop, pendingModels, pendingCases) }()
	for _, api := range apis() {
		for _, cause := range []string{"cancel", "readerr", "peer-cancel", "readres-only"} {
			if cause == "readres-only" && api != "message" {
				continue
			}
			for _, k := range ks {
				for _, peer := range []string{"silent", "sends-requests", "sends-responses"} {
					for r := 0; r < reps; r++ {
						tc := tdCase{API: api, Cause: cause, K: k, Peer: peer, Codec: "json-raw"}
						var o *tdOutcome
						switch r % 3 {
						case 0:
							o = runTeardownCase(jsonRaw(), tc)
						case 1:
							tc.Codec = "cbor-raw"
							o = runTeardownCase(cborRaw(), tc)
						default:
							tc.Codec = "json-bytes"
							o = runTeardownCase(jsonBytes(), tc)
						}
						rep.Evaluations++
						if r == 0 {
							rep.Distinct++
						}
						rep.sample(tc.String())
						probs := o.p15
						if prop == "C14" {
							probs = o.p14
						}
						// (C15's registry theorems — Props/C15Reg.lean — are about the same model M4: its traces are validated too)
						{
							for _, mc := range o.models {
								pendingModels = append(pendingModels, mc)
								pendingCases = append(pendingCases, tc.String())
							}
						}
						for _, pr := range probs {
							kind := pr
							if i := strings.Index(pr, ":"); i > 0 {
								kind = pr[i+1:]
							}
							for _, d := range "0123456789" {
								kind = strings.ReplaceAll(kind, string(d), "")
							}
							rep.addViolation("property", fmt.Sprintf("%s:%s:%s", prop, api, strings.TrimSpace(kind)), tc.String()+": "+pr, map[string]any{"suite": "teardown", "case": tc})
						}
					}
				}
			}
		}
	}
}

// validateRg replays the recorded life-cycles on the Lean registry model: every action must be
// enabled, the model's invariant monitor must hold, and its hook log must equal the real one.
func validateRg(rep *Report, prop string, ms []modelCheck, cases []string) {
	if len(ms) == 0 {
		return
	}
	var lines []string
	var spans [][2]int
	for _, m := range ms {
		spans = append(spans, [2]int{len(lines), len(lines) + len(m.lines)})
		lines = append(lines, m.lines...)
	}
	ans, err := runDriver(lines)
	if err != nil {
		rep.addViolation("correspondence", prop+":driver", "Lean driver failed: "+err.Error(), nil)
		return
	}
	for i, m := range ms {
		a := ans[spans[i][0]:spans[i][1]]
		rep.TracesValidated++
		bad := ""
		for k, x := range a {
			if strings.HasPrefix(x, "rejected") || strings.HasPrefix(x, "bad-op") || strings.HasPrefix(x, "inv broken") {
				bad = fmt.Sprintf("%s (line %q)", x, m.lines[k])
				break
			}
			rep.ModelSteps++
		}
		last := a[len(a)-1]
		if bad == "" && !strings.HasSuffix(last, m.want) {
			bad = fmt.Sprintf("hook log differs: model %q, implementation %q", last, m.want)
		}
		if bad != "" {
			rep.addViolation("correspondence", prop+":registry-model", fmt.Sprintf("%s: M4 disagrees with the implementation: %s", cases[i], bad), map[string]any{"lines": m.lines})
		}
	}
}

// appCtx: an application-wide context with a Done channel of its own (as a wrapped / merged context has):
// package context cannot hook children into it directly and starts one watcher goroutine per derived context.
type appCtx struct {
	context.Context
	done chan struct{}
	once sync.Once
}

func newAppCtx() *appCtx { return &appCtx{Context: context.Background(), done: make(chan struct{})} }
func (a *appCtx) Done() <-chan struct{} { return a.done }
func (a *appCtx) Err() error {
	select {
	case <-a.done:
		return context.Canceled
	default:
		return nil
	}
}
func (a *appCtx) stop() { a.once.Do(func() { close(a.done) }) }

// ctxWatchers counts package context's propagateCancel watcher goroutines.
func ctxWatchers() int {
	buf := make([]byte, 1<<20)
	for {
		n := runtime.Stack(buf, true)
		if n < len(buf) {
			buf = buf[:n]
			break
		}
		buf = make([]byte, 2*len(buf))
	}
	return strings.Count(string(buf), "context.(*cancelCtx).propagateCancel.func")
}

// preCancelledLink: Link is called with a context that is already done (or that is cancelled right after the
// call).  Link returns; afterwards the registry is as if the link had never been: enumeration works (nobody
// holds its lock) and shows nothing, every connect notification has its disconnect, no goroutine remains.
func preCancelledLink(api, when string) (p14, p15 []string) {
	before := len(panrpcGoroutines())
	codec := jsonRaw()
	side := newSide[json.RawMessage]("A")
	ctx, cancel := context.WithCancel(context.Background())
	if when == "before" {
		cancel()
	}
	qs := [4]*Queue{NewQueue(), NewQueue(), NewQueue(), NewQueue()}
	pr, pw := io.Pipe()
	errc := make(chan error, 1)
	go func() {
		if api == "message" {
			errc <- side.Reg.LinkMessage(ctx,
				func(t json.RawMessage) error { return qs[0].Put(t) }, func(t json.RawMessage) error { return qs[1].Put(t) },
				func() (json.RawMessage, error) { b, e := qs[2].Get(); return b, e }, func() (json.RawMessage, error) { b, e := qs[3].Get(); return b, e },
				codec.Marshal, codec.Unmarshal, linkHooks(side, true))
		} else {
			dec := json.NewDecoder(pr)
			errc <- side.Reg.LinkStream(ctx,
				func(m rpc.Message[json.RawMessage]) error { return nil },
				func(m *rpc.Message[json.RawMessage]) error { return dec.Decode(m) },
				codec.Marshal, codec.Unmarshal, linkHooks(side, true))
		}
	}()
	if when == "during" {
		cancel()
	}
	select {
	case <-errc:
	case <-time.After(watchdog):
		p15 = append(p15, "Link did not return")
		p14 = append(p14, "Link did not return")
	}
	// the application closes the transport
	for _, q := range qs {
		q.Close(io.EOF)
	}
	pw.Close()
	time.Sleep(5 * time.Millisecond)
	enum := make(chan int, 1)
	go func() { enum <- len(side.Remotes()) }()
	select {
	case n := <-enum:
		// give the deferred unregister a moment (it runs after both read loops have left)
		dl := time.Now().Add(500 * time.Millisecond)
		for n != 0 && time.Now().Before(dl) {
			time.Sleep(2 * time.Millisecond)
			n = len(side.Remotes())
		}
		if n != 0 {
			p14 = append(p14, fmt.Sprintf("%d remote(s) still enumerated after the link ended", n))
			p15 = append(p15, fmt.Sprintf("%d remote(s) still enumerated after the link ended", n))
		}
	case <-time.After(watchdog):
		p14 = append(p14, "ForRemotes blocks for ever after the link ended (the registry's lock was never released)")
		p15 = append(p15, "ForRemotes blocks for ever after the link ended (the registry's lock was never released)")
		return
	}
	c, d := 0, 0
	for _, h := range side.Hooks() {
		switch h.Kind {
		case "reg.connect", "link.connect":
			c++
		case "reg.disconnect", "link.disconnect":
			d++
		}
	}
	if c != d {
		p14 = append(p14, fmt.Sprintf("%d connect notification(s) but %d disconnect notification(s)", c, d))
	}
	dl := time.Now().Add(time.Second)
	for len(panrpcGoroutines()) > before && time.Now().Before(dl) {
		time.Sleep(2 * time.Millisecond)
	}
	if left := panrpcGoroutines(); len(left) > before {
		p15 = append(p15, fmt.Sprintf("%d goroutine(s) left behind: %s", len(left)-before, topFrames(left[0])))
	}
	return
}
