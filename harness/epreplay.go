package main

// Translates the event trace of one scheduler-explored run of the real stub (suite_sched.go)
// into actions of the Lean endpoint model M2 (`ep …` driver lines): trace validation.

import (
	"fmt"
	"strings"
)

func epLines(trace []Event) []string {
	lines := []string{"reset", "ep linkCheck"}
	callIdx := map[string]int{}   // call id -> c
	callOfG := map[string]int{}   // call goroutine -> c
	waiterG := map[string]int{}   // waiter goroutine -> c
	pubG := map[string]int{}      // publisher goroutine -> p
	setterG := map[string]int{}   // goroutine inside setErr -> t
	spawned := map[int]bool{}
	written := map[int]bool{}
	panicking := map[int]bool{}
	nextPub, nextSetter := 0, 50
	linkCancelled, watcherUsed := false, false
	usedSent := map[int]bool{}
	sent := map[int]bool{}
	cancelledCtx := map[int]bool{}
	add := func(f string, a ...any) { lines = append(lines, "ep "+fmt.Sprintf(f, a...)) }
	pendingStart := map[int]bool{}
	nClosures := map[int]int{}
	closureIdx := map[string]int{}
	var invokes []string
	flushStarts := func() {
		for c := 0; c < len(callIdx); c++ {
			if pendingStart[c] {
				delete(pendingStart, c)
				add("callStart %d %d 2 %d", c, c, nClosures[c])
			}
		}
	}
	cOf := func(id string) (int, bool) {
		c, ok := callIdx[id]
		if ok {
			flushStarts()
		}
		return c, ok
	}
	for i, e := range trace {
		switch e.Point {
		case "call.start":
			c := len(callIdx)
			callIdx[e.Key] = c
			callOfG[e.G] = c
			pendingStart[c] = true
		case "closure.registered":
			if c, ok := callOfG[e.G]; ok && pendingStart[c] {
				closureIdx[e.Key] = len(closureIdx)
				nClosures[c]++
			}
		case "closure.hit", "closure.miss":
			flushStarts()
			id, known := closureIdx[e.Key]
			if !known {
				id = 900 + len(invokes) // an id nobody registered
			}
			add("closureInvoke %d %d", 200+len(invokes), id)
			invokes = append(invokes, fmt.Sprintf("%d:%d:%s", 200+len(invokes), id, e.Point[8:]))
		case "rcv.registered", "rcv.refused":
			if c, ok := cOf(e.Key); ok {
				add("callReceive %d", c)
				if e.Point == "rcv.refused" {
					panicking[c] = true
				}
			}
		case "waiter.start":
			if c, ok := cOf(e.Key); ok {
				waiterG[e.G] = c
				if !spawned[c] {
					spawned[c] = true
					add("callSpawn %d", c)
				}
			}
		case "call.select":
			if c, ok := cOf(e.Key); ok {
				if !spawned[c] {
					spawned[c] = true
					add("callSpawn %d", c)
				}
				written[c] = true
				add("callWrite %d", c)
			}
		case "rcvf.select":
			if c, ok := cOf(e.Key); ok {
				if !spawned[c] {
					spawned[c] = true
					add("callSpawn %d", c)
				}
				add("waiterRecvCall %d", c)
			}
		case "pub.hit", "pub.miss", "pub.refused":
			if c, ok := cOf(e.Key); ok {
				p := nextPub
				nextPub++
				pubG[e.G] = p
				add("respFrame %d %d %d 0", p, c, 100+p)
				add("pubLookup %d", p)
			}
		case "rcvf.value":
			if c, ok := cOf(e.Key); ok {
				// the publisher that handed over: the nearest unconsumed pub.sent of this key
				best, bi := -1, -1
				for j, f := range trace {
					if f.Point == "pub.sent" && f.Key == e.Key && !usedSent[j] {
						if best < 0 || abs(j-i) < abs(bi-i) {
							best, bi = pubG[f.G], j
						}
					}
				}
				if bi >= 0 {
					usedSent[bi] = true
					add("waiterGetsValue %d %d", c, best)
				} else {
					add("waiterGetsValue %d 999", c)
				}
			}
		case "pub.ctx":
			if p, ok := pubG[e.G]; ok {
				add("pubCtx %d", p)
			}
		case "rcvf.ctx":
			if c, ok := cOf(e.Key); ok {
				if !cancelledCtx[c] {
					// the context ended without the harness cancelling it (a deadline): an external event for the model
					cancelledCtx[c] = true
					lines = append(lines, fmt.Sprintf("ep cancel %d", c))
				}
				add("waiterGetsCtx %d", c)
			}
		case "rcvf.done", "rcvf.closed":
			if c, ok := cOf(e.Key); ok {
				add("waiterGetsDone %d", c)
			}
		case "waiter.sent":
			if c, ok := cOf(e.Key); ok && !sent[c] {
				sent[c] = true
				add("waiterSend %d", c)
			}
		case "free.done":
			if c, ok := cOf(e.Key); ok {
				add("waiterFree %d", c)
			}
		case "call.res":
			if c, ok := cOf(e.Key); ok {
				if !sent[c] {
					// the waiter logs its send after the fact; the receiving call may log first
					sent[c] = true
					add("waiterSend %d", c)
				}
				add("callTakeRes %d 0", c)
			}
		case "call.linkctx":
			if c, ok := cOf(e.Key); ok {
				add("callLinkCtx %d", c)
				panicking[c] = true
			}
		case "call.return":
			if c, ok := callOfG[e.G]; ok && !panicking[c] {
				add("callReturnOk %d", c)
			}
		case "ctx.cancelled":
			var c int
			fmt.Sscan(e.Key, &c)
			cancelledCtx[c] = true
			lines = append(lines, fmt.Sprintf("ep cancel %d", c))
		case "link.cancelled":
			linkCancelled = true
			add("cancelLink")
		case "seterr.enter":
			if c, ok := callOfG[e.G]; ok {
				// the stub's recover: which panic?
				switch {
				case panicking[c]:
					code := 0
					if strings.Contains(e.Key, "context canceled") {
						code = 1
					}
					add("callRecover %d %d", c, code)
				case spawned[c] && !written[c]:
					add("callWriteFail %d 0", c)
					panicking[c] = true
					code := 5 // eExt 0 (the models number the call-context error 4)
					if linkCancelled {
						code = 1
					}
					add("callRecover %d %d", c, code)
				default:
					add("callRecover %d 0", c)
				}
				setterG[e.G] = c
			} else {
				t := nextSetter
				nextSetter++
				setterG[e.G] = t
				if linkCancelled && !watcherUsed && strings.Contains(e.Key, "context canceled") {
					watcherUsed = true
					add("watcher %d", t)
				} else {
					add("setErrEnter %d 0", t)
				}
			}
		case "seterr.store":
			if t, ok := setterG[e.G]; ok {
				add("setErrStore %d", t)
			}
		case "close.done":
			if t, ok := setterG[e.G]; ok {
				add("setErrClose %d", t)
			}
		case "link.return":
			lines = append(lines, "ep linkWake", "ep linkReturn")
		}
	}
	flushStarts()
	lines = append(lines, "ep state")
	epExpectInvokes = "invokes=[" + strings.Join(invokes, ", ") + "]"
	return lines
}

// epExpectInvokes is the closure look-up log (thread:id:hit|miss) the implementation produced in the run
// epLines translated last; the model's final state must show the same.
var epExpectInvokes string

func abs(x int) int {
	if x < 0 {
		return -x
	}
	return x
}
