package main

// C15, calls that START while their link ends: many short-lived links of a silent peer; a crowd of application
// goroutines is just entering its first call (with an application context that outlives every link) when the link's
// context is cancelled and its transport fails. Every call has to return, and once Link and all calls have returned
// no goroutine of panrpc — e.g. the waiter of a call that registered a moment after the pending-call table was
// closed — may be left. The window is narrow (an unregistered→registered transition against a close), so the scenario
// is a statistical one: `links` teardowns or `budget`, whichever ends first; what it reports is concrete (the stack
// of a goroutine that stayed).

import (
	"context"
	"encoding/json"
	"fmt"
	"io"
	"runtime"
	"sync"
	"time"

	"github.com/pojntfx/panrpc/go/pkg/rpc"
)

type c15StartLocal struct{}

type c15StartRemote struct {
	Ping func(ctx context.Context) error
}

func c15CallsStartingAtTeardown(rep *Report, prop string, links, callers int, budget time.Duration, cancelCtx bool) {
	rep.Evaluations++
	rep.Distinct++
	desc := map[string]any{"suite": "calls-starting-while-the-link-ends", "links": links, "callers": callers, "link_context_cancelled": cancelCtx}
	before := len(panrpcGoroutines())
	appCtx, appCancel := context.WithCancel(context.Background())
	defer appCancel()
	marshal := func(v any) (json.RawMessage, error) {
		b, err := json.Marshal(v)
		return json.RawMessage(b), err
	}
	unmarshal := func(data json.RawMessage, v any) error { return json.Unmarshal([]byte(data), v) }
	deadline := time.Now().Add(budget)
	done, stuck := 0, 0
	for it := 0; it < links && time.Now().Before(deadline) && stuck == 0; it++ {
		done++
		reg := rpc.NewRegistry[c15StartRemote, json.RawMessage](&c15StartLocal{}, nil)
		ctx, cancel := context.WithCancel(context.Background())
		transportClosed := make(chan struct{})
		write := func(b json.RawMessage) error { return nil } // the peer is silent
		read := func() (json.RawMessage, error) {
			<-transportClosed
			return nil, io.EOF
		}
		connected := make(chan struct{})
		linkDone := make(chan struct{})
		go func() {
			defer close(linkDone)
			defer func() { recover() }()
			_ = reg.LinkMessage(ctx, write, write, read, read, marshal, unmarshal,
				&rpc.LinkHooks{OnClientConnect: func(string) { close(connected) }})
		}()
		select {
		case <-connected:
		case <-time.After(watchdog):
			rep.addViolation("property", prop+":calls-starting:setup", "a link of a silent peer never reported its connection", desc)
			cancel()
			close(transportClosed)
			return
		}
		var remote c15StartRemote
		_ = reg.ForRemotes(func(_ string, r c15StartRemote) error {
			remote = r
			return nil
		})
		if remote.Ping == nil {
			cancel()
			close(transportClosed)
			<-linkDone
			continue
		}
		start := make(chan struct{})
		var wg sync.WaitGroup
		for i := 0; i < callers; i++ {
			wg.Add(1)
			go func(i int) {
				defer wg.Done()
				defer func() { recover() }()
				<-start
				for spin := 0; spin < i*40; spin++ {
					runtime.Gosched()
				}
				_ = remote.Ping(appCtx) // fails one way or the other; it only has to return
			}(i)
		}
		close(start)
		for spin := 0; spin < (it%callers)*40; spin++ {
			runtime.Gosched()
		}
		// the link ends: its context is cancelled and its transport fails — or (cancelCtx = false) ONLY the transport
		// fails while the link's context lives on, so that a caller has nothing but the pending-call table to wake it
		if cancelCtx {
			cancel()
		}
		close(transportClosed)
		allBack := make(chan struct{})
		go func() {
			<-linkDone
			wg.Wait()
			close(allBack)
		}()
		select {
		case <-allBack:
			cancel()
		case <-time.After(watchdog):
			cancel()
			stuck++
			rep.addViolation("property", prop+":calls-starting:hang", fmt.Sprintf("link %d of %d: the link ended (context cancelled: %v; transport reads fail) while %d calls were just starting — Link or one of the calls has not returned", done, links, cancelCtx, callers), desc)
		}
	}
	desc["links_done"] = done
	if stuck > 0 {
		return
	}
	dl := time.Now().Add(5 * time.Second)
	for len(panrpcGoroutines()) > before && time.Now().Before(dl) {
		time.Sleep(5 * time.Millisecond)
	}
	if left := panrpcGoroutines(); len(left) > before {
		rep.addViolation("property", prop+":calls-starting:goroutines", fmt.Sprintf("%d links were ended while calls were just starting on them; Link and every call have returned, yet %d goroutine(s) are still inside panrpc code (until the application's own context ends): %s", done, len(left)-before, topFrames(left[len(left)-1])), desc)
	}
	n, _ := rep.Extra["c15_links_ended_with_calls_starting"].(int)
	rep.Extra["c15_links_ended_with_calls_starting"] = n + done
}
