package main

import (
	"fmt"
	"sync"

	"github.com/pojntfx/panrpc/go/pkg/rpc"
	"github.com/pojntfx/panrpc/go/pkg/utils"
)

// traceRec records the trace-hook events of both packages in one global order (no parking).
type traceRec struct {
	mu  sync.Mutex
	evs []Event
}

func (t *traceRec) add(point, key string) {
	g := fmt.Sprint(goid())
	t.mu.Lock()
	t.evs = append(t.evs, Event{g, point, key})
	t.mu.Unlock()
}

func (t *traceRec) events() []Event {
	t.mu.Lock()
	defer t.mu.Unlock()
	return append([]Event(nil), t.evs...)
}

// startTraceRec installs a recorder for the lifetime of a workload; stop() removes it.
func startTraceRec() (*traceRec, func()) {
	t := &traceRec{}
	rpc.SetVerifHooks(t.add, t.add) // yield points are recorded too (never parked here)
	utils.SetVerifHooks(t.add, t.add)
	return t, func() { rpc.SetVerifHooks(nil, nil); utils.SetVerifHooks(nil, nil) }
}

// rgReplay turns the setup.* events of ONE registry (the ids given, in order of first appearance)
// into actions of the Lean registry model M4 and returns the driver lines plus the hook log the
// model must end up with, in the model's rendering, computed from the REAL hook events.
func rgReplay(evs []Event, hooks []HookEvent) (lines []string, wantHooks string) {
	idx := map[string]int{}
	linkOf := func(id string) (int, bool) {
		i, ok := idx[id]
		return i, ok
	}
	mine := map[string]bool{}
	for _, h := range hooks {
		mine[h.RemoteID] = true
	}
	lines = []string{"rg reset"}
	for _, e := range evs {
		if !mine[e.Key] {
			continue
		}
		switch e.Point {
		case "setup.registered":
			l := len(idx)
			idx[e.Key] = l
			lines = append(lines, itoa("rg linkStart", l), itoa("rg setupRegister", l), itoa("rg loopsStart", l))
		case "setup.loopsdone":
			if l, ok := linkOf(e.Key); ok {
				// both loops have left: their reads failed (or the context was cancelled)
				lines = append(lines, itoa("rg cancel", l), itoa("rg failReads", l), itoa("rg reqReadFails", l), itoa("rg respReadFails", l), itoa("rg setupLoopsDone", l))
			}
		case "setup.unregistered":
			if l, ok := linkOf(e.Key); ok {
				lines = append(lines, itoa("rg setupUnregister", l))
			}
		}
	}
	lines = append(lines, "rg check", "rg state")
	var hs []string
	kind := map[string]string{"reg.connect": "rc", "reg.disconnect": "rd", "link.connect": "lc", "link.disconnect": "ld"}
	for _, h := range hooks {
		l := idx[h.RemoteID]
		hs = append(hs, kind[h.Kind]+":"+itoa("", l)[1:]+":"+itoa("", l)[1:])
	}
	return lines, "hooks=[" + join(hs, ",") + "]"
}

func itoa(prefix string, n int) string {
	s := ""
	if n == 0 {
		s = "0"
	}
	for n > 0 {
		s = string(rune('0'+n%10)) + s
		n /= 10
	}
	return prefix + " " + s
}

func join(xs []string, sep string) string {
	out := ""
	for i, x := range xs {
		if i > 0 {
			out += sep
		}
		out += x
	}
	return out
}
