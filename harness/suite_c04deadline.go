package main

// C04, "cancelled, past its deadline, …": a call whose OWN context ends by deadline (and, as a control, by
// cancel) while a sibling call with a background context is in flight on the same link.  The ended call returns
// promptly with the zero result and the context's error; the sibling, later calls (before and after the late
// response arrives) and the link itself are unaffected.

import (
	"context"
	"errors"
	"fmt"
	"time"
)

func c04DeadlineScenarios(rep *Report, prop string) {
	for _, api := range apis() {
		for _, how := range []string{"deadline", "cancel"} {
			for _, dir := range []string{"A->B", "B->A"} {
				rep.Evaluations++
				rep.Distinct++
				d := map[string]any{"suite": "C04-deadline-in-flight", "api": api, "context": how, "dir": dir}
				if msg := c04DeadlineOnce(api, how, dir); msg != "" {
					rep.addViolation("property", prop+":deadline-in-flight:"+api+":"+how, msg, d)
				}
			}
		}
	}
}

func c04DeadlineOnce(api, how, dir string) string {
	p, err := NewPair(jsonRaw(), PairOpts{API: api})
	if err != nil {
		return "setup: " + err.Error()
	}
	defer p.Shutdown()
	rem, _, _ := p.A.AnyRemote()
	callee := p.B
	if dir == "B->A" {
		rem, _, _ = p.B.AnyRemote()
		callee = p.A
	}
	defer callee.Svc.OpenGate(41)
	defer callee.Svc.OpenGate(42)
	parked := func(id string) bool {
		for _, inv := range callee.Svc.Invocations() {
			if inv.Method == "Gate" && inv.Args == id {
				return true
			}
		}
		return false
	}
	sib := make(chan callResult, 1)
	go func() { v, err := rem.Gate(context.Background(), 41); sib <- callResult{true, v, err} }()
	waitFor(func() bool { return parked("41") })
	var ctx context.Context
	var cancel context.CancelFunc
	if how == "deadline" {
		ctx, cancel = context.WithTimeout(context.Background(), 15*time.Millisecond)
	} else {
		ctx, cancel = context.WithCancel(context.Background())
		time.AfterFunc(15*time.Millisecond, cancel)
	}
	defer cancel()
	r := withWatchdog(func() (any, error) { return rem.Gate(ctx, 42) })
	if !r.ok {
		return "a call whose context ended (" + how + ") while its handler was running did not return"
	}
	wantErr := context.Canceled
	if how == "deadline" {
		wantErr = context.DeadlineExceeded
	}
	if !errors.Is(r.err, wantErr) || r.val.(int) != 0 {
		return fmt.Sprintf("a call whose context ended (%s) returned (%v, %v); want the zero result and the context's error", how, r.val, r.err)
	}
	// nothing else is affected
	select {
	case e := <-p.A.LinkErr:
		return fmt.Sprintf("a call ended by its own context (%s) ended the link: Link returned %q", how, e)
	case e := <-p.B.LinkErr:
		return fmt.Sprintf("a call ended by its own context (%s) ended the peer's link: Link returned %q", how, e)
	case s := <-sib:
		return fmt.Sprintf("a call ended by its own context (%s) made the sibling call in flight return (%v, %v)", how, s.val, s.err)
	case <-time.After(20 * time.Millisecond):
	}
	if e := withWatchdog(func() (any, error) { return rem.Echo(context.Background(), 3, "later") }); !e.ok || e.err != nil {
		return fmt.Sprintf("after a call ended by its own context (%s) a later call fails: %+v", how, e)
	}
	callee.Svc.OpenGate(42) // the abandoned handler finishes: its late response arrives and is dropped
	callee.Svc.OpenGate(41)
	select {
	case s := <-sib:
		if s.err != nil || s.val.(int) != 41 {
			return fmt.Sprintf("the sibling call in flight while another call was ended by its context (%s) returned (%v, %v), want (41, nil)", how, s.val, s.err)
		}
	case <-time.After(watchdog):
		return "the sibling call never returned after its gate was opened"
	}
	if e := withWatchdog(func() (any, error) { return rem.Echo(context.Background(), 4, "after the late response") }); !e.ok || e.err != nil {
		return fmt.Sprintf("after the late response of a call ended by its context (%s) a later call fails: %+v", how, e)
	}
	select {
	case e := <-p.A.LinkErr:
		return fmt.Sprintf("the late response of a call ended by its context (%s) ended the link: %q", how, e)
	case e := <-p.B.LinkErr:
		return fmt.Sprintf("the late response of a call ended by its context (%s) ended the peer's link: %q", how, e)
	default:
	}
	return ""
}
