package main

// C04, "cancelled, past its deadline, …": a call whose OWN context ends by deadline (and, as a control, by
// cancel) while a sibling call with a background context is in flight on the same link.  The ended call returns
// promptly with the zero result and the context's error; the sibling, later calls (before and after the late
// response arrives) and the link itself are unaffected.

import (
	"context"
	"encoding/json"
	"errors"
	"fmt"
	"io"
	"time"

	"github.com/pojntfx/panrpc/go/pkg/rpc"
)

func c04DeadlineScenarios(rep *Report, prop string) {
	for _, api := range apis() {
		// (… and the same two with a context that carries a CAUSE — WithTimeoutCause / WithCancelCause: what the call
		// returns is the context's ERROR all the same)
		for _, how := range []string{"deadline", "cancel", "deadline-cause", "cancel-cause"} {
			for _, dir := range []string{"A->B", "B->A"} {
				rep.Evaluations++
				rep.Distinct++
				d := map[string]any{"suite": "C04-deadline-in-flight", "api": api, "context": how, "dir": dir}
				if msg := c04DeadlineOnce(api, how, dir); msg != "" {
					rep.addViolation("property", prop+":deadline-in-flight:"+api+":"+how, msg, d)
				}
			}
		}
	}
}

func c04DeadlineOnce(api, how, dir string) string {
	p, err := NewPair(jsonRaw(), PairOpts{API: api})
	if err != nil {
		return "setup: " + err.Error()
	}
	defer p.Shutdown()
	rem, _, _ := p.A.AnyRemote()
	callee := p.B
	if dir == "B->A" {
		rem, _, _ = p.B.AnyRemote()
		callee = p.A
	}
	defer callee.Svc.OpenGate(41)
	defer callee.Svc.OpenGate(42)
	parked := func(id string) bool {
		for _, inv := range callee.Svc.Invocations() {
			if inv.Method == "Gate" && inv.Args == id {
				return true
			}
		}
		return false
	}
	sib := make(chan callResult, 1)
	go func() { v, err := rem.Gate(context.Background(), 41); sib <- callResult{true, v, err} }()
	waitFor(func() bool { return parked("41") })
	var ctx context.Context
	var cancel context.CancelFunc
	switch how {
	case "deadline":
		ctx, cancel = context.WithTimeout(context.Background(), 15*time.Millisecond)
	case "deadline-cause":
		ctx, cancel = context.WithTimeoutCause(context.Background(), 15*time.Millisecond, errors.New("user navigated away"))
	case "cancel-cause":
		c, cc := context.WithCancelCause(context.Background())
		ctx, cancel = c, func() { cc(errors.New("user navigated away")) }
		time.AfterFunc(15*time.Millisecond, cancel)
	default:
		ctx, cancel = context.WithCancel(context.Background())
		time.AfterFunc(15*time.Millisecond, cancel)
	}
	defer cancel()
	r := withWatchdog(func() (any, error) { return rem.Gate(ctx, 42) })
	if !r.ok {
		return "a call whose context ended (" + how + ") while its handler was running did not return"
	}
	wantErr := context.Canceled
	if how == "deadline" || how == "deadline-cause" {
		wantErr = context.DeadlineExceeded
	}
	if !errors.Is(r.err, wantErr) || r.val.(int) != 0 {
		return fmt.Sprintf("a call whose context ended (%s) returned (%v, %v); want the zero result and the context's error", how, r.val, r.err)
	}
	// nothing else is affected
	select {
	case e := <-p.A.LinkErr:
		return fmt.Sprintf("a call ended by its own context (%s) ended the link: Link returned %q", how, e)
	case e := <-p.B.LinkErr:
		return fmt.Sprintf("a call ended by its own context (%s) ended the peer's link: Link returned %q", how, e)
	case s := <-sib:
		return fmt.Sprintf("a call ended by its own context (%s) made the sibling call in flight return (%v, %v)", how, s.val, s.err)
	case <-time.After(20 * time.Millisecond):
	}
	if e := withWatchdog(func() (any, error) { return rem.Echo(context.Background(), 3, "later") }); !e.ok || e.err != nil {
		return fmt.Sprintf("after a call ended by its own context (%s) a later call fails: %+v", how, e)
	}
	callee.Svc.OpenGate(42) // the abandoned handler finishes: its late response arrives and is dropped
	callee.Svc.OpenGate(41)
	select {
	case s := <-sib:
		if s.err != nil || s.val.(int) != 41 {
			return fmt.Sprintf("the sibling call in flight while another call was ended by its context (%s) returned (%v, %v), want (41, nil)", how, s.val, s.err)
		}
	case <-time.After(watchdog):
		return "the sibling call never returned after its gate was opened"
	}
	if e := withWatchdog(func() (any, error) { return rem.Echo(context.Background(), 4, "after the late response") }); !e.ok || e.err != nil {
		return fmt.Sprintf("after the late response of a call ended by its context (%s) a later call fails: %+v", how, e)
	}
	select {
	case e := <-p.A.LinkErr:
		return fmt.Sprintf("the late response of a call ended by its context (%s) ended the link: %q", how, e)
	case e := <-p.B.LinkErr:
		return fmt.Sprintf("the late response of a call ended by its context (%s) ended the peer's link: %q", how, e)
	default:
	}
	return ""
}

// c02ExpiredNestedCall (C02): a slow handler's OWN nested call is made with a context that has already expired
// (the handler overran the budget it set itself) while another handler of the same link is stalled and an
// alternating chain is parked behind a gate. Only that nested call fails — with its context's error, handed to the
// handler, which answers normally; the stalled call, the chain and independent calls are untouched and the link stays up.
func c02ExpiredNestedCall(rep *Report, prop, api string) {
	rep.Evaluations++
	rep.Distinct++
	desc := map[string]any{"suite": "C02-expired-nested-call", "api": api}
	p, err := NewPair(jsonRaw(), PairOpts{API: api})
	if err != nil {
		rep.addViolation("property", prop+":expired-nested:setup", "link setup failed: "+err.Error(), desc)
		return
	}
	defer p.Shutdown()
	ra, _, _ := p.A.AnyRemote()
	defer p.B.Svc.OpenGate(51)
	stalled := make(chan callResult, 1)
	go func() { v, err := ra.Gate(context.Background(), 51); stalled <- callResult{true, v, err} }()
	waitFor(func() bool {
		for _, inv := range p.B.Svc.Invocations() {
			if inv.Method == "Gate" && inv.Args == "51" {
				return true
			}
		}
		return false
	})
	// B's handler invokes the closure under a context of its own that expires at once (0 ms): a nested call B->A
	// made with a done context
	ran := 0
	r := withWatchdog(func() (any, error) {
		return ra.TimedClosure(context.Background(), 0, func(ctx context.Context, i int, s string) (string, error) {
			ran++
			return "ran", nil
		})
	})
	if !r.ok {
		rep.addViolation("property", prop+":"+api+":expired-nested:hang", "a call whose handler made a nested call with an expired context did not return", desc)
		return
	}
	if r.err != nil {
		rep.addViolation("property", prop+":"+api+":expired-nested:call", fmt.Sprintf("a handler made a nested call (a closure invocation) with a context of its own that had already expired; the OUTER call — whose handler copes with that and answers — returned (%v, %v)", r.val, r.err), desc)
	}
	select {
	case e := <-p.A.LinkErr:
		rep.addViolation("property", prop+":"+api+":expired-nested:link", fmt.Sprintf("one handler's nested call with an expired context ended the link under a stalled handler: Link returned %q", e), desc)
		return
	case e := <-p.B.LinkErr:
		rep.addViolation("property", prop+":"+api+":expired-nested:link", fmt.Sprintf("one handler's nested call with an expired context ended the link under a stalled handler: Link returned %q", e), desc)
		return
	case s := <-stalled:
		rep.addViolation("property", prop+":"+api+":expired-nested:sibling", fmt.Sprintf("the stalled call returned (%v, %v) when another handler's nested call was made with an expired context", s.val, s.err), desc)
		return
	case <-time.After(20 * time.Millisecond):
	}
	if b := withWatchdog(func() (any, error) { return ra.Bounce(context.Background(), 4) }); !b.ok || b.err != nil {
		rep.addViolation("property", prop+":"+api+":expired-nested:chain", fmt.Sprintf("an alternating chain after that: %+v", b), desc)
	}
	p.B.Svc.OpenGate(51)
	select {
	case s := <-stalled:
		if s.err != nil || s.val.(int) != 51 {
			rep.addViolation("property", prop+":"+api+":expired-nested:sibling", fmt.Sprintf("the stalled call returned (%v, %v) after release, want (51, nil)", s.val, s.err), desc)
		}
	case <-time.After(watchdog):
		rep.addViolation("property", prop+":"+api+":expired-nested:sibling", "the stalled call never returned after release", desc)
	}
}

// c03ClosureRunningAtLinkEnd (C03): the link ends (context cancelled / transport fails) while the peer's handler
// is INSIDE the closure the in-flight call passed — the caller's function is executing on the caller's side and
// does not return (it waits for something of its own). The in-flight call must still error out promptly: its
// deferred release of the closure may not wait for the closure body.
func c03ClosureRunningAtLinkEnd(rep *Report, prop, api, cause string) {
	rep.Evaluations++
	rep.Distinct++
	desc := map[string]any{"suite": "closure-running-at-link-end", "api": api, "cause": cause}
	p, err := NewPair(jsonRaw(), PairOpts{API: api})
	if err != nil {
		rep.addViolation("property", prop+":closure-running:setup", "link setup failed: "+err.Error(), desc)
		return
	}
	defer p.Shutdown()
	ra, _, _ := p.A.AnyRemote()
	entered := make(chan struct{}, 1)
	release := make(chan struct{})
	defer close(release)
	res := make(chan callResult, 1)
	go func() {
		v, err := ra.WithClosure(context.Background(), 1, false, func(ctx context.Context, i int, s string) (string, error) {
			select {
			case entered <- struct{}{}:
			default:
			}
			<-release // busy with something of its own; it only ever got the link's context
			return "late", nil
		})
		res <- callResult{true, v, err}
	}()
	select {
	case <-entered:
	case <-time.After(watchdog):
		rep.addViolation("property", prop+":"+api+":closure-running:never-entered", "the callee never invoked the closure", desc)
		return
	}
	if cause == "cancel" {
		p.A.Cancel()
	} else {
		p.CloseTransport()
	}
	select {
	case r := <-res:
		if r.err == nil {
			rep.addViolation("property", prop+":"+api+":closure-running:nil-error", fmt.Sprintf("the link ended (%s) under a call in flight; the call returned (%v, nil)", cause, r.val), desc)
		}
	case <-time.After(watchdog):
		rep.addViolation("property", prop+":"+api+":closure-running:hang", fmt.Sprintf("the link ended (%s) while the closure passed by a call in flight was executing on the caller's side: the call has not returned — it waits for its own closure body", cause), desc)
	}
}

// c15NestedClosureTeardown (C15): a closure body that itself makes a closure-carrying call over the link (the
// closure table is touched while a closure runs), several rounds on fresh links of the SAME registries, then the
// links end: every call has returned, no registration and no goroutine in panrpc code is left behind.
func c15NestedClosureTeardown(rep *Report, prop, api string) {
	rep.Evaluations++
	rep.Distinct++
	desc := map[string]any{"suite": "nested-closure-then-teardown", "api": api}
	before := len(panrpcGoroutines())
	p, err := NewPair(jsonRaw(), PairOpts{API: api})
	if err != nil {
		rep.addViolation("property", prop+":nested-closure:setup", "link setup failed: "+err.Error(), desc)
		return
	}
	ra, _, _ := p.A.AnyRemote()
	res := make(chan callResult, 1)
	go func() {
		v, err := ra.WithClosure(context.Background(), 1, false, func(ctx context.Context, i int, s string) (string, error) {
			in, err := ra.WithClosure(ctx, 1, false, func(ctx context.Context, i int, s string) (string, error) { return "inner", nil })
			if err != nil {
				return "", err
			}
			return "outer:" + in[0], nil
		})
		res <- callResult{true, v, err}
	}()
	returned := false
	select {
	case r := <-res:
		returned = true
		if r.err != nil || r.val.([]string)[0] != "outer:inner" {
			rep.addViolation("property", prop+":"+api+":nested-closure:result", fmt.Sprintf("a closure body that passes a closure on: got %+v", r), desc)
		}
	case <-time.After(watchdog / 2):
	}
	p.Shutdown()
	if !returned {
		select {
		case <-res:
		case <-time.After(watchdog / 2):
			rep.addViolation("property", prop+":"+api+":nested-closure:call-never-returned", "a call whose closure body makes a closure-carrying call has not returned although its link has ended", desc)
		}
	}
	dl := time.Now().Add(2 * time.Second)
	for len(panrpcGoroutines()) > before && time.Now().Before(dl) {
		time.Sleep(2 * time.Millisecond)
	}
	if left := panrpcGoroutines(); len(left) > before {
		rep.addViolation("property", prop+":"+api+":nested-closure:goroutines", fmt.Sprintf("after the link ended %d goroutine(s) are still inside panrpc code: %s", len(left)-before, topFrames(left[len(left)-1])), desc)
	}
	cnt := withWatchdog(func() (any, error) { return p.A.Reg.VerifClosureCount() + p.B.Reg.VerifClosureCount(), nil })
	if !cnt.ok {
		rep.addViolation("property", prop+":"+api+":nested-closure:lock-held", "after the link ended the closure table's lock is still held by somebody: the registrations cannot even be counted", desc)
	} else if n := cnt.val.(int); n != 0 {
		rep.addViolation("property", prop+":"+api+":nested-closure:registrations", fmt.Sprintf("%d closure registration(s) left after the link ended", n), desc)
	}
}

// c16ManyInFlight (C16): far more calls in flight on one healthy link than any plausible built-in bound (pending
// tables, pools and windows are sized in the hundreds or low thousands): Link keeps blocking, every call completes.
func c16ManyInFlight(rep *Report, prop, api string, n int) {
	rep.Evaluations++
	rep.Distinct++
	desc := map[string]any{"suite": "many-calls-in-flight", "api": api, "calls": n}
	p, err := NewPair(cborRaw(), PairOpts{API: api})
	if err != nil {
		rep.addViolation("property", prop+":many-in-flight:setup", "link setup failed: "+err.Error(), desc)
		return
	}
	defer p.Shutdown()
	ra, _, _ := p.A.AnyRemote()
	defer p.B.Svc.OpenGate(61)
	res := make(chan callResult, n)
	for i := 0; i < n; i++ {
		go func() { v, err := ra.Gate(context.Background(), 61); res <- callResult{true, v, err} }()
	}
	arrived := func() int {
		k := 0
		for _, inv := range p.B.Svc.Invocations() {
			if inv.Method == "Gate" && inv.Args == "61" {
				k++
			}
		}
		return k
	}
	dl := time.Now().Add(watchdog)
	for arrived() < n && time.Now().Before(dl) {
		select {
		case e := <-p.A.LinkErr:
			rep.addViolation("property", prop+":"+api+":many-in-flight:link-returned", fmt.Sprintf("with %d of %d calls in flight on a healthy link (live context, working transport) Link returned %q", arrived(), n, e), desc)
			return
		case e := <-p.B.LinkErr:
			rep.addViolation("property", prop+":"+api+":many-in-flight:link-returned", fmt.Sprintf("with %d of %d calls in flight on a healthy link the peer's Link returned %q", arrived(), n, e), desc)
			return
		case <-time.After(2 * time.Millisecond):
		}
	}
	if k := arrived(); k < n {
		rep.addViolation("property", prop+":"+api+":many-in-flight:stuck", fmt.Sprintf("only %d of %d concurrent calls reached their handlers", k, n), desc)
		return
	}
	p.B.Svc.OpenGate(61)
	for i := 0; i < n; i++ {
		select {
		case r := <-res:
			if r.err != nil || r.val.(int) != 61 {
				rep.addViolation("property", prop+":"+api+":many-in-flight:result", fmt.Sprintf("one of %d concurrent calls returned (%v, %v)", n, r.val, r.err), desc)
				return
			}
		case <-time.After(watchdog):
			rep.addViolation("property", prop+":"+api+":many-in-flight:hang", fmt.Sprintf("%d of %d concurrent calls returned after release", i, n), desc)
			return
		}
	}
	select {
	case e := <-p.A.LinkErr:
		rep.addViolation("property", prop+":"+api+":many-in-flight:link-returned", fmt.Sprintf("Link returned %q on a healthy link after %d concurrent calls", e, n), desc)
	default:
	}
}

// c04LateErrorResponse (C04): a call is ended by its own context while its handler runs; the abandoned handler then
// FAILS — the late response carries an error message, and nobody waits for it. It is dropped like any late response:
// the sibling call in flight, later calls and both links are unaffected.
func c04LateErrorResponse(rep *Report, prop string) {
	for _, api := range apis() {
		for _, dir := range []string{"A->B", "B->A"} {
			rep.Evaluations++
			rep.Distinct++
			d := map[string]any{"suite": "C04-late-error-response", "api": api, "dir": dir}
			if msg := c04LateErrorOnce(api, dir); msg != "" {
				rep.addViolation("property", prop+":late-error-response:"+api, msg, d)
			}
		}
	}
}

func c04LateErrorOnce(api, dir string) string {
	p, err := NewPair(jsonRaw(), PairOpts{API: api})
	if err != nil {
		return "setup: " + err.Error()
	}
	defer p.Shutdown()
	rem, _, _ := p.A.AnyRemote()
	callee := p.B
	if dir == "B->A" {
		rem, _, _ = p.B.AnyRemote()
		callee = p.A
	}
	defer callee.Svc.OpenGate(43)
	defer callee.Svc.OpenGate(44)
	parked := func(method, id string) bool {
		for _, inv := range callee.Svc.Invocations() {
			if inv.Method == method && inv.Args == id {
				return true
			}
		}
		return false
	}
	sib := make(chan callResult, 1)
	go func() { v, err := rem.Gate(context.Background(), 43); sib <- callResult{true, v, err} }()
	waitFor(func() bool { return parked("Gate", "43") })
	ctx, cancel := context.WithCancel(context.Background())
	defer cancel()
	go func() {
		waitFor(func() bool { return parked("GateErr", "44") })
		cancel()
	}()
	r := withWatchdog(func() (any, error) { return rem.GateErr(ctx, 44) })
	if !r.ok {
		return "a call cancelled while its handler was running did not return"
	}
	if !errors.Is(r.err, context.Canceled) {
		return fmt.Sprintf("a call cancelled while its handler was running returned (%v, %v); want the context's error", r.val, r.err)
	}
	callee.Svc.OpenGate(44) // the abandoned handler fails now: an error response nobody waits for
	time.Sleep(30 * time.Millisecond)
	if e := withWatchdog(func() (any, error) { return rem.Echo(context.Background(), 5, "after the late error") }); !e.ok || e.err != nil {
		return fmt.Sprintf("after the late ERROR response of a cancelled call a later call fails: %+v", e)
	}
	callee.Svc.OpenGate(43)
	select {
	case s := <-sib:
		if s.err != nil || s.val.(int) != 43 {
			return fmt.Sprintf("the sibling call in flight when the late ERROR response of a cancelled call arrived returned (%v, %v), want (43, nil)", s.val, s.err)
		}
	case <-time.After(watchdog):
		return "the sibling call never returned after the late ERROR response of a cancelled call"
	}
	select {
	case e := <-p.A.LinkErr:
		return fmt.Sprintf("the late ERROR response of a cancelled call ended the link: Link returned %q", e)
	case e := <-p.B.LinkErr:
		return fmt.Sprintf("the late ERROR response of a cancelled call ended the peer's link: Link returned %q", e)
	default:
	}
	return ""
}

// c16CauseContexts (C16): the link's context carries a CAUSE (context.WithCancelCause / WithTimeoutCause). What Link
// returns on cancellation is the context's ERROR (context.Canceled / context.DeadlineExceeded), as for any context.
func c16CauseContexts(rep *Report, prop string) {
	for _, api := range apis() {
		for _, how := range []string{"cancel-cause", "timeout-cause"} {
			rep.Evaluations++
			rep.Distinct++
			d := map[string]any{"suite": "C16-context-with-cause", "api": api, "context": how}
			opts := PairOpts{API: api, LinkCauseB: errors.New("service is shutting down")}
			want := context.Canceled
			if how == "timeout-cause" {
				opts.LinkDeadlineB = 400 * time.Millisecond
				want = context.DeadlineExceeded
			}
			p, err := NewPair(jsonRaw(), opts)
			if err != nil {
				if how == "timeout-cause" {
					// (a machine so loaded that the link was not up within its own 400 ms: nothing to judge)
					n, _ := rep.Extra["inconclusive_runs"].(int)
					rep.Extra["inconclusive_runs"] = n + 1
					continue
				}
				rep.addViolation("property", prop+":cause-context:setup", "link setup failed: "+err.Error(), d)
				continue
			}
			if how == "cancel-cause" {
				time.Sleep(10 * time.Millisecond) // an idle, healthy link
				p.B.Cancel()
			}
			select {
			case e := <-p.B.LinkErr:
				if !errors.Is(e, want) {
					rep.addViolation("property", prop+":cause-context:"+api+":"+how, fmt.Sprintf("the link's context (%s, cause \"service is shutting down\") ended: Link returned %q, want the context's error %q", how, fmt.Sprint(e), want), d)
				}
			case <-time.After(watchdog):
				rep.addViolation("property", prop+":cause-context:"+api+":"+how+":hang", "Link did not return after its context (with a cause) ended", d)
			}
			p.Shutdown()
		}
	}
}

// c16CancelDuringConnectHook (C16): the link's context is cancelled while the application's OnClientConnect hook
// for this very link is still running (slow hook). Link returns promptly with the context's error — it waits for
// no hook — and the hook is left to finish on its own.
func c16CancelDuringConnectHook(rep *Report, prop string) {
	for _, api := range apis() {
		rep.Evaluations++
		rep.Distinct++
		desc := map[string]any{"suite": "C16-cancel-during-connect-hook", "api": api}
		reg := rpc.NewRegistry[c15StartRemote, json.RawMessage](&c15StartLocal{}, nil)
		ctx, cancel := context.WithCancel(context.Background())
		entered, release := make(chan struct{}), make(chan struct{})
		hooks := &rpc.LinkHooks{OnClientConnect: func(string) { close(entered); <-release }}
		closed := make(chan struct{})
		read := func() (json.RawMessage, error) { <-closed; return nil, io.EOF }
		write := func(json.RawMessage) error { return nil }
		marshal := func(v any) (json.RawMessage, error) { b, err := json.Marshal(v); return b, err }
		unmarshal := func(d json.RawMessage, v any) error { return json.Unmarshal(d, v) }
		done := make(chan error, 1)
		go func() {
			if api == "message" {
				done <- reg.LinkMessage(ctx, write, write, read, read, marshal, unmarshal, hooks)
			} else {
				done <- reg.LinkStream(ctx,
					func(rpc.Message[json.RawMessage]) error { return nil },
					func(*rpc.Message[json.RawMessage]) error { <-closed; return io.EOF },
					marshal, unmarshal, hooks)
			}
		}()
		select {
		case <-entered:
		case <-time.After(watchdog):
			rep.addViolation("property", prop+":cancel-during-hook:"+api+":setup", "the connect hook was never called", desc)
			cancel()
			close(closed)
			close(release)
			continue
		}
		cancel()
		select {
		case err := <-done:
			if !errors.Is(err, context.Canceled) {
				rep.addViolation("property", prop+":cancel-during-hook:"+api, fmt.Sprintf("the link's context was cancelled while the connect hook was running: Link returned %v, want the context's error", err), desc)
			}
		case <-time.After(2 * time.Second):
			rep.addViolation("property", prop+":cancel-during-hook:"+api, "the link's context was cancelled while the application's connect hook for this link was still running: 2 s later Link has not returned (it waits for the hook)", desc)
		}
		close(release)
		close(closed)
		select {
		case <-done:
		case <-time.After(100 * time.Millisecond):
		}
	}
}
