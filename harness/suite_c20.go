package main

// C20: the concurrent workloads of the other suites are re-run under the Go race detector
// (binary built with `go build -race -tags verif`); a report whose stacks contain panrpc
// frames is a concrete violation. The race detector is the dynamic cross-check of the access
// table the Lean lockset theorem is about; it is not the proof.

import (
	"fmt"
	"os"
	"os/exec"
	"path/filepath"
	"strings"
)

func raceBinary() string {
	if p := os.Getenv("VERIF_HARNESS_RACE"); p != "" {
		return p
	}
	return filepath.Join(filepath.Dir(os.Args[0]), "harness-race")
}

// subRace runs one suite in this (race-instrumented) process.
func subRace(suite, tier string, seed int64) {
	rep := &Report{Property: suite, Tier: tier, Seed: seed, Extra: map[string]any{}}
	switch suite {
	case "C01":
		runC01(rep, tier, seed)
	case "C02":
		runC02(rep, tier, seed)
	case "C03":
		runFaultSuite(rep, tier, seed, "C03")
	case "C10":
		runC10(rep, tier, seed)
	case "C11":
		runC11(rep, tier, seed)
	case "C12":
		runC12(rep, tier, seed)
	case "C13":
		runC13(rep, tier, seed)
	case "C14":
		runTeardownSuite(rep, tier, seed, "C14")
	case "C08":
		runC08(rep, tier, seed)
	case "CX":
		// cross-module workloads (rounds 6 and 7 of the seeded changes): concurrently panicking closures (the recover
		// path of utils.Call on many goroutines at once), many concurrent invocations, overlapping closure-carrying
		// calls, error kinds, many links decoding never-seen function names at the same time
		for _, api := range apis() {
			panickingClosures(rep, "C20", api, 16, true)
			closureRendezvous(rep, "C20", api, 24)
			overlappingClosureCalls(rep, "C20", api)
			errKindScenarios(rep, "C20", jsonRaw(), api)
		}
		sharedLinkHooks(rep, "C20")
		for _, m := range manyLinksNewNames(4, 200) {
			rep.addViolation("property", "C20:many-links", m, nil)
		}
		rep.Evaluations++
	}
	fmt.Printf("%d\n", rep.Evaluations)
}

func runC20(rep *Report, tier string, seed int64) {
	rep.Rule = "the workloads of C01 C02 C03 C08 C10 C11 C12 C13 C14/C15 (concurrent calls both ways, nesting, fault enumeration, closures, hub with failing links, teardown matrix incl. hook callbacks and enumeration) re-run in a binary built with -race; " +
		"a data-race report with a panrpc frame in either stack is a violation. distinct = workload executions under the detector"
	bin := raceBinary()
	if _, err := os.Stat(bin); err != nil {
		rep.addViolation("correspondence", "C20:no-race-binary", "race-instrumented harness not built: "+err.Error(), nil)
		return
	}
	dir, _ := os.MkdirTemp("", "verif-race-")
	defer os.RemoveAll(dir)
	suites := []string{"C01", "C02", "C03", "C08", "C10", "C11", "C12", "C13", "C14", "CX"}
	for _, s := range suites {
		logp := filepath.Join(dir, "race-"+s)
		cmd := exec.Command(bin, "-tier", tier, "-seed", fmt.Sprint(seed), "-sub", "race", s)
		cmd.Env = append(os.Environ(), "GORACE=halt_on_error=0 log_path="+logp)
		out, err := cmd.CombinedOutput()
		n := 0
		fmt.Sscanf(strings.TrimSpace(string(out)), "%d", &n)
		rep.Evaluations += n
		rep.Distinct += n
		rep.sample(map[string]any{"suite": s, "executions_under_race_detector": n})
		if err != nil && n == 0 {
			rep.addViolation("correspondence", "C20:run:"+s, fmt.Sprintf("race run of %s failed: %v: %s", s, err, tail(string(out), 400)), nil)
		}
		logs, _ := filepath.Glob(logp + "*")
		for _, lf := range logs {
			b, _ := os.ReadFile(lf)
			for _, blk := range strings.Split(string(b), "==================") {
				if !strings.Contains(blk, "DATA RACE") {
					continue
				}
				if !raceInPanrpc(blk) {
					continue // both accesses happen in harness (application) code: not panrpc's
				}
				// key: the two top panrpc frames
				var frames []string
				for _, l := range strings.Split(blk, "\n") {
					l = strings.TrimSpace(l)
					if strings.HasPrefix(l, "github.com/pojntfx/panrpc/go/pkg/") && len(frames) < 2 {
						frames = append(frames, strings.TrimPrefix(l, "github.com/pojntfx/panrpc/go/pkg/"))
					}
				}
				rep.addViolation("property", "C20:race:"+strings.Join(frames, "|"), "data race inside panrpc during the "+s+" workload: "+strings.Join(frames, " / "),
					map[string]any{"suite": s, "report": tail(blk, 3000), "cmd": "GORACE=halt_on_error=0 bin/harness-race -sub race " + s})
			}
		}
	}
}

func tail(s string, n int) string {
	if len(s) > n {
		return s[len(s)-n:]
	}
	return s
}

// raceInPanrpc: at least one of the two conflicting accesses is performed by panrpc code, i.e.
// scanning its stack from the top a panrpc frame comes before any harness (main.) frame.
func raceInPanrpc(blk string) bool {
	secs := strings.Split(blk, "\n\n")
	hits := 0
	for _, sec := range secs {
		first := strings.TrimSpace(strings.SplitN(sec, "\n", 2)[0])
		isAccess := strings.HasPrefix(first, "Read at") || strings.HasPrefix(first, "Write at") || strings.HasPrefix(first, "Previous read at") || strings.HasPrefix(first, "Previous write at") ||
			strings.HasPrefix(first, "WARNING: DATA RACE")
		if !isAccess {
			continue
		}
		for _, l := range strings.Split(sec, "\n") {
			l = strings.TrimSpace(l)
			if strings.HasPrefix(l, "main.") || strings.Contains(l, ".verifTrace(") || strings.Contains(l, ".verifYield(") || strings.Contains(l, ".SetVerifHooks(") {
				break // harness code or the instrumentation itself
			}
			if strings.HasPrefix(l, "github.com/pojntfx/panrpc/go/pkg/") {
				hits++
				break
			}
		}
	}
	return hits > 0
}
