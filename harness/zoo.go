package main

// The service both peers expose, and the remote definition both peers implement.

import (
	"time"
	"strings"
	"context"
	"errors"
	"fmt"
	"sync"
	"sync/atomic"

	"github.com/pojntfx/panrpc/go/pkg/rpc"
)

type Inner struct {
	N int
	S string
	L []int
}

type All struct {
	A int
	B string
	C []byte
	D []int
	E map[string]int
	F Inner
	G *Inner
	H float64
	I bool
	J []string
	K [][]int
	L *int
}

type Invocation struct {
	Serial   int64
	Side     string
	Method   string
	Args     string
	RemoteID string
}

type Sub struct {
	svc *Svc
	ID  string
}

func (s *Sub) Ping(ctx context.Context, x int) (string, error) {
	s.svc.log(ctx, "Sub.Ping@"+s.ID, fmt.Sprint(x))
	return fmt.Sprintf("%s/%s/%d", s.svc.Name, s.ID, x), nil
}

type Deep struct {
	Leaf *Sub
}

type Svc struct {
	Name string

	mu     sync.Mutex
	Log    []Invocation
	serial int64
	gates  map[int]chan struct{}
	// peerFor returns the remote of the link a handler was called on
	peerFor func(remoteID string) (Remote, bool)

	Sub  *Sub
	Sub2 *Sub
	Deep Deep

	hidden *Sub // unexported: must not be reachable
	notes  []string // what handlers observed (readable after the link is gone)
	OnReturn atomic.Value // func(v int): called by ValCancel just before it returns
	lastAll All
	kept   map[int]func(ctx context.Context, i int, str string) (string, error)
}

func NewSvc(name string) *Svc {
	s := &Svc{Name: name, gates: map[int]chan struct{}{}}
	s.Sub = &Sub{s, "sub"}
	s.Sub2 = &Sub{s, "sub2"}
	s.Deep = Deep{Leaf: &Sub{s, "leaf"}}
	s.hidden = &Sub{s, "hidden"}
	return s
}

func (s *Svc) log(ctx context.Context, method, args string) int64 {
	n := atomic.AddInt64(&s.serial, 1)
	rid := ""
	if v := ctx.Value(rpc.RemoteIDContextKey); v != nil {
		rid, _ = v.(string)
	}
	s.mu.Lock()
	s.Log = append(s.Log, Invocation{n, s.Name, method, args, rid})
	s.mu.Unlock()
	return n
}

func (s *Svc) Invocations() []Invocation {
	s.mu.Lock()
	defer s.mu.Unlock()
	return append([]Invocation(nil), s.Log...)
}

func (s *Svc) gate(id int) chan struct{} {
	s.mu.Lock()
	defer s.mu.Unlock()
	g, ok := s.gates[id]
	if !ok {
		g = make(chan struct{})
		s.gates[id] = g
	}
	return g
}

func (s *Svc) OpenGate(id int) {
	g := s.gate(id)
	select {
	case <-g:
	default:
		close(g)
	}
}

func (s *Svc) peer(ctx context.Context) (Remote, error) {
	rid := rpc.GetRemoteID(ctx)
	r, ok := s.peerFor(rid)
	if !ok {
		return Remote{}, errors.New("no remote for " + rid)
	}
	return r, nil
}

// ---- exposed methods

func (s *Svc) Echo(ctx context.Context, tag int, str string) (string, error) {
	n := s.log(ctx, "Echo", fmt.Sprintf("%d,%s", tag, str))
	return fmt.Sprintf("%s#%d#%d#%s", s.Name, n, tag, str), nil
}

func (s *Svc) Add(ctx context.Context, a, b int64) (int64, error) {
	s.log(ctx, "Add", fmt.Sprintf("%d,%d", a, b))
	return a + b, nil
}

func (s *Svc) Fail(ctx context.Context, msg string) error {
	s.log(ctx, "Fail", msg)
	return errors.New(msg)
}

func (s *Svc) FailVal(ctx context.Context, v int, msg string, fail bool) (int, error) {
	s.log(ctx, "FailVal", fmt.Sprintf("%d,%q,%v", v, msg, fail))
	if fail {
		return v, errors.New(msg)
	}
	return v, nil
}

// ValCancel returns (v, errors.New(msg)) or (v, nil); just before it returns it calls the OnReturn hook (the harness
// abandons the CALLER's context there: the caller gives up exactly while the response travels back). Not logged.
func (s *Svc) ValCancel(ctx context.Context, v int, msg string, fail bool) (int, error) {
	if f, ok := s.OnReturn.Load().(func(int)); ok && f != nil {
		f(v)
	}
	if fail {
		return v, errors.New(msg)
	}
	return v, nil
}

func (s *Svc) Nop(ctx context.Context) error {
	s.log(ctx, "Nop", "")
	return nil
}

func (s *Svc) NoRet(ctx context.Context, x int) {
	s.log(ctx, "NoRet", fmt.Sprint(x))
}

// Gate blocks until the gate is opened (or the handler's context ends).
func (s *Svc) Gate(ctx context.Context, id int) (int, error) {
	s.log(ctx, "Gate", fmt.Sprint(id))
	select {
	case <-s.gate(id):
		return id, nil
	case <-ctx.Done():
		return -1, ctx.Err()
	}
}

// GateErr blocks like Gate — but does NOT watch its context — and then fails: (id, "late failure <id>").
func (s *Svc) GateErr(ctx context.Context, id int) (int, error) {
	s.log(ctx, "GateErr", fmt.Sprint(id))
	<-s.gate(id)
	return id, fmt.Errorf("late failure %d", id)
}

// Bounce alternates direction: depth 0 answers, otherwise it calls the peer's Bounce.
func (s *Svc) Bounce(ctx context.Context, depth int) (int, error) {
	s.log(ctx, "Bounce", fmt.Sprint(depth))
	if depth <= 0 {
		return 0, nil
	}
	p, err := s.peer(ctx)
	if err != nil {
		return -1, err
	}
	v, err := p.Bounce(ctx, depth-1)
	if err != nil {
		return -1, err
	}
	return v + 1, nil
}

// Tree issues two nested calls per level.
func (s *Svc) Tree(ctx context.Context, depth int) (int, error) {
	s.log(ctx, "Tree", fmt.Sprint(depth))
	if depth <= 0 {
		return 1, nil
	}
	p, err := s.peer(ctx)
	if err != nil {
		return -1, err
	}
	var wg sync.WaitGroup
	var a, b int
	var ea, eb error
	wg.Add(2)
	go func() { defer wg.Done(); a, ea = p.Tree(ctx, depth-1) }()
	go func() { defer wg.Done(); b, eb = p.Tree(ctx, depth-1) }()
	wg.Wait()
	if ea != nil {
		return -1, ea
	}
	if eb != nil {
		return -1, eb
	}
	return a + b + 1, nil
}

// Tick invokes a closure that takes nothing but the context n times and sums what it returns.
func (s *Svc) Tick(ctx context.Context, n int, cb func(ctx context.Context) (int, error)) (int, error) {
	s.log(ctx, "Tick", fmt.Sprint(n))
	sum := 0
	for i := 0; i < n; i++ {
		v, err := cb(ctx)
		if err != nil {
			return sum, err
		}
		sum += v
	}
	return sum, nil
}

// ZooErr is a concrete error type: a closure may declare it (a pointer to it) as its error result; its nil
// pointer is "no error".
type ZooErr struct{ Msg string }

func (e *ZooErr) Error() string { return e.Msg }

// ErrClosure invokes cb for i = 0..n-1 and reports each outcome ("nil" or the message).
func (s *Svc) ErrClosure(ctx context.Context, n int, cb func(ctx context.Context, i int) error) (string, error) {
	s.log(ctx, "ErrClosure", fmt.Sprint(n))
	var out []string
	for i := 0; i < n; i++ {
		if err := cb(ctx, i); err != nil {
			out = append(out, err.Error())
		} else {
			out = append(out, "nil")
		}
	}
	return strings.Join(out, "|"), nil
}

// TimedClosure invokes cb once under a context of its own that expires after ms milliseconds and reports
// what the invocation returned and how long it took.
func (s *Svc) TimedClosure(ctx context.Context, ms int, cb func(ctx context.Context, i int, str string) (string, error)) (string, error) {
	s.log(ctx, "TimedClosure", fmt.Sprint(ms))
	c2, cancel := context.WithTimeout(ctx, time.Duration(ms)*time.Millisecond)
	defer cancel()
	t0 := time.Now()
	v, err := cb(c2, 0, "timed")
	return fmt.Sprintf("%s|%v|%d", v, err, time.Since(t0).Milliseconds()), nil
}

// WithClosure invokes cb n times (sequentially or concurrently) and returns what it returned.
func (s *Svc) WithClosure(ctx context.Context, n int, conc bool, cb func(ctx context.Context, i int, str string) (string, error)) ([]string, error) {
	s.log(ctx, "WithClosure", fmt.Sprintf("%d,%v", n, conc))
	out := make([]string, n)
	errs := make([]error, n)
	if conc {
		var wg sync.WaitGroup
		for i := 0; i < n; i++ {
			i := i
			wg.Add(1)
			go func() {
				defer wg.Done()
				out[i], errs[i] = cb(ctx, i, fmt.Sprintf("%s-arg-%d", s.Name, i))
			}()
		}
		wg.Wait()
	} else {
		for i := 0; i < n; i++ {
			out[i], errs[i] = cb(ctx, i, fmt.Sprintf("%s-arg-%d", s.Name, i))
		}
	}
	for i, e := range errs {
		if e != nil {
			out[i] = "ERR:" + e.Error()
		}
	}
	return out, nil
}

// KeepClosure stores the closure and returns; the stored closure is invoked later (C12).
func (s *Svc) KeepClosure(ctx context.Context, slot int, cb func(ctx context.Context, i int, str string) (string, error)) error {
	s.log(ctx, "KeepClosure", fmt.Sprint(slot))
	s.mu.Lock()
	if s.kept == nil {
		s.kept = map[int]func(ctx context.Context, i int, str string) (string, error){}
	}
	s.kept[slot] = cb
	s.mu.Unlock()
	return nil
}

// KeepAndGate stores the closure and then blocks on a gate, so the call stays in flight.
func (s *Svc) KeepAndGate(ctx context.Context, slot int, gate int, cb func(ctx context.Context, i int, str string) (string, error)) error {
	s.log(ctx, "KeepAndGate", fmt.Sprint(slot))
	s.mu.Lock()
	if s.kept == nil {
		s.kept = map[int]func(ctx context.Context, i int, str string) (string, error){}
	}
	s.kept[slot] = cb
	s.mu.Unlock()
	select {
	case <-s.gate(gate):
	case <-ctx.Done():
	}
	return nil
}

// KeepTwo stores both closures (a call may carry several) after invoking each once.
func (s *Svc) KeepTwo(ctx context.Context, slot int, a func(ctx context.Context, i int, str string) (string, error), b func(ctx context.Context, i int, str string) (string, error)) (string, error) {
	s.log(ctx, "KeepTwo", fmt.Sprint(slot))
	ra, ea := a(ctx, 1, "a")
	rb, eb := b(ctx, 2, "b")
	s.mu.Lock()
	if s.kept == nil {
		s.kept = map[int]func(ctx context.Context, i int, str string) (string, error){}
	}
	s.kept[slot] = a
	s.kept[slot+1] = b
	s.mu.Unlock()
	return fmt.Sprintf("%s/%v|%s/%v", ra, ea, rb, eb), nil
}

// GateThenCall waits for the gate and only then invokes the closure it was given.
func (s *Svc) GateThenCall(ctx context.Context, gate int, cb func(ctx context.Context, i int, str string) (string, error)) (string, error) {
	s.log(ctx, "GateThenCall", fmt.Sprint(gate))
	select {
	case <-s.gate(gate):
	case <-ctx.Done():
		return "", ctx.Err()
	}
	return cb(ctx, gate, "after-gate")
}

func (s *Svc) Kept(slot int) func(ctx context.Context, i int, str string) (string, error) {
	s.mu.Lock()
	defer s.mu.Unlock()
	return s.kept[slot]
}

// ClosureTypes invokes cb with the argument tuple number `row` of closureRows (numbers, booleans,
// strings and slices of those; zero, empty and nil values included) and hands back what it returned.
func (s *Svc) ClosureTypes(ctx context.Context, row int, cb func(ctx context.Context, a int, b float64, c bool, d string, e []int, f []string, g uint8, h []float64, i []bool, j int64) (string, error)) (string, error) {
	s.log(ctx, "ClosureTypes", fmt.Sprint(row))
	r := closureRows[row%len(closureRows)]
	return cb(ctx, r.A, r.B, r.C, r.D, r.E, r.F, r.G, r.H, r.I, r.J)
}

// floatRows: narrower numeric types (values that float32 holds only approximately included).
type floatRow struct {
	A float32
	B []float32
	C int8
	D []uint16
	E []int32
}

func (r floatRow) render() string { return fmt.Sprintf("%v|%v|%d|%v|%v", r.A, r.B, r.C, r.D, r.E) }

var floatRows = []floatRow{
	{},
	{A: 0.1, B: []float32{3.14, -0.7, 1e-3}, C: -128, D: []uint16{65535, 0}, E: []int32{-2147483648, 2147483647}},
	{A: 16777216, B: []float32{0.1, 0, -2.5}, C: 127, D: []uint16{}, E: []int32{0}},
	{A: -1e-20, B: []float32{3.4e38}, C: 1, D: []uint16{1}, E: nil},
}

// ClosureFloats invokes cb with row `row` of floatRows and reports the value and error it handed back.
func (s *Svc) ClosureFloats(ctx context.Context, row int, cb func(ctx context.Context, a float32, b []float32, c int8, d []uint16, e []int32) (float32, error)) (string, error) {
	s.log(ctx, "ClosureFloats", fmt.Sprint(row))
	r := floatRows[row%len(floatRows)]
	v, err := cb(ctx, r.A, r.B, r.C, r.D, r.E)
	return fmt.Sprintf("%v|%v", v, err), nil
}

// ClosureOutcome invokes cb once and NOTES what the invocation handed back (the note outlives the link).
func (s *Svc) ClosureOutcome(ctx context.Context, tag int, cb func(ctx context.Context, i int, str string) (string, error)) (string, error) {
	s.log(ctx, "ClosureOutcome", fmt.Sprint(tag))
	v, err := cb(ctx, tag, "outcome")
	note := fmt.Sprintf("%d|%q|%v", tag, v, err)
	s.mu.Lock()
	s.notes = append(s.notes, note)
	s.mu.Unlock()
	return note, nil
}

func (s *Svc) Notes() []string {
	s.mu.Lock()
	defer s.mu.Unlock()
	return append([]string{}, s.notes...)
}

// Narrow invokes cb with numbers that do not fit the NARROWER parameter types the caller's function declares (the
// two sides share names only): what arrives is decided by the closure's declared types, whatever the serializer.
func (s *Svc) Narrow(ctx context.Context, cb func(ctx context.Context, level int, count uint) (string, error)) (string, error) {
	s.log(ctx, "Narrow", "")
	v, err := cb(ctx, 300, 70000)
	return fmt.Sprintf("%s|%v", v, err), nil
}

// ClosureResult invokes cb and reports the value and error it handed back.
func (s *Svc) ClosureResult(ctx context.Context, want int, cb func(ctx context.Context, k int) ([]int, error)) (string, error) {
	s.log(ctx, "ClosureResult", fmt.Sprint(want))
	v, err := cb(ctx, want)
	return fmt.Sprintf("%v|%v", v, err), nil
}

type boomErr struct{ msg *string }

// Error dereferences its receiver's field: it panics for a typed-nil *boomErr and for one without a message.
func (e *boomErr) Error() string { return *e.msg }

// BadErr returns an error value whose Error method panics.
func (s *Svc) BadErr(ctx context.Context, kind int) error {
	s.log(ctx, "BadErr", fmt.Sprint(kind))
	if kind == 0 {
		var e *boomErr // the classic typed-nil error
		return e
	}
	return &boomErr{}
}

// BadErrVal is the two-result variant.
func (s *Svc) BadErrVal(ctx context.Context, kind int) (int, error) {
	s.log(ctx, "BadErrVal", fmt.Sprint(kind))
	if kind == 0 {
		var e *boomErr
		return 1, e
	}
	return 1, &boomErr{}
}

func (s *Svc) Panic(ctx context.Context, msg string) error {
	s.log(ctx, "Panic", msg)
	if msg == "\x00nonerror" {
		panic(42)
	}
	panic(errors.New(msg))
}

func (s *Svc) EchoAll(ctx context.Context, a int, b string, c []byte, d []int, e map[string]int, f Inner, g *Inner, h float64, i bool, j []string, k [][]int, l *int) (All, error) {
	s.log(ctx, "EchoAll", "")
	s.mu.Lock()
	s.lastAll = All{a, b, c, d, e, f, g, h, i, j, k, l}
	s.mu.Unlock()
	if strings.HasPrefix(b, "ERR:") {
		// a value together with an error (partial result): both must reach the caller
		return All{a, b, c, d, e, f, g, h, i, j, k, l}, errors.New(b)
	}
	return All{a, b, c, d, e, f, g, h, i, j, k, l}, nil
}

func (s *Svc) Sum(ctx context.Context, xs []int) (int, error) {
	s.log(ctx, "Sum", fmt.Sprint(xs))
	t := 0
	for _, x := range xs {
		t += x
	}
	return t, nil
}

func (s *Svc) WhoAmI(ctx context.Context) (string, error) {
	s.log(ctx, "WhoAmI", "")
	return s.Name + "|" + rpc.GetRemoteID(ctx), nil
}

// unexported: must never be invocable
func (s *Svc) secret(ctx context.Context) error {
	s.log(ctx, "secret", "")
	return nil
}

var _ = (*Svc).secret

type closureRow struct {
	A int
	B float64
	C bool
	D string
	E []int
	F []string
	G uint8
	H []float64
	I []bool
	J int64
}

func (r closureRow) render() string {
	return fmt.Sprintf("%d|%v|%v|%q|%v|%q|%d|%v|%v|%d", r.A, r.B, r.C, r.D, r.E, r.F, r.G, r.H, r.I, r.J)
}

var closureRows = []closureRow{
	{},
	{A: 1, B: 2, C: true, D: "x", E: []int{1, 2, 3}, F: []string{"a", ""}, G: 255, H: []float64{1, 2.5}, I: []bool{true, false}, J: 1 << 40},
	{A: -7, B: -0.5, C: false, D: "", E: []int{}, F: []string{}, G: 0, H: []float64{}, I: []bool{}, J: -5},
	{A: 0, B: 0, C: false, D: "üñí \"q\" \n", E: nil, F: nil, G: 1, H: nil, I: nil, J: 0},
	{A: 1 << 31, B: 1e9, C: true, D: " lead and trail ", E: []int{0}, F: []string{"", "", "z"}, G: 128, H: []float64{0}, I: []bool{false}, J: -(1 << 50)},
}

type SubRemote struct {
	Ping func(ctx context.Context, x int) (string, error)
}

type DeepRemote struct {
	Leaf SubRemote
}

type Remote struct {
	Echo        func(ctx context.Context, tag int, str string) (string, error)
	Add         func(ctx context.Context, a, b int64) (int64, error)
	Fail        func(ctx context.Context, msg string) error
	FailVal     func(ctx context.Context, v int, msg string, fail bool) (int, error)
	Nop         func(ctx context.Context) error
	NoRet       func(ctx context.Context, x int) error
	Gate        func(ctx context.Context, id int) (int, error)
	Bounce      func(ctx context.Context, depth int) (int, error)
	Tree        func(ctx context.Context, depth int) (int, error)
	WithClosure func(ctx context.Context, n int, conc bool, cb func(ctx context.Context, i int, str string) (string, error)) ([]string, error)
	Tick        func(ctx context.Context, n int, cb func(ctx context.Context) (int, error)) (int, error)
	ErrClosure  func(ctx context.Context, n int, cb func(ctx context.Context, i int) *ZooErr) (string, error)
	TimedClosure func(ctx context.Context, ms int, cb func(ctx context.Context, i int, str string) (string, error)) (string, error)
	KeepClosure func(ctx context.Context, slot int, cb func(ctx context.Context, i int, str string) (string, error)) error
	KeepAndGate func(ctx context.Context, slot int, gate int, cb func(ctx context.Context, i int, str string) (string, error)) error
	KeepTwo      func(ctx context.Context, slot int, a func(ctx context.Context, i int, str string) (string, error), b func(ctx context.Context, i int, str string) (string, error)) (string, error)
	GateThenCall func(ctx context.Context, gate int, cb func(ctx context.Context, i int, str string) (string, error)) (string, error)
	Panic       func(ctx context.Context, msg string) error
	BadErr      func(ctx context.Context, kind int) error
	BadErrVal   func(ctx context.Context, kind int) (int, error)
	KindErr     func(ctx context.Context, kind int) (int, error)
	KindErrOnly func(ctx context.Context, kind int) error
	GateErr     func(ctx context.Context, id int) (int, error)
	KindClosure func(ctx context.Context, kind int, cb func(ctx context.Context, kind int) (int, error), cbe func(ctx context.Context, kind int) error) (string, error)
	RetSlice    func(ctx context.Context, kind int) ([]string, error)
	RetMap      func(ctx context.Context, kind int) (map[string]int, error)
	RetBytes    func(ctx context.Context, kind int) ([]byte, error)
	RetNested   func(ctx context.Context, kind int) ([][]int, error)
	Narrow         func(ctx context.Context, cb func(ctx context.Context, level int8, count uint16) (string, error)) (string, error)
	ValCancel      func(ctx context.Context, v int, msg string, fail bool) (int, error)
	ClosureOutcome func(ctx context.Context, tag int, cb func(ctx context.Context, i int, str string) (string, error)) (string, error)
	ClosureFloats func(ctx context.Context, row int, cb func(ctx context.Context, a float32, b []float32, c int8, d []uint16, e []int32) (float32, error)) (string, error)
	ClosureTypes  func(ctx context.Context, row int, cb func(ctx context.Context, a int, b float64, c bool, d string, e []int, f []string, g uint8, h []float64, i []bool, j int64) (string, error)) (string, error)
	ClosureResult func(ctx context.Context, want int, cb func(ctx context.Context, k int) ([]int, error)) (string, error)
	EchoAll     func(ctx context.Context, a int, b string, c []byte, d []int, e map[string]int, f Inner, g *Inner, h float64, i bool, j []string, k [][]int, l *int) (All, error)
	Sum         func(ctx context.Context, xs []int) (int, error)
	WhoAmI      func(ctx context.Context) (string, error)

	Sub  SubRemote
	Sub2 SubRemote
	Deep DeepRemote

	Label string // non-function field: ignored
}

func (s *Svc) LastAll() All {
	s.mu.Lock()
	defer s.mu.Unlock()
	return s.lastAll
}
