package main

// C13: one registry with k links; identity, routing and isolation.

import (
	"sync/atomic"
	"context"
	"fmt"
	"io"
	"math/rand"
	"strings"
	"sync"
	"time"

	"github.com/pojntfx/panrpc/go/pkg/rpc"
)

type spoke[T any] struct {
	peer    *Side[T]
	hubCtx  context.Context
	hubStop context.CancelFunc
	hubErr  chan error
	qs      [4]*Queue // hubReq hubRes peerReq peerRes
	hubID   string    // id under which the hub enumerates this link
}

func (s *spoke[T]) closeTransport() {
	for _, q := range s.qs {
		q.Close(io.EOF)
	}
}

func c13Workload[T any](rep *Report, codec Codec[T], k int, rng *rand.Rand, failMode string) {
	desc := map[string]any{"suite": "C13", "codec": codec.Name, "links": k, "fail": failMode}
	rec, stopRec := startTraceRec()
	defer stopRec()
	hub := newSide[T]("H")
	spokes := make([]*spoke[T], k)
	linkOne := func(side *Side[T], ctx context.Context, outReq, outRes, inReq, inRes *Queue, errc chan error) {
		reg := side.Reg
		go func() {
			errc <- reg.LinkMessage(ctx,
				func(t T) error { return outReq.Put(codec.Bytes(t)) },
				func(t T) error { return outRes.Put(codec.Bytes(t)) },
				func() (T, error) { b, e := inReq.Get(); var t T; if e == nil { setBytes(any(&t), b) }; return t, e },
				func() (T, error) { b, e := inRes.Get(); var t T; if e == nil { setBytes(any(&t), b) }; return t, e },
				codec.Marshal, codec.Unmarshal, linkHooks(side, true))
		}()
	}
	for i := 0; i < k; i++ {
		s := &spoke[T]{peer: newSide[T](fmt.Sprintf("P%d", i)), hubErr: make(chan error, 1)}
		for j := range s.qs {
			s.qs[j] = NewQueue()
		}
		s.hubCtx, s.hubStop = context.WithCancel(context.Background())
		s.peer.Ctx, s.peer.Cancel = context.WithCancel(context.Background())
		linkOne(hub, s.hubCtx, s.qs[0], s.qs[1], s.qs[2], s.qs[3], s.hubErr)
		linkOne(s.peer, s.peer.Ctx, s.qs[2], s.qs[3], s.qs[0], s.qs[1], s.peer.LinkErr)
		spokes[i] = s
	}
	defer func() {
		for _, s := range spokes {
			s.hubStop()
			s.peer.Cancel()
			s.closeTransport()
		}
	}()
	waitFor(func() bool {
		if len(hub.Remotes()) != k {
			return false
		}
		for _, s := range spokes {
			if len(s.peer.Remotes()) != 1 {
				return false
			}
		}
		return true
	})
	rep.Evaluations++
	rep.Distinct++
	rep.sample(desc)
	key := fmt.Sprintf("C13:%s", failMode)
	// identity: which enumerated id reaches which peer
	idOf := map[string]string{} // peer name -> hub-side id
	for id, rem := range hub.Remotes() {
		r := withWatchdog(func() (any, error) { return rem.WhoAmI(context.Background()) })
		if !r.ok || r.err != nil {
			rep.addViolation("property", key+":whoami", fmt.Sprintf("call through remote %s failed: %+v", id[:8], r), desc)
			return
		}
		name := strings.SplitN(r.val.(string), "|", 2)[0]
		if _, dup := idOf[name]; dup {
			rep.addViolation("property", key+":routing", fmt.Sprintf("two enumerated remotes reach the same peer %s", name), desc)
		}
		idOf[name] = id
	}
	announced := map[string]bool{}
	for _, h := range hub.Hooks() {
		if h.Kind == "reg.connect" {
			announced[h.RemoteID] = true
		}
	}
	for i, s := range spokes {
		name := fmt.Sprintf("P%d", i)
		s.hubID = idOf[name]
		if s.hubID == "" || !announced[s.hubID] {
			rep.addViolation("property", key+":identity", fmt.Sprintf("peer %s: enumerated under %q, announced=%v", name, s.hubID, announced[s.hubID]), desc)
			continue
		}
		pr, _, _ := s.peer.AnyRemote()
		r := withWatchdog(func() (any, error) { return pr.WhoAmI(context.Background()) })
		if !r.ok || r.err != nil {
			rep.addViolation("property", key+":whoami", fmt.Sprintf("call from %s to the hub failed: %+v", name, r), desc)
			continue
		}
		parts := strings.SplitN(r.val.(string), "|", 2)
		if parts[0] != "H" || parts[1] != s.hubID {
			rep.addViolation("property", key+":identity", fmt.Sprintf("the hub's handler for a call from %s read remote id %q from its context; that link is enumerated and was announced as %q", name, parts[1], s.hubID), desc)
		}
	}
	// closure invocations stay on their link: every peer, one after the other, passes a closure to the hub; the
	// hub's handler invokes it — that invocation must reach THAT peer (and run that peer's function)
	for i, s := range spokes {
		name := fmt.Sprintf("P%d", i)
		pr, _, _ := s.peer.AnyRemote()
		var ran int64
		r := withWatchdog(func() (any, error) {
			return pr.WithClosure(context.Background(), 2, false, func(ctx context.Context, k int, str string) (string, error) {
				atomic.AddInt64(&ran, 1)
				return name + ":" + str, nil
			})
		})
		want := []string{name + ":H-arg-0", name + ":H-arg-1"}
		got, _ := r.val.([]string)
		if !r.ok || r.err != nil || len(got) != 2 || got[0] != want[0] || got[1] != want[1] || ran != 2 {
			rep.addViolation("property", key+":closure-routing", fmt.Sprintf("peer %s passed a closure to the hub (the %d-th link to do so), the hub's handler invoked it twice: the handler got %v (err %v), %s's function ran %d time(s); want %v", name, i+1, r.val, r.err, name, ran, want), desc)
			break
		}
	}
	// traffic on all links + one link fails at a random moment
	victim := rng.Intn(k)
	var wg sync.WaitGroup
	type outcome struct {
		link int
		what string
	}
	var mu sync.Mutex
	var bad []outcome
	stop := make(chan struct{})
	hubRemotes := hub.Remotes()
	for i, s := range spokes {
		// (k links were set up at the same time: each one's remote is enumerated under the id its connect hook announced, complete)
		if rem, ok := hubRemotes[s.hubID]; !ok || rem.Gate == nil || rem.Echo == nil || rem.GateThenCall == nil {
			rep.addViolation("property", key+":remote-incomplete", fmt.Sprintf("the hub set up %d links at the same time; the remote enumerated under the id announced for link %d is missing or has nil function fields (enumerated: %v)", k, i, ok), desc)
			close(stop)
			return
		}
	}
	for i, s := range spokes {
		i, s := i, s
		rem := hubRemotes[s.hubID]
		pr, _, _ := s.peer.AnyRemote()
		// a gated call in flight in each direction on every link
		wg.Add(2)
		go func() {
			defer wg.Done()
			v, err := rem.Gate(context.Background(), 500+i)
			if i != victim && (err != nil || v != 500+i) {
				mu.Lock()
				bad = append(bad, outcome{i, fmt.Sprintf("in-flight call hub→P%d: (%v, %v)", i, v, err)})
				mu.Unlock()
			}
		}()
		go func() {
			defer wg.Done()
			v, err := pr.Gate(context.Background(), 600+i)
			if i != victim && (err != nil || v != 600+i) {
				mu.Lock()
				bad = append(bad, outcome{i, fmt.Sprintf("in-flight call P%d→hub: (%v, %v)", i, v, err)})
				mu.Unlock()
			}
		}()
		// a call carrying a closure, in flight on every link; the callee invokes the closure only AFTER the victim's teardown
		wg.Add(1)
		go func() {
			defer wg.Done()
			v, err := rem.GateThenCall(context.Background(), 700+i, func(ctx context.Context, g int, s string) (string, error) {
				return fmt.Sprintf("cb-%d-%s", g, s), nil
			})
			if i != victim && (err != nil || v != fmt.Sprintf("cb-%d-after-gate", 700+i)) {
				mu.Lock()
				bad = append(bad, outcome{i, fmt.Sprintf("closure-carrying call in flight hub→P%d while link %d was torn down: (%q, %v)", i, victim, v, err)})
				mu.Unlock()
			}
		}()
		wg.Add(1)
		go func() {
			defer wg.Done()
			n := 0
			for {
				select {
				case <-stop:
					return
				default:
				}
				r := withWatchdog(func() (any, error) { return rem.Echo(context.Background(), n, fmt.Sprintf("l%d", i)) })
				if i != victim {
					want := fmt.Sprintf("#%d#l%d", n, i)
					if !r.ok || r.err != nil || !strings.HasPrefix(r.val.(string), fmt.Sprintf("P%d#", i)) || !strings.HasSuffix(r.val.(string), want) {
						mu.Lock()
						bad = append(bad, outcome{i, fmt.Sprintf("echo %d on link %d: %+v", n, i, r)})
						mu.Unlock()
						return
					}
				} else if !r.ok {
					mu.Lock()
					bad = append(bad, outcome{i, "a call on the failed link hangs"})
					mu.Unlock()
					return
				} else if r.err != nil {
					return
				}
				n++
			}
		}()
	}
	time.Sleep(time.Duration(1+rng.Intn(3)) * time.Millisecond)
	switch failMode {
	case "cancel":
		spokes[victim].hubStop()
	case "transport":
		spokes[victim].closeTransport()
	case "peer-cancel":
		spokes[victim].peer.Cancel()
	}
	time.Sleep(3 * time.Millisecond)
	// open the gates of the surviving links: their in-flight calls must complete normally
	for i, s := range spokes {
		s.peer.Svc.OpenGate(500 + i)
		hub.Svc.OpenGate(600 + i)
	}
	time.Sleep(3 * time.Millisecond)
	close(stop)
	// tear the victim down completely so that its in-flight calls return
	spokes[victim].hubStop()
	spokes[victim].peer.Cancel()
	spokes[victim].closeTransport()
	// once the victim is gone from the enumeration, the surviving peers invoke the closures they were given
	waitFor(func() bool { return len(hub.Remotes()) == k-1 })
	time.Sleep(2 * time.Millisecond)
	for i, s := range spokes {
		s.peer.Svc.OpenGate(700 + i)
	}
	done := make(chan struct{})
	go func() { wg.Wait(); close(done) }()
	select {
	case <-done:
	case <-time.After(watchdog):
		rep.addViolation("property", key+":hang", "calls did not all return after one link failed", desc)
	}
	for _, b := range bad {
		rep.addViolation("property", fmt.Sprintf("%s:isolation", key), fmt.Sprintf("link %d failed (%s); sibling link %d affected: %s", victim, failMode, b.link, b.what), desc)
	}
	// the survivors are still enumerated, the victim is gone (after its teardown)
	waitFor(func() bool { return len(hub.Remotes()) == k-1 })
	// the hub's life-cycle events so far, replayed on the Lean registry model (k links on one registry)
	lines, want := rgReplay(rec.events(), hub.Hooks())
	validateRg(rep, "C13", []modelCheck{{lines, want}}, []string{fmt.Sprintf("hub k=%d %s", k, failMode)})
	en := hub.Remotes()
	for i, s := range spokes {
		_, ok := en[s.hubID]
		if ok == (i == victim) {
			rep.addViolation("property", key+":enumeration", fmt.Sprintf("after link %d failed: link %d enumerated=%v", victim, i, ok), desc)
		}
	}
	// ---- re-linking: a NEW peer connects to the hub after that failure. Its identifier must be fresh (never
	// announced before, in particular not that of a live link), and every surviving link keeps its identity.
	ns := &spoke[T]{peer: newSide[T]("Pnew"), hubErr: make(chan error, 1)}
	for j := range ns.qs {
		ns.qs[j] = NewQueue()
	}
	// (the hub opens this link from inside a handler serving another, live link and scopes it to that handler's
	// context: the link context already carries that other link's identifier)
	parent := context.Background()
	parentID := ""
	for i, s := range spokes[:k] {
		if i != victim && s.hubID != "" {
			parentID = s.hubID
			parent = context.WithValue(parent, rpc.RemoteIDContextKey, parentID)
			break
		}
	}
	ns.hubCtx, ns.hubStop = context.WithCancel(parent)
	ns.peer.Ctx, ns.peer.Cancel = context.WithCancel(context.Background())
	linkOne(hub, ns.hubCtx, ns.qs[0], ns.qs[1], ns.qs[2], ns.qs[3], ns.hubErr)
	linkOne(ns.peer, ns.peer.Ctx, ns.qs[2], ns.qs[3], ns.qs[0], ns.qs[1], ns.peer.LinkErr)
	spokes = append(spokes, ns) // torn down with the others
	connects := func() []string {
		var ids []string
		for _, h := range hub.Hooks() {
			if h.Kind == "reg.connect" {
				ids = append(ids, h.RemoteID)
			}
		}
		return ids
	}
	waitFor(func() bool { return len(connects()) == k+1 && len(ns.peer.Remotes()) == 1 })
	ids := connects()
	if len(ids) != k+1 {
		rep.addViolation("property", key+":relink", fmt.Sprintf("a new link after the failure produced %d connect notifications in total (want %d)", len(ids), k+1), desc)
		return
	}
	newID := ids[len(ids)-1]
	for _, old := range ids[:len(ids)-1] {
		if old == newID {
			rep.addViolation("property", key+":relink-id-reused", fmt.Sprintf("the link established after link %d failed was announced under the identifier %q, which an earlier link of this registry already carries", victim, newID), desc)
		}
	}
	if pr, _, ok := ns.peer.AnyRemote(); ok {
		r := withWatchdog(func() (any, error) { return pr.WhoAmI(context.Background()) })
		if !r.ok || r.err != nil {
			rep.addViolation("property", key+":relink-whoami", fmt.Sprintf("call from the new peer to the hub failed: %+v", r), desc)
		} else if parts := strings.SplitN(r.val.(string), "|", 2); parts[0] != "H" || parts[1] != newID {
			rep.addViolation("property", key+":relink-identity", fmt.Sprintf("the hub's handler for a call from the new peer read remote id %q from its context; that link was announced as %q (its link context was derived from a handler context of link %q)", parts[1], newID, parentID), desc)
		}
	}
	en = hub.Remotes()
	if len(en) != k {
		rep.addViolation("property", key+":relink-enumeration", fmt.Sprintf("%d live links (one failed, one new), %d enumerated", k, len(en)), desc)
	}
	for i, s := range append(append([]*spoke[T]{}, spokes[:k]...), ns) {
		if i == victim {
			continue
		}
		name, id := fmt.Sprintf("P%d", i), s.hubID
		if s == ns {
			name, id = "Pnew", newID
		}
		rem, ok := en[id]
		if !ok {
			rep.addViolation("property", key+":relink-enumeration", fmt.Sprintf("after a new link connected, live link %s is no longer enumerated under its identifier", name), desc)
			continue
		}
		r := withWatchdog(func() (any, error) { return rem.WhoAmI(context.Background()) })
		if !r.ok || r.err != nil || strings.SplitN(r.val.(string), "|", 2)[0] != name {
			rep.addViolation("property", key+":relink-routing", fmt.Sprintf("after a new link connected, the remote enumerated under %s's identifier reaches %+v", name, r), desc)
		}
	}
}

func runC13(rep *Report, tier string, seed int64) {
	rep.Rule = "hub-and-spoke: one registry linked to k peers with distinct names (message API, 3 serializer configurations); identity: the id a hub handler reads = the id that remote is enumerated under = an announced id; routing: each enumerated remote reaches a different peer; " +
		"isolation: with a gated call in flight in both directions and echo traffic on every link, one random link is failed (context cancelled / transport closed / peer's context cancelled) at a random moment: every sibling call completes normally. distinct = (k, failure mode, codec, seed)"
	rng := rand.New(rand.NewSource(seed))
	ks := []int{2, 4, 8}
	reps := 3
	if tier == "thorough" {
		ks = []int{2, 3, 8, 16, 32}
		reps = 6
	}
	for r := 0; r < reps; r++ {
		for _, k := range ks {
			for _, fm := range []string{"cancel", "transport", "peer-cancel"} {
				switch (r + k) % 3 {
				case 0:
					c13Workload(rep, jsonRaw(), k, rng, fm)
				case 1:
					c13Workload(rep, cborRaw(), k, rng, fm)
				default:
					c13Workload(rep, jsonBytes(), k, rng, fm)
				}
			}
		}
	}
}
