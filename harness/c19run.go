package main

import (
	"fmt"
	"math/rand"
	"sort"
	"strings"
)

// modelLines translates the event trace of one run into M1 actions for the Lean driver.
func (r *bcRun) modelLines() []string {
	idx := func(g string) int {
		var i int
		fmt.Sscanf(g, "%d:", &i)
		return i
	}
	lines := []string{"reset"}
	for _, e := range r.Trace {
		t := idx(e.G)
		o := bcOp{}
		if t < len(r.Ops) {
			o = r.Ops[t]
		}
		switch e.Point {
		case "rcv.refused", "rcv.registered":
			lines = append(lines, fmt.Sprintf("bc receive %d %d %d", t, o.Key, o.Ctx))
		case "rcvf.select":
			lines = append(lines, fmt.Sprintf("bc rcvCall %d", t))
		case "pub.hit", "pub.miss", "pub.refused":
			lines = append(lines, fmt.Sprintf("bc pubStart %d %d %d", t, o.Key, 100+t), fmt.Sprintf("bc pubLookup %d", t))
		case "rcvf.value":
			var v int
			fmt.Sscanf(r.Outcome[e.G], "val:%d", &v)
			lines = append(lines, fmt.Sprintf("bc rcvValue %d %d", t, v-100))
		case "pub.ctx":
			lines = append(lines, fmt.Sprintf("bc pubCtx %d", t))
		case "rcvf.ctx":
			lines = append(lines, fmt.Sprintf("bc rcvCtx %d", t))
		case "rcvf.closed":
			lines = append(lines, fmt.Sprintf("bc rcvChanClosed %d", t))
		case "rcvf.done":
			lines = append(lines, fmt.Sprintf("bc rcvDone %d", t))
		case "free.done":
			lines = append(lines, fmt.Sprintf("bc free %s", e.Key))
		case "close.done":
			lines = append(lines, "bc close")
		case "ctx.cancelled":
			lines = append(lines, fmt.Sprintf("bc cancel %s", e.Key))
		}
	}
	for _, p := range r.Panics {
		if strings.Contains(p, "send on closed channel") {
			var t int
			fmt.Sscanf(p, "%d:", &t)
			lines = append(lines, fmt.Sprintf("bc pubSendClosed %d", t))
			break // the model's crash is absorbing (in the harness the panic is recovered and the run goes on)
		}
	}
	lines = append(lines, "bc state")
	return lines
}

// expectedSummary is what the implementation's final state looks like in the model's terms.
func (r *bcRun) expectedSummary() string {
	// live keys and closed flag from the trace
	live := map[string]bool{}
	closed := false
	for _, e := range r.Trace {
		switch e.Point {
		case "rcv.created":
			live[e.Key] = true
		case "free.done":
			delete(live, e.Key)
		case "close.done":
			live = map[string]bool{}
			closed = true
		}
	}
	keys := []string{}
	for k := range live {
		keys = append(keys, k)
	}
	sort.Strings(keys)
	crashed := false
	for _, p := range r.Panics {
		if strings.Contains(p, "closed channel") {
			crashed = true
		}
	}
	var pubs, rcvs []string
	for i, o := range r.Ops {
		out, fin := r.Outcome[opName(i, o)]
		switch o.Kind {
		case "P":
			started := false
			delivered := false
			for _, e := range r.Trace {
				if e.G == opName(i, o) && strings.HasPrefix(e.Point, "pub.") {
					started = true
					if e.Point == "pub.sent" {
						delivered = true
					}
				}
			}
			if !started {
				continue
			}
			switch {
			case fin && out == "panic", !fin:
				pubs = append(pubs, fmt.Sprintf("%d:holding", i))
			case delivered:
				pubs = append(pubs, fmt.Sprintf("%d:done+", i))
			default:
				pubs = append(pubs, fmt.Sprintf("%d:done-", i))
			}
		case "R":
			reg, inSel := false, false
			for _, e := range r.Trace {
				if e.G == opName(i, o) {
					if e.Point == "rcv.registered" || e.Point == "rcv.refused" {
						reg = true
					}
					if e.Point == "rcvf.select" {
						inSel = true
					}
				}
			}
			if !reg {
				continue
			}
			switch {
			case strings.HasPrefix(out, "refused"):
				rcvs = append(rcvs, fmt.Sprintf("%d:refused", i))
			case strings.HasPrefix(out, "val:"):
				rcvs = append(rcvs, fmt.Sprintf("%d:val%s", i, out[4:]))
			case out == "err:ctx":
				rcvs = append(rcvs, fmt.Sprintf("%d:ctx", i))
			case out == "err:closed":
				rcvs = append(rcvs, fmt.Sprintf("%d:closed", i))
			case inSel:
				rcvs = append(rcvs, fmt.Sprintf("%d:waiting", i))
			default:
				rcvs = append(rcvs, fmt.Sprintf("%d:have", i))
			}
		}
	}
	return fmt.Sprintf("state keys=[%s] closed=%v crashed=%v pubs=[%s] rcvs=[%s]",
		strings.Join(keys, ", "), closed, crashed, strings.Join(pubs, ", "), strings.Join(rcvs, ", "))
}

// nextSchedule advances a DFS over choice vectors; returns nil when exhausted.
func nextSchedule(sched, nch []int) []int {
	for i := len(sched) - 1; i >= 0; i-- {
		if sched[i]+1 < nch[i] {
			out := append([]int(nil), sched[:i]...)
			return append(out, sched[i]+1)
		}
	}
	return nil
}

func bcAlphabet() []bcOp {
	return parseBcOps("R00 R01 R10 P0 P1 F0 F1 C X0")
}

// multisets of size n over the alphabet, as sorted index vectors
func multisets(n, k int) [][]int {
	var out [][]int
	var rec func(start int, cur []int)
	rec = func(start int, cur []int) {
		if len(cur) == n {
			out = append(out, append([]int(nil), cur...))
			return
		}
		for i := start; i < k; i++ {
			rec(i, append(cur, i))
		}
	}
	rec(0, nil)
	return out
}

func runC19(rep *Report, tier string, seed int64, replay string) {
	rep.Rule = "scenario = multiset of ≤N operations {Receive+call, Publish, Free, Close, cancel} on ≤2 keys / 2 contexts, each in its own goroutine; " +
		"every schedule of the goroutines at the yield points (DFS over choice vectors, capped per scenario) is executed on the real Broadcaster; " +
		"distinct = distinct (scenario, event trace) pairs; non-trivial = at least two goroutines interleave (≥2 choices at some step)"
	maxOps, capPer, randomRuns := 3, 60, 200
	if tier == "thorough" {
		maxOps, capPer, randomRuns = 4, 400, 3000
	}
	rng := rand.New(rand.NewSource(seed))
	alpha := bcAlphabet()
	type job struct {
		ops []bcOp
	}
	var jobs []job
	if replay != "" {
		parts := strings.SplitN(replay, "|", 2)
		ops := parseBcOps(parts[0])
		var sched []int
		if len(parts) == 2 {
			for _, f := range strings.Fields(parts[1]) {
				var c int
				fmt.Sscanf(f, "%d", &c)
				sched = append(sched, c)
			}
		}
		for rep_ := 0; rep_ < 16; rep_++ {
			r := runBcSchedule(ops, sched)
			rep.Evaluations++
			judgeBcRun(rep, r, nil)
		}
		return
	}
	// corpus first: shrunk past failures
	for _, c := range []string{"R00 P0 P0", "R00 P0 F0", "R00 P0 C", "R00 P0 X0", "R00 R01 P0 X0",
		// two receivers with different contexts on one key, the first one's context ends, a publish follows, then Close / Free
		"R00 R01 X0 P0 C", "R00 R01 X0 P0 F0", "R00 F0 R01 P0 C",
		// Close / Free are idempotent, with or without a cause
		"R00 C C", "C R00 C", "R00 F0 F0", "R00 R10 C C",
		// three receivers on one key with two contexts; the creator's context ends before the third registers; then Free:
		// EVERY receiver of the key is released, whatever entry it stands on
		"R00 R01 X0 R01 F0", "R00 R01 X0 R01 C", "R00 R01 X0 R01 P0 F0",
		// a key is freed and a key (the same, another) is registered again while a receive function of the freed
		// generation has not been called yet, then a publish: the stale function returns 'closed', never the value
		"R00 F0 R10 P1", "R00 F0 R01 P0", "R00 F0 R10 P1 R10", "R10 F1 R00 P0"} {
		jobs = append(jobs, job{parseBcOps(c)})
	}
	for n := 1; n <= maxOps; n++ {
		for _, ms := range multisets(n, len(alpha)) {
			var ops []bcOp
			hasR := false
			for _, i := range ms {
				ops = append(ops, alpha[i])
				if alpha[i].Kind == "R" {
					hasR = true
				}
			}
			if !hasR && n > 2 {
				continue // without a receiver nothing blocks and nothing is handed over
			}
			jobs = append(jobs, job{ops})
		}
	}
	seen := map[string]bool{}
	var pending []*bcRun
	flush := func() {
		if len(pending) == 0 {
			return
		}
		var lines []string
		var spans [][2]int
		for _, r := range pending {
			ml := r.modelLines()
			// the same actions once more in one line for the mailbox refinement monitor: M1 and the abstract
			// per-key mailbox specification run in lockstep through the abstraction function
			var acts []string
			for _, l := range ml {
				if strings.HasPrefix(l, "bc ") && l != "bc state" && !strings.Contains(l, "pubSendClosed") {
					acts = append(acts, l[3:])
				}
			}
			ml = append(ml, "mb "+strings.Join(acts, " / "))
			spans = append(spans, [2]int{len(lines), len(lines) + len(ml)})
			lines = append(lines, ml...)
		}
		ans, err := runDriver(lines)
		if err != nil {
			rep.addViolation("correspondence", "driver", "Lean driver failed: "+err.Error(), nil)
			pending = nil
			return
		}
		for i, r := range pending {
			judgeBcRun(rep, r, ans[spans[i][0]:spans[i][1]])
		}
		pending = nil
	}
	exhaustive := true
	for _, j := range jobs {
		var sched []int
		n := 0
		for {
			r := runBcSchedule(j.ops, sched)
			rep.Evaluations++
			n++
			key := fmt.Sprint(j.ops) + "|" + fmt.Sprint(r.Trace)
			if !seen[key] {
				seen[key] = true
				nontrivial := false
				for _, c := range r.NChoices {
					if c >= 2 {
						nontrivial = true
					}
				}
				if nontrivial {
					rep.Distinct++
				}
				pending = append(pending, r)
				if len(pending) >= 200 {
					flush()
				}
			}
			sched = nextSchedule(r.Schedule, r.NChoices)
			if sched == nil {
				break
			}
			if n >= capPer {
				exhaustive = false
				break
			}
		}
	}
	// "selects last": in every scenario, the schedule that holds every receiver at the entry of its select (and, as a
	// second run, every publisher at the entry of its) until nothing else can move — stale receive functions and
	// publishers holding an old entry act on whatever the table looks like by then. Repeated: a select with several
	// ready cases flips a coin.
	for _, j := range jobs {
		for _, hold := range []string{"rcvf.select", "pub.select"} {
			for k := 0; k < 3; k++ {
				r := runBcSchedulePolicy(j.ops, nil, hold)
				rep.Evaluations++
				key := fmt.Sprint(j.ops) + "|" + fmt.Sprint(r.Trace)
				if !seen[key] {
					seen[key] = true
					rep.Distinct++
					pending = append(pending, r)
					if len(pending) >= 200 {
						flush()
					}
				} else if len(r.Problems) > 0 {
					judgeBcRun(rep, r, nil)
				}
			}
		}
	}
	// random schedules on larger scenarios
	for i := 0; i < randomRuns; i++ {
		n := 3 + rng.Intn(3)
		var ops []bcOp
		for k := 0; k < n; k++ {
			ops = append(ops, alpha[rng.Intn(len(alpha))])
		}
		var sched []int
		for k := 0; k < 40; k++ {
			sched = append(sched, rng.Intn(4))
		}
		r := runBcSchedule(ops, sched)
		rep.Evaluations++
		key := fmt.Sprint(ops) + "|" + fmt.Sprint(r.Trace)
		if !seen[key] {
			seen[key] = true
			rep.Distinct++
			pending = append(pending, r)
			if len(pending) >= 200 {
				flush()
			}
		}
	}
	flush()
	// stress without the scheduler, in a child process
	rounds := 3000
	if tier == "thorough" {
		rounds = 60000
	}
	if out, _, code := runSelf("-sub", "c19stress", fmt.Sprint(rounds)); true {
		n := 0
		for _, l := range strings.Split(out, "\n") {
			if strings.HasPrefix(l, "BAD ") {
				rep.addViolation("property", "C19:stress:"+l[strings.LastIndex(l, ": ")+2:], l[4:], map[string]any{"cmd": fmt.Sprintf("bin/harness -sub c19stress %d", rounds)})
			}
			fmt.Sscanf(l, "DONE rounds=%d", &n)
		}
		rep.Evaluations += n
		rep.Extra["stress_rounds"] = n
		if code != 0 || n == 0 {
			rep.addViolation("property", "C19:stress:crash", "the stress child died (unrecovered panic or deadlock)", map[string]any{"cmd": fmt.Sprintf("bin/harness -sub c19stress %d", rounds)})
		}
	}
	// Receive on fresh keys racing Close (windows between two critical sections of one operation have no yield point)
	crMs := 800
	if tier == "thorough" {
		crMs = 8000
	}
	if out, _, code := runSelf("-sub", "c19closerace", fmt.Sprint(crMs)); true {
		n := 0
		for _, l := range strings.Split(out, "\n") {
			if strings.HasPrefix(l, "BAD ") {
				rep.addViolation("property", "C19:closerace:"+l[strings.LastIndex(l, ": ")+2:], l[4:], map[string]any{"cmd": fmt.Sprintf("bin/harness -sub c19closerace %d", crMs)})
			}
			fmt.Sscanf(l, "DONE rounds=%d", &n)
		}
		rep.Evaluations += n
		rep.Extra["closerace_rounds"] = n
		if code != 0 || n == 0 {
			rep.addViolation("property", "C19:closerace:crash", "the close-race child died", map[string]any{"cmd": fmt.Sprintf("bin/harness -sub c19closerace %d", crMs)})
		}
	}
	rep.Exhaustive = false
	rep.Extra["schedules_exhaustive_per_scenario"] = exhaustive
	rep.Extra["scenarios"] = len(jobs)
}

func problemKind(p string) string {
	if strings.HasPrefix(p, "panic") {
		return "panic " + p[strings.LastIndex(p, ": ")+2:]
	}
	// drop the operation index so that "2:F0 … is blocked" and "1:F0 … is blocked" are one kind
	if i := strings.Index(p, ":"); i > 0 && i < 3 {
		return p[i+1:]
	}
	return p
}

func judgeBcRun(rep *Report, r *bcRun, ans []string) {
	opsStr := []string{}
	for _, o := range r.Ops {
		opsStr = append(opsStr, o.String())
	}
	sch := []string{}
	for _, c := range r.Schedule {
		sch = append(sch, fmt.Sprint(c))
	}
	replay := map[string]any{
		"cmd":      "./check C19 --replay '" + strings.Join(opsStr, " ") + "|" + strings.Join(sch, " ") + "'",
		"ops":      opsStr,
		"schedule": r.Schedule,
		"trace":    r.Trace,
		"outcomes": r.Outcome,
		"note":     "a Go select with several ready cases picks at random: repeat the schedule (the replay runs it 16 times)",
	}
	rep.sample(map[string]any{"ops": opsStr, "schedule": r.Schedule, "outcomes": r.Outcome, "events": len(r.Trace)})
	if len(r.Problems) > 0 && ans != nil {
		// every oracle failure is re-run in isolation before it is reported: the same scenario and schedule, up to 8 times
		// (a Go select with several ready cases flips a coin, so a genuine failure may need a few repetitions; a hiccup of
		// the settle detection on a loaded machine does not come back)
		confirmed := map[string]bool{}
		for k := 0; k < 8 && len(confirmed) == 0; k++ {
			rr := runBcSchedule(r.Ops, r.Schedule)
			rep.Evaluations++
			for _, p2 := range rr.Problems {
				for _, p1 := range r.Problems {
					if problemKind(p1) == problemKind(p2) {
						confirmed[problemKind(p1)] = true
					}
				}
			}
		}
		var keep []string
		for _, p := range r.Problems {
			if confirmed[problemKind(p)] {
				keep = append(keep, p)
			}
		}
		n, _ := rep.Extra["unconfirmed_oracle_failures"].(int)
		rep.Extra["unconfirmed_oracle_failures"] = n + len(r.Problems) - len(keep)
		r.Problems = keep
	}
	for _, p := range r.Problems {
		// key: the scenario's operation multiset + the kind of problem (not the schedule)
		kind := p
		if i := strings.Index(p, ":"); i > 0 && strings.HasPrefix(p, "panic") {
			kind = "panic " + p[strings.LastIndex(p, ": ")+2:]
		}
		sorted := append([]string(nil), opsStr...)
		sort.Strings(sorted)
		rep.addViolation("property", "C19:"+strings.Join(sorted, ",")+":"+kind, p, replay)
	}
	if ans == nil {
		return
	}
	if r.TimedOut {
		// the settle detection gave up (2 s without a settled process — seen once on a machine running a second full
		// check beside this one) and no repetition of the schedule confirmed a deadlock: the run stopped in the middle,
		// its trace and its outcomes are not two views of one finished run, so it is not compared with the model
		n, _ := rep.Extra["inconclusive_runs"].(int)
		rep.Extra["inconclusive_runs"] = n + 1
		return
	}
	rep.TracesValidated++
	ml := r.modelLines()
	for i, a := range ans {
		if strings.HasPrefix(a, "rejected") || strings.HasPrefix(a, "bad-op") {
			rep.addViolation("correspondence", "C19:model-rejects:"+strings.Join(opsStr, ","), "M1 rejects an implementation step: "+a+" (line "+fmt.Sprint(i)+" of "+fmt.Sprint(ml)+")", replay)
			return
		}
		if strings.HasPrefix(a, "ok") {
			rep.ModelSteps++
		}
	}
	mb := ans[len(ans)-1]
	ans = ans[:len(ans)-1]
	if !strings.HasPrefix(mb, "ok ") && len(r.Panics) == 0 {
		rep.addViolation("correspondence", "C19:mailbox-refinement:"+strings.Join(opsStr, ","), "the run is not a run of the abstract mailbox specification through the abstraction function: "+mb, replay)
	}
	last := ans[len(ans)-1]
	if want := r.expectedSummary(); last != want {
		rep.addViolation("correspondence", "C19:state-mismatch:"+strings.Join(opsStr, ","), "final state differs: model "+last+" / implementation "+want, replay)
	}
}
