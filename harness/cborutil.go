package main

import (
	"bytes"

	"github.com/fxamacker/cbor/v2"
)

type rawCBOR struct{}

// decodeFirst returns the length of the first CBOR data item in b.
func (rawCBOR) decodeFirst(b []byte) (int, error) {
	d := cbor.NewDecoder(bytes.NewReader(b))
	var x cbor.RawMessage
	if err := d.Decode(&x); err != nil {
		return 0, err
	}
	return d.NumBytesRead(), nil
}

func reencodeCBOR(v any) []byte {
	b, _ := cbor.Marshal(v)
	return b
}
