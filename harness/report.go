package main

import (
	"bufio"
	"bytes"
	"encoding/json"
	"fmt"
	"os"
	"os/exec"
	"strings"
)

type Violation struct {
	What   string `json:"what"`             // one line: what failed
	Key    string `json:"key"`              // stable identifier of the failing input / call site / history (matched against known-findings.txt)
	Replay any    `json:"replay"`           // everything needed to run it again
	Kind   string `json:"kind"`             // "property" (the oracle of the property statement) or "correspondence" (model vs implementation)
}

type Report struct {
	Property     string         `json:"property"`
	Tier         string         `json:"tier"`
	Seed         int64          `json:"seed"`
	Evaluations  int            `json:"evaluations"`
	Distinct     int            `json:"distinct_nontrivial"`
	Rule         string         `json:"rule"`
	Samples      []any          `json:"samples"`
	TracesValidated int         `json:"traces_validated_against_impl"`
	ModelSteps   int            `json:"model_steps_validated"`
	Exhaustive   bool           `json:"exhaustive"`
	Violations   []Violation    `json:"violations"`
	Extra        map[string]any `json:"extra"`
}

func (r *Report) addViolation(kind, key, what string, replay any) {
	for _, v := range r.Violations {
		if v.Key == key && v.Kind == kind {
			return // one per key is enough
		}
	}
	r.Violations = append(r.Violations, Violation{What: what, Key: key, Replay: replay, Kind: kind})
}

func (r *Report) sample(x any) {
	if len(r.Samples) < 5 {
		r.Samples = append(r.Samples, x)
	}
}

func (r *Report) write(path string) {
	if r.Extra == nil {
		r.Extra = map[string]any{}
	}
	if r.Samples == nil {
		r.Samples = []any{}
	}
	if r.Violations == nil {
		r.Violations = []Violation{}
	}
	b, _ := json.MarshalIndent(r, "", " ")
	if path == "" || path == "-" {
		fmt.Println(string(b))
		return
	}
	if err := os.WriteFile(path, b, 0o644); err != nil {
		fmt.Fprintln(os.Stderr, "harness: cannot write report:", err)
		os.Exit(2)
	}
}

func driverPath() string {
	if p := os.Getenv("VERIF_DRIVER"); p != "" {
		return p
	}
	return "/verif/lean/.lake/build/bin/driver"
}

// runDriver pipes lines to the Lean driver and returns one answer per non-empty input line.
func runDriver(lines []string) ([]string, error) {
	cmd := exec.Command(driverPath())
	cmd.Stdin = strings.NewReader(strings.Join(lines, "\n") + "\n")
	var out, errb bytes.Buffer
	cmd.Stdout = &out
	cmd.Stderr = &errb
	if err := cmd.Run(); err != nil {
		return nil, fmt.Errorf("driver: %v: %s", err, errb.String())
	}
	var ans []string
	sc := bufio.NewScanner(&out)
	sc.Buffer(make([]byte, 1<<20), 1<<26)
	for sc.Scan() {
		ans = append(ans, sc.Text())
	}
	n := 0
	for _, l := range lines {
		if strings.TrimSpace(l) != "" {
			n++
		}
	}
	if len(ans) != n {
		return ans, fmt.Errorf("driver: %d answers for %d lines", len(ans), n)
	}
	return ans, nil
}
