package main

// Serialises real Go values into the type-table / value s-expressions of the Lean lookup
// model (Driver/Lookup.lean), using reflect only for what reflect itself reports.

import (
	"encoding/hex"
	"fmt"
	"reflect"
	"strings"
)

type lkEncoder struct {
	types []reflect.Type
	index map[reflect.Type]int
	inst  int
}

func newLkEncoder() *lkEncoder { return &lkEncoder{index: map[reflect.Type]int{}} }

func (e *lkEncoder) ty(t reflect.Type) int {
	if i, ok := e.index[t]; ok {
		return i
	}
	i := len(e.types)
	e.index[t] = i
	e.types = append(e.types, t)
	// register referenced types
	switch t.Kind() {
	case reflect.Struct:
		for k := 0; k < t.NumField(); k++ {
			e.ty(t.Field(k).Type)
		}
	case reflect.Ptr:
		e.ty(t.Elem())
	}
	return i
}

func lkName(s string) string {
	if s == "" {
		return "-"
	}
	return hex.EncodeToString([]byte(s))
}

func b01(b bool) string {
	if b {
		return "1"
	}
	return "0"
}

func (e *lkEncoder) methods(t reflect.Type) string {
	var ms []string
	for i := 0; i < t.NumMethod(); i++ {
		m := t.Method(i)
		n := m.Type.NumIn()
		if t.Kind() != reflect.Interface {
			n-- // method expression: first input is the receiver
		}
		ms = append(ms, fmt.Sprintf("(%s %s %d)", lkName(m.Name), b01(m.IsExported()), n))
	}
	return "(" + strings.Join(ms, " ") + ")"
}

func (e *lkEncoder) table() string {
	var ds []string
	for i := 0; i < len(e.types); i++ { // e.types may grow while we iterate
		t := e.types[i]
		switch t.Kind() {
		case reflect.Struct:
			var fs []string
			for k := 0; k < t.NumField(); k++ {
				f := t.Field(k)
				fs = append(fs, fmt.Sprintf("(%s %s %s %d)", lkName(f.Name), b01(f.IsExported()), b01(f.Anonymous), e.ty(f.Type)))
			}
			ds = append(ds, fmt.Sprintf("(s (%s) %s)", strings.Join(fs, " "), e.methods(t)))
		case reflect.Ptr:
			ds = append(ds, fmt.Sprintf("(p %d %s)", e.ty(t.Elem()), e.methods(t)))
		case reflect.Interface:
			ds = append(ds, fmt.Sprintf("(i %s)", e.methods(t)))
		default:
			ds = append(ds, fmt.Sprintf("(o %s %s)", b01(t.Kind() == reflect.Func), e.methods(t)))
		}
	}
	return "(" + strings.Join(ds, " ") + ")"
}

// val encodes a value; depth-limited so that cyclic object graphs (a leaf pointing back to its
// owner) are cut off as nil pointers beyond the depth the paths of the zoo can reach.
func (e *lkEncoder) val(v reflect.Value, depth int) string {
	t := v.Type()
	switch t.Kind() {
	case reflect.Struct:
		e.inst++
		id := e.inst
		var fs []string
		for k := 0; k < v.NumField(); k++ {
			fs = append(fs, e.val(v.Field(k), depth))
		}
		return fmt.Sprintf("(s %d %d (%s))", e.ty(t), id, strings.Join(fs, " "))
	case reflect.Ptr:
		if v.IsNil() || depth <= 0 {
			return fmt.Sprintf("(p %d nil)", e.ty(t))
		}
		return fmt.Sprintf("(p %d %s)", e.ty(t), e.val(v.Elem(), depth-1))
	case reflect.Interface:
		if v.IsNil() || depth <= 0 {
			return fmt.Sprintf("(i %d nil)", e.ty(t))
		}
		return fmt.Sprintf("(i %d %s)", e.ty(t), e.val(v.Elem(), depth-1))
	default:
		e.inst++
		return fmt.Sprintf("(o %d %d)", e.ty(t), e.inst)
	}
}

// lkShape returns the two driver lines describing root.
func lkShape(root any, depth int) (table, rootLine string) {
	e := newLkEncoder()
	if root == nil {
		return "lk table ()", "lk root nil"
	}
	v := reflect.ValueOf(root)
	e.ty(v.Type())
	r := e.val(v, depth)
	return "lk table " + e.table(), "lk root " + r
}
