package main

import (
	"errors"
	"fmt"
	"math/rand"
	"sync"
)

// FaultPlan counts operations per kind and fails the planned one.
type FaultPlan struct {
	Wrap    error // injected errors wrap this (nil: plain errors)
	mu      sync.Mutex
	counts  map[string]int
	failAt  map[string]int    // kind -> 1-based occurrence to fail
	fired   map[string]bool
	Log     []string          // kinds in the order they happened (for fault-point enumeration)
	OnFault func(kind string) // called once when a planned fault fires
	OnEvery func(kind string) // called on every operation
	Record  bool
}

func NewFaultPlan() *FaultPlan {
	return &FaultPlan{counts: map[string]int{}, failAt: map[string]int{}, fired: map[string]bool{}}
}

type injectedError struct {
	kind string
	wrap error // what a transport's own failure may wrap: e.g. context.DeadlineExceeded of a per-read timeout
}

func (e *injectedError) Error() string {
	if e.wrap != nil {
		return "injected fault at " + e.kind + ": " + e.wrap.Error()
	}
	return "injected fault at " + e.kind
}
func (e *injectedError) Unwrap() error { return e.wrap }

func (p *FaultPlan) FailAt(kind string, n int) { p.mu.Lock(); p.failAt[kind] = n; p.mu.Unlock() }

// FailNext fails the next occurrence of kind (atomically with respect to the counter).
func (p *FaultPlan) FailNext(kind string) {
	p.mu.Lock()
	p.failAt[kind] = p.counts[kind] + 1
	delete(p.fired, kind)
	p.mu.Unlock()
}

func (p *FaultPlan) hit(kind string) error {
	if p == nil {
		return nil
	}
	p.mu.Lock()
	p.counts[kind]++
	n := p.counts[kind]
	if p.Record {
		p.Log = append(p.Log, kind)
	}
	want, ok := p.failAt[kind]
	fire := ok && want == n && !p.fired[kind]
	if fire {
		p.fired[kind] = true
	}
	cb := p.OnFault
	ev := p.OnEvery
	p.mu.Unlock()
	if ev != nil {
		ev(kind)
	}
	if fire {
		if cb != nil {
			cb(kind)
		}
		return &injectedError{kind, p.Wrap}
	}
	return nil
}

func (p *FaultPlan) Fired() []string {
	p.mu.Lock()
	defer p.mu.Unlock()
	var out []string
	for k := range p.fired {
		out = append(out, k)
	}
	return out
}

func (p *FaultPlan) Counts() map[string]int {
	p.mu.Lock()
	defer p.mu.Unlock()
	out := map[string]int{}
	for k, v := range p.counts {
		out[k] = v
	}
	return out
}

var errQueueClosed = errors.New("transport closed")

// Queue is one direction of an in-memory message transport. Delivery order is decided by
// Pick (default FIFO); Pick may return -1 to hold everything back for now.
type Queue struct {
	mu     sync.Mutex
	cond   *sync.Cond
	items  [][]byte
	closed error
	Pick   func(items [][]byte) int
	Seen   [][]byte // every frame ever written (C17)
	Gate   bool     // when true nothing is delivered until Release()
	Tap    func(op string, frame []byte) // called under the queue's lock for every put / get (trace validation)
	Drain  bool     // when true frames written before Close are still delivered (a message transport hands over what it has before reporting the error)
}

func NewQueue() *Queue {
	q := &Queue{}
	q.cond = sync.NewCond(&q.mu)
	return q
}

func (q *Queue) Put(b []byte) error {
	q.mu.Lock()
	defer q.mu.Unlock()
	if q.closed != nil {
		return q.closed
	}
	c := append([]byte(nil), b...)
	q.items = append(q.items, c)
	q.Seen = append(q.Seen, c)
	if q.Tap != nil {
		q.Tap("put", c)
	}
	q.cond.Broadcast()
	return nil
}

func (q *Queue) Get() ([]byte, error) {
	q.mu.Lock()
	defer q.mu.Unlock()
	for {
		if q.closed != nil && !(q.Drain && len(q.items) > 0) {
			return nil, q.closed
		}
		if len(q.items) > 0 && !q.Gate {
			i := 0
			if q.Pick != nil {
				i = q.Pick(q.items)
			}
			if i >= 0 && i < len(q.items) {
				b := q.items[i]
				q.items = append(q.items[:i:i], q.items[i+1:]...)
				if q.Tap != nil {
					q.Tap("get", b)
				}
				return b, nil
			}
		}
		q.cond.Wait()
	}
}

func (q *Queue) Close(err error) {
	q.mu.Lock()
	if q.closed == nil {
		if err == nil {
			err = errQueueClosed
		}
		q.closed = err
	}
	q.cond.Broadcast()
	q.mu.Unlock()
}

func (q *Queue) Release() {
	q.mu.Lock()
	q.Gate = false
	q.cond.Broadcast()
	q.mu.Unlock()
}

func (q *Queue) SetGate(g bool) {
	q.mu.Lock()
	q.Gate = g
	q.cond.Broadcast()
	q.mu.Unlock()
}

func (q *Queue) Kick() { q.mu.Lock(); q.cond.Broadcast(); q.mu.Unlock() }

func (q *Queue) Len() int { q.mu.Lock(); defer q.mu.Unlock(); return len(q.items) }

func (q *Queue) Frames() [][]byte {
	q.mu.Lock()
	defer q.mu.Unlock()
	return append([][]byte(nil), q.Seen...)
}

// randomPick delivers pending frames in random order.
func randomPick(rng *rand.Rand, mu *sync.Mutex) func([][]byte) int {
	return func(items [][]byte) int {
		mu.Lock()
		defer mu.Unlock()
		return rng.Intn(len(items))
	}
}

func lifoPick(items [][]byte) int { return len(items) - 1 }

func (e *injectedError) Is(t error) bool { _, ok := t.(*injectedError); return ok }

func kindOf(side, op string) string { return fmt.Sprintf("%s.%s", side, op) }
