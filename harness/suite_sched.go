package main

// C04 / C05 / C16: schedule exploration of the caller side of the real registry at its yield
// points. The peer is a raw script, so responses can be duplicated, delayed or withheld. Runs in
// a child process (a crash of the registry is an exit status).

import (
	"bufio"
	"context"
	"encoding/json"
	"errors"
	"fmt"
	"os"
	"os/exec"
	"strings"
	"sync"
	"time"

	"github.com/pojntfx/panrpc/go/pkg/rpc"
	"github.com/pojntfx/panrpc/go/pkg/utils"
)

type schedScenario struct {
	Name  string
	Calls int      // calls c0..c(n-1) issued by the registry side
	Ops   []string // extra operations: "cancel:<c>", "respond:<c>", "linkcancel", "readerr"
}

var schedScenarios = []schedScenario{
	{"call+response", 1, []string{"respond:0"}},
	{"call+response+cancel", 1, []string{"respond:0", "cancel:0"}},
	{"call+cancel", 1, []string{"cancel:0"}},
	{"call+two-responses", 1, []string{"respond:0", "respond:0"}},
	{"call+two-responses+cancel", 1, []string{"respond:0", "respond:0", "cancel:0"}},
	{"call+response+linkcancel", 1, []string{"respond:0", "linkcancel"}},
	{"call+linkcancel", 1, []string{"linkcancel"}},
	{"two-calls+cancel-one", 2, []string{"respond:0", "respond:1", "cancel:0"}},
	{"two-calls+linkcancel", 2, []string{"respond:1", "linkcancel"}},
	{"call+readerr+newcall", 1, []string{"readerr", "newcall"}},
	{"closure-call+invoke+response+late-invoke", 0, []string{"callcb:0", "invoke:0", "respond:0", "invoke:0"}},
	{"closure-call+invoke+cancel", 0, []string{"callcb:0", "invoke:0", "cancel:0", "invoke:0"}},
}

type schedOutcome struct {
	Schedule []int
	NChoices []int
	Problems []string
	Trace    []Event
}

type echoRemote struct {
	Echo   func(ctx context.Context, tag int, s string) (string, error)
	WithCb func(ctx context.Context, tag int, cb func(ctx context.Context, i int) (int, error)) (string, error)
}

// runSchedOnce executes one schedule of a scenario against a fresh registry.
func runSchedOnce(sc schedScenario, prefix []int) *schedOutcome {
	out := &schedOutcome{}
	codec := jsonRaw()
	reg := rpc.NewRegistry[echoRemote, json.RawMessage](&struct{}{}, nil)
	outReq, outRes, inReq, inRes := NewQueue(), NewQueue(), NewQueue(), NewQueue()
	linkCtx, linkCancel := context.WithCancel(context.Background())
	defer linkCancel()
	linkErr := make(chan error, 1)
	readErr := errors.New("injected read error")
	go func() {
		linkErr <- reg.LinkMessage(linkCtx,
			func(b json.RawMessage) error { return outReq.Put(b) }, func(b json.RawMessage) error { return outRes.Put(b) },
			func() (json.RawMessage, error) { b, e := inReq.Get(); return b, e }, func() (json.RawMessage, error) { b, e := inRes.Get(); return b, e },
			codec.Marshal, codec.Unmarshal, nil)
	}()
	var remote echoRemote
	waitFor(func() bool {
		ok := false
		reg.ForRemotes(func(id string, r echoRemote) error { remote = r; ok = true; return nil })
		return ok
	})
	// the raw peer collects requests; "respond:c" ops answer them
	var pmu sync.Mutex
	reqByTag := map[int]string{} // tag -> call id
	closureByTag := map[int]string{} // tag -> closure id sent as the second argument
	reqSeen := sync.NewCond(&pmu)
	go func() {
		for {
			b, err := outReq.Get()
			if err != nil {
				return
			}
			var req struct {
				Call string            `json:"call"`
				Args []json.RawMessage `json:"args"`
			}
			json.Unmarshal(b, &req)
			tag := -1
			if len(req.Args) > 0 {
				json.Unmarshal(req.Args[0], &tag)
			}
			cid := ""
			if len(req.Args) > 1 {
				json.Unmarshal(req.Args[1], &cid)
			}
			pmu.Lock()
			reqByTag[tag] = req.Call
			closureByTag[tag] = cid
			reqSeen.Broadcast()
			pmu.Unlock()
		}
	}()
	sch := NewSched()
	tracked := map[string]bool{} // call ids of this scenario
	var tmu sync.Mutex
	interesting := map[string]bool{"op.start": true, "call.registered": true, "waiter.start": true, "waiter.send": true, "waiter.sent": true, "call.select": true,
		"resp.frame": true, "pub.select": true, "pub.sent": true, "pub.ctx": true, "rcvf.select": true, "rcvf.value": true, "rcvf.ctx": true, "rcvf.done": true, "rcvf.closed": true,
		"free.enter": true, "close.enter": true, "seterr.enter": true, "seterr.lock": true, "seterr.close": true}
	sch.ParkIf = func(point, key string) bool { return interesting[point] }
	rpc.SetVerifHooks(sch.Trace, sch.Yield)
	utils.SetVerifHooks(sch.Trace, sch.Yield)
	defer func() { rpc.SetVerifHooks(nil, nil); utils.SetVerifHooks(nil, nil) }()
	_ = tracked
	_ = tmu.Lock
	type res struct {
		name string
		val  string
		err  error
	}
	results := make(chan res, 16)
	ctxs := make([]context.Context, sc.Calls+1)
	cancels := make([]context.CancelFunc, sc.Calls+1)
	for i := range ctxs {
		ctxs[i], cancels[i] = context.WithCancel(context.Background())
	}
	sch.Start()
	nOps := 0
	spawn := func(name string, f func()) {
		nOps++
		go func() {
			sch.Name(name)
			defer func() {
				if e := recover(); e != nil {
					results <- res{name: name, err: fmt.Errorf("PANIC: %v", e)}
				}
			}()
			sch.Yield("op.start", name)
			f()
		}()
	}
	for c := 0; c < sc.Calls; c++ {
		c := c
		spawn(fmt.Sprintf("call%d", c), func() {
			v, err := remote.Echo(ctxs[c], c, "x")
			results <- res{fmt.Sprintf("call%d", c), v, err}
		})
	}
	for k, op := range sc.Ops {
		k, op := k, op
		kind, arg, _ := strings.Cut(op, ":")
		var c int
		fmt.Sscan(arg, &c)
		switch kind {
		case "cancel":
			spawn(fmt.Sprintf("cancel%d#%d", c, k), func() {
				sch.Trace("ctx.cancelled", fmt.Sprint(c))
				cancels[c]()
				results <- res{name: "cancel"}
			})
		case "respond":
			spawn(fmt.Sprintf("respond%d#%d", c, k), func() {
				pmu.Lock()
				for reqByTag[c] == "" {
					reqSeen.Wait() // blocks until the request was written: a real blocking operation
				}
				id := reqByTag[c]
				pmu.Unlock()
				b, _ := json.Marshal(map[string]any{"call": id, "value": fmt.Sprintf("peer#%d#x", c), "err": ""})
				sch.Trace("peer.respond", id)
				inRes.Put(b)
				results <- res{name: "respond"}
			})
		case "callcb":
			spawn(fmt.Sprintf("call%d", c), func() {
				v, err := remote.WithCb(ctxs[c], c, func(ctx context.Context, i int) (int, error) { return i + 1, nil })
				results <- res{fmt.Sprintf("call%d", c), v, err}
			})
		case "invoke":
			spawn(fmt.Sprintf("invoke%d#%d", c, k), func() {
				pmu.Lock()
				for reqByTag[c] == "" {
					reqSeen.Wait()
				}
				cid := closureByTag[c]
				pmu.Unlock()
				b, _ := json.Marshal(map[string]any{"call": fmt.Sprintf("inv-%d-%d", c, k), "function": "CallClosure", "args": []any{cid, []any{41}}})
				sch.Trace("peer.invoke", cid)
				inReq.Put(b)
				// the answer: value 42 while the call is in flight, a 'closure does not exist' error afterwards
				ans, err := outRes.Get()
				out := "no-answer"
				if err == nil {
					var r struct {
						Value json.RawMessage `json:"value"`
						Err   string          `json:"err"`
					}
					json.Unmarshal(ans, &r)
					out = string(r.Value) + "|" + r.Err
				}
				results <- res{fmt.Sprintf("invoke#%d", k), out, nil}
			})
		case "linkcancel":
			spawn(fmt.Sprintf("linkcancel#%d", k), func() {
				sch.Trace("link.cancelled", "")
				linkCancel()
				results <- res{name: "linkcancel"}
			})
		case "readerr":
			spawn(fmt.Sprintf("readerr#%d", k), func() {
				sch.Trace("read.fails", "")
				inRes.Close(readErr)
				results <- res{name: "readerr"}
			})
		case "newcall":
			spawn(fmt.Sprintf("newcall#%d", k), func() {
				ctx, cancel := context.WithTimeout(context.Background(), 200*time.Millisecond)
				defer cancel()
				_, err := remote.Echo(ctx, 99, "late")
				results <- res{"newcall", "", err}
			})
		}
	}
	got := map[string]res{}
	collect := func() {
		for {
			select {
			case r := <-results:
				got[r.name] = r
				if r.err != nil && strings.HasPrefix(r.err.Error(), "PANIC") {
					out.Problems = append(out.Problems, r.name+": "+r.err.Error())
				}
			default:
				return
			}
		}
	}
	for step := 0; step < 400; step++ {
		ok, _ := sch.WaitSettled(2 * time.Second)
		if !ok {
			out.Problems = append(out.Problems, "run did not settle")
			break
		}
		collect()
		ps := sch.Parked()
		if len(ps) == 0 {
			break
		}
		c := 0
		if step < len(prefix) {
			c = prefix[step]
		}
		if c >= len(ps) {
			c = len(ps) - 1
		}
		out.Schedule = append(out.Schedule, c)
		out.NChoices = append(out.NChoices, len(ps))
		sch.Release(ps[c])
	}
	collect()
	out.Trace = sch.TraceCopy()
	sch.Stop()
	// ---- oracle
	linkEnded := false
	var linkE error
	select {
	case linkE = <-linkErr:
		linkEnded = true
	default:
	}
	hasOp := func(k string) bool {
		for _, o := range sc.Ops {
			if strings.HasPrefix(o, k) {
				return true
			}
		}
		return false
	}
	for c := 0; c < sc.Calls; c++ {
		name := fmt.Sprintf("call%d", c)
		r, done := got[name]
		cancelled := hasOp(fmt.Sprintf("cancel:%d", c))
		responded := hasOp(fmt.Sprintf("respond:%d", c))
		want := fmt.Sprintf("peer#%d#x", c)
		switch {
		case !done:
			// a call may legitimately still wait: no response, no cancellation, link alive
			if cancelled || responded || hasOp("linkcancel") || hasOp("readerr") {
				out.Problems = append(out.Problems, fmt.Sprintf("%s has not returned although its response was sent / its context cancelled / the link ended", name))
			}
		case r.err == nil && r.val != want:
			out.Problems = append(out.Problems, fmt.Sprintf("%s returned %q with a nil error (want %q)", name, r.val, want))
		case r.err == nil && !responded:
			out.Problems = append(out.Problems, fmt.Sprintf("%s returned success without a response", name))
		case r.err != nil && r.val != "":
			out.Problems = append(out.Problems, fmt.Sprintf("%s returned value %q together with error %v (want the zero value)", name, r.val, r.err))
		case r.err != nil && !cancelled && !hasOp("linkcancel") && !hasOp("readerr"):
			out.Problems = append(out.Problems, fmt.Sprintf("%s failed (%v) although it was neither cancelled nor did the link end", name, r.err))
		case r.err != nil && cancelled && !hasOp("linkcancel") && !hasOp("readerr") && !errors.Is(r.err, context.Canceled):
			out.Problems = append(out.Problems, fmt.Sprintf("%s was cancelled but returned %v instead of the context's error", name, r.err))
		}
	}
	// C12: a closure is invocable until the passing call returns and never afterwards. The lookup is the
	// linearization point: a hit must precede the release of that registration, a miss must follow it.
	freedAt := map[string]int{}
	for i, e := range out.Trace {
		if e.Point == "closure.freed" {
			freedAt[e.Key] = i
		}
	}
	registered := map[string]bool{}
	for i, e := range out.Trace {
		switch e.Point {
		case "closure.registered":
			registered[e.Key] = true
		case "closure.hit":
			if f, ok := freedAt[e.Key]; ok && f < i {
				out.Problems = append(out.Problems, "C12: a closure was found by a look-up AFTER the call that passed it had released it")
			}
		case "closure.miss":
			if f, ok := freedAt[e.Key]; registered[e.Key] && (!ok || f > i) {
				out.Problems = append(out.Problems, "C12: a closure look-up failed although the call that passed it had not released it yet")
			}
		}
	}
	for name, r := range got {
		if strings.HasPrefix(name, "invoke#") && r.val != "42|" && !strings.Contains(r.val, "closure does not exist") {
			out.Problems = append(out.Problems, fmt.Sprintf("C12: a closure invocation was answered with %q (want the function's result or 'closure does not exist')", r.val))
		}
	}
	// C04: a per-call cancellation must leave the link healthy
	if !hasOp("linkcancel") && !hasOp("readerr") {
		if linkEnded {
			out.Problems = append(out.Problems, fmt.Sprintf("the link ended (%v) although only a call was cancelled / answered", linkE))
		} else {
			// follow-up call works (answered by a quick responder)
			done := make(chan struct{})
			go func() {
				defer close(done)
				pmu.Lock()
				for reqByTag[77] == "" {
					reqSeen.Wait()
				}
				id := reqByTag[77]
				pmu.Unlock()
				b, _ := json.Marshal(map[string]any{"call": id, "value": "follow", "err": ""})
				inRes.Put(b)
			}()
			r := withWatchdog(func() (any, error) { return remote.Echo(context.Background(), 77, "f") })
			if !r.ok || r.err != nil || r.val.(string) != "follow" {
				out.Problems = append(out.Problems, fmt.Sprintf("follow-up call after the scenario: %+v", r))
			}
		}
	}
	// C16: the link's error is the first failure
	if hasOp("readerr") || hasOp("linkcancel") {
		if !linkEnded {
			select {
			case linkE = <-linkErr:
				linkEnded = true
			case <-time.After(time.Second):
				out.Problems = append(out.Problems, "C16: Link did not return after the link ended")
			}
		}
		if linkEnded {
			if hasOp("readerr") && !errors.Is(linkE, readErr) {
				out.Problems = append(out.Problems, fmt.Sprintf("C16: Link returned %q, the failure that ended the link is %q", linkE, readErr))
			}
			if hasOp("linkcancel") && !hasOp("readerr") && !errors.Is(linkE, context.Canceled) {
				out.Problems = append(out.Problems, fmt.Sprintf("C16: Link returned %q after its context was cancelled", linkE))
			}
		}
	}
	// cleanup
	linkCancel()
	for _, c := range cancels {
		c()
	}
	for _, q := range []*Queue{outReq, outRes, inReq, inRes} {
		q.Close(nil)
	}
	if !linkEnded {
		// let this run's Link goroutine finish, so that its events do not leak into the next run's trace
		select {
		case <-linkErr:
		case <-time.After(time.Second):
		}
	}
	pmu.Lock()
	reqByTag[77] = "x"
	for c := 0; c < sc.Calls; c++ {
		if reqByTag[c] == "" {
			reqByTag[c] = "x"
		}
	}
	reqSeen.Broadcast()
	pmu.Unlock()
	return out
}

// subSchedLines: debugging aid — run one schedule, print the trace, the model lines and the driver's answers.
func subSchedLines(args []string) {
	var idx int
	fmt.Sscan(args[0], &idx)
	var sched []int
	for _, f := range strings.Fields(strings.ReplaceAll(args[1], ",", " ")) {
		var c int
		fmt.Sscan(f, &c)
		sched = append(sched, c)
	}
	for try := 0; try < 8; try++ {
		o := runSchedOnce(schedScenarios[idx], sched)
		ml := epLines(o.Trace)
		ans, _ := runDriver(ml)
		bad := false
		for _, a := range ans {
			if strings.HasPrefix(a, "rejected") {
				bad = true
			}
		}
		if !bad && try < 7 {
			continue
		}
		for _, e := range o.Trace {
			fmt.Printf("EV %s %s %s\n", e.G, e.Point, e.Key)
		}
		for i, l := range ml {
			a := ""
			if i < len(ans) {
				a = ans[i]
			}
			fmt.Printf("%-40s -> %s\n", l, a)
		}
		return
	}
}

// subSched: child. Explores the schedules of one scenario (DFS, capped) and prints findings.
func subSched(args []string) {
	var idx, capN int
	fmt.Sscan(args[0], &idx)
	fmt.Sscan(args[1], &capN)
	sc := schedScenarios[idx]
	w := bufio.NewWriter(os.Stdout)
	defer w.Flush()
	var sched []int
	if len(args) > 2 && args[2] != "" {
		for _, f := range strings.Fields(strings.ReplaceAll(args[2], ",", " ")) {
			var c int
			fmt.Sscan(f, &c)
			sched = append(sched, c)
		}
	}
	n := 0
	seen := map[string]bool{}
	var modelLines []string
	var modelSpans [][2]int
	var modelScheds []string
	var modelInvokes []string
	defer func() {
		// trace validation: every distinct trace is replayed on the Lean endpoint model M2
		if len(modelLines) == 0 {
			return
		}
		ans, err := runDriver(modelLines)
		if err != nil {
			fmt.Fprintf(w, "MODELBAD driver failed: %v\n", err)
			return
		}
		okRuns, steps := 0, 0
		for i, sp := range modelSpans {
			bad := ""
			for k := sp[0]; k < sp[1]; k++ {
				if strings.HasPrefix(ans[k], "rejected") || strings.HasPrefix(ans[k], "bad-op") {
					bad = fmt.Sprintf("%s (step %d of %d)", ans[k], k-sp[0], sp[1]-sp[0])
					break
				}
				steps++
			}
			if bad == "" && !strings.Contains(ans[sp[1]-1], modelInvokes[i]) {
				bad = fmt.Sprintf("closure look-ups differ: implementation %s, model %s", modelInvokes[i], ans[sp[1]-1])
			}
			if bad != "" {
				// re-run that schedule in isolation before reporting: events of goroutines left over from the
				// previous run of a long exploration can pollute a trace
				var sched []int
				for _, f := range strings.Fields(strings.Trim(modelScheds[i], "[]")) {
					var c int
					fmt.Sscan(f, &c)
					sched = append(sched, c)
				}
				again := ""
				for k := 0; k < 4 && again == ""; k++ {
					time.Sleep(20 * time.Millisecond)
					o2 := runSchedOnce(sc, sched)
					if len(o2.Problems) > 0 {
						continue
					}
					ml := epLines(o2.Trace)
					a2, err := runDriver(ml)
					if err != nil {
						continue
					}
					for j, x := range a2 {
						if strings.HasPrefix(x, "rejected") || strings.HasPrefix(x, "bad-op") {
							again = fmt.Sprintf("%s (step %d of %d)", x, j, len(a2))
							break
						}
					}
					if again == "" && !strings.Contains(a2[len(a2)-1], epExpectInvokes) {
						again = fmt.Sprintf("closure look-ups differ: implementation %s, model %s", epExpectInvokes, a2[len(a2)-1])
					}
				}
				if again != "" {
					fmt.Fprintf(w, "MODELBAD M2 rejects an implementation step: %s | schedule=%s\n", again, modelScheds[i])
				} else {
					fmt.Fprintf(w, "MODELUNCONFIRMED %s | schedule=%s\n", bad, modelScheds[i])
					okRuns++
				}
			} else {
				okRuns++
			}
		}
		fmt.Fprintf(w, "MODEL traces=%d steps=%d\n", okRuns, steps)
	}()
	for {
		fmt.Fprintf(w, "RUN %v\n", sched)
		w.Flush()
		o := runSchedOnce(sc, sched)
		n++
		// canonical trace: call ids renamed by first occurrence
		ren := map[string]string{}
		var kb strings.Builder
		for _, e := range o.Trace {
			k := e.Key
			if len(k) == 36 {
				if _, ok := ren[k]; !ok {
					ren[k] = fmt.Sprintf("id%d", len(ren))
				}
				k = ren[k]
			}
			fmt.Fprintf(&kb, "%s/%s/%s;", e.G, e.Point, k)
		}
		key := kb.String()
		if !seen[key] {
			seen[key] = true
			if len(o.Problems) == 0 && len(modelSpans) < 400 {
				ml := epLines(o.Trace)
				modelInvokes = append(modelInvokes, epExpectInvokes)
				modelSpans = append(modelSpans, [2]int{len(modelLines), len(modelLines) + len(ml)})
				modelLines = append(modelLines, ml...)
				modelScheds = append(modelScheds, fmt.Sprint(o.Schedule))
			}
		}
		if len(o.Problems) > 0 {
			// re-run the same schedule in isolation before reporting (select coin flips: up to 6 repetitions)
			confirmed := false
			for k := 0; k < 6 && !confirmed; k++ {
				o2 := runSchedOnce(sc, o.Schedule)
				for _, p2 := range o2.Problems {
					for _, p1 := range o.Problems {
						if strings.SplitN(p1, " (", 2)[0] == strings.SplitN(p2, " (", 2)[0] {
							confirmed = true
						}
					}
				}
			}
			if !confirmed {
				fmt.Fprintf(w, "UNCONFIRMED %s | schedule=%v\n", o.Problems[0], o.Schedule)
				o.Problems = nil
			}
		}
		for _, p := range o.Problems {
			fmt.Fprintf(w, "BAD %s | schedule=%v\n", p, o.Schedule)
		}
		sched = nextSchedule(o.Schedule, o.NChoices)
		if sched == nil {
			fmt.Fprintf(w, "EXHAUSTED\n")
			break
		}
		if n >= capN {
			break
		}
	}
	fmt.Fprintf(w, "DONE runs=%d distinct=%d\n", n, len(seen))
}

func runSchedSuite(rep *Report, tier string, seed int64, prop string) {
	only := map[string][]int{"C03": {5, 6, 8, 9}, "C16": {5, 6, 8, 9}, "C12": {10, 11}}[prop]
	schedRule := ""
	schedRule = "scenarios {call+response, +cancel, call+cancel, two identical responses (+cancel), response vs link cancellation, two calls with one cancelled, read error followed by a new call on the dead link}: " +
		"the caller, its waiter, the response reader, the publishers, the canceller and a raw scripted peer run under the controlled scheduler, which explores the interleavings at the yield points of the real registry (DFS over choice vectors, capped per scenario), each scenario in a child process. " +
		"Oracle (from the property statements): process alive, every call returns its own response or (zero, ctx error), never both, never blocks once answered/cancelled/ended; a per-call cancellation leaves the link healthy (follow-up call succeeds); Link returns the first failure. distinct = distinct event traces"
	schedRule += " Every distinct trace without findings is replayed on the Lean endpoint model M2 (trace validation)."
	if rep.Rule == "" {
		rep.Rule = schedRule
	} else {
		rep.Rule += " || plus schedule exploration: " + schedRule
	}
	capN := 120
	if tier == "thorough" {
		capN = 2500
	}
	for i, sc := range schedScenarios {
		if only != nil {
			in := false
			for _, k := range only {
				in = in || k == i
			}
			if !in {
				continue
			}
		}
		cmd := exec.Command(os.Args[0], "-sub", "sched", fmt.Sprint(i), fmt.Sprint(capN))
		outB, err := cmd.Output()
		runs, distinct := 0, 0
		lastRun := ""
		for _, l := range strings.Split(string(outB), "\n") {
			switch {
			case strings.HasPrefix(l, "RUN "):
				lastRun = l[4:]
			case strings.HasPrefix(l, "BAD "):
				msg, schedS, _ := strings.Cut(l[4:], " | schedule=")
				isC16 := strings.HasPrefix(msg, "C16:")
				isC12 := strings.HasPrefix(msg, "C12:")
				if prop == "C12" && !isC12 {
					continue
				}
				if (prop == "C16") != isC16 && prop != "C05" && prop != "C12" {
					continue
				}
				if prop == "C03" && !strings.Contains(msg, "has not returned") && !strings.Contains(msg, "returned success without") && !strings.Contains(msg, "nil error") {
					continue // C03 judges only what happens to calls when the link ends
				}
				kind := msg
				for _, d := range "0123456789" {
					kind = strings.ReplaceAll(kind, string(d), "")
				}
				if j := strings.IndexAny(kind, "(\""); j > 0 {
					kind = kind[:j]
				}
				rep.addViolation("property", fmt.Sprintf("%s:%s:%s", prop, sc.Name, strings.TrimSpace(kind)), fmt.Sprintf("scenario %s: %s", sc.Name, msg),
					map[string]any{"suite": "sched", "scenario": sc, "schedule": schedS, "cmd": fmt.Sprintf("bin/harness -sub sched %d 16 '%s'", i, strings.Trim(schedS, "[]"))})
			case strings.HasPrefix(l, "DONE "):
				fmt.Sscanf(l, "DONE runs=%d distinct=%d", &runs, &distinct)
			case strings.HasPrefix(l, "MODEL traces="):
				var t, st int
				fmt.Sscanf(l, "MODEL traces=%d steps=%d", &t, &st)
				rep.TracesValidated += t
				rep.ModelSteps += st
			case strings.HasPrefix(l, "MODELBAD "):
				msg, schedS, _ := strings.Cut(l[9:], " | schedule=")
				rep.addViolation("correspondence", fmt.Sprintf("%s:endpoint-model:%s", prop, sc.Name), fmt.Sprintf("scenario %s: %s", sc.Name, msg),
					map[string]any{"suite": "sched", "scenario": sc, "schedule": schedS, "cmd": fmt.Sprintf("bin/harness -sub sched %d 16 '%s'", i, strings.Trim(schedS, "[]"))})
			}
		}
		rep.Evaluations += runs
		rep.Distinct += distinct
		rep.sample(map[string]any{"scenario": sc.Name, "schedules_run": runs, "distinct_traces": distinct, "exhausted": strings.Contains(string(outB), "EXHAUSTED")})
		if err != nil || !strings.Contains(string(outB), "DONE ") {
			stderr := ""
			if ee, ok := err.(*exec.ExitError); ok {
				stderr = firstLine(string(ee.Stderr))
			}
			rep.addViolation("property", fmt.Sprintf("%s:%s:crash:%s", prop, sc.Name, stderr), fmt.Sprintf("scenario %s: the process died at schedule %s: %s", sc.Name, lastRun, stderr),
				map[string]any{"suite": "sched", "scenario": sc, "schedule": lastRun, "cmd": fmt.Sprintf("bin/harness -sub sched %d 16 '%s'", i, strings.Trim(lastRun, "[]"))})
		}
	}
	// ---- shutdown stress in a child process: many calls in flight (using the link's own context and
	// children of it) when the link context is cancelled / the read side fails; the child must survive
	if prop == "C05" {
		rounds := 400
		if tier == "thorough" {
			rounds = 6000
		}
		cmd := exec.Command(os.Args[0], "-sub", "shutdown", fmt.Sprint(rounds))
		outB, err := cmd.Output()
		n := 0
		for _, l := range strings.Split(string(outB), "\n") {
			if strings.HasPrefix(l, "BAD ") {
				rep.addViolation("property", "C05:shutdown:"+l[4:], "shutdown stress: "+l[4:], map[string]any{"suite": "C05-shutdown", "cmd": fmt.Sprintf("bin/harness -sub shutdown %d", rounds)})
			}
			fmt.Sscanf(l, "DONE rounds=%d", &n)
		}
		rep.Evaluations += n
		rep.Extra["shutdown_stress_rounds"] = n
		if err != nil || !strings.Contains(string(outB), "DONE ") {
			stderr := ""
			if ee, ok := err.(*exec.ExitError); ok {
				stderr = firstLine(string(ee.Stderr))
			}
			rep.addViolation("property", "C05:shutdown:crash:"+stderr, "shutdown stress: the process died while a link with calls in flight was shut down: "+stderr,
				map[string]any{"suite": "C05-shutdown", "cmd": fmt.Sprintf("bin/harness -sub shutdown %d", rounds)})
		}
	}
	// ---- frames that arrive on a stream link after it ended (every word over {request, response} up to a
	// length, ended by EOF / a decode error), in a child process
	if prop == "C05" {
		n := 3
		if tier == "thorough" {
			n = 6
		}
		out, se, code := runSelf("-sub", "lateframes", fmt.Sprint(n))
		last := ""
		for _, l := range strings.Split(out, "\n") {
			if strings.HasPrefix(l, "SEQ ") {
				last = l[4:]
				rep.Evaluations++
			}
			if strings.HasPrefix(l, "BAD ") {
				rep.addViolation("property", "C05:lateframes:"+l[4:], "late frames on an ended stream link: "+l[4:], map[string]any{"suite": "C05-lateframes", "cmd": fmt.Sprintf("bin/harness -sub lateframes %d", n)})
			}
		}
		if code != 0 || !strings.Contains(out, "DONE ") {
			rep.addViolation("property", "C05:lateframes:crash", fmt.Sprintf("the process died when frames arrived on a stream link after it had ended (link ended by: %s): %s", last, firstLine(se)),
				map[string]any{"suite": "C05-lateframes", "sequence": last, "cmd": fmt.Sprintf("bin/harness -sub lateframes %d", n)})
		}
	}
	// ---- panics raised by application code, each in its own child process
	if prop == "C05" {
		for _, kind := range []string{"handler-panic", "handler-panic-nonerror", "closure-panic", "error-method-panics", "typed-nil-error", "error-method-panics-2", "typed-nil-error-2"} {
			rep.Evaluations++
			out, se, code := runSelf("-sub", "userpanic", kind)
			if code != 0 || !strings.Contains(out, "DONE") {
				rep.addViolation("property", "C05:userpanic:"+kind+":crash", fmt.Sprintf("application code panicked (%s) and the process died instead of the panic surfacing as an error: %s", kind, firstLine(se)),
					map[string]any{"suite": "C05-userpanic", "cmd": "bin/harness -sub userpanic " + kind})
				continue
			}
			for _, l := range strings.Split(out, "\n") {
				if strings.HasPrefix(l, "BAD ") {
					rep.addViolation("property", "C05:userpanic:"+kind, l[4:], map[string]any{"suite": "C05-userpanic", "cmd": "bin/harness -sub userpanic " + kind})
				}
			}
		}
	}
	_ = seed
}

// subUserPanic: child. Application code panics in one of several places; the process must survive and
// the panic must surface as an error of the call or of the link.
func subUserPanic(args []string) {
	kind := args[0]
	p, err := NewPair(jsonRaw(), PairOpts{API: "message"})
	if err != nil {
		fmt.Println("BAD setup:", err)
		return
	}
	ra, _, _ := p.A.AnyRemote()
	ctx := context.Background()
	var r callResult
	switch kind {
	case "handler-panic":
		r = withWatchdog(func() (any, error) { return nil, ra.Panic(ctx, "boom") })
	case "handler-panic-nonerror":
		r = withWatchdog(func() (any, error) { return nil, ra.Panic(ctx, "\x00nonerror") })
	case "closure-panic":
		r = withWatchdog(func() (any, error) {
			return ra.WithClosure(ctx, 1, false, func(ctx context.Context, i int, s string) (string, error) { panic(errors.New("closure boom")) })
		})
		if r.ok && r.err == nil {
			if out := r.val.([]string); len(out) != 1 || out[0] != "ERR:closure boom" {
				fmt.Printf("BAD a panicking closure handed %v back to the invoking handler (want an error result)\n", out)
			}
			fmt.Println("DONE")
			return
		}
	case "error-method-panics":
		r = withWatchdog(func() (any, error) { return nil, ra.BadErr(ctx, 1) })
	case "typed-nil-error":
		r = withWatchdog(func() (any, error) { return nil, ra.BadErr(ctx, 0) })
	case "error-method-panics-2":
		r = withWatchdog(func() (any, error) { return ra.BadErrVal(ctx, 1) })
	case "typed-nil-error-2":
		r = withWatchdog(func() (any, error) { return ra.BadErrVal(ctx, 0) })
	}
	// a handler panic is fatal for the link by design: the call must come back with an error (after the application
	// tears the link down) or the link must report an error; a nil error with no link error is a swallowed panic
	linkErr := error(nil)
	select {
	case linkErr = <-p.B.LinkErr:
	case linkErr = <-p.A.LinkErr:
	case <-time.After(500 * time.Millisecond):
	}
	p.Shutdown()
	if r.ok && r.err == nil && linkErr == nil {
		fmt.Printf("BAD application code panicked (%s) but neither the call nor the link reported an error\n", kind)
	}
	fmt.Println("DONE")
}

// subShutdown: child. Each round: 48 calls in flight against a peer that never answers (contexts: the
// link's own, a child of it, and independent ones that are cancelled concurrently), then the link is
// shut down by cancelling its context or failing its reads. A crash is the child's exit status.
func subShutdown(args []string) {
	rounds := 100
	fmt.Sscan(args[0], &rounds)
	w := bufio.NewWriter(os.Stdout)
	defer w.Flush()
	codec := jsonRaw()
	for r := 0; r < rounds; r++ {
		reg := rpc.NewRegistry[echoRemote, json.RawMessage](&struct{}{}, nil)
		outReq, outRes, inReq, inRes := NewQueue(), NewQueue(), NewQueue(), NewQueue()
		linkCtx, linkCancel := context.WithCancel(context.Background())
		linkErr := make(chan error, 1)
		go func() {
			linkErr <- reg.LinkMessage(linkCtx,
				func(b json.RawMessage) error { return outReq.Put(b) }, func(b json.RawMessage) error { return outRes.Put(b) },
				func() (json.RawMessage, error) { b, e := inReq.Get(); return b, e }, func() (json.RawMessage, error) { b, e := inRes.Get(); return b, e },
				codec.Marshal, codec.Unmarshal, nil)
		}()
		var remote echoRemote
		waitFor(func() bool {
			ok := false
			reg.ForRemotes(func(id string, rm echoRemote) error { remote = rm; ok = true; return nil })
			return ok
		})
		const n = 48
		var wg sync.WaitGroup
		cancels := make([]context.CancelFunc, 0, n)
		for c := 0; c < n; c++ {
			var ctx context.Context
			switch c % 3 {
			case 0:
				ctx = linkCtx
			case 1:
				cctx, cancel := context.WithCancel(linkCtx)
				ctx = cctx
				cancels = append(cancels, cancel)
			default:
				cctx, cancel := context.WithCancel(context.Background())
				ctx = cctx
				cancels = append(cancels, cancel)
			}
			wg.Add(1)
			go func() {
				defer wg.Done()
				remote.Echo(ctx, c, "x")
			}()
		}
		// wait until the requests are out
		waitFor(func() bool { return outReq.Len() >= n })
		go func() {
			for _, c := range cancels {
				c()
			}
		}()
		if r%2 == 0 {
			linkCancel()
		} else {
			inRes.Close(errors.New("read fails"))
		}
		done := make(chan struct{})
		go func() { wg.Wait(); close(done) }()
		select {
		case <-done:
		case <-time.After(watchdog):
			fmt.Fprintf(w, "BAD calls in flight did not all return after the link was shut down (round %d)\n", r)
			w.Flush()
		}
		select {
		case <-linkErr:
		case <-time.After(watchdog):
			fmt.Fprintf(w, "BAD Link did not return (round %d)\n", r)
		}
		linkCancel()
		for _, q := range []*Queue{outReq, outRes, inReq, inRes} {
			q.Close(nil)
		}
	}
	fmt.Fprintf(w, "DONE rounds=%d\n", rounds)
}
