package main

// Two registries linked to each other through harness-controlled transports.

import (
	"sync/atomic"
	"context"
	"errors"
	"io"
	"sync"
	"time"

	"github.com/pojntfx/panrpc/go/pkg/rpc"
)

type HookEvent struct {
	Kind     string // reg.connect reg.disconnect link.connect link.disconnect
	RemoteID string
	ReadsOpen int // transport reads of this side that had been called and had not returned when the notification came (message API)
}

type Side[T any] struct {
	Name    string
	Svc     *Svc
	Reg     *rpc.Registry[Remote, T]
	Ctx     context.Context
	Cancel  context.CancelFunc
	LinkErr chan error // receives Link's return value

	readsOpen int64 // atomic
	mu      sync.Mutex
	hooks   []HookEvent
	connect chan string
}

func (s *Side[T]) hook(kind, id string) {
	s.mu.Lock()
	s.hooks = append(s.hooks, HookEvent{kind, id, int(atomic.LoadInt64(&s.readsOpen))})
	s.mu.Unlock()
	if kind == "reg.connect" {
		select {
		case s.connect <- id:
		default:
		}
	}
}

func (s *Side[T]) Hooks() []HookEvent {
	s.mu.Lock()
	defer s.mu.Unlock()
	return append([]HookEvent(nil), s.hooks...)
}

// Remotes returns a snapshot of the enumeration.
func (s *Side[T]) Remotes() map[string]Remote {
	out := map[string]Remote{}
	_ = s.Reg.ForRemotes(func(id string, r Remote) error {
		out[id] = r
		return nil
	})
	return out
}

func (s *Side[T]) AnyRemote() (Remote, string, bool) {
	for id, r := range s.Remotes() {
		return r, id, true
	}
	return Remote{}, "", false
}

func newSide[T any](name string) *Side[T] {
	s := &Side[T]{Name: name, Svc: NewSvc(name), LinkErr: make(chan error, 4), connect: make(chan string, 16)}
	s.Reg = rpc.NewRegistry[Remote, T](s.Svc, &rpc.RegistryHooks{
		OnClientConnect:    func(id string) { s.hook("reg.connect", id) },
		OnClientDisconnect: func(id string) { s.hook("reg.disconnect", id) },
	})
	s.Svc.peerFor = func(rid string) (Remote, bool) {
		r, ok := s.Remotes()[rid]
		return r, ok
	}
	return s
}

type PairOpts struct {
	API      string // "message" | "stream"
	Plan     *FaultPlan
	PickAB   func([][]byte) int // delivery order for frames A→B (message API)
	PickBA   func([][]byte) int
	Chunk    func(n int) int // stream API: chunk size chooser for writes (nil = whole)
	NoLinkHooks bool
	LinkDeadlineB time.Duration // > 0: side B's link context ends by DEADLINE after this long (instead of living until cancelled)
	LinkCauseB    error         // non-nil: side B's link context carries this CAUSE (WithCancelCause, or WithTimeoutCause together with LinkDeadlineB)
}

type Pair[T any] struct {
	A, B  *Side[T]
	Codec Codec[T]
	Opts  PairOpts
	// message API: queues named by sender and kind
	AReq, ARes, BReq, BRes *Queue
	// stream API
	pipes   []io.Closer
	StreamA, StreamB *tee // bytes written by A / by B
	wg      sync.WaitGroup
}

type tee struct {
	mu  sync.Mutex
	buf []byte
}

func (t *tee) add(b []byte) { t.mu.Lock(); t.buf = append(t.buf, b...); t.mu.Unlock() }
func (t *tee) Bytes() []byte { t.mu.Lock(); defer t.mu.Unlock(); return append([]byte(nil), t.buf...) }

type chunkWriter struct {
	w     io.Writer
	chunk func(n int) int
	tee   *tee
	plan  *FaultPlan
	kind  string
}

func (c *chunkWriter) Write(b []byte) (int, error) {
	c.tee.add(b)
	total := 0
	for len(b) > 0 {
		n := len(b)
		if c.chunk != nil {
			if k := c.chunk(n); k > 0 && k < n {
				n = k
			}
		}
		m, err := c.w.Write(b[:n])
		total += m
		if err != nil {
			return total, err
		}
		b = b[n:]
	}
	return total, nil
}

func linkHooks[T any](s *Side[T], on bool) *rpc.LinkHooks {
	if !on {
		return nil
	}
	return &rpc.LinkHooks{
		OnClientConnect:    func(id string) { s.hook("link.connect", id) },
		OnClientDisconnect: func(id string) { s.hook("link.disconnect", id) },
	}
}

// NewPair links A and B and waits until both sides announced their remote.
func NewPair[T any](codec Codec[T], opts PairOpts) (*Pair[T], error) {
	p := &Pair[T]{A: newSide[T]("A"), B: newSide[T]("B"), Codec: codec, Opts: opts}
	if err := p.link(p.A, p.B); err != nil {
		return nil, err
	}
	return p, nil
}

func (p *Pair[T]) wrapCodec(side string) (func(v any) (T, error), func(data T, v any) error) {
	plan := p.Opts.Plan
	m := func(v any) (T, error) {
		if err := plan.hit(kindOf(side, "marshal")); err != nil {
			return *new(T), err
		}
		return p.Codec.Marshal(v)
	}
	u := func(data T, v any) error {
		if err := plan.hit(kindOf(side, "unmarshal")); err != nil {
			return err
		}
		return p.Codec.Unmarshal(data, v)
	}
	return m, u
}

func (p *Pair[T]) link(a, b *Side[T]) error {
	a.Ctx, a.Cancel = context.WithCancel(context.Background())
	b.Ctx, b.Cancel = context.WithCancel(context.Background())
	if p.Opts.LinkDeadlineB > 0 {
		b.Ctx, b.Cancel = context.WithTimeout(context.Background(), p.Opts.LinkDeadlineB)
	}
	if cause := p.Opts.LinkCauseB; cause != nil {
		if p.Opts.LinkDeadlineB > 0 {
			b.Ctx, b.Cancel = context.WithTimeoutCause(context.Background(), p.Opts.LinkDeadlineB, cause)
		} else {
			c, cancel := context.WithCancelCause(context.Background())
			b.Ctx, b.Cancel = c, func() { cancel(cause) }
		}
	}
	plan := p.Opts.Plan
	switch p.Opts.API {
	case "message":
		p.AReq, p.ARes, p.BReq, p.BRes = NewQueue(), NewQueue(), NewQueue(), NewQueue()
		p.AReq.Pick, p.ARes.Pick = p.Opts.PickAB, p.Opts.PickAB
		p.BReq.Pick, p.BRes.Pick = p.Opts.PickBA, p.Opts.PickBA
		start := func(s *Side[T], outReq, outRes, inReq, inRes *Queue) {
			m, u := p.wrapCodec(s.Name)
			wr := func(kind string, q *Queue) func(T) error {
				return func(t T) error {
					if err := plan.hit(kindOf(s.Name, kind)); err != nil {
						return err
					}
					return q.Put(p.Codec.Bytes(t))
				}
			}
			rd := func(kind string, q *Queue) func() (T, error) {
				return func() (T, error) {
					atomic.AddInt64(&s.readsOpen, 1)
					b, err := q.Get()
					atomic.AddInt64(&s.readsOpen, -1)
					if err != nil {
						return *new(T), err
					}
					if err := plan.hit(kindOf(s.Name, kind)); err != nil {
						return *new(T), err
					}
					return p.fromBytes(b), nil
				}
			}
			p.wg.Add(1)
			go func() {
				defer p.wg.Done()
				s.LinkErr <- s.Reg.LinkMessage(s.Ctx, wr("writeReq", outReq), wr("writeRes", outRes), rd("readReq", inReq), rd("readRes", inRes), m, u, linkHooks(s, !p.Opts.NoLinkHooks))
			}()
		}
		start(a, p.AReq, p.ARes, p.BReq, p.BRes)
		start(b, p.BReq, p.BRes, p.AReq, p.ARes)
	case "stream":
		ar, bw := io.Pipe() // B writes, A reads
		br, aw := io.Pipe() // A writes, B reads
		p.pipes = []io.Closer{ar, bw, br, aw}
		p.StreamA, p.StreamB = &tee{}, &tee{}
		start := func(s *Side[T], r io.Reader, w io.Writer, t *tee) {
			m, u := p.wrapCodec(s.Name)
			enc := p.Codec.NewEncoder(&chunkWriter{w: w, chunk: p.Opts.Chunk, tee: t})
			dec := p.Codec.NewDecoder(r)
			var encMu sync.Mutex
			p.wg.Add(1)
			go func() {
				defer p.wg.Done()
				s.LinkErr <- s.Reg.LinkStream(s.Ctx,
					func(v rpc.Message[T]) error {
						if err := plan.hit(kindOf(s.Name, "encode")); err != nil {
							return err
						}
						encMu.Lock() // thread-safe user-supplied transport
						defer encMu.Unlock()
						return enc(v)
					},
					func(v *rpc.Message[T]) error {
						if err := dec(v); err != nil {
							return err
						}
						return plan.hit(kindOf(s.Name, "decode"))
					}, m, u, linkHooks(s, !p.Opts.NoLinkHooks))
			}()
		}
		start(a, ar, aw, p.StreamA)
		start(b, br, bw, p.StreamB)
	default:
		return errors.New("unknown api " + p.Opts.API)
	}
	for _, s := range []*Side[T]{a, b} {
		select {
		case <-s.connect:
		case err := <-s.LinkErr:
			s.LinkErr <- err
			return errors.New("link ended before connect: " + err.Error())
		case <-time.After(5 * time.Second):
			return errors.New("timeout waiting for connect")
		}
	}
	return nil
}

func (p *Pair[T]) fromBytes(b []byte) T {
	var t T
	switch v := any(&t).(type) {
	case *[]byte:
		*v = b
	default:
		// json.RawMessage and cbor.RawMessage are both []byte underneath
		setBytes(any(&t), b)
	}
	return t
}

// CloseTransport makes every transport read (and write) fail, as an application does when it tears a link down.
func (p *Pair[T]) CloseTransport() {
	for _, q := range []*Queue{p.AReq, p.ARes, p.BReq, p.BRes} {
		if q != nil {
			q.Close(io.EOF)
		}
	}
	for _, c := range p.pipes {
		c.Close()
	}
}

// Shutdown: cancel both contexts, fail the transports, wait for both Link calls.
func (p *Pair[T]) Shutdown() (errA, errB error, ok bool) {
	p.A.Cancel()
	p.B.Cancel()
	p.CloseTransport()
	done := make(chan struct{})
	go func() { p.wg.Wait(); close(done) }()
	select {
	case <-done:
		ok = true
	case <-time.After(5 * time.Second):
	}
	select {
	case errA = <-p.A.LinkErr:
	default:
	}
	select {
	case errB = <-p.B.LinkErr:
	default:
	}
	return
}
