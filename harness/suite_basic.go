package main

// C01 (own result under concurrency/reordering), C02 (nesting, stalled handlers),
// C10 (error messages) — oracle-based suites on the real packages.

import (
	"context"
	"encoding/json"
	"fmt"
	"math/rand"
	"strings"
	"sync"
	"time"

	"github.com/fxamacker/cbor/v2"
)

const watchdog = 5 * time.Second

type callResult struct {
	ok   bool // returned before the watchdog
	val  any
	err  error
}

func withWatchdog(f func() (any, error)) callResult {
	ch := make(chan callResult, 1)
	go func() {
		// a stub that panics on the caller's goroutine — or a remote handed out by the library whose function fields
		// are nil — is an outcome to judge, not the end of the harness
		defer func() {
			if e := recover(); e != nil {
				ch <- callResult{true, nil, fmt.Errorf("PANIC on the caller's goroutine (a stub that panics, or a nil function field in the remote the library handed out): %v", e)}
			}
		}()
		v, err := f()
		ch <- callResult{true, v, err}
	}()
	select {
	case r := <-ch:
		return r
	case <-time.After(watchdog):
		return callResult{}
	}
}

func apis() []string { return []string{"message", "stream"} }

// ---------------------------------------------------------------- C01

func c01Workload[T any](rep *Report, codec Codec[T], api string, rng *rand.Rand, n int, pattern string) {
	var mu sync.Mutex
	opts := PairOpts{API: api}
	switch pattern {
	case "random":
		opts.PickAB, opts.PickBA = randomPick(rand.New(rand.NewSource(rng.Int63())), &mu), randomPick(rand.New(rand.NewSource(rng.Int63())), &mu)
	case "lifo", "holdback":
		opts.PickAB, opts.PickBA = lifoPick, lifoPick
	}
	p, err := NewPair(codec, opts)
	desc := map[string]any{"suite": "C01", "codec": codec.Name, "api": api, "calls": n, "pattern": pattern}
	if err != nil {
		rep.addViolation("property", "C01:setup:"+api, "link setup failed: "+err.Error(), desc)
		return
	}
	defer p.Shutdown()
	var rec *traceRec
	if api == "message" && codec.Name == "json-raw" {
		var stop func()
		rec, stop = startTraceRec()
		defer stop()
		tapPair(p, rec)
	}
	ra, _, _ := p.A.AnyRemote()
	rb, _, _ := p.B.AnyRemote()
	if pattern == "holdback" && api == "message" {
		// hold every response back until all requests have been delivered and handled
		p.ARes.SetGate(true)
		p.BRes.SetGate(true)
	}
	type callRec struct {
		from string
		tag  int
		str  string
		res  callResult
		fail bool // the handler returns a value TOGETHER with an error
	}
	recs := make([]*callRec, n)
	var wg sync.WaitGroup
	for i := 0; i < n; i++ {
		r := &callRec{tag: i, str: fmt.Sprintf("s%d-%d", i, rng.Intn(1000)), fail: rng.Intn(4) == 0}
		if r.fail {
			// error texts as programs produce them: indented, ending in a newline
			r.str = []string{"", "  ", "\t"}[i%3] + r.str + []string{"\n", "", " \n\n"}[(i/3)%3]
		}
		if rng.Intn(2) == 0 {
			r.from = "A"
		} else {
			r.from = "B"
		}
		recs[i] = r
		wg.Add(1)
		go func() {
			defer wg.Done()
			rem := ra
			if r.from == "B" {
				rem = rb
			}
			if r.fail {
				r.res = withWatchdog(func() (any, error) { return rem.FailVal(context.Background(), r.tag*10+7, r.str, true) })
				return
			}
			r.res = withWatchdog(func() (any, error) { return rem.Echo(context.Background(), r.tag, r.str) })
		}()
	}
	if pattern == "holdback" && api == "message" {
		// wait until every request was handled, then release the responses (in LIFO order)
		deadline := time.Now().Add(watchdog)
		for time.Now().Before(deadline) {
			if len(p.A.Svc.Invocations())+len(p.B.Svc.Invocations()) >= n {
				break
			}
			time.Sleep(time.Millisecond)
		}
		p.ARes.Release()
		p.BRes.Release()
	}
	wg.Wait()
	rep.Evaluations++
	rep.Distinct++
	rep.sample(desc)
	// oracle
	logs := map[string][]Invocation{"A": p.A.Svc.Invocations(), "B": p.B.Svc.Invocations()}
	for _, r := range recs {
		callee := "B"
		if r.from == "B" {
			callee = "A"
		}
		key := fmt.Sprintf("C01:%s:%s", api, pattern)
		if !r.res.ok {
			rep.addViolation("property", key+":hang", fmt.Sprintf("call %d from %s did not return within %v on a healthy link", r.tag, r.from, watchdog), desc)
			continue
		}
		if r.fail {
			// exactly the value AND the error its own invocation produced
			if r.res.err == nil || r.res.err.Error() != r.str || r.res.val.(int) != r.tag*10+7 {
				rep.addViolation("property", key+":value+error", fmt.Sprintf("call %d from %s: its handler returned (%d, %q), the caller got (%v, %v)", r.tag, r.from, r.tag*10+7, r.str, r.res.val, r.res.err), desc)
			}
			continue
		}
		if r.res.err != nil {
			rep.addViolation("property", key+":error", fmt.Sprintf("call %d from %s failed on a healthy link: %v", r.tag, r.from, r.res.err), desc)
			continue
		}
		got := r.res.val.(string)
		parts := strings.SplitN(got, "#", 4)
		if len(parts) != 4 || parts[0] != callee || parts[2] != fmt.Sprint(r.tag) || parts[3] != r.str {
			rep.addViolation("property", key+":foreign-result", fmt.Sprintf("call %d (%q) from %s returned %q: not the result of its own invocation", r.tag, r.str, r.from, got), desc)
			continue
		}
		// exactly one invocation with this call's arguments, and the serial returned is that invocation's
		cnt := 0
		for _, inv := range logs[callee] {
			if inv.Method == "Echo" && inv.Args == fmt.Sprintf("%d,%s", r.tag, r.str) {
				cnt++
				if fmt.Sprint(inv.Serial) != parts[1] {
					rep.addViolation("property", key+":serial", fmt.Sprintf("call %d returned serial %s but its invocation has serial %d", r.tag, parts[1], inv.Serial), desc)
				}
			}
		}
		if cnt != 1 {
			rep.addViolation("property", key+":invocations", fmt.Sprintf("call %d from %s caused %d invocations (want exactly 1)", r.tag, r.from, cnt), desc)
		}
	}
	if tot := len(logs["A"]) + len(logs["B"]); tot != n {
		rep.addViolation("property", fmt.Sprintf("C01:%s:%s:total", api, pattern), fmt.Sprintf("%d calls caused %d invocations", n, tot), desc)
	}
	if rec != nil && len(rep.Violations) == 0 {
		// trace validation: the frames at the transport and the hook events, replayed on the Lean system model M3
		validateSys(rep, "C01", fmt.Sprintf("%d concurrent calls, %s delivery", n, pattern), sysLines(rec.events(), jsonFrameDecode), n)
	}
}

func hangSeen(rep *Report) bool {
	for _, v := range rep.Violations {
		if strings.HasSuffix(v.Key, ":hang") {
			return true
		}
	}
	return false
}

func runC01(rep *Report, tier string, seed int64) {
	rep.Rule = "workload = N concurrent Echo calls in both directions on one healthy link; the message transport delivers pending frames in random / reverse order or holds all responses back until every request was handled; " +
		"oracle: each call returns the serial+arguments of exactly one invocation on the peer carrying its own arguments. distinct = (codec, api, pattern, N, seed) tuples"
	rng := rand.New(rand.NewSource(seed))
	rounds, maxN := 30, 32
	if tier == "thorough" {
		rounds, maxN = 60, 64
	}
	for i := 0; i < rounds; i++ {
		for _, pat := range []string{"random", "lifo", "holdback"} {
			for _, api := range apis() {
				if hangSeen(rep) {
					return // calls hang: every further workload would only wait for the watchdog again
				}
				n := 2 + rng.Intn(maxN-1)
				switch i % 3 {
				case 0:
					c01Workload(rep, jsonRaw(), api, rng, n, pat)
				case 1:
					c01Workload(rep, jsonBytes(), api, rng, n, pat)
				case 2:
					c01Workload(rep, cborRaw(), api, rng, n, pat)
				}
			}
		}
	}
}

// ---------------------------------------------------------------- C02

func c02Workload[T any](rep *Report, codec Codec[T], api string, depth int, shape string, stalled int) {
	p, err := NewPair(codec, PairOpts{API: api})
	desc := map[string]any{"suite": "C02", "codec": codec.Name, "api": api, "depth": depth, "shape": shape, "stalled": stalled}
	if err != nil {
		rep.addViolation("property", "C02:setup", "link setup failed: "+err.Error(), desc)
		return
	}
	defer p.Shutdown()
	var rec *traceRec
	if api == "message" && codec.Name == "json-raw" && (shape == "chain" || shape == "tree") {
		var stop func()
		rec, stop = startTraceRec()
		defer stop()
		tapPair(p, rec)
	}
	ra, _, _ := p.A.AnyRemote()
	rb, _, _ := p.B.AnyRemote()
	// stalled handlers on both sides
	var swg sync.WaitGroup
	stallRes := make([]callResult, 2*stalled)
	for i := 0; i < stalled; i++ {
		i := i
		swg.Add(2)
		go func() { defer swg.Done(); v, e := ra.Gate(context.Background(), 1000+i); stallRes[2*i] = callResult{true, v, e} }()
		go func() { defer swg.Done(); v, e := rb.Gate(context.Background(), 2000+i); stallRes[2*i+1] = callResult{true, v, e} }()
	}
	// wait until the stalled handlers are really running
	deadline := time.Now().Add(watchdog)
	for time.Now().Before(deadline) {
		c := 0
		for _, inv := range append(p.A.Svc.Invocations(), p.B.Svc.Invocations()...) {
			if inv.Method == "Gate" {
				c++
			}
		}
		if c >= 2*stalled {
			break
		}
		time.Sleep(time.Millisecond)
	}
	rep.Evaluations++
	rep.Distinct++
	rep.sample(desc)
	key := fmt.Sprintf("C02:%s:%s", api, shape)
	var r callResult
	want := 0
	switch shape {
	case "chain":
		r = withWatchdog(func() (any, error) { return ra.Bounce(context.Background(), depth) })
		want = depth
	case "tree":
		r = withWatchdog(func() (any, error) { return ra.Tree(context.Background(), depth) })
		want = (1 << (depth + 1)) - 1
	case "stalled-closure":
		// a closure of A is still running (blocked) while A starts and finishes other closure-carrying calls,
		// and while B invokes other closures of A: none of that may wait for the stalled closure
		release := make(chan struct{})
		started := make(chan struct{})
		stalledDone := make(chan error, 1)
		go func() {
			_, err := ra.WithClosure(context.Background(), 1, false, func(ctx context.Context, i int, s string) (string, error) {
				close(started)
				<-release
				return "late", nil
			})
			stalledDone <- err
		}()
		select {
		case <-started:
		case <-time.After(watchdog):
		}
		r = withWatchdog(func() (any, error) {
			for k := 0; k < 3; k++ {
				out, err := ra.WithClosure(context.Background(), 2, k%2 == 0, func(ctx context.Context, i int, s string) (string, error) { return s, nil })
				if err != nil {
					return 0, err
				}
				if len(out) != 2 || out[0] != "B-arg-0" {
					return 0, fmt.Errorf("closure results %v", out)
				}
			}
			// a closure whose body itself passes a closure onwards
			out, err := ra.WithClosure(context.Background(), 1, false, func(ctx context.Context, i int, s string) (string, error) {
				in, err := ra.WithClosure(ctx, 1, false, func(ctx context.Context, i int, s string) (string, error) { return "inner:" + s, nil })
				if err != nil {
					return "", err
				}
				return in[0], nil
			})
			if err != nil {
				return 0, err
			}
			if out[0] != "inner:B-arg-0" {
				return 0, fmt.Errorf("nested closure result %v", out)
			}
			return depth, nil
		})
		want = depth
		close(release)
		select {
		case err := <-stalledDone:
			if err != nil {
				rep.addViolation("property", key+":stalled-closure-result", fmt.Sprintf("the stalled closure's call failed after release: %v", err), desc)
			}
		case <-time.After(watchdog):
			rep.addViolation("property", key+":stalled-closure-hang", "the call whose closure was stalled did not complete after the closure was released", desc)
		}
	case "closure-in-nested":
		r = withWatchdog(func() (any, error) {
			out, err := rb.WithClosure(context.Background(), 3, true, func(ctx context.Context, i int, s string) (string, error) {
				// the closure itself calls back over the link
				v, err := rb.Bounce(ctx, depth)
				return fmt.Sprintf("%d:%d", i, v), err
			})
			if err != nil {
				return 0, err
			}
			for i, o := range out {
				if o != fmt.Sprintf("%d:%d", i, depth) {
					return 0, fmt.Errorf("closure result %d = %q", i, o)
				}
			}
			return depth, nil
		})
		want = depth
	}
	if !r.ok {
		rep.addViolation("property", key+":hang", fmt.Sprintf("%s of depth %d did not complete within %v while %d unrelated handlers per side are stalled", shape, depth, watchdog, stalled), desc)
	} else if r.err != nil {
		rep.addViolation("property", key+":error", fmt.Sprintf("%s of depth %d failed: %v", shape, depth, r.err), desc)
	} else if r.val.(int) != want {
		rep.addViolation("property", key+":value", fmt.Sprintf("%s of depth %d returned %v, want %d", shape, depth, r.val, want), desc)
	}
	if rec != nil && r.ok && r.err == nil && stalled == 0 {
		calls := depth + 1
		if shape == "tree" {
			calls = (1 << (depth + 1)) - 1
		}
		validateSys(rep, "C02", fmt.Sprintf("%s of depth %d", shape, depth), sysLines(rec.events(), jsonFrameDecode), calls)
	}
	// independent calls complete while others are stalled
	r2 := withWatchdog(func() (any, error) { return rb.Add(context.Background(), 2, 3) })
	if !r2.ok || r2.err != nil || r2.val.(int64) != 5 {
		rep.addViolation("property", key+":independent", fmt.Sprintf("independent call while handlers are stalled: %+v", r2), desc)
	}
	// release the stalled handlers: they must complete too
	for i := 0; i < stalled; i++ {
		p.B.Svc.OpenGate(1000 + i)
		p.A.Svc.OpenGate(2000 + i)
	}
	done := make(chan struct{})
	go func() { swg.Wait(); close(done) }()
	select {
	case <-done:
		for i, sr := range stallRes {
			if sr.err != nil {
				rep.addViolation("property", key+":stalled-result", fmt.Sprintf("stalled call %d failed after release: %v", i, sr.err), desc)
			}
		}
	case <-time.After(watchdog):
		rep.addViolation("property", key+":stalled-hang", "stalled handlers did not complete after their gates were opened", desc)
	}
}

func runC02(rep *Report, tier string, seed int64) {
	rep.Rule = "workload = alternating-direction call chain (Bounce) / binary call tree / closure whose body calls back, of depth d, with s unrelated handlers per side blocked on gates; " +
		"oracle: the nested computation and an independent call complete with the right value within the watchdog, stalled handlers complete after release. distinct = (codec, api, shape, depth, stalled)"
	depths := []int{0, 1, 2, 5, 8}
	treeDepths := []int{1, 3}
	if tier == "thorough" {
		depths = []int{0, 1, 2, 3, 5, 8, 13, 21, 40}
		treeDepths = []int{1, 2, 3, 4, 5}
	}
	i := 0
	for _, api := range apis() {
		for _, st := range []int{0, 3} {
			for _, d := range depths {
				switch i % 3 {
				case 0:
					c02Workload(rep, jsonRaw(), api, d, "chain", st)
				case 1:
					c02Workload(rep, cborRaw(), api, d, "chain", st)
				case 2:
					c02Workload(rep, jsonBytes(), api, d, "chain", st)
				}
				i++
			}
			for _, d := range treeDepths {
				c02Workload(rep, jsonRaw(), api, d, "tree", st)
			}
			c02Workload(rep, jsonRaw(), api, 2, "closure-in-nested", st)
			c02Workload(rep, jsonRaw(), api, 1, "stalled-closure", st)
			c02Workload(rep, cborRaw(), api, 1, "stalled-closure", st)
		}
	}
	for _, api := range apis() {
		c02ExpiredNestedCall(rep, "C02", api)
	}
	// no admission limit: far more handlers in flight / far deeper chains than any plausible built-in bound
	// (worker pools, semaphores and buffered queues are sized in the hundreds or low thousands)
	big := []int{1300, 2600}
	if tier == "thorough" {
		big = []int{1300, 2600, 5000, 12000}
	}
	for i, n := range big {
		api := apis()[i%len(apis())]
		c02Workload(rep, cborRaw(), api, 3, "chain", n/2)
		c02Workload(rep, cborRaw(), apis()[(i+1)%len(apis())], n, "chain", 0)
	}
	_ = seed
}

// ---------------------------------------------------------------- C10

func c10Messages(rng *rand.Rand, n int) []string {
	blanks := []string{" ", "\t", "\n", "\v", "\f", "\r", "\u0085", "\u00a0", "\u1680", "\u2000", "\u2003", "\u200a", "\u2028", "\u2029", "\u202f", "\u205f", "\u3000"}
	base := []string{"x", "boom", "error: \"quoted\" \\ back", "line1\nline2", "\u00fc\u00f1\u00ed\u00a9\u00f8d\u00e9 \u2713 \u65e5\u672c\u8a9e", "\u200b", "\ufeff", "\u180e", "a\u0000b", "{\"json\":true}", "null", "0", strings.Repeat("long-", 2000)}
	var out []string
	out = append(out, base...)
	for _, b := range blanks {
		out = append(out, b+"m", "m"+b, b+"m"+b, b+b+"m q"+b)
	}
	for i := 0; i < n; i++ {
		var sb strings.Builder
		l := 1 + rng.Intn(12)
		for j := 0; j < l; j++ {
			switch rng.Intn(4) {
			case 0:
				sb.WriteString(blanks[rng.Intn(len(blanks))])
			case 1:
				sb.WriteRune(rune(0x20 + rng.Intn(0x5f)))
			case 2:
				sb.WriteRune(rune(0xa0 + rng.Intn(0x2000)))
			default:
				sb.WriteString(base[rng.Intn(5)])
			}
		}
		out = append(out, sb.String())
	}
	return out
}

func hasNonBlank(s string) bool { return strings.TrimFunc(s, isGoSpaceRune) != "" }

func c10Workload[T any](rep *Report, codec Codec[T], api string, msgs []string) {
	p, err := NewPair(codec, PairOpts{API: api})
	desc := map[string]any{"suite": "C10", "codec": codec.Name, "api": api, "messages": len(msgs)}
	if err != nil {
		rep.addViolation("property", "C10:setup", "link setup failed: "+err.Error(), desc)
		return
	}
	defer p.Shutdown()
	ra, _, _ := p.A.AnyRemote()
	rb, _, _ := p.B.AnyRemote()
	rep.sample(desc)
	// a closure whose declared error result is a CONCRETE pointer type: its nil pointer is "no error" and stays nil,
	// its non-nil value arrives with its message; the link survives
	for _, rem := range []Remote{ra, rb} {
		rep.Evaluations++
		r := withWatchdog(func() (any, error) {
			return rem.ErrClosure(context.Background(), 3, func(ctx context.Context, i int) *ZooErr {
				if i == 1 {
					return &ZooErr{"typed boom"}
				}
				return nil
			})
		})
		if !r.ok || r.err != nil || r.val.(string) != "nil|typed boom|nil" {
			rep.addViolation("property", "C10:"+api+":typed-nil-error", fmt.Sprintf("a closure declared to return *ZooErr returned nil, &ZooErr{\"typed boom\"}, nil: the callee saw %v (call error %v); want \"nil|typed boom|nil\"", r.val, r.err), desc)
			return
		}
	}
	for i, m := range msgs {
		rem, dir := ra, "A->B"
		if i%2 == 1 {
			rem, dir = rb, "B->A"
		}
		if !hasNonBlank(m) {
			continue // outside the property's domain (blank-only messages)
		}
		rep.Evaluations++
		rep.Distinct++
		key := fmt.Sprintf("C10:%s", api)
		d := map[string]any{"suite": "C10", "codec": codec.Name, "api": api, "dir": dir, "message": m}
		// shape 1: single error result
		r := withWatchdog(func() (any, error) { return nil, rem.Fail(context.Background(), m) })
		if !r.ok {
			rep.addViolation("property", key+":hang", "Fail() did not return", d)
			return
		}
		if r.err == nil || r.err.Error() != m {
			rep.addViolation("property", key+":message", fmt.Sprintf("handler error %q arrived as %v", m, r.err), d)
		}
		// shape 2: value and error
		r = withWatchdog(func() (any, error) { return rem.FailVal(context.Background(), 40+i, m, true) })
		if !r.ok {
			rep.addViolation("property", key+":hang", "FailVal() did not return", d)
			return
		}
		if r.err == nil || r.err.Error() != m || r.val.(int) != 40+i {
			rep.addViolation("property", key+":value+message", fmt.Sprintf("handler returned (%d, %q), caller got (%v, %v)", 40+i, m, r.val, r.err), d)
		}
		// nil stays nil
		r = withWatchdog(func() (any, error) { return rem.FailVal(context.Background(), 7, m, false) })
		if !r.ok || r.err != nil || r.val.(int) != 7 {
			rep.addViolation("property", key+":nil", fmt.Sprintf("nil error arrived as (%v, %v)", r.val, r.err), d)
		}
		// closure returning an error
		r = withWatchdog(func() (any, error) {
			return rem.WithClosure(context.Background(), 1, false, func(ctx context.Context, i int, s string) (string, error) {
				return "", fmt.Errorf("%s", m)
			})
		})
		if !r.ok || r.err != nil {
			rep.addViolation("property", key+":closure-call", fmt.Sprintf("WithClosure failed: %+v", r), d)
		} else if got := r.val.([]string)[0]; got != "ERR:"+m {
			rep.addViolation("property", key+":closure-message", fmt.Sprintf("closure error %q arrived at the invoking handler as %q", m, got), d)
		}
	}
	// a closure returning a value together with an error: both reach the invoking handler
	for _, rem := range []Remote{ra, rb} {
		rep.Evaluations++
		r := withWatchdog(func() (any, error) {
			return rem.ClosureResult(context.Background(), 3, func(ctx context.Context, k int) ([]int, error) {
				return []int{9, 8}, fmt.Errorf(" partial: %d ", k)
			})
		})
		if !r.ok || r.err != nil || r.val.(string) != "[9 8]| partial: 3 " {
			rep.addViolation("property", "C10:"+api+":closure-value+message", fmt.Sprintf("closure returned ([9 8], \" partial: 3 \"), the invoking handler got %+v", r), desc)
		}
	}
	// an application-level error never terminates the link
	r := withWatchdog(func() (any, error) { return ra.Add(context.Background(), 1, 1) })
	if !r.ok || r.err != nil {
		rep.addViolation("property", "C10:"+api+":link-died", fmt.Sprintf("follow-up call after application errors: %+v", r), desc)
	}
	select {
	case e := <-p.A.LinkErr:
		rep.addViolation("property", "C10:"+api+":link-ended", fmt.Sprintf("Link returned %v after application-level errors", e), desc)
	case e := <-p.B.LinkErr:
		rep.addViolation("property", "C10:"+api+":link-ended", fmt.Sprintf("Link returned %v after application-level errors", e), desc)
	default:
	}
}

func runC10(rep *Report, tier string, seed int64) {
	rep.Rule = "error messages: fixed corner cases (every Unicode blank at either end, quotes, newlines, very long, NUL, zero-width non-blanks) + PRNG strings, restricted to messages with a non-blank character; " +
		"each sent through a single-error handler, a value+error handler, a nil-error control and a closure, in both directions; oracle: byte-exact message, value alongside, nil stays nil, link alive. distinct = (codec, api, message, shape)"
	rng := rand.New(rand.NewSource(seed))
	n := 100
	if tier == "thorough" {
		n = 1000
	}
	msgs := c10Messages(rng, n)
	for _, api := range apis() {
		c10Workload(rep, jsonRaw(), api, msgs)
		c10Workload(rep, cborRaw(), api, msgs)
		c10Workload(rep, jsonBytes(), api, msgs)
	}
}

var _ = json.Marshal
var _ = cbor.Marshal
