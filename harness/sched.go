package main

// Controlled scheduler. Goroutines park at the yield hooks compiled into panrpc under the
// `verif` build tag (and at the harness's own yield calls); the scheduler releases exactly one
// parked goroutine at a time and waits until the whole process has settled again: every
// goroutine is parked at a yield, finished, or blocked in a real channel / select / cond /
// mutex operation (read from runtime.Stack). Real selects and rendezvous stay real.

import (
	"bytes"
	"fmt"
	"runtime"
	"strconv"
	"strings"
	"sync"
	"time"
)

type parked struct {
	gid   int64
	name  string // logical name (assigned by the harness or derived from the first hook)
	point string
	key   string
	grant chan struct{}
}

type Event struct {
	G     string // logical goroutine name
	Point string
	Key   string
}

type Sched struct {
	mu      sync.Mutex
	parked  map[int64]*parked
	names   map[int64]string
	trace   []Event
	active  bool
	selfGid int64
	autoN   int
	// NameFor derives a logical name for an unknown goroutine from its first hook.
	NameFor func(point, key string, n int) string
	// ParkIf, when set, restricts parking to the yield points it accepts (others only trace).
	ParkIf func(point, key string) bool
}

func goid() int64 {
	var buf [64]byte
	n := runtime.Stack(buf[:], false)
	// "goroutine 123 ["
	f := bytes.Fields(buf[:n])
	id, _ := strconv.ParseInt(string(f[1]), 10, 64)
	return id
}

func NewSched() *Sched {
	return &Sched{parked: map[int64]*parked{}, names: map[int64]string{}}
}

// Name registers a logical name for the calling goroutine.
func (s *Sched) Name(name string) {
	g := goid()
	s.mu.Lock()
	s.names[g] = name
	s.mu.Unlock()
}

func (s *Sched) nameOf(g int64, point, key string) string {
	if n, ok := s.names[g]; ok {
		return n
	}
	s.autoN++
	n := fmt.Sprintf("g%d", s.autoN)
	if s.NameFor != nil {
		n = s.NameFor(point, key, s.autoN)
	}
	s.names[g] = n
	return n
}

// Trace records an event without parking (safe inside critical sections).
func (s *Sched) Trace(point, key string) {
	g := goid()
	s.mu.Lock()
	s.trace = append(s.trace, Event{s.nameOf(g, point, key), point, key})
	s.mu.Unlock()
}

// Yield records an event and parks the caller until the scheduler releases it.
func (s *Sched) Yield(point, key string) {
	g := goid()
	s.mu.Lock()
	name := s.nameOf(g, point, key)
	s.trace = append(s.trace, Event{name, point, key})
	if !s.active || (s.ParkIf != nil && !s.ParkIf(point, key)) {
		s.mu.Unlock()
		return
	}
	p := &parked{gid: g, name: name, point: point, key: key, grant: make(chan struct{})}
	s.parked[g] = p
	s.mu.Unlock()
	<-p.grant
}

// settled reports whether every goroutine except the caller is waiting, and returns the ids
// of the goroutines blocked somewhere other than our yield points together with their state.
func (s *Sched) settled() (bool, map[int64]string) {
	buf := make([]byte, 1<<18)
	for {
		n := runtime.Stack(buf, true)
		if n < len(buf) {
			buf = buf[:n]
			break
		}
		buf = make([]byte, 2*len(buf))
	}
	blocked := map[int64]string{}
	ok := true
	s.mu.Lock()
	defer s.mu.Unlock()
	for _, blk := range strings.Split(string(buf), "\n\n") {
		if !strings.HasPrefix(blk, "goroutine ") {
			continue
		}
		hdr := blk[:strings.IndexByte(blk, '\n')]
		// goroutine N [state, M minutes]:
		sp := strings.IndexByte(hdr[10:], ' ')
		id, _ := strconv.ParseInt(hdr[10:10+sp], 10, 64)
		if id == s.selfGid {
			continue
		}
		st := hdr[strings.IndexByte(hdr, '[')+1:]
		if i := strings.IndexAny(st, ",]"); i >= 0 {
			st = st[:i]
		}
		if _, isParked := s.parked[id]; isParked {
			// it announced itself parked; it may still be on its way into the receive
			continue
		}
		user := strings.Contains(blk, "panrpc") || strings.Contains(blk, "verif/harness") || strings.Contains(blk, "main.")
		if !user {
			continue // runtime / system goroutines (GC workers, finalizer, signal handling …) are not part of the program under test
		}
		// a user goroutine counts as settled only in a state it cannot leave by itself
		waiting := false
		for _, w := range []string{"chan send", "chan receive", "select", "semacquire", "sync.Cond.Wait", "sync.Mutex.Lock", "sync.RWMutex", "sync.WaitGroup.Wait", "IO wait"} {
			if strings.HasPrefix(st, w) {
				waiting = true
			}
		}
		if !waiting {
			ok = false // running, runnable, sleeping, GC assist wait, preempted, syscall …: it will move on by itself
			continue
		}
		blocked[id] = st
	}
	return ok, blocked
}

// WaitSettled spins until the process is settled (or the deadline passes).
func (s *Sched) WaitSettled(d time.Duration) (bool, map[int64]string) {
	deadline := time.Now().Add(d)
	stable := 0
	for {
		ok, blocked := s.settled()
		if ok {
			stable++
			if stable >= 2 {
				return true, blocked
			}
		} else {
			stable = 0
		}
		if time.Now().After(deadline) {
			return false, blocked
		}
		runtime.Gosched()
		if stable == 0 {
			time.Sleep(20 * time.Microsecond)
		}
	}
}

// Parked lists the goroutines currently parked at yield points, sorted by logical name.
func (s *Sched) Parked() []*parked {
	s.mu.Lock()
	defer s.mu.Unlock()
	var out []*parked
	for _, p := range s.parked {
		out = append(out, p)
	}
	for i := range out {
		for j := i + 1; j < len(out); j++ {
			if out[j].name < out[i].name {
				out[i], out[j] = out[j], out[i]
			}
		}
	}
	return out
}

func (s *Sched) Release(p *parked) {
	s.mu.Lock()
	delete(s.parked, p.gid)
	s.mu.Unlock()
	close(p.grant)
}

// Start makes the calling goroutine the scheduler.
func (s *Sched) Start() {
	s.mu.Lock()
	s.selfGid = goid()
	s.active = true
	s.mu.Unlock()
}

// Stop releases everything and turns parking off.
func (s *Sched) Stop() {
	s.mu.Lock()
	s.active = false
	ps := s.parked
	s.parked = map[int64]*parked{}
	s.mu.Unlock()
	for _, p := range ps {
		close(p.grant)
	}
}

func (s *Sched) TraceCopy() []Event {
	s.mu.Lock()
	defer s.mu.Unlock()
	return append([]Event(nil), s.trace...)
}
