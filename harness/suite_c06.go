package main

// C06: arbitrary peer input never crashes the process or wedges other links.
// A raw scripted peer writes generated and mutated frames at a real registry running in a
// CHILD process (a crash is an exit status, the last frame printed is the culprit).

import (
	"bufio"
	"context"
	"encoding/hex"
	"encoding/json"
	"errors"
	"fmt"
	"io"
	"math/rand"
	"os"
	"os/exec"
	"strings"
	"time"

	"github.com/pojntfx/panrpc/go/pkg/rpc"
)

type Greeter interface {
	Hello(ctx context.Context) (string, error)
	secretHello(ctx context.Context) error
}

type greeterImpl struct{ svc *c6Local }

func (g *greeterImpl) Hello(ctx context.Context) (string, error) { g.svc.hit("G2.Hello"); return "hi", nil }
func (g *greeterImpl) secretHello(ctx context.Context) error      { g.svc.hit("G2.secretHello"); return nil }

type C6Embedded struct {
	X *c6Leaf
	Y int
}

func (e *C6Embedded) EmbM(ctx context.Context) error {
	if c6Current != nil {
		c6Current.hit("EmbM")
	}
	return nil
}

var c6Current *c6Local

type c6Leaf struct {
	svc *c6Local
	tag string // which object of the graph this is: the method says so when it runs
}

func (l *c6Leaf) Foo(ctx context.Context) error { l.svc.hit(l.tag + ".Foo"); return nil }

// C6Pub is embedded BY VALUE and exported: its field Pro is promoted (reachable as "Pro" and as "C6Pub.Pro"), and so
// is its method Foo (reachable as "Foo" and "C6Pub.Foo") — a different method from Pro's Foo.
type C6Pub struct{ Pro *c6Leaf }

func (p C6Pub) Foo(ctx context.Context) error {
	if c6Current != nil {
		c6Current.hit("C6Pub.Foo")
	}
	return nil
}

type c6Value struct{ svc *c6Local }

func (v c6Value) ValM(ctx context.Context) error  { v.svc.hit("V.ValM"); return nil }
func (v *c6Value) PtrM(ctx context.Context) error { v.svc.hit("V.PtrM"); return nil }

type c6Local struct {
	hits []string

	G  Greeter // nil interface-typed field
	G2 Greeter // non-nil
	*C6Embedded        // nil embedded pointer: X and EmbM are promoted through it
	NilSub *c6Leaf     // nil pointer to struct
	Leaf   *c6Leaf
	V      c6Value     // by value: PtrM is not in its method set
	N      int
	S      string
	F      func(ctx context.Context) error // func-typed field: not callable
	M      map[string]int
	I      interface{} // nil empty interface
	I2     interface{} // holds a *c6Leaf
	hidden *c6Leaf
	C6Pub   // exported struct embedded by value: Pro and Foo are promoted
	c6inner // unexported embedded struct: Deep is promoted (exposed as "Deep"), the name "c6inner" itself is not an exported field
}

type c6inner struct {
	Deep *c6Leaf
}

func newC6Local() *c6Local {
	local := &c6Local{G2: nil, Leaf: nil}
	local.G2 = &greeterImpl{local}
	local.Leaf = &c6Leaf{local, "Leaf"}
	local.V = c6Value{local}
	local.I2 = &c6Leaf{local, "I2"}
	local.hidden = &c6Leaf{local, "hidden"}
	local.Deep = &c6Leaf{local, "Deep"}
	local.Pro = &c6Leaf{local, "Pro"}
	local.F = func(ctx context.Context) error { local.hit("F"); return nil }
	c6Current = local
	return local
}

func (l *c6Local) hit(s string) { l.hits = append(l.hits, s) }

func (l *c6Local) Ping(ctx context.Context, x int) (int, error)   { l.hit("Ping"); return x + 1, nil }
func (l *c6Local) Probe(ctx context.Context, x int) (int, error)  { return x + 1, nil } // the harness's own liveness probe: not logged
func (l *c6Local) Two(ctx context.Context, a string, b []int) (string, error) { l.hit("Two"); return a, nil }
func (l *c6Local) lower(ctx context.Context) error                { l.hit("lower"); return nil }

// a VARIADIC exported method (log-style helpers end up on exposed objects): callable with the format and ONE list
func (l *c6Local) Logf(ctx context.Context, format string, args ...interface{}) error { l.hit("Logf"); return nil }
func (l *c6Local) TakesFunc(ctx context.Context, cb func(ctx context.Context, x int) (int, error)) (int, error) {
	l.hit("TakesFunc")
	return cb(ctx, 1)
}

// exported methods WITHOUT a context parameter (fmt.Stringer, io.Closer and friends end up on exposed objects
// all the time): never callable (the argument count can not match), and asking for them must not hurt
func (l *c6Local) String() string { l.hit("String"); return "c6Local" }
func (l *c6Local) Close() error   { l.hit("Close"); return nil }

var _ = (*c6Local).lower

type c6Remote struct {
	Ping    func(ctx context.Context, x int) (int, error)
	Iterate func(ctx context.Context, n int, cb func(ctx context.Context, i int) (int, error)) (int, error)
}

var c6Names = []string{
	"Logf", // first: whatever a call of a variadic method leaves behind meets every later request
	"Ping", "ping", "PING", "Ping ", " Ping", "Two", "lower", "TakesFunc", "CallClosure", "callClosure", "",
	".", "..", "...", ".Ping", "Ping.", "Ping.X", "Ping..", "G.Hello", "G.secretHello", "G2.Hello", "G2.secretHello", "G2.hello", "G", "G2",
	"X.Foo", "X", "EmbM", "C6Embedded.EmbM", "C6Embedded.X.Foo", "C6Embedded", "Y", "NilSub.Foo", "NilSub", "Leaf.Foo", "Leaf.foo", "Leaf.Foo.Bar", "Leaf.svc.Ping",
	"V.ValM", "V.PtrM", "V", "N", "N.X", "S.Len", "F", "F.Call", "M.Len", "M.x", "I.Foo", "I2.Foo", "I2", "hidden.Foo", "hidden", "hits", "hits.Len",
	"closuresLock.Lock", "closures", "Lock", "Unlock", "CallClosure.X", "Leaf.svc.hits", strings.Repeat("Leaf.", 200) + "Foo", strings.Repeat("A", 5000),
	"c6inner.Deep.Foo", "c6inner", "c6inner.Deep", "Deep.Foo", "Deep", "Deep.foo",
	"Ping\x00", "Píng", "Leaf․Foo", "Leaf/Foo", "Leaf..Foo",
	"String", "Close", "Leaf.String",
	// a field and a method promoted through an exported struct embedded by value
	"Pro.Foo", "Pro", "C6Pub.Pro.Foo", "C6Pub.Foo", "Foo", "C6Pub", "Pro.foo", "C6Pub.Pro", "pro.Foo",
	// names a refactor of the closure manager could export next to CallClosure (the resolver falls back to MethodByName on it)
	"RegisterClosure", "registerClosure", "FreeClosure", "CreateClosure", "Closures", "Register", "Free",
}

var c6Args = []string{
	`[]`, `[1]`, `[1,2]`, `["x"]`, `["x",[1,2]]`, `[null]`, `[{}]`, `[[]]`, `[1.5]`, `[1e999]`, `[-1]`, `["a","b","c","d"]`, `null`, `{}`, `"x"`, `1`, `[true]`,
	`["00000000-0000-0000-0000-000000000000",[1]]`, `["bogus-closure",[]]`, `["bogus-closure",null]`, `[1,[1]]`, `[null,null]`, `["x"]`,
}

// fully valid requests: name -> (args, label the method logs)
var c6Valid = [][3]string{
	{"Ping", `[1]`, "Ping"}, {"Two", `["x",[1,2]]`, "Two"}, {"Leaf.Foo", `[]`, "Leaf.Foo"}, {"G2.Hello", `[]`, "G2.Hello"}, {"V.ValM", `[]`, "V.ValM"}, {"Deep.Foo", `[]`, "Deep.Foo"}, {"Pro.Foo", `[]`, "Pro.Foo"}, {"Foo", `[]`, "C6Pub.Foo"},
	{"Ping", `[41]`, "Ping"}, {"Two", `["",null]`, "Two"},
}

func c6Frame(rng *rand.Rand, i int) (kind string, frame []byte) {
	name := c6Names[rng.Intn(len(c6Names))]
	args := c6Args[rng.Intn(len(c6Args))]
	id := fmt.Sprintf("c%d", i)
	if rng.Intn(4) == 0 {
		v := c6Valid[rng.Intn(len(c6Valid))]
		return "req", []byte(fmt.Sprintf(`{"call":"%s","function":"%s","args":%s}`, id, v[0], v[1]))
	}
	nm, _ := json.Marshal(name)
	switch rng.Intn(12) {
	case 0: // response with a bogus / duplicate id
		return "res", []byte(fmt.Sprintf(`{"call":"%s","value":%s,"err":"%s"}`, []string{"nope", id, "", "c1"}[rng.Intn(4)], []string{"1", "null", `"x"`, `{}`}[rng.Intn(4)], []string{"", "boom", " "}[rng.Intn(3)]))
	case 1: // garbage envelope
		g := []string{``, `{`, `[`, `nul`, `"str"`, `123`, `[]`, `{"call":1}`, `{"call":"x","function":2}`, `{"call":"x","function":"Ping","args":"no"}`, `{"call":null,"function":null,"args":null}`,
			strings.Repeat("[", 2000), `{"call":"x","function":"Ping","args":[` + strings.Repeat("[", 500) + `]}`, "\xff\xfe", `{"call":"x","function":"Ping","args":[1],}`}
		return "req", []byte(g[rng.Intn(len(g))])
	case 2: // byte-level mutation of a valid frame
		f := []byte(fmt.Sprintf(`{"call":"%s","function":%s,"args":%s}`, id, nm, args))
		for k := rng.Intn(3) + 1; k > 0 && len(f) > 0; k-- {
			p := rng.Intn(len(f))
			switch rng.Intn(3) {
			case 0:
				f[p] = byte(rng.Intn(256))
			case 1:
				f = append(f[:p], f[p+1:]...)
			default:
				f = append(f[:p], append([]byte{byte(rng.Intn(256))}, f[p:]...)...)
			}
		}
		return "req", f
	case 3: // duplicate call ids / empty ids
		return "req", []byte(fmt.Sprintf(`{"call":"%s","function":%s,"args":%s}`, []string{"", "dup", "dup"}[rng.Intn(3)], nm, args))
	default:
		return "req", []byte(fmt.Sprintf(`{"call":"%s","function":%s,"args":%s}`, id, nm, args))
	}
}

// subC06: child. Prints "FRAME <kind> <hex>" before each frame, "OK <what>" after, "BAD <what>" on an oracle failure.
func subC06(args []string) {
	var seed int64
	n := 200
	fmt.Sscan(args[0], &seed)
	fmt.Sscan(args[1], &n)
	api := args[2]
	systematic := len(args) > 3 && args[3] == "systematic"
	if systematic {
		n = len(c6Names) * 3
	}
	rng := rand.New(rand.NewSource(seed))
	out := bufio.NewWriter(os.Stdout)
	say := func(f string, a ...any) { fmt.Fprintf(out, f+"\n", a...); out.Flush() }
	local := newC6Local()
	reg := rpc.NewRegistry[c6Remote, json.RawMessage](local, nil)
	codec := jsonRaw()
	// sibling link with a well-behaved peer
	sib := newSide[json.RawMessage]("S")
	sq := [4]*Queue{NewQueue(), NewQueue(), NewQueue(), NewQueue()}
	go reg.LinkMessage(context.Background(),
		func(b json.RawMessage) error { return sq[0].Put(b) }, func(b json.RawMessage) error { return sq[1].Put(b) },
		func() (json.RawMessage, error) { b, e := sq[2].Get(); return b, e }, func() (json.RawMessage, error) { b, e := sq[3].Get(); return b, e },
		codec.Marshal, codec.Unmarshal, nil)
	type pingRemote struct {
		Ping func(ctx context.Context, x int) (int, error)
	}
	sibReg := rpc.NewRegistry[pingRemote, json.RawMessage](sib.Svc, nil)
	go sibReg.LinkMessage(context.Background(),
		func(b json.RawMessage) error { return sq[2].Put(b) }, func(b json.RawMessage) error { return sq[3].Put(b) },
		func() (json.RawMessage, error) { b, e := sq[0].Get(); return b, e }, func() (json.RawMessage, error) { b, e := sq[1].Get(); return b, e },
		codec.Marshal, codec.Unmarshal, nil)
	var sibRemote pingRemote
	waitFor(func() bool {
		ok := false
		sibReg.ForRemotes(func(id string, r pingRemote) error { sibRemote = r; ok = true; return nil })
		return ok
	})
	type victim struct {
		in      *Queue // frames towards the registry (requests)
		inRes   *Queue
		out     *Queue // responses written by the registry
		outReq  *Queue
		pw      *io.PipeWriter
		linkErr chan error
		cancel  context.CancelFunc
		answers chan []byte
		inflight chan error // result of a call of OURS to this peer that the peer never answers (nil channel: none)
	}
	victims := 0
	newVictim := func() *victim {
		v := &victim{in: NewQueue(), inRes: NewQueue(), out: NewQueue(), outReq: NewQueue(), linkErr: make(chan error, 1), answers: make(chan []byte, 64)}
		ctx, cancel := context.WithCancel(context.Background())
		v.cancel = cancel
		victims++
		connected := make(chan string, 1)
		lh := &rpc.LinkHooks{OnClientConnect: func(id string) {
			select {
			case connected <- id:
			default:
			}
		}}
		if victims%2 == 0 {
			// every other hostile link also has one of our own calls in flight on it when the peer misbehaves
			v.inflight = make(chan error, 1)
			go func() {
				var id string
				select {
				case id = <-connected:
				case <-time.After(watchdog):
					v.inflight <- errors.New("link never came up")
					return
				}
				var r c6Remote
				ok := false
				waitFor(func() bool {
					reg.ForRemotes(func(rid string, x c6Remote) error {
						if rid == id {
							r, ok = x, true
						}
						return nil
					})
					return ok
				})
				if !ok {
					// the hostile frame ended the link before our call could be made
					v.inflight <- errors.New("link ended before the call was made")
					return
				}
				_, err := r.Ping(context.Background(), 7)
				v.inflight <- err
			}()
		}
		go func() {
			for {
				b, err := v.out.Get()
				if err != nil {
					return
				}
				v.answers <- b
			}
		}()
		if api == "message" {
			go func() {
				v.linkErr <- reg.LinkMessage(ctx,
					func(b json.RawMessage) error { return v.outReq.Put(b) }, func(b json.RawMessage) error { return v.out.Put(b) },
					func() (json.RawMessage, error) { b, e := v.in.Get(); return b, e }, func() (json.RawMessage, error) { b, e := v.inRes.Get(); return b, e },
					codec.Marshal, codec.Unmarshal, lh)
			}()
		} else {
			pr, pw := io.Pipe()
			v.pw = pw
			dec := json.NewDecoder(pr)
			go func() {
				v.linkErr <- reg.LinkStream(ctx,
					func(m rpc.Message[json.RawMessage]) error {
						if m.Response != nil {
							return v.out.Put(*m.Response)
						}
						return v.outReq.Put(*m.Request)
					},
					func(m *rpc.Message[json.RawMessage]) error { return dec.Decode(m) },
					codec.Marshal, codec.Unmarshal, lh)
			}()
		}
		return v
	}
	v := newVictim()
	if systematic {
		// the FIRST call the process ever dispatches is a valid call of the variadic method
		warm := []byte(`{"call":"warm","function":"Logf","args":["x",[1,2]]}`)
		if api == "message" {
			v.in.Put(warm)
		} else {
			go v.pw.Write([]byte(fmt.Sprintf(`{"request":%s,"response":null}`+"\n", warm)))
		}
		select {
		case <-v.answers:
		case <-time.After(watchdog):
			say("BAD a valid call of the variadic method Logf was not answered")
		}
		if len(local.hits) != 1 || local.hits[0] != "Logf" {
			say("BAD a valid call of the variadic method Logf ran %v", local.hits)
		}
	}
	sibBad := 0
	links, answered, ended := 1, 0, 0
	for i := 0; i < n; i++ {
		kind, frame := c6Frame(rng, i)
		if systematic {
			nm, _ := json.Marshal(c6Names[i/3])
			kind, frame = "req", []byte(fmt.Sprintf(`{"call":"c%d","function":%s,"args":%s}`, i, nm, []string{`[]`, `[1]`, `["x",[1,2]]`}[i%3]))
		}
		say("FRAME %s %s", kind, hex.EncodeToString(frame))
		before := len(local.hits)
		if api == "message" {
			if kind == "req" {
				v.in.Put(frame)
			} else {
				v.inRes.Put(frame)
			}
		} else {
			env := fmt.Sprintf(`{"request":%s,"response":null}`, frame)
			if kind == "res" {
				env = fmt.Sprintf(`{"request":null,"response":%s}`, frame)
			}
			if !systematic && rng.Intn(10) == 0 {
				env = string(frame) // not even an envelope
			}
			go v.pw.Write([]byte(env + "\n"))
		}
		// outcome: answered, or the link ended with an error, or (responses / frames that decode to nothing) silence
		got := v.answers
		select {
		case b := <-got:
			answered++
			var res struct{ Call string `json:"call"` }
			json.Unmarshal(b, &res)
			say("OK answered call=%q", res.Call)
		case err := <-v.linkErr:
			ended++
			if err == nil {
				say("BAD the link ended but Link returned a nil error")
			} else {
				say("OK link-ended %q", err.Error())
			}
			if v.inflight != nil {
				select {
				case cerr := <-v.inflight:
					if cerr == nil {
						say("BAD our call to the misbehaving peer returned a nil error although the peer never answered it")
					} else {
						say("OK in-flight call failed %q", cerr.Error())
					}
				case <-time.After(watchdog):
					say("BAD our call to the misbehaving peer still hangs after its link ended")
				}
			}
			v.cancel()
			v.in.Close(nil)
			v.inRes.Close(nil)
			if v.pw != nil {
				v.pw.Close()
			}
			v.out.Close(nil)
			v = newVictim()
			links++
		case <-time.After(150 * time.Millisecond):
			if kind == "req" {
				// a request frame must be answered or end the link — unless it did not decode to a request at all AND the link is alive;
				// probe the victim link with a good request to tell "ignored" from "wedged"
				probe := fmt.Sprintf(`{"call":"probe%d","function":"Probe","args":[1]}`, i)
				if api == "message" {
					v.in.Put([]byte(probe))
				} else if json.Valid(frame) {
					go v.pw.Write([]byte(fmt.Sprintf(`{"request":%s,"response":null}`+"\n", probe)))
				} else {
					// an incomplete value on a stream is just "more input to come": the peer now disappears
					v.pw.Close()
				}
				select {
				case <-got:
					if systematic {
						// a WELL-FORMED request must be answered or end its link; silence means it was resolved to something that
						// is not an exposed method (nor the closure entry point) and whose results nobody knows how to send back
						say("BAD a well-formed request was neither answered nor ended its link (the link is alive and answers later requests) after frame %d", i)
					} else {
						say("OK ignored (link alive)")
					}
				case <-v.linkErr:
					say("OK link-ended late")
					v = newVictim()
					links++
				case <-time.After(time.Second):
					say("BAD the link neither answers nor ends after frame %d", i)
					v = newVictim()
					links++
				}
			} else {
				say("OK response ignored")
			}
		}
		if systematic && len(local.hits) == before {
			// "…then exactly that method of exactly that (sub-)object runs": a valid request for an exposed method runs it
			mustRun := map[string]int{"Logf": 2, "Ping": 1, "Two": 2, "G2.Hello": 0, "Leaf.Foo": 0, "V.ValM": 0, "Deep.Foo": 0, "Pro.Foo": 0, "C6Pub.Pro.Foo": 0, "Foo": 0, "C6Pub.Foo": 0}
			if n, ok := mustRun[c6Names[i/3]]; ok && n == i%3 {
				say("BAD a valid request for the exposed method %q with %d argument(s) did not run it after frame %d", c6Names[i/3], n, i)
			}
		}
		if len(local.hits) > before {
			say("HIT %s", strings.Join(local.hits[before:], ","))
			// application code ran: the frame must be a well-formed request for exactly that exposed method
			var req struct {
				Function string            `json:"function"`
				Args     []json.RawMessage `json:"args"`
			}
			allowed := map[string]string{"Logf": "Logf/2", "Ping": "Ping/1", "Two": "Two/2", "TakesFunc": "TakesFunc/1", "G2.Hello": "G2.Hello/0", "Leaf.Foo": "Leaf.Foo/0", "V.ValM": "V.ValM/0", "Deep.Foo": "Deep.Foo/0", "EmbM": "EmbM/0", "C6Embedded.EmbM": "EmbM/0",
				"Pro.Foo": "Pro.Foo/0", "C6Pub.Pro.Foo": "Pro.Foo/0", "Foo": "C6Pub.Foo/0", "C6Pub.Foo": "C6Pub.Foo/0"}
			if json.Unmarshal(frame, &req) != nil || kind != "req" {
				say("BAD application code ran (%s) for a frame that is not a well-formed request", strings.Join(local.hits[before:], ","))
			} else if want, ok := allowed[req.Function]; !ok || len(local.hits)-before != 1 || want != fmt.Sprintf("%s/%d", local.hits[before], len(req.Args)) {
				say("BAD application code ran (%s) for function %q with %d args", strings.Join(local.hits[before:], ","), req.Function, len(req.Args))
			}
		}
		// sibling health
		r := withWatchdog(func() (any, error) { return sibRemote.Ping(context.Background(), i) })
		if !r.ok || r.err != nil || r.val.(int) != i+1 {
			say("BAD sibling link affected after frame %d: %+v", i, r)
			sibBad++
			if sibBad >= 3 {
				// the sibling is gone for good: every further frame would only wait for the watchdog again
				say("DONE aborted: the sibling link stays broken")
				return
			}
		}
	}
	// ---- a stalled peer: it invokes a closure of ours (a valid CallClosure) and then never answers the
	// call that closure makes back to it. Only that one call may be stuck: closure-carrying calls on the
	// sibling link (same registry, same closure table) must go on working.
	if !systematic {
		var vr c6Remote
		found := false
		waitFor(func() bool {
			reg.ForRemotes(func(id string, r c6Remote) error {
				// the victim's remote is the one that is not the sibling's: try it by type of traffic below
				vr, found = r, true
				return nil
			})
			return found
		})
		stall := make(chan struct{})
		entered := make(chan struct{}, 1)
		go vr.Iterate(context.Background(), 1, func(ctx context.Context, i int) (int, error) {
			select {
			case entered <- struct{}{}:
			default:
			}
			<-stall // the peer never answers what this closure is waiting for
			return 0, nil
		})
		// the raw peers of BOTH the victim link and the sibling see an Iterate request; answer each with a CallClosure for its closure id
		invoke := func(q *Queue, in func([]byte)) {
			for k := 0; k < 50; k++ {
				b, err := q.Get()
				if err != nil {
					return
				}
				var req struct {
					Call     string            `json:"call"`
					Function string            `json:"function"`
					Args     []json.RawMessage `json:"args"`
				}
				if json.Unmarshal(b, &req) == nil && req.Function == "Iterate" && len(req.Args) == 2 {
					in([]byte(fmt.Sprintf(`{"call":"cc%d","function":"CallClosure","args":[%s,[1]]}`, k, req.Args[1])))
					return
				}
			}
		}
		if api == "message" {
			go invoke(v.outReq, func(f []byte) { v.in.Put(f) })
		} else {
			go invoke(v.outReq, func(f []byte) { v.pw.Write([]byte(fmt.Sprintf(`{"request":%s,"response":null}`+"\n", f))) })
		}
		go invoke(sq[0], func(f []byte) { sq[2].Put(f) })
		select {
		case <-entered:
			// now another closure-carrying call through the same registry: it must get as far as waiting for its
			// response (and then give up with its own context's deadline) — it must not hang registering its closure
			done := make(chan error, 1)
			go func() {
				ctx, cancel := context.WithTimeout(context.Background(), 300*time.Millisecond)
				defer cancel()
				_, err := vr.Iterate(ctx, 1, func(ctx context.Context, i int) (int, error) { return i, nil })
				done <- err
			}()
			select {
			case err := <-done:
				if !errors.Is(err, context.DeadlineExceeded) {
					say("OK second closure-carrying call returned %v", err)
				}
			case <-time.After(3 * time.Second):
				say("BAD a closure-carrying call on the same registry hangs (not even its own context's deadline ends it) while a peer stalls inside a closure of another call")
			}
		case <-time.After(2 * time.Second):
			say("OK stall scenario not reached")
		}
		close(stall)
	}
	say("DONE links=%d answered=%d ended=%d", links, answered, ended)
}

// lkLookupDifferential: the Lean lookup model against the real findMethodByFunctionCallPathRecursively, on
// several roots × every name of the zoo (the tie of the model behind the C06 / C07 theorems).
func lkLookupDifferential(rep *Report, prop string) {
	// ---- model vs real reflect: findMethodByFunctionCallPathRecursively on several roots
	roots := map[string]any{"c6Local": newC6Local(), "Svc": NewSvc("X"), "nil": nil, "int": 7, "valueStruct": c6Value{}, "nilPtr": (*c6Local)(nil)}
	extra := []string{"Echo", "Sub.Ping", "Sub2.Ping", "Deep.Leaf.Ping", "Deep.Ping", "Sub.svc.Echo", "hidden.Ping", "Sub.ID", "Deep", "secret", "peer", "ValM", "PtrM", "WithClosure", "NoRet"}
	for rn, root := range roots {
		tl, rl := lkShape(root, 3)
		lines := []string{tl, rl}
		var want []string
		names := append(append([]string{}, c6Names...), extra...)
		for _, nm := range names {
			fn, err, pan := rpc.VerifFindMethod(root, nm)
			var w string
			switch {
			case pan != nil:
				w = "panic"
			case err != nil:
				w = "err"
			case !fn.IsValid():
				w = "zero"
			default:
				w = fmt.Sprintf("func numIn=%d ro=%s", fn.Type().NumIn(), b01(!fn.CanInterface()))
			}
			want = append(want, w)
			lines = append(lines, "lk lookup "+lkName(nm))
		}
		ans, err := runDriver(lines)
		if err != nil || len(ans) != len(lines) {
			rep.addViolation("correspondence", prop+":driver", fmt.Sprintf("Lean driver failed: %v", err), nil)
			continue
		}
		if !strings.HasPrefix(ans[0], "ok") || !strings.HasPrefix(ans[1], "ok") {
			rep.addViolation("correspondence", prop+":shape:"+rn, "driver rejects the shape: "+ans[0]+" / "+ans[1], map[string]any{"table": tl, "root": rl})
			continue
		}
		for i, nm := range names {
			a := strings.Fields(ans[i+2])
			got := a[0]
			if a[0] == "func" && len(a) >= 5 {
				got = fmt.Sprintf("func numIn=%s ro=%s", a[3], a[4])
			}
			rep.TracesValidated++
			rep.Evaluations++
			if got != want[i] {
				rep.addViolation("correspondence", prop+":lookup-model:"+rn+":"+nm, fmt.Sprintf("root %s path %q: model %q, real reflect %q", rn, nm, ans[i+2], want[i]), map[string]any{"root": rn, "path": nm})
			} else {
				rep.ModelSteps++
			}
		}
	}
}

// runC07: every name of the zoo × argument counts 0,1,2, systematically; application code may run
// only for the exposed methods with the matching argument count (oracle inside the child).
func runC07(rep *Report, tier string, seed int64) {
	rep.Rule = "every function-name string of the name zoo (valid names, case variants, unexported methods and fields, unexported embedded field names, promoted fields, func/map/int/interface-typed fields, nil interface / nil pointer / nil embedded pointer, " +
		"partial, over-long, empty and dotted paths, closure-manager names) × 0/1/2 arguments is sent to a real registry (child process), both link APIs; oracle: application code runs only for an exported method reached through exported field names with the matching argument count, exactly that method. distinct = (name, argument count, api)"
	lkLookupDifferential(rep, "C07")
	// ---- the exposed graph is re-pointed between calls: the object held NOW is the one that runs
	for _, api := range apis() {
		c07Mutation(rep, api)
	}
	// ---- end to end: what runs
	tl, rl := lkShape(newC6Local(), 3)
	resolveLines := []string{tl, rl}
	for i := 0; i < len(c6Names)*3; i++ {
		resolveLines = append(resolveLines, fmt.Sprintf("lk resolve %d %s", i%3, lkName(c6Names[i/3])))
	}
	resolveAns, resolveErr := runDriver(resolveLines)
	for _, api := range apis() {
		cmd := exec.Command(os.Args[0], "-sub", "c06", fmt.Sprint(seed), "0", api, "systematic")
		outB, err := cmd.Output()
		last := ""
		n := 0
		hits := map[int]string{}
		for _, l := range strings.Split(string(outB), "\n") {
			switch {
			case strings.HasPrefix(l, "FRAME "):
				last = l
				n++
			case strings.HasPrefix(l, "HIT "):
				hits[n-1] = l[4:]
			case strings.HasPrefix(l, "BAD application code ran"):
				fr, _ := hex.DecodeString(strings.Fields(last + " x x")[2])
				var req struct{ Function string `json:"function"` }
				json.Unmarshal(fr, &req)
				rep.addViolation("property", "C07:ran:"+req.Function, fmt.Sprintf("%s (frame %q)", l[4:], fr), map[string]any{"suite": "C07", "api": api, "frame": string(fr)})
			case strings.HasPrefix(l, "BAD "):
				fr, _ := hex.DecodeString(strings.Fields(last + " x x")[2])
				rep.addViolation("property", "C07:"+api+":"+l[4:], fmt.Sprintf("%s (frame %q)", l[4:], fr), map[string]any{"suite": "C07", "api": api, "frame": string(fr)})
			case strings.HasPrefix(l, "DONE"):
				rep.sample(map[string]any{"api": api, "summary": l})
			}
		}
		// model's resolution vs what really ran
		if resolveErr == nil && len(resolveAns) == len(resolveLines) {
			for i := 0; i < n && i+2 < len(resolveAns); i++ {
				a := strings.Fields(resolveAns[i+2])
				modelRuns := a[0] == "runs"
				hit, real := hits[i]
				if a[0] == "closure" || a[0] == "nilrecv" {
					continue // no application method of the zoo is entered (nil receivers fault before logging)
				}
				rep.TracesValidated++
				if modelRuns != real {
					rep.addViolation("correspondence", fmt.Sprintf("C07:resolve-model:%s/%d", c6Names[i/3], i%3), fmt.Sprintf("%s with %d args (%s): model %q, implementation ran %q", c6Names[i/3], i%3, api, resolveAns[i+2], hit), nil)
				} else {
					rep.ModelSteps++
				}
			}
		} else {
			rep.addViolation("correspondence", "C07:driver", fmt.Sprintf("Lean driver failed: %v", resolveErr), nil)
		}
		rep.Evaluations += n
		rep.Distinct += n
		if err != nil || !strings.Contains(string(outB), "DONE ") {
			fr, _ := hex.DecodeString(strings.Fields(last + " x x")[2])
			rep.addViolation("property", "C07:"+api+":crash", fmt.Sprintf("the process died after frame %q", fr), map[string]any{"suite": "C07", "api": api, "frame": string(fr)})
		}
	}
}

func runC06(rep *Report, tier string, seed int64) {
	rep.Rule = "a raw peer sends generated request/response frames at a real registry in a child process: function names drawn from valid names, case variants, unexported methods/fields, func/map/int/interface-typed fields, nil interface, nil pointer, nil embedded pointer, " +
		"partial/over-long/empty/dotted paths, the closure manager's own names; argument lists of wrong count/type; bogus, duplicate and empty call ids; garbage and truncated envelopes; byte-level mutations; both link APIs. " +
		"Oracle: the child stays alive, every request is answered or ends that link with a non-nil error, a sibling link keeps working after every frame. distinct = frames"
	batches, per := 4, 150
	if tier == "thorough" {
		batches, per = 60, 400
	}
	lkLookupDifferential(rep, "C06")
	tl, rl := lkShape(newC6Local(), 3)
	resolveLines := []string{tl, rl}
	for i := 0; i < len(c6Names)*3; i++ {
		resolveLines = append(resolveLines, fmt.Sprintf("lk resolve %d %s", i%3, lkName(c6Names[i/3])))
	}
	resolveAns, resolveErr := runDriver(resolveLines)
	if resolveErr != nil || len(resolveAns) != len(resolveLines) {
		rep.addViolation("correspondence", "C06:driver", fmt.Sprintf("Lean driver failed: %v", resolveErr), nil)
		resolveAns = nil
	}
	// b = -1, -2: the systematic sweep (every name of the zoo × 0/1/2 arguments, well-formed frames), one per link API
	for b := -2; b < batches; b++ {
		api := apis()[(b+2)%2]
		cmd := exec.Command(os.Args[0], "-sub", "c06", fmt.Sprint(seed*1000+int64(b)), fmt.Sprint(per), api)
		if b < 0 {
			cmd = exec.Command(os.Args[0], "-sub", "c06", fmt.Sprint(seed), "0", api, "systematic")
		}
		outB, err := cmd.Output()
		lines := strings.Split(string(outB), "\n")
		last := ""
		nFrames := 0
		for _, l := range lines {
			switch {
			case strings.HasPrefix(l, "FRAME "):
				last = l
				nFrames++
			case strings.HasPrefix(l, "BAD "):
				fr, _ := hex.DecodeString(strings.Fields(last + " x x")[2])
				rep.addViolation("property", "C06:"+api+":"+strings.SplitN(l[4:], " after frame", 2)[0], fmt.Sprintf("%s (last frame: %q)", l[4:], fr),
					map[string]any{"suite": "C06", "api": api, "frame": string(fr), "cmd": fmt.Sprintf("bin/harness -sub c06 %d %d %s", seed*1000+int64(b), per, api)})
			}
		}
		if b < 0 && resolveAns != nil {
			// the model's resolution of every systematic request against what happened to it in the child: `rejected why`
			// ⇔ that link ended, with an error whose text contains `why`'s first clause; `runs` / `closure` / `nilrecv` ⇔
			// the request was answered (the model never predicts `crash` on the current tree: C06_resolve_total)
			k := -1
			for _, l := range lines {
				if strings.HasPrefix(l, "FRAME ") {
					k++
					continue
				}
				if k < 0 || k+2 >= len(resolveAns) || !(strings.HasPrefix(l, "OK answered") || strings.HasPrefix(l, "OK link-ended") || strings.HasPrefix(l, "OK ignored")) {
					continue
				}
				m := resolveAns[k+2]
				rep.TracesValidated++
				okc := false
				switch {
				case strings.HasPrefix(m, "rejected "):
					// the model names the PRIMARY reason; the implementation's text after the fallback to the closure manager:
					why := strings.SplitN(strings.TrimPrefix(m, "rejected "), ":", 2)[0]
					text := map[string]string{"cannot call non function": "can not call non function", "recovered": "can not call non function",
						"invalid function call path": "can not call non function", "invalid argument count": "invalid argument count",
						"reflect": "panicked with no error value"}[why]
					okc = strings.HasPrefix(l, "OK link-ended")
					// (an error text that is none of the resolver's own stems from an earlier request of this link — e.g. the
					// handler of the previous frame invoking a malformed closure id — and is not compared)
					own := false
					for _, t := range []string{"can not call non function", "invalid argument count", "panicked with no error value", "invalid function call path"} {
						own = own || strings.Contains(l, t)
					}
					if okc && own {
						okc = text != "" && strings.Contains(l, text)
					}
				case strings.HasPrefix(m, "runs "), m == "closure", strings.HasPrefix(m, "nilrecv "):
					okc = strings.HasPrefix(l, "OK answered") || strings.HasPrefix(l, "OK link-ended") && strings.HasPrefix(m, "nilrecv ")
				}
				if okc {
					rep.ModelSteps++
				} else {
					rep.addViolation("correspondence", fmt.Sprintf("C06:resolve-model:%s/%d", c6Names[k/3], k%3), fmt.Sprintf("request for %q with %d args (%s): model %q, implementation %q", c6Names[k/3], k%3, api, m, l), nil)
				}
			}
		}
		rep.Evaluations += nFrames
		rep.Distinct += nFrames
		if err != nil || !strings.Contains(string(outB), "DONE ") {
			fr, _ := hex.DecodeString(strings.Fields(last + " x x")[2])
			stderr := ""
			if ee, ok := err.(*exec.ExitError); ok {
				stderr = firstLine(string(ee.Stderr))
			}
			kind := stderr
			if i := strings.Index(kind, ":"); i > 0 && strings.HasPrefix(kind, "panic") {
				kind = strings.TrimSpace(kind[i+1:])
			}
			if len(kind) > 80 {
				kind = kind[:80]
			}
			rep.addViolation("property", "C06:"+api+":crash:"+kind, fmt.Sprintf("the process died after frame %q: %s", fr, stderr),
				map[string]any{"suite": "C06", "api": api, "frame": string(fr), "cmd": fmt.Sprintf("bin/harness -sub c06 %d %d %s", seed*1000+int64(b), per, api)})
		}
		if b == 0 {
			for _, l := range lines {
				if strings.HasPrefix(l, "DONE") {
					rep.sample(map[string]any{"api": api, "summary": l})
				}
			}
		}
	}
}

func firstLine(s string) string {
	for _, l := range strings.Split(s, "\n") {
		if strings.HasPrefix(l, "panic:") || strings.HasPrefix(l, "fatal error:") {
			return l
		}
	}
	return strings.SplitN(s, "\n", 2)[0]
}

// systematicNames: the systematic name sweep (every name of the zoo × 0/1/2 arguments, a raw peer against a child
// registry) for a property other than C06 / C07: every "BAD" line is a violation of prop.
func systematicNames(rep *Report, prop string, seed int64) {
	for _, api := range apis() {
		cmd := exec.Command(os.Args[0], "-sub", "c06", fmt.Sprint(seed), "0", api, "systematic")
		outB, err := cmd.Output()
		last := ""
		n := 0
		for _, l := range strings.Split(string(outB), "\n") {
			switch {
			case strings.HasPrefix(l, "FRAME "):
				last = l
				n++
			case strings.HasPrefix(l, "BAD "):
				fr, _ := hex.DecodeString(strings.Fields(last + " x x")[2])
				rep.addViolation("property", prop+":names:"+api+":"+strings.SplitN(l[4:], " after frame", 2)[0], fmt.Sprintf("%s (frame %q)", l[4:], fr), map[string]any{"suite": "systematic-names", "api": api, "frame": string(fr)})
			}
		}
		rep.Evaluations += n
		rep.Distinct += n
		if err != nil || !strings.Contains(string(outB), "DONE") {
			fr, _ := hex.DecodeString(strings.Fields(last + " x x")[2])
			rep.addViolation("property", prop+":names:"+api+":crash", fmt.Sprintf("the process died after frame %q", fr), map[string]any{"suite": "systematic-names", "api": api, "frame": string(fr)})
		}
	}
}
