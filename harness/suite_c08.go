package main

// C08: identical observable behaviour across link APIs, payload types, serializers and stream chunking.

import (
	"context"
	"encoding/json"
	"fmt"
	"io"
	"math/rand"
	"strings"
	"sync"
	"time"

	"github.com/pojntfx/panrpc/go/pkg/rpc"
)

// streamReplay: the hand-offs each stream decoder really performed, replayed on the Lean stream model
// against the envelope sequence the peer really wrote.
func streamReplay(rep *Report, evs []Event, inputs map[string][]string, what string) {
	byG := map[string][]string{}
	var order []string
	for _, e := range evs {
		switch e.Point {
		case "dec.handreq", "dec.handres", "dec.exit":
			if _, ok := byG[e.G]; !ok {
				order = append(order, e.G)
			}
			byG[e.G] = append(byG[e.G], e.Point)
		}
	}
	for _, g := range order {
		accepted := false
		var lastAns string
		for _, toks := range inputs {
			lines := []string{"st reset " + strings.Join(append(append([]string{}, toks...), "err"), " ")}
			for _, ev := range byG[g] {
				switch ev {
				case "dec.handreq":
					lines = append(lines, "st decRead", "st handReq")
				case "dec.handres":
					lines = append(lines, "st decRead", "st handRes")
				case "dec.exit":
					lines = append(lines, "st decRead")
				}
			}
			lines = append(lines, "st state")
			ans, err := runDriver(lines)
			if err != nil {
				rep.addViolation("correspondence", "C08:driver", "Lean driver failed: "+err.Error(), nil)
				return
			}
			ok := true
			for _, a := range ans[:len(ans)-1] {
				if !strings.HasPrefix(a, "ok") {
					ok = false
					lastAns = a
				}
			}
			if ok {
				accepted = true
				rep.ModelSteps += len(ans) - 2
				break
			}
		}
		rep.TracesValidated++
		if !accepted {
			rep.addViolation("correspondence", "C08:stream-model", fmt.Sprintf("%s: the hand-offs of a stream decoder (%v…) are not a run of the stream model on either peer's envelope sequence: %s", what, head(byG[g], 6), lastAns), nil)
		}
	}
}

func head(xs []string, n int) []string {
	if len(xs) > n {
		return xs[:n]
	}
	return xs
}

// envelopeKinds turns the bytes one side wrote (newline-delimited JSON envelopes) into model tokens.
func envelopeKinds(b []byte) []string {
	var out []string
	n := 0
	for _, l := range strings.Split(string(b), "\n") {
		if strings.TrimSpace(l) == "" {
			continue
		}
		var m struct {
			Request  json.RawMessage `json:"request"`
			Response json.RawMessage `json:"response"`
		}
		if json.Unmarshal([]byte(l), &m) != nil {
			continue
		}
		n++
		hasReq := len(m.Request) > 0 && string(m.Request) != "null"
		hasRes := len(m.Response) > 0 && string(m.Response) != "null"
		switch {
		case hasReq && hasRes:
			out = append(out, fmt.Sprintf("both:%d:%d", n, n))
		case hasReq:
			out = append(out, fmt.Sprintf("req:%d", n))
		case hasRes:
			out = append(out, fmt.Sprintf("res:%d", n))
		default:
			out = append(out, "empty")
		}
	}
	return out
}

func c08Transcript[T any](codec Codec[T], api string, chunk func(int) int, rng *rand.Rand, script []int) ([]string, error) {
	p, err := NewPair(codec, PairOpts{API: api, Chunk: chunk})
	if err != nil {
		return nil, err
	}
	if api == "stream" && codec.Name == "json-raw" && c08Rep != nil {
		rec, stop := startTraceRec()
		defer stop()
		defer func() {
			streamReplay(c08Rep, rec.events(), map[string][]string{"A": envelopeKinds(p.StreamB.Bytes()), "B": envelopeKinds(p.StreamA.Bytes())}, "seeded workload over the stream API")
		}()
	}
	ra, _, _ := p.A.AnyRemote()
	rb, _, _ := p.B.AnyRemote()
	ctx := context.Background()
	var t []string
	add := func(f string, a ...any) { t = append(t, fmt.Sprintf(f, a...)) }
	for step, op := range script {
		rem, dir := ra, "A>B"
		if step%2 == 1 {
			rem, dir = rb, "B>A"
		}
		switch op {
		case 0:
			v, e := rem.Echo(ctx, step, "s")
			add("%s Echo -> %q %v", dir, v, e)
		case 1:
			v, e := rem.Add(ctx, int64(step), 1<<33)
			add("%s Add -> %d %v", dir, v, e)
		case 2:
			e := rem.Fail(ctx, fmt.Sprintf(" boom %d ", step))
			add("%s Fail -> %v", dir, e)
		case 3:
			v, e := rem.FailVal(ctx, step, "fv", step%3 == 0)
			add("%s FailVal -> %d %v", dir, v, e)
		case 4:
			v, e := rem.WithClosure(ctx, 3, false, func(ctx context.Context, i int, s string) (string, error) {
				if i == 1 {
					return "", fmt.Errorf("cb%d", i)
				}
				return s + "!", nil
			})
			add("%s WithClosure -> %v %v", dir, v, e)
		case 5:
			v, e := rem.Bounce(ctx, 4)
			add("%s Bounce -> %d %v", dir, v, e)
		case 6:
			v, e := rem.Sub.Ping(ctx, step)
			add("%s Sub.Ping -> %q %v", dir, v, e)
		case 7:
			v, e := rem.Deep.Leaf.Ping(ctx, step)
			add("%s Deep.Leaf.Ping -> %q %v", dir, v, e)
		case 8:
			e := rem.NoRet(ctx, step)
			add("%s NoRet -> %v", dir, e)
		case 9:
			v, e := rem.Sum(ctx, []int{step, 2, 3})
			add("%s Sum -> %d %v", dir, v, e)
		case 10:
			v, e := rem.ClosureTypes(ctx, step, func(ctx context.Context, a int, b float64, c bool, d string, e []int, f []string, g uint8, h []float64, i []bool, j int64) (string, error) {
				return closureRow{a, b, c, d, e, f, g, h, i, j}.render(), nil
			})
			add("%s ClosureTypes -> %q %v", dir, strings.ReplaceAll(v, "[]string(nil)", "[]"), e)
		}
	}
	ea, eb, ok := p.Shutdown()
	add("teardown ok=%v A=%v B=%v", ok, ea != nil, eb != nil)
	// the disconnect notifications come from the setup goroutines after both loops left: wait for them
	waitFor(func() bool {
		n := 0
		for _, s := range []*Side[T]{p.A, p.B} {
			for _, h := range s.Hooks() {
				if h.Kind == "link.disconnect" || h.Kind == "reg.disconnect" {
					n++
				}
			}
		}
		return n >= 4
	})
	norm := func(s *Side[T]) {
		for _, inv := range s.Svc.Invocations() {
			rid := "R"
			if inv.RemoteID == "" {
				rid = "-"
			}
			add("inv %s %s(%s) serial=%d rid=%s", inv.Side, inv.Method, inv.Args, inv.Serial, rid)
		}
		ids := map[string]string{}
		for _, h := range s.Hooks() {
			if _, ok := ids[h.RemoteID]; !ok {
				ids[h.RemoteID] = fmt.Sprintf("id%d", len(ids))
			}
			add("hook %s %s %s", s.Name, h.Kind, ids[h.RemoteID])
		}
	}
	norm(p.A)
	norm(p.B)
	return t, nil
}

// c08HangUp: the peer writes k one-way requests and disappears; every request written before the
// hang-up must be handled, whichever link API carries it.
func c08HangUp(api string, k int) (handled int, err error) {
	side := newSide[json.RawMessage]("V")
	codec := jsonRaw()
	ctx, cancel := context.WithCancel(context.Background())
	defer cancel()
	linkErr := make(chan error, 1)
	var frames [][]byte
	for i := 0; i < k; i++ {
		frames = append(frames, []byte(fmt.Sprintf(`{"call":"h%d","function":"NoRet","args":[%d]}`, i, i)))
	}
	switch api {
	case "message":
		inReq, inRes, out := NewQueue(), NewQueue(), NewQueue()
		inReq.Drain = true
		go func() {
			linkErr <- side.Reg.LinkMessage(ctx,
				func(b json.RawMessage) error { return out.Put(b) }, func(b json.RawMessage) error { return out.Put(b) },
				func() (json.RawMessage, error) { b, e := inReq.Get(); return b, e }, func() (json.RawMessage, error) { b, e := inRes.Get(); return b, e },
				codec.Marshal, codec.Unmarshal, nil)
		}()
		for _, f := range frames {
			inReq.Put(f)
		}
		inReq.Close(io.EOF)
		inRes.Close(io.EOF)
	case "stream":
		pr, pw := io.Pipe()
		dec := json.NewDecoder(pr)
		go func() {
			linkErr <- side.Reg.LinkStream(ctx,
				func(m rpc.Message[json.RawMessage]) error { return nil },
				func(m *rpc.Message[json.RawMessage]) error { return dec.Decode(m) },
				codec.Marshal, codec.Unmarshal, nil)
		}()
		go func() {
			for _, f := range frames {
				fmt.Fprintf(pw, `{"request":%s,"response":null}`+"\n", f)
			}
			pw.Close()
		}()
	}
	select {
	case <-linkErr:
	case <-time.After(watchdog):
		return 0, fmt.Errorf("Link did not return after the peer hung up")
	}
	time.Sleep(20 * time.Millisecond)
	for _, inv := range side.Svc.Invocations() {
		if inv.Method == "NoRet" {
			handled++
		}
	}
	return handled, nil
}

var c08Rep *Report

func runC08(rep *Report, tier string, seed int64) {
	c08Rep = rep
	c08Envelopes(rep)
	c08InFlightAtFailure(rep)
	hangs := 10
	if tier == "thorough" {
		hangs = 200
	}
	for i := 0; i < hangs; i++ {
		k := 1 + i%8
		for _, api := range apis() {
			rep.Evaluations++
			n, err := c08HangUp(api, k)
			if err != nil {
				rep.addViolation("property", "C08:hangup:"+api, err.Error(), map[string]any{"suite": "C08-hangup", "api": api, "requests": k})
			} else if n != k {
				rep.addViolation("property", "C08:hangup:"+api, fmt.Sprintf("the peer wrote %d requests and hung up: %d handlers ran over the %s API (every request written before the hang-up must be handled, as over a message transport)", k, n, api),
					map[string]any{"suite": "C08-hangup", "api": api, "requests": k})
			}
		}
	}
	rep.Rule = "one seeded sequential workload (echo, int64 arithmetic, errors with blanks, value+error, closures with error results, nested bounce, nested names, no-result call, slices, typed closure arguments, teardown) is replayed under " +
		"{message API, stream API whole writes, stream API with PRNG chunking 1..7 bytes} × {JSON raw, JSON bytes, CBOR}; the normalised transcripts (results, errors, invocation logs, hook events) must be pairwise equal. distinct = (workload seed, configuration)"
	rounds := 10
	if tier == "thorough" {
		rounds = 40
	}
	for r := 0; r < rounds; r++ {
		wr := rand.New(rand.NewSource(seed*1000 + int64(r)))
		script := make([]int, 12+wr.Intn(10))
		for i := range script {
			script[i] = wr.Intn(11)
		}
		type cfg struct {
			name string
			run  func() ([]string, error)
		}
		crng := rand.New(rand.NewSource(seed + int64(r)))
		var cmu sync.Mutex
		chunk := func(n int) int { cmu.Lock(); defer cmu.Unlock(); return 1 + crng.Intn(7) }
		cfgs := []cfg{
			{"message/json-raw", func() ([]string, error) { return c08Transcript(jsonRaw(), "message", nil, wr, script) }},
			{"message/json-bytes", func() ([]string, error) { return c08Transcript(jsonBytes(), "message", nil, wr, script) }},
			{"message/cbor-raw", func() ([]string, error) { return c08Transcript(cborRaw(), "message", nil, wr, script) }},
			{"stream/json-raw", func() ([]string, error) { return c08Transcript(jsonRaw(), "stream", nil, wr, script) }},
			{"stream/json-bytes", func() ([]string, error) { return c08Transcript(jsonBytes(), "stream", nil, wr, script) }},
			{"stream/cbor-raw", func() ([]string, error) { return c08Transcript(cborRaw(), "stream", nil, wr, script) }},
			{"stream-chunked/json-raw", func() ([]string, error) { return c08Transcript(jsonRaw(), "stream", chunk, wr, script) }},
			{"stream-chunked/cbor-raw", func() ([]string, error) { return c08Transcript(cborRaw(), "stream", chunk, wr, script) }},
		}
		var base []string
		for i, c := range cfgs {
			rep.Evaluations++
			rep.Distinct++
			t, err := c.run()
			desc := map[string]any{"suite": "C08", "config": c.name, "script": script, "seed": seed*1000 + int64(r)}
			if err != nil {
				rep.addViolation("property", "C08:setup:"+c.name, "link setup failed: "+err.Error(), desc)
				continue
			}
			if i == 0 {
				base = t
				rep.sample(map[string]any{"script": script, "transcript_lines": len(t), "first": t[:3]})
				continue
			}
			if len(t) != len(base) {
				rep.addViolation("property", "C08:diff:"+c.name, fmt.Sprintf("transcript under %s has %d lines, under %s %d", c.name, len(t), cfgs[0].name, len(base)), desc)
				continue
			}
			for k := range t {
				if t[k] != base[k] {
					rep.addViolation("property", "C08:diff:"+c.name, fmt.Sprintf("line %d differs: %s: %q / %s: %q", k, cfgs[0].name, base[k], c.name, t[k]), desc)
					break
				}
			}
		}
	}
}
