package main

import (
	"encoding/json"

	"github.com/fxamacker/cbor/v2"
)

func setBytes(p any, b []byte) {
	switch v := p.(type) {
	case *json.RawMessage:
		*v = json.RawMessage(b)
	case *cbor.RawMessage:
		*v = cbor.RawMessage(b)
	case *[]byte:
		*v = b
	default:
		panic("setBytes: unsupported payload type")
	}
}
