package main

// C04 / C05: cancellation and closures.
//  (a) a handler invokes the closure it was handed under a context of its own (a deadline): that invocation is a
//      call like any other — it returns promptly with the context's error once the deadline passes, although the
//      closure's body (on the other side) is still running;
//  (b) the call that PASSED the closure is cancelled while the closure's body is still running: it returns promptly
//      with its context's error (releasing the closure must not wait for the running body).
// Both directions, both link APIs.

import (
	"context"
	"errors"
	"fmt"
	"strings"
	"time"
)

func closureCtxScenarios(rep *Report, prop string) {
	for _, api := range apis() {
		for _, dir := range []string{"A->B", "B->A"} {
			closureCtxOnce(rep, prop, api, dir)
		}
	}
}

func closureCtxOnce(rep *Report, prop, api, dir string) {
	p, err := NewPair(jsonRaw(), PairOpts{API: api})
	d := map[string]any{"suite": "closure-ctx", "api": api, "dir": dir}
	if err != nil {
		rep.addViolation("property", prop+":closure-ctx:setup", "link setup failed: "+err.Error(), d)
		return
	}
	defer p.Shutdown()
	rem, _, _ := p.A.AnyRemote()
	if dir == "B->A" {
		rem, _, _ = p.B.AnyRemote()
	}
	key := fmt.Sprintf("%s:closure-ctx:%s", prop, api)
	// ---- (a)
	rep.Evaluations++
	rep.Distinct++
	release := make(chan struct{})
	entered := make(chan struct{}, 1)
	done := make(chan callResult, 1)
	go func() {
		v, err := rem.TimedClosure(context.Background(), 40, func(ctx context.Context, i int, s string) (string, error) {
			select {
			case entered <- struct{}{}:
			default:
			}
			<-release // the body outlives the invocation's deadline
			return "late closure result", nil
		})
		done <- callResult{true, v, err}
	}()
	select {
	case r := <-done:
		parts := strings.SplitN(fmt.Sprint(r.val), "|", 3)
		if r.err != nil || len(parts) != 3 || parts[0] != "" || !strings.Contains(parts[1], context.DeadlineExceeded.Error()) {
			rep.addViolation("property", key+":invocation-deadline", fmt.Sprintf("a closure invoked under a 40 ms deadline while its body keeps running: the invocation returned %q (err %v); want the zero value and the deadline's error", r.val, r.err), d)
		}
	case <-time.After(2 * time.Second):
		rep.addViolation("property", key+":invocation-deadline-ignored", "a closure invoked by the handler under a 40 ms deadline did not return for 2 s: the invocation ignores the context the handler gave it (it waits for the closure's body)", d)
	}
	close(release)
	select {
	case <-done:
	default:
	}
	// the link is healthy afterwards
	if r := withWatchdog(func() (any, error) { return rem.Echo(context.Background(), 1, "after") }); !r.ok || r.err != nil {
		rep.addViolation("property", key+":link-after-invocation-deadline", fmt.Sprintf("the link is not healthy after a closure invocation's deadline passed: %+v", r), d)
		return
	}
	// ---- (b)
	rep.Evaluations++
	rep.Distinct++
	release2 := make(chan struct{})
	entered2 := make(chan struct{}, 1)
	ctx, cancel := context.WithCancel(context.Background())
	defer cancel()
	done2 := make(chan callResult, 1)
	go func() {
		v, err := rem.WithClosure(ctx, 1, false, func(ctx context.Context, i int, s string) (string, error) {
			select {
			case entered2 <- struct{}{}:
			default:
			}
			<-release2
			return "late", nil
		})
		done2 <- callResult{true, v, err}
	}()
	select {
	case <-entered2:
	case <-time.After(watchdog):
		rep.addViolation("property", key+":closure-not-invoked", "the callee never invoked the closure", d)
		close(release2)
		return
	}
	cancel()
	select {
	case r := <-done2:
		if !errors.Is(r.err, context.Canceled) {
			rep.addViolation("property", key+":cancel-while-closure-runs", fmt.Sprintf("a call cancelled while its closure is running returned (%v, %v); want context.Canceled", r.val, r.err), d)
		}
	case <-time.After(2 * time.Second):
		rep.addViolation("property", key+":cancel-while-closure-runs-hangs", "a call whose context was cancelled while the closure it passed is still running did not return for 2 s (releasing the closure waits for the running body)", d)
	}
	close(release2)
	time.Sleep(2 * time.Millisecond)
	if r := withWatchdog(func() (any, error) { return rem.Echo(context.Background(), 2, "after") }); !r.ok || r.err != nil {
		rep.addViolation("property", key+":link-after-cancel", fmt.Sprintf("the link is not healthy after cancelling a call whose closure was running: %+v", r), d)
	}
}
