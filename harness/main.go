package main

import (
	"flag"
	"fmt"
	"os"
)

func main() {
	tier := flag.String("tier", "quick", "quick|thorough")
	seed := flag.Int64("seed", 1, "PRNG seed")
	out := flag.String("out", "-", "report file")
	replay := flag.String("replay", "", "replay spec")
	flag.Parse()
	if flag.NArg() < 1 {
		fmt.Fprintln(os.Stderr, "usage: harness [flags] <property>")
		os.Exit(2)
	}
	prop := flag.Arg(0)
	rep := &Report{Property: prop, Tier: *tier, Seed: *seed, Extra: map[string]any{}}
	switch prop {
	case "C19":
		runC19(rep, *tier, *seed, *replay)
	default:
		fmt.Fprintln(os.Stderr, "harness: no suite for", prop)
		os.Exit(2)
	}
	rep.write(*out)
}
