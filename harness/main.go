package main

import (
	"time"
	"flag"
	"fmt"
	"os"
)

func main() {
	tier := flag.String("tier", "quick", "quick|thorough")
	seed := flag.Int64("seed", 1, "PRNG seed")
	out := flag.String("out", "-", "report file")
	replay := flag.String("replay", "", "replay spec")
	sub := flag.String("sub", "", "internal: run one probe in a child process")
	flag.Parse()
	if *sub != "" {
		switch *sub {
		case "c18":
			subC18(flag.Arg(0))
		case "c06":
			subC06(flag.Args())
		case "c19stress":
			subC19Stress(flag.Args())
		case "c19closerace":
			subC19CloseRace(flag.Args())
		case "userpanic":
			subUserPanic(flag.Args())
		case "rawpeer":
			subRawPeer(flag.Args())
		case "callee":
			subCallee(flag.Args())
		case "lateframes":
			subLateFrames(flag.Args()[0:])
			return
		case "shutdown":
			subShutdown(flag.Args())
		case "schedlines":
			subSchedLines(flag.Args())
		case "sched":
			subSched(flag.Args())
		case "race":
			subRace(flag.Arg(0), *tier, *seed)
		default:
			runSub(*sub, flag.Args())
		}
		return
	}
	if flag.NArg() < 1 {
		fmt.Fprintln(os.Stderr, "usage: harness [flags] <property>")
		os.Exit(2)
	}
	prop := flag.Arg(0)
	rep := &Report{Property: prop, Tier: *tier, Seed: *seed, Extra: map[string]any{}}
	switch prop {
	case "C19":
		runC19(rep, *tier, *seed, *replay)
	case "C03", "C16":
		runFaultSuite(rep, *tier, *seed, prop)
		runSchedSuite(rep, *tier, *seed, prop)
	case "C14", "C15":
		runTeardownSuite(rep, *tier, *seed, prop)
	case "C18":
		runC18(rep, *tier, *seed)
	case "C09":
		runC09(rep, *tier, *seed)
	case "C17":
		runC17(rep, *tier, *seed)
	case "C11":
		runC11(rep, *tier, *seed)
	case "C12":
		runC12(rep, *tier, *seed)
		runSchedSuite(rep, *tier, *seed, prop)
	case "C13":
		runC13(rep, *tier, *seed)
	case "C08":
		runC08(rep, *tier, *seed)
	case "C20":
		runC20(rep, *tier, *seed)
	case "C07":
		runC07(rep, *tier, *seed)
	case "C04", "C05":
		runSchedSuite(rep, *tier, *seed, prop)
		closureCtxScenarios(rep, prop)
		if prop == "C04" {
			c04DeadlineScenarios(rep, prop)
			c04LateErrorResponse(rep, prop)
		}
		if prop == "C05" {
			runCalleeReplay(rep, prop)
			// calls that register exactly while the link fails (transport only: the link's context lives on)
			if *tier == "thorough" {
				c15CallsStartingAtTeardown(rep, prop, 3000, 24, 30*time.Second, false)
			} else {
				c15CallsStartingAtTeardown(rep, prop, 400, 24, 4*time.Second, false)
			}
		}
	case "C06":
		runC06(rep, *tier, *seed)
	case "C01":
		runC01(rep, *tier, *seed)
	case "C02":
		runC02(rep, *tier, *seed)
	case "C10":
		runC10(rep, *tier, *seed)
		runCalleeReplay(rep, prop)
	default:
		fmt.Fprintln(os.Stderr, "harness: no suite for", prop)
		os.Exit(2)
	}
	for _, api := range apis() {
		switch prop {
		case "C02", "C05":
			closureRendezvous(rep, prop, api, 4)
		case "C11":
			closureRendezvous(rep, prop, api, 40)
		}
		switch prop {
		case "C01", "C11", "C12", "C13":
			overlappingClosureCalls(rep, prop, api)
		}
		if prop == "C09" {
			twoClosurePositions(rep, prop, api)
			closureValueRows(rep, prop, jsonRaw(), api)
			closureValueRows(rep, prop, cborRaw(), api)
		}
		switch prop {
		case "C04", "C01", "C05", "C11", "C17":
			c02ExpiredNestedCall(rep, prop, api)
		}
		if prop == "C01" || prop == "C02" || prop == "C13" {
			c01PingPong(rep, prop, api)
		}
		if prop == "C16" || prop == "C05" {
			panickingClosures(rep, prop, api, 6, false)
		}
		if prop == "C10" || prop == "C17" {
			panickingClosures(rep, prop, api, 6, false)
			panickingClosures(rep, prop, api, 12, true)
		}
	}
	if prop == "C13" {
		enumProp = "C13"
		c14EnumDuringTeardown(rep)
		enumProp = "C14"
		twoLinksSameLiteral(rep, prop)
		ld := 1200 * time.Millisecond
		if *tier == "thorough" {
			ld = 6 * time.Second
		}
		linksAfterAHandlerPanic(rep, prop, ld)
	}
	if prop == "C18" {
		systematicNames(rep, prop, *seed)
	}
	switch prop {
	case "C01", "C09", "C10":
		dur := 2500 * time.Millisecond
		if *tier == "thorough" {
			dur = 8 * time.Second
		}
		cancelRaceWorkload(rep, prop, dur)
	}
	if prop == "C08" {
		c08NarrowClosureArgs(rep)
		c08BothMembers(rep)
		// the same 1300 calls in flight on either API: all reach their handlers, all complete (a bound on handlers in
		// flight stalls the stream API's single decoder for good once nested calls are involved)
		for _, api := range apis() {
			c16ManyInFlight(rep, prop, api, 1300)
		}
	}
	switch prop {
	case "C01", "C10", "C11", "C17":
		for _, api := range apis() {
			errKindScenarios(rep, prop, jsonRaw(), api)
			if prop == "C10" || prop == "C17" {
				errKindScenarios(rep, prop, cborRaw(), api)
			}
			if prop == "C17" {
				typedNilClosure(rep, prop, api)
			}
		}
	case "C09":
		for _, api := range apis() {
			collectionScenarios(rep, prop, jsonRaw(), api)
			collectionScenarios(rep, prop, cborRaw(), api)
			collectionScenarios(rep, prop, jsonBytes(), api)
		}
	}
	runRawPeer(rep, prop)
	rep.write(*out)
}

func runSub(name string, args []string) {
	fmt.Fprintln(os.Stderr, "unknown sub", name)
	os.Exit(3)
}
