package main

// C14, "this applies to the registry-wide hooks and to the hooks supplied for the individual link": every
// combination of set / unset hooks on both levels. Registry hooks: none (nil), an empty struct, connect only,
// disconnect only, both; link hooks: nil, connect only, disconnect only, both. One message link per
// combination, ended by its context after its reads have returned: every hook that WAS supplied receives exactly
// one notification, connect before disconnect, all with the identifier the link is enumerated under.

import (
	"context"
	"encoding/json"
	"errors"
	"fmt"
	"strings"
	"sync"
	"time"

	"github.com/pojntfx/panrpc/go/pkg/rpc"
)

func c14HookCombos(rep *Report) {
	for rc := 0; rc < 5; rc++ {
		for lc := 0; lc < 4; lc++ {
			for _, api := range apis() {
				rep.Evaluations++
				rep.Distinct++
				c14HookCombo(rep, rc, lc, api)
			}
		}
	}
}

func c14HookCombo(rep *Report, rc, lc int, api string) {
	rcName := []string{"nil", "empty", "connect", "disconnect", "both"}[rc]
	lcName := []string{"nil", "connect", "disconnect", "both"}[lc]
	desc := map[string]any{"suite": "C14-hook-combinations", "registryHooks": rcName, "linkHooks": lcName, "api": api}
	key := "C14:hooks:" + rcName + ":" + lcName
	var mu sync.Mutex
	var log []string
	// every hook is slow: it records its notification only after a pause. The library runs hooks inside the critical
	// section that changes the enumeration, so "the link is (no longer) enumerated" implies "its connect (disconnect)
	// hooks have FINISHED" — a hook started with `go` would still be sleeping.
	note := func(what string) func(string) {
		return func(id string) {
			time.Sleep(8 * time.Millisecond)
			mu.Lock()
			log = append(log, what+":"+id)
			mu.Unlock()
		}
	}
	logged := func(what string) bool {
		mu.Lock()
		defer mu.Unlock()
		for _, l := range log {
			if strings.HasPrefix(l, what+":") {
				return true
			}
		}
		return false
	}
	var rh *rpc.RegistryHooks
	switch rc {
	case 1:
		rh = &rpc.RegistryHooks{}
	case 2:
		rh = &rpc.RegistryHooks{OnClientConnect: note("reg.connect")}
	case 3:
		rh = &rpc.RegistryHooks{OnClientDisconnect: note("reg.disconnect")}
	case 4:
		rh = &rpc.RegistryHooks{OnClientConnect: note("reg.connect"), OnClientDisconnect: note("reg.disconnect")}
	}
	var lh *rpc.LinkHooks
	switch lc {
	case 1:
		lh = &rpc.LinkHooks{OnClientConnect: note("link.connect")}
	case 2:
		lh = &rpc.LinkHooks{OnClientDisconnect: note("link.disconnect")}
	case 3:
		lh = &rpc.LinkHooks{OnClientConnect: note("link.connect"), OnClientDisconnect: note("link.disconnect")}
	}
	reg := rpc.NewRegistry[rpRemote, json.RawMessage](rpLocal{}, rh)
	ctx, cancel := context.WithCancel(context.Background())
	defer cancel()
	q := NewQueue()
	done := make(chan error, 1)
	mar := func(v any) (json.RawMessage, error) { b, err := json.Marshal(v); return b, err }
	unm := func(data json.RawMessage, v any) error { return json.Unmarshal([]byte(data), v) }
	go func() {
		if api == "message" {
			done <- reg.LinkMessage(ctx,
				func(b json.RawMessage) error { return nil }, func(b json.RawMessage) error { return nil },
				func() (json.RawMessage, error) { b, e := q.Get(); return b, e }, func() (json.RawMessage, error) { b, e := q.Get(); return b, e },
				mar, unm, lh)
		} else {
			done <- reg.LinkStream(ctx,
				func(m rpc.Message[json.RawMessage]) error { return nil },
				func(m *rpc.Message[json.RawMessage]) error { _, e := q.Get(); return e },
				mar, unm, lh)
		}
	}()
	id := ""
	waitFor(func() bool {
		reg.ForRemotes(func(i string, r rpRemote) error { id = i; return nil })
		return id != ""
	})
	if id == "" {
		rep.addViolation("property", key+":setup", "the link did not come up (registry hooks "+rcName+", link hooks "+lcName+")", desc)
		cancel()
		q.Close(errors.New("closed"))
		return
	}
	// the link IS enumerated: every supplied connect hook has been notified (and has returned)
	if (rc == 2 || rc == 4) && !logged("reg.connect") {
		rep.addViolation("property", key+":connect-order", "the link is enumerated but the registry-wide connect hook has not finished: at this instant the enumeration shows a link that was not announced as connected", desc)
	}
	if (lc == 1 || lc == 3) && !logged("link.connect") {
		rep.addViolation("property", key+":connect-order", "the link is enumerated but the per-link connect hook has not finished: at this instant the enumeration shows a link that was not announced as connected", desc)
	}
	cancel()
	q.Close(errors.New("closed"))
	// …and as soon as it is NOT enumerated any more, every supplied disconnect hook has been notified
	gone := false
	for i := 0; i < 20000 && !gone; i++ {
		n := 0
		reg.ForRemotes(func(i string, r rpRemote) error { n++; return nil })
		gone = n == 0
		if !gone {
			time.Sleep(50 * time.Microsecond)
		}
	}
	if gone {
		if (rc == 3 || rc == 4) && !logged("reg.disconnect") {
			rep.addViolation("property", key+":disconnect-order", "the link is no longer enumerated but the registry-wide disconnect hook has not finished: at this instant a link announced as connected (and not yet as disconnected) is missing from the enumeration", desc)
		}
		if (lc == 2 || lc == 3) && !logged("link.disconnect") {
			rep.addViolation("property", key+":disconnect-order", "the link is no longer enumerated but the per-link disconnect hook has not finished: at this instant a link announced as connected (and not yet as disconnected) is missing from the enumeration", desc)
		}
	}
	select {
	case <-done:
	case <-time.After(watchdog):
		rep.addViolation("property", key+":hang", "Link did not return after its context was cancelled and its reads had returned", desc)
		return
	}
	var want []string
	if rc == 2 || rc == 4 {
		want = append(want, "reg.connect:"+id)
	}
	if lc == 1 || lc == 3 {
		want = append(want, "link.connect:"+id)
	}
	if rc == 3 || rc == 4 {
		want = append(want, "reg.disconnect:"+id)
	}
	if lc == 2 || lc == 3 {
		want = append(want, "link.disconnect:"+id)
	}
	waitFor(func() bool { mu.Lock(); defer mu.Unlock(); return len(log) >= len(want) })
	time.Sleep(2 * time.Millisecond)
	mu.Lock()
	got := append([]string{}, log...)
	mu.Unlock()
	if strings.Join(got, " ") != strings.Join(want, " ") {
		short := func(xs []string) string { return strings.ReplaceAll(strings.Join(xs, " "), id, "<id>") }
		rep.addViolation("property", key, fmt.Sprintf("registry hooks = %s, link hooks = %s (%s API): one link came up (enumerated as <id>) and ended; the supplied hooks were notified [%s], want exactly [%s]", rcName, lcName, api, short(got), short(want)), desc)
	}
	left := 0
	reg.ForRemotes(func(i string, r rpRemote) error { left++; return nil })
	if left != 0 {
		rep.addViolation("property", key+":enumerated", fmt.Sprintf("after the link ended %d remote(s) are still enumerated", left), desc)
	}
}

// c14InheritedIDLink: a second link of the same registry is established with a context that CARRIES the identifier of
// the first, live link (a hub handler that opens a sub-link scoped to its own context). The second link is announced
// under a fresh identifier, both links are enumerated, and ending either leaves the other enumerated.
func c14InheritedIDLink(rep *Report) {
	for _, api := range apis() {
		rep.Evaluations++
		rep.Distinct++
		desc := map[string]any{"suite": "C14-inherited-identifier", "api": api}
		var mu sync.Mutex
		var connects, disconnects []string
		reg := rpc.NewRegistry[rpRemote, json.RawMessage](rpLocal{}, &rpc.RegistryHooks{
			OnClientConnect:    func(id string) { mu.Lock(); connects = append(connects, id); mu.Unlock() },
			OnClientDisconnect: func(id string) { mu.Lock(); disconnects = append(disconnects, id); mu.Unlock() },
		})
		mar := func(v any) (json.RawMessage, error) { b, err := json.Marshal(v); return b, err }
		unm := func(data json.RawMessage, v any) error { return json.Unmarshal([]byte(data), v) }
		start := func(ctx context.Context) (*Queue, chan error) {
			q := NewQueue()
			done := make(chan error, 1)
			go func() {
				if api == "message" {
					done <- reg.LinkMessage(ctx,
						func(b json.RawMessage) error { return nil }, func(b json.RawMessage) error { return nil },
						func() (json.RawMessage, error) { b, e := q.Get(); return b, e }, func() (json.RawMessage, error) { b, e := q.Get(); return b, e },
						mar, unm, nil)
				} else {
					done <- reg.LinkStream(ctx,
						func(m rpc.Message[json.RawMessage]) error { return nil },
						func(m *rpc.Message[json.RawMessage]) error { _, e := q.Get(); return e },
						mar, unm, nil)
				}
			}()
			return q, done
		}
		enumerated := func() []string {
			var ids []string
			reg.ForRemotes(func(id string, r rpRemote) error { ids = append(ids, id); return nil })
			return ids
		}
		ctx1, cancel1 := context.WithCancel(context.Background())
		q1, done1 := start(ctx1)
		waitFor(func() bool { return len(enumerated()) == 1 })
		ids := enumerated()
		if len(ids) != 1 {
			rep.addViolation("property", "C14:inherited-id:setup", "the first link did not come up", desc)
			cancel1()
			q1.Close(errors.New("closed"))
			continue
		}
		first := ids[0]
		ctx2, cancel2 := context.WithCancel(context.WithValue(context.Background(), rpc.RemoteIDContextKey, first))
		q2, done2 := start(ctx2)
		waitFor(func() bool { mu.Lock(); defer mu.Unlock(); return len(connects) == 2 })
		mu.Lock()
		cs := append([]string{}, connects...)
		mu.Unlock()
		if len(cs) != 2 {
			rep.addViolation("property", "C14:inherited-id:connect", fmt.Sprintf("a second link (context derived from a handler context of the first) produced %d connect notifications in total", len(cs)), desc)
		} else if cs[1] == first {
			rep.addViolation("property", "C14:inherited-id:not-fresh", "a second link whose context carries the first, live link's identifier was announced under that SAME identifier: not a fresh one", desc)
		}
		if n := len(enumerated()); n != 2 {
			rep.addViolation("property", "C14:inherited-id:enumeration", fmt.Sprintf("two links announced as connected and none as disconnected, %d enumerated", n), desc)
		}
		// the second link ends: the first one stays enumerated
		cancel2()
		q2.Close(errors.New("closed"))
		select {
		case <-done2:
		case <-time.After(watchdog):
		}
		waitFor(func() bool { mu.Lock(); defer mu.Unlock(); return len(disconnects) >= 1 })
		left := enumerated()
		if len(left) != 1 || left[0] != first {
			rep.addViolation("property", "C14:inherited-id:after-teardown", fmt.Sprintf("the second link ended; the first one is still connected, enumerated: %d remote(s)", len(left)), desc)
		}
		cancel1()
		q1.Close(errors.New("closed"))
		select {
		case <-done1:
		case <-time.After(watchdog):
		}
	}
}
