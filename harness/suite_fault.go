package main

// C03 (in-flight calls error out when a link ends) and C16 (Link returns the first fatal
// error): fault enumeration over every operation index and kind of a workload.

import (
	"context"
	"errors"
	"fmt"
	"strings"
	"sync"
	"sync/atomic"
	"time"
)

type faultCase struct {
	API   string
	Codec string
	Side  string // whose operation fails
	Op    string // readReq readRes writeReq writeRes marshal unmarshal encode decode | cancel
	N     int    // 1-based occurrence
	K     int    // calls in flight
	CB    bool   // the failing side's first gated call is issued from inside its ForRemotes callback
	Wrap  string // "" | deadline | canceled: the injected failure wraps the context package's error of that name
	            // (a transport with its own per-read timeout / per-connection context), the LINK's context stays live
}

func (f faultCase) String() string {
	cb := ""
	if f.CB {
		cb = " in-callback"
	}
	if f.Wrap != "" {
		cb += " wraps-context-" + f.Wrap
	}
	return fmt.Sprintf("%s/%s %s.%s#%d k=%d%s", f.API, f.Codec, f.Side, f.Op, f.N, f.K, cb)
}

type faultOutcome struct {
	fired       bool
	linkErrA    error
	linkErrB    error
	linkRetA    bool
	problems03  []string
	problems16  []string
	counts      map[string]int
	atSetup     bool
}

// runFaultCase: k gated calls A→B and k gated calls B→A are in flight, a stream of Echo calls
// keeps the link busy; the planned fault fires somewhere in there (or, for Op "cancel", the
// link context of Side is cancelled when the N-th operation of any kind happens on that side).
func runFaultCase[T any](codec Codec[T], fc faultCase, record bool) *faultOutcome {
	out := &faultOutcome{}
	plan := NewFaultPlan()
	plan.Record = record
	switch fc.Wrap {
	case "deadline":
		plan.Wrap = context.DeadlineExceeded
	case "canceled":
		plan.Wrap = context.Canceled
	}
	var p *Pair[T]
	firedAt := make(chan string, 1)
	if fc.Op == "cancel" {
		// cancel when the N-th operation (of any kind) of that side happens
		var mu sync.Mutex
		cnt := 0
		plan.OnFault = nil
		orig := plan
		_ = orig
		plan.failAt = map[string]int{}
		hook := func(kind string) {
			if !strings.HasPrefix(kind, fc.Side+".") {
				return
			}
			mu.Lock()
			cnt++
			c := cnt
			mu.Unlock()
			if c == fc.N {
				select {
				case firedAt <- "cancel":
				default:
				}
			}
		}
		plan.OnEvery = hook
	} else if !record {
		plan.FailAt(kindOf(fc.Side, fc.Op), fc.N)
		plan.OnFault = func(kind string) {
			select {
			case firedAt <- kind:
			default:
			}
		}
	}
	var err error
	p, err = NewPair(codec, PairOpts{API: fc.API, Plan: plan})
	if err != nil {
		// the fault may hit link establishment itself (e.g. the very first read): that is a legal outcome
		out.problems03 = nil
		out.fired = true
		out.atSetup = true
		return out
	}
	ra, _, _ := p.A.AnyRemote()
	rb, _, _ := p.B.AnyRemote()
	type flight struct {
		from string
		res  callResult
		gate bool
		done chan struct{}
	}
	var flights []*flight
	launch := func(from string, gate bool, id int) *flight {
		f := &flight{from: from, gate: gate, done: make(chan struct{})}
		rem := ra
		if from == "B" {
			rem = rb
		}
		go func() {
			defer close(f.done)
			if gate {
				v, e := rem.Gate(context.Background(), id)
				f.res = callResult{true, v, e}
			} else {
				v, e := rem.Echo(context.Background(), id, "x")
				f.res = callResult{true, v, e}
			}
		}()
		return f
	}
	for i := 0; i < fc.K; i++ {
		flights = append(flights, launch("A", true, 100+i), launch("B", true, 200+i))
	}
	if fc.CB {
		// the canonical way to use a remote: call it from inside the enumeration callback (which is
		// exclusive by design, so one such call per side); the link then ends while it is in flight
		side, id := p.A, 150
		if fc.Side == "B" {
			side, id = p.B, 250
		}
		f := &flight{from: fc.Side, gate: true, done: make(chan struct{})}
		entered := make(chan struct{})
		go func() {
			defer close(f.done)
			_ = side.Reg.ForRemotes(func(_ string, r Remote) error {
				close(entered)
				v, e := r.Gate(context.Background(), id)
				f.res = callResult{true, v, e}
				return nil
			})
		}()
		select {
		case <-entered:
		case <-time.After(watchdog):
		}
		flights = append(flights, f)
	}
	// keep the link busy until the fault fires (or the budget is used up)
	fired := ""
	busyDeadline := time.Now().Add(2 * time.Second)
	i := 0
busy:
	for time.Now().Before(busyDeadline) {
		select {
		case fired = <-firedAt:
			break busy
		default:
		}
		f := launch([]string{"A", "B"}[i%2], false, 1000+i)
		flights = append(flights, f)
		select {
		case <-f.done:
		case fired = <-firedAt:
			break busy
		case <-time.After(watchdog):
			break busy
		}
		i++
		if record && i >= 4 {
			break
		}
	}
	out.counts = plan.Counts()
	if record {
		for k := 0; k < fc.K; k++ {
			p.B.Svc.OpenGate(100 + k)
			p.A.Svc.OpenGate(200 + k)
		}
		p.B.Svc.OpenGate(150)
		p.A.Svc.OpenGate(250)
		p.Shutdown()
		return out
	}
	if fired == "" {
		// the planned occurrence never happened in this run: nothing to judge
		for k := 0; k < fc.K; k++ {
			p.B.Svc.OpenGate(100 + k)
			p.A.Svc.OpenGate(200 + k)
		}
		p.B.Svc.OpenGate(150)
		p.A.Svc.OpenGate(250)
		p.Shutdown()
		return out
	}
	out.fired = true
	victim := p.A
	other := p.B
	if fc.Side == "B" {
		victim, other = p.B, p.A
	}
	if fc.Op == "cancel" {
		victim.Cancel()
	}
	// C16: the victim's Link returns promptly, with the first failure
	select {
	case e := <-victim.LinkErr:
		var inj *injectedError
		switch {
		case e == nil:
			out.problems16 = append(out.problems16, "Link returned nil")
		case fc.Op == "cancel" && !errors.Is(e, context.Canceled):
			out.problems16 = append(out.problems16, fmt.Sprintf("Link returned %q after its context was cancelled (want the context's error)", e))
		case fc.Op != "cancel" && !errors.As(e, &inj):
			out.problems16 = append(out.problems16, fmt.Sprintf("Link returned %q, not the failure that ended the link (%s)", e, fired))
		}
	case <-time.After(watchdog):
		out.problems16 = append(out.problems16, "Link did not return after the link ended")
	}
	// C03: the link of the failing side has ended: its in-flight calls return now, before anybody
	// cancels anything or closes the transport
	for _, f := range flights {
		if f.from != fc.Side {
			continue
		}
		select {
		case <-f.done:
		case <-time.After(watchdog):
			out.problems03 = append(out.problems03, fmt.Sprintf("an in-flight call from %s (gate=%v) had not returned %v after its link ended (before the application tore anything down)", f.from, f.gate, watchdog))
		}
	}
	// the application now tears the connection down (as the README asks): cancel + close transport
	victim.Cancel()
	p.CloseTransport()
	select {
	case <-other.LinkErr:
	case <-time.After(watchdog):
		out.problems16 = append(out.problems16, "the peer's Link did not return after the transport was closed")
	}
	other.Cancel()
	// C03: every in-flight call returns, with an error unless a genuine response arrived
	for _, f := range flights {
		select {
		case <-f.done:
			if f.gate && f.res.err == nil {
				out.problems03 = append(out.problems03, fmt.Sprintf("a call from %s whose handler never answered returned a nil error (%v)", f.from, f.res.val))
			}
			if !f.gate && f.res.err == nil {
				if s, _ := f.res.val.(string); !strings.HasSuffix(s, "#x") {
					out.problems03 = append(out.problems03, fmt.Sprintf("a call from %s returned nil error with a bogus value %q", f.from, s))
				}
			}
		case <-time.After(watchdog):
			out.problems03 = append(out.problems03, fmt.Sprintf("an in-flight call from %s (gate=%v) never returned after the link ended", f.from, f.gate))
		}
	}
	// calls made afterwards fail immediately and write nothing
	for _, s := range []struct {
		name string
		rem  Remote
	}{{"A", ra}, {"B", rb}} {
		t0 := time.Now()
		r := withWatchdog(func() (any, error) { return s.rem.Echo(context.Background(), 1, "late") })
		if !r.ok {
			out.problems03 = append(out.problems03, "a call made after the link ended hangs (side "+s.name+")")
		} else if r.err == nil {
			out.problems03 = append(out.problems03, "a call made after the link ended returned a nil error (side "+s.name+")")
		} else if d := time.Since(t0); d > 500*time.Millisecond {
			out.problems03 = append(out.problems03, fmt.Sprintf("a call made after the link ended took %v to fail (side %s)", d, s.name))
		}
	}
	for k := 0; k < fc.K; k++ {
		p.B.Svc.OpenGate(100 + k)
		p.A.Svc.OpenGate(200 + k)
	}
	p.B.Svc.OpenGate(150)
	p.A.Svc.OpenGate(250)
	fin := make(chan struct{})
	go func() { p.wg.Wait(); close(fin) }()
	select {
	case <-fin:
	case <-time.After(watchdog):
		// (already reported above as a Link / a call that does not return; do not wait for it forever)
	}
	return out
}

func faultCases[T any](codec Codec[T], api string, k int, maxPerKind int) []faultCase {
	rec := runFaultCase(codec, faultCase{API: api, Codec: codec.Name, K: k}, true)
	var out []faultCase
	total := map[string]int{}
	for kind, n := range rec.counts {
		side, op, _ := strings.Cut(kind, ".")
		total[side] += n
		lim := n + 1 // one beyond what the recording saw: the busy loop produces more
		if lim > maxPerKind {
			lim = maxPerKind
		}
		for i := 1; i <= lim; i++ {
			out = append(out, faultCase{API: api, Codec: codec.Name, Side: side, Op: op, N: i, K: k})
		}
	}
	for side, n := range total {
		lim := n
		if lim > 3*maxPerKind {
			lim = 3 * maxPerKind
		}
		for i := 1; i <= lim; i++ {
			out = append(out, faultCase{API: api, Codec: codec.Name, Side: side, Op: "cancel", N: i, K: k})
		}
	}
	return out
}

func runFaultSuite(rep *Report, tier string, seed int64, prop string) {
	rep.Rule = "fault enumeration: a workload with k gated calls in flight in each direction plus a stream of echo calls; one failure is injected at every (side, operation kind, occurrence) the workload performs " +
		"(read/write of requests/responses, marshal/unmarshal, encode/decode) and the link context is cancelled at every operation index; then the application closes the transport. " +
		"C03 oracle: every in-flight call returns with a non-nil error unless its response arrived, later calls fail at once. C16 oracle: Link returns promptly the injected error / the context's error. distinct = fault cases that fired"
	ks := []int{0, 2}
	maxPer := 8
	repeat := 2
	if tier == "thorough" {
		ks = []int{0, 1, 4, 12}
		maxPer = 24
		repeat = 4
	}
	failedCases := 0
	run := func(fc faultCase, o *faultOutcome) {
		rep.Evaluations++
		if !o.fired {
			return
		}
		rep.Distinct++
		if o.atSetup {
			n, _ := rep.Extra["fault_hit_link_setup"].(int)
			rep.Extra["fault_hit_link_setup"] = n + 1
		}
		byOp, _ := rep.Extra["fired_by_op"].(map[string]int)
		if byOp == nil {
			byOp = map[string]int{}
			rep.Extra["fired_by_op"] = byOp
		}
		byOp[fc.Op]++
		rep.sample(fc.String())
		probs := o.problems03
		if prop == "C16" {
			probs = o.problems16
		}
		if len(probs) > 0 {
			failedCases++
		}
		for _, pr := range probs {
			kind := pr
			if i := strings.IndexAny(pr, "(\""); i > 0 {
				kind = strings.TrimSpace(pr[:i])
			}
			rep.addViolation("property", fmt.Sprintf("%s:%s:%s:%s", prop, fc.API, fc.Op, kind), fc.String()+": "+pr,
				map[string]any{"suite": "fault", "case": fc, "cmd": fmt.Sprintf("./check %s --replay '%s'", prop, fc.String())})
		}
	}
	// every failing case costs several watchdog periods: once a handful of distinct failures is on record,
	// further enumeration only delays the report
	enough := func() bool { return failedCases >= 6 }
	for _, api := range apis() {
		for _, k := range ks {
			for r := 0; r < repeat && !enough(); r++ {
				for _, fc := range faultCases(jsonRaw(), api, k, maxPer) {
					if enough() {
						break
					}
					run(fc, runFaultCase(jsonRaw(), fc, false))
					if r == 0 && fc.N <= 2 {
						fc.CB = true
						run(fc, runFaultCase(jsonRaw(), fc, false))
						fc.CB = false
					}
					if r == 0 && fc.N <= 2 && fc.Op != "cancel" {
						fc.Wrap = []string{"deadline", "canceled"}[fc.N%2]
						run(fc, runFaultCase(jsonRaw(), fc, false))
					}
				}
			}
			if tier == "thorough" && !enough() {
				for _, fc := range faultCases(cborRaw(), api, k, maxPer) {
					run(fc, runFaultCase(cborRaw(), fc, false))
				}
				for _, fc := range faultCases(jsonBytes(), api, k, maxPer) {
					run(fc, runFaultCase(jsonBytes(), fc, false))
				}
			}
		}
	}
	if enough() {
		return
	}
	if prop == "C03" {
		for _, api := range apis() {
			for _, cause := range []string{"cancel", "transport"} {
				c03ClosureRunningAtLinkEnd(rep, prop, api, cause)
			}
			nestedCallAtLinkDeadline(rep, prop, api)
		}
		n := 150
		if tier == "thorough" {
			n = 3000
		}
		for i := 0; i < n; i++ {
			rep.Evaluations++
			if msg := c03Hammer(i); msg != "" {
				rep.addViolation("property", "C03:hammer", msg, map[string]any{"suite": "C03-hammer", "note": "the response read fails once while 12 goroutines keep calling; the link context is NOT cancelled; every caller must return an error"})
				break
			}
		}
		rep.Extra["hammer_repetitions"] = n
		if tier == "thorough" {
			c15CallsStartingAtTeardown(rep, prop, 3000, 24, 30*time.Second, false)
		} else {
			c15CallsStartingAtTeardown(rep, prop, 400, 24, 4*time.Second, false)
		}
	}
	if prop == "C16" {
		for _, api := range apis() {
			c16ManyInFlight(rep, prop, api, 1300)
		}
		c16CauseContexts(rep, prop)
		c16CancelDuringConnectHook(rep, prop)
		for _, api := range apis() {
			for _, how := range []string{"cancelled", "deadline"} {
				rep.Evaluations++
				rep.Distinct++
				if msg := c16DoneCtxCall(api, how); msg != "" {
					rep.addViolation("property", "C16:done-context-call:"+api, msg, map[string]any{"suite": "C16-done-context", "api": api, "context": how})
				}
			}
		}
		// the usual clean-up pattern `if err := remote.Call(…); err != nil { cancel() }`: the link's context is
		// cancelled BECAUSE the link failed — Link must still return the failure, not the later cancellation
		ftc := 60
		if tier == "thorough" {
			ftc = 1500
		}
		for i := 0; i < ftc; i++ {
			rep.Evaluations++
			if msg := c16FailThenCancel(i); msg != "" {
				rep.addViolation("property", "C16:fail-then-cancel", msg, map[string]any{"suite": "C16-fail-then-cancel", "note": "a call is in flight, the response read fails, the application cancels the link context as soon as the call returns its error"})
				break
			}
		}
		n := 300
		if tier == "thorough" {
			n = 6000
		}
		for i := 0; i < n; i++ {
			rep.Evaluations++
			if msg := c16Hammer(i); msg != "" {
				rep.addViolation("property", "C16:hammer", msg, map[string]any{"suite": "C16-hammer", "note": "a read error is injected while 8 goroutines keep calling through the dying link; repeated, the window is a few hundred nanoseconds wide"})
				break
			}
		}
		rep.Extra["hammer_repetitions"] = n
	}
	_ = seed
}

// c16Hammer: the response read fails while several goroutines keep issuing calls on the link;
// their follow-up failures (closed table, context) must never be what Link returns.
func c16Hammer(i int) string {
	codec := jsonRaw()
	plan := NewFaultPlan()
	p, err := NewPair(codec, PairOpts{API: "message", Plan: plan})
	if err != nil {
		return ""
	}
	ra, _, _ := p.A.AnyRemote()
	stop := make(chan struct{})
	var wg sync.WaitGroup
	for g := 0; g < 8; g++ {
		wg.Add(1)
		go func() {
			defer wg.Done()
			for {
				select {
				case <-stop:
					return
				default:
				}
				ra.Echo(context.Background(), 1, "h")
			}
		}()
	}
	time.Sleep(time.Duration(50+(i%7)*30) * time.Microsecond)
	plan.FailNext("A.readRes")
	msg := ""
	select {
	case e := <-p.A.LinkErr:
		var inj *injectedError
		if !errors.As(e, &inj) {
			msg = fmt.Sprintf("Link returned %q although the failure that ended the link was the injected response-read error (calls hammering the dying link)", e)
		}
	case <-time.After(watchdog):
		msg = "Link did not return after a read error under load"
	}
	close(stop)
	p.A.Cancel()
	p.B.Cancel()
	p.CloseTransport()
	wg.Wait()
	p.wg.Wait()
	return msg
}

// c03Hammer: the link ends through a transport read error (its context stays alive, the write side
// keeps working) while many goroutines are in the middle of starting calls: every one of them must
// return with an error; none may stay blocked.
func c03Hammer(i int) string {
	codec := jsonRaw()
	plan := NewFaultPlan()
	p, err := NewPair(codec, PairOpts{API: "message", Plan: plan})
	if err != nil {
		return ""
	}
	ra, _, _ := p.A.AnyRemote()
	var wg sync.WaitGroup
	var failed int64
	for g := 0; g < 12; g++ {
		wg.Add(1)
		go func() {
			defer wg.Done()
			for {
				if _, err := ra.Echo(context.Background(), 1, "h"); err != nil {
					atomic.AddInt64(&failed, 1)
					return
				}
			}
		}()
	}
	time.Sleep(time.Duration(30+(i%9)*25) * time.Microsecond)
	plan.FailNext("A.readRes")
	msg := ""
	select {
	case <-p.A.LinkErr:
	case <-time.After(watchdog):
		msg = "Link did not return after a read error under load"
	}
	done := make(chan struct{})
	go func() { wg.Wait(); close(done) }()
	select {
	case <-done:
	case <-time.After(2 * time.Second):
		if msg == "" {
			msg = fmt.Sprintf("the link ended with a transport read error 2s ago (context not cancelled), but %d of 12 callers are still blocked in a call", 12-atomic.LoadInt64(&failed))
		}
	}
	p.A.Cancel()
	p.B.Cancel()
	p.CloseTransport()
	<-done
	p.wg.Wait()
	return msg
}

// c16DoneCtxCall: a healthy link, one call made with a context that is ALREADY done (cancelled / past its
// deadline), in both directions.  Only that call fails; Link keeps blocking and later calls work.
func c16DoneCtxCall(api, how string) string {
	p, err := NewPair(jsonRaw(), PairOpts{API: api})
	if err != nil {
		return "setup: " + err.Error()
	}
	defer p.Shutdown()
	ra, _, _ := p.A.AnyRemote()
	rb, _, _ := p.B.AnyRemote()
	for _, rem := range []Remote{ra, rb} {
		ctx, cancel := context.WithCancel(context.Background())
		if how == "deadline" {
			cancel()
			ctx, cancel = context.WithDeadline(context.Background(), time.Now().Add(-time.Second))
		}
		cancel()
		r := withWatchdog(func() (any, error) { return rem.Echo(ctx, 1, "dead-on-arrival") })
		if !r.ok {
			return "a call made with a done context hangs"
		}
		if r.err == nil {
			continue // the response won the race: allowed
		}
	}
	select {
	case e := <-p.A.LinkErr:
		return fmt.Sprintf("a call made with an already-done per-call context (%s) ended the link: Link returned %q although the link's context is live and the transport healthy", how, e)
	case e := <-p.B.LinkErr:
		return fmt.Sprintf("a call made with an already-done per-call context (%s) ended the peer's link: Link returned %q", how, e)
	case <-time.After(30 * time.Millisecond):
	}
	if r := withWatchdog(func() (any, error) { return ra.Echo(context.Background(), 2, "after") }); !r.ok || r.err != nil {
		return fmt.Sprintf("after a call with a done context the link no longer works: %+v", r)
	}
	return ""
}

// c16FailThenCancel: see the call site.
func c16FailThenCancel(i int) string {
	plan := NewFaultPlan()
	p, err := NewPair(jsonRaw(), PairOpts{API: []string{"message", "stream"}[i%2], Plan: plan})
	if err != nil {
		return ""
	}
	ra, _, _ := p.A.AnyRemote()
	callDone := make(chan struct{})
	go func() {
		defer close(callDone)
		if _, err := ra.Gate(context.Background(), 900); err != nil {
			p.A.Cancel() // the application reacts to the failure
		}
	}()
	// the call is in flight (its handler is parked on the gate)
	waitFor(func() bool {
		for _, inv := range p.B.Svc.Invocations() {
			if inv.Method == "Gate" {
				return true
			}
		}
		return false
	})
	plan.FailNext("A.readRes")
	plan.FailNext("A.decode")
	go ra.Echo(context.Background(), 1, "provoke a response") // makes A read
	msg := ""
	select {
	case e := <-p.A.LinkErr:
		var inj *injectedError
		if !errors.As(e, &inj) {
			msg = fmt.Sprintf("the link ended through an injected read failure and the application then cancelled its context: Link returned %q instead of the failure that ended it", e)
		}
	case <-time.After(watchdog):
		msg = "Link did not return after a read failure"
	}
	p.B.Svc.OpenGate(900)
	p.A.Cancel()
	p.B.Cancel()
	p.CloseTransport()
	select {
	case <-callDone:
	case <-time.After(watchdog):
	}
	fin := make(chan struct{})
	go func() { p.wg.Wait(); close(fin) }()
	select {
	case <-fin:
	case <-time.After(watchdog):
	}
	return msg
}
