package main

// C18: remote definitions. For every remote struct type of the zoo: the real registry is
// linked (in a subprocess, so a crash is an exit status) against a raw peer that records the
// `function` name of every request; every stub found by reflection is invoked; the outcome is
// compared with (a) the property's own oracle computed from reflect.Type and (b) the Lean
// model's answer for the same shape (driver query `rw walk`).

import (
	"context"
	"encoding/hex"
	"encoding/json"
	"errors"
	"fmt"
	"os"
	"os/exec"
	"reflect"
	"sort"
	"strings"
	"time"

	"github.com/pojntfx/panrpc/go/pkg/rpc"
)

type ctxT = context.Context

// ---- zoo of remote definitions
type rwValidFlat struct {
	A func(ctx ctxT) error
	B func(ctx ctxT, x int) (string, error)
}
type rwInnerOK struct {
	Get func(ctx ctxT, k string) (int, error)
	P   int
}
type rwDeepOK struct {
	Leaf rwInnerOK
	Ping func(ctx ctxT) error
}
type rwNested3 struct {
	Ok    func(ctx ctxT) error
	n     int
	Inner rwInnerOK
	Deep  struct {
		D  rwDeepOK
		Up func(ctx ctxT, a, b int) (int, error)
	}
	Label string
}
type rwNoOut struct{ F func(ctx ctxT) }
type rwThreeOut struct{ F func(ctx ctxT) (int, int, error) }
type rwLastNotErr struct{ F func(ctx ctxT) (error, int) }
type rwOneNotErr struct{ F func(ctx ctxT) int }
type rwNoIn struct{ F func() error }
type rwCtxNotFirst struct{ F func(x int, ctx ctxT) error }
type rwBothBad struct{ F func(x int) int } // return shape is tested first
type rwErrErr struct{ F func(ctx ctxT) (error, error) }
type rwInvalidAfterValid struct {
	A func(ctx ctxT) error
	B func(ctx ctxT) int
	C func() error
}
type rwInvalidDeep struct {
	A     func(ctx ctxT) error
	Inner struct {
		Ok  func(ctx ctxT) error
		Bad func(x int) error
	}
	Z func(ctx ctxT) int
}
type rwInvalidArgsThenReturn struct {
	Inner struct{ Bad func() error }
	Z     func(ctx ctxT) int
}
type rwUnexportedFunc struct {
	Ok     func(ctx ctxT) error
	helper func(ctx ctxT) error
}
type rwUnexportedInvalid struct {
	Ok     func(ctx ctxT) error
	helper func() int
}
type rwUnexportedStruct struct {
	Ok    func(ctx ctxT) error
	inner rwInnerOK
}
type rwEmbeddedExported struct {
	rwInnerOK2
	Top func(ctx ctxT) error
}
type rwInnerOK2 struct {
	Get func(ctx ctxT, k string) (int, error)
}
type rwPtrField struct {
	Ok  func(ctx ctxT) error
	Ptr *rwInnerOK // pointer-to-struct: not a struct kind, ignored
	M   map[string]func()
	S   []func()
	I   interface{}
}
// a data struct reached through a POINTER: not part of the remote definition, whatever it holds
type rwInfo struct {
	OnChange func()
	Limit    int
}
type rwPtrToForeign struct {
	Ping func(ctx ctxT) (string, error)
	Info *rwInfo
	Self *rwPtrToForeign
}

// valid function fields whose PARAMETERS are function types of any shape (C18 judges the field's own signature)
type rwCallbackParams struct {
	Subscribe func(ctx ctxT, onEvent func(ctx ctxT, msg string)) error
	Watch     func(ctx ctxT, cb func() (int, int, error), done func(err error) bool) (int, error)
	Ping      func(ctx ctxT) (string, error)
}
type rwVariadic struct {
	V func(ctx ctxT, xs ...int) (int, error)
}
type rwCustomCtx struct {
	F func(ctx myCtx) error
}
type myCtx interface {
	context.Context
	Extra()
}
type myCtxImpl struct{ context.Context }

func (myCtxImpl) Extra() {}

type rwEmpty struct{}
type rwOnlyOther struct {
	A int
	B string
}
type rwFuncNamedType struct {
	F rwFn
}
type rwFn func(ctx ctxT) error

type rwProbe struct {
	Name    string
	LinkErr string   // "" = Link did not return within the grace period (success)
	Stubs   []string // "path=functionSent"
	Nil     []string // exported valid func fields left nil
	Shape   string
}

var (
	rwErrorType   = reflect.TypeOf((*error)(nil)).Elem()
	rwContextType = reflect.TypeOf((*context.Context)(nil)).Elem()
)

func rwEncodeShape(t reflect.Type) string {
	var b strings.Builder
	b.WriteByte('{')
	for i := 0; i < t.NumField(); i++ {
		f := t.Field(i)
		exp := func(ok bool) string {
			if ok {
				return "+"
			}
			return "-"
		}
		name := hex.EncodeToString([]byte(f.Name))
		switch f.Type.Kind() {
		case reflect.Struct:
			b.WriteString("S" + exp(f.IsExported() || f.Anonymous) + name + rwEncodeShape(f.Type))
		case reflect.Func:
			c, e := "n", "n"
			if f.Type.NumIn() >= 1 && f.Type.In(0).Implements(rwContextType) {
				c = "c"
			}
			if f.Type.NumOut() >= 1 && f.Type.Out(f.Type.NumOut()-1).Implements(rwErrorType) {
				e = "e"
			}
			b.WriteString(fmt.Sprintf("F%s%s:%d%s%d%s", exp(f.IsExported()), name, f.Type.NumIn(), c, f.Type.NumOut(), e))
		default:
			b.WriteString("O" + exp(f.IsExported()) + name)
		}
	}
	b.WriteByte('}')
	return b.String()
}

// rwOracle: the property's own reading. Returns the expected Link error ("" = success) and the
// expected stub names for callable (settable) function fields.
func rwOracle(t reflect.Type, prefix string, settable bool, stubs *[]string) string {
	for i := 0; i < t.NumField(); i++ {
		f := t.Field(i)
		path := f.Name
		if prefix != "" {
			path = prefix + "." + f.Name
		}
		switch f.Type.Kind() {
		case reflect.Struct:
			if e := rwOracle(f.Type, path, settable && (f.IsExported() || f.Anonymous), stubs); e != "" {
				return e
			}
		case reflect.Func:
			ft := f.Type
			if ft.NumOut() < 1 || ft.NumOut() > 2 || !ft.Out(ft.NumOut()-1).Implements(rwErrorType) {
				return rpc.ErrInvalidReturn.Error()
			}
			if ft.NumIn() < 1 || !ft.In(0).Implements(rwContextType) {
				return rpc.ErrInvalidArgs.Error()
			}
			if settable && f.IsExported() {
				if rwHasUncallableCallback(ft) {
					*stubs = append(*stubs, path+"=<linked; not invoked: a callback parameter no closure can be made from>")
				} else {
					*stubs = append(*stubs, path+"="+path)
				}
			}
		}
	}
	return ""
}

// rwHasUncallableCallback: the field takes a function-typed parameter from which no closure can be registered (no
// error result). Such a field is a VALID part of a remote definition (C18 judges the field's own signature only);
// invoking it ends the link, so the probe does not invoke it.
func rwHasUncallableCallback(ft reflect.Type) bool {
	for k := 1; k < ft.NumIn(); k++ {
		if p := ft.In(k); p.Kind() == reflect.Func {
			if p.NumOut() < 1 || p.NumOut() > 2 || !p.Out(p.NumOut()-1).Implements(rwErrorType) {
				return true
			}
		}
	}
	return false
}

func rwProbeType[R any](name string) rwProbe {
	out := rwProbe{Name: name}
	var zero R
	out.Shape = rwEncodeShape(reflect.TypeOf(zero))
	reg := rpc.NewRegistry[R, json.RawMessage](&struct{}{}, nil)
	codec := jsonRaw()
	aReq, aRes, bReq, bRes := NewQueue(), NewQueue(), NewQueue(), NewQueue()
	ctx, cancel := context.WithCancel(context.Background())
	defer cancel()
	linkErr := make(chan error, 1)
	go func() {
		linkErr <- reg.LinkMessage(ctx,
			func(b json.RawMessage) error { return aReq.Put(b) },
			func(b json.RawMessage) error { return aRes.Put(b) },
			func() (json.RawMessage, error) { b, e := bReq.Get(); return b, e },
			func() (json.RawMessage, error) { b, e := bRes.Get(); return b, e },
			codec.Marshal, codec.Unmarshal, nil)
	}()
	// raw peer: answer every request with null/"" and remember the function name
	names := make(chan string, 64)
	go func() {
		for {
			b, err := aReq.Get()
			if err != nil {
				return
			}
			var req struct {
				Call     string            `json:"call"`
				Function string            `json:"function"`
				Args     []json.RawMessage `json:"args"`
			}
			json.Unmarshal(b, &req)
			names <- req.Function
			res, _ := json.Marshal(map[string]any{"call": req.Call, "value": nil, "err": ""})
			bRes.Put(res)
		}
	}()
	select {
	case e := <-linkErr:
		if e == nil {
			out.LinkErr = "<nil>"
		} else {
			out.LinkErr = e.Error()
		}
	case <-time.After(30 * time.Millisecond):
	}
	// wait for the remote to be registered, then invoke every function field
	var remote reflect.Value
	for i := 0; i < 200 && !remote.IsValid(); i++ {
		reg.ForRemotes(func(id string, r R) error { remote = reflect.ValueOf(r); return nil })
		if !remote.IsValid() {
			time.Sleep(time.Millisecond)
		}
	}
	if remote.IsValid() && out.LinkErr == "" {
		var visit func(v reflect.Value, prefix string)
		visit = func(v reflect.Value, prefix string) {
			for i := 0; i < v.NumField(); i++ {
				f := v.Type().Field(i)
				path := f.Name
				if prefix != "" {
					path = prefix + "." + f.Name
				}
				switch f.Type.Kind() {
				case reflect.Struct:
					visit(v.Field(i), path)
				case reflect.Func:
					fv := v.Field(i)
					if !f.IsExported() || !fv.CanInterface() {
						continue
					}
					if fv.IsNil() {
						out.Nil = append(out.Nil, path)
						continue
					}
					if rwHasUncallableCallback(f.Type) {
						out.Stubs = append(out.Stubs, path+"=<linked; not invoked: a callback parameter no closure can be made from>")
						continue
					}
					args := []reflect.Value{}
					for k := 0; k < f.Type.NumIn(); k++ {
						if k == 0 {
							var c any = context.Background()
							if !reflect.TypeOf(c).AssignableTo(f.Type.In(0)) {
								c = myCtxImpl{context.Background()}
							}
							args = append(args, reflect.ValueOf(c))
						} else if f.Type.IsVariadic() && k == f.Type.NumIn()-1 {
							// no variadic arguments
						} else {
							args = append(args, reflect.Zero(f.Type.In(k)))
						}
					}
					done := make(chan struct{})
					go func() { defer close(done); defer func() { recover() }(); fv.Call(args) }()
					select {
					case n := <-names:
						out.Stubs = append(out.Stubs, path+"="+n)
					case <-time.After(300 * time.Millisecond):
						out.Stubs = append(out.Stubs, path+"=<no request>")
					}
					<-done
				}
			}
		}
		visit(remote, "")
	}
	cancel()
	for _, q := range []*Queue{aReq, aRes, bReq, bRes} {
		q.Close(errors.New("eof"))
	}
	return out
}

var rwZoo = map[string]func() rwProbe{
	"ValidFlat":            func() rwProbe { return rwProbeType[rwValidFlat]("ValidFlat") },
	"DeepOK":               func() rwProbe { return rwProbeType[rwDeepOK]("DeepOK") },
	"Nested3":              func() rwProbe { return rwProbeType[rwNested3]("Nested3") },
	"NoOut":                func() rwProbe { return rwProbeType[rwNoOut]("NoOut") },
	"ThreeOut":             func() rwProbe { return rwProbeType[rwThreeOut]("ThreeOut") },
	"LastNotErr":           func() rwProbe { return rwProbeType[rwLastNotErr]("LastNotErr") },
	"OneNotErr":            func() rwProbe { return rwProbeType[rwOneNotErr]("OneNotErr") },
	"NoIn":                 func() rwProbe { return rwProbeType[rwNoIn]("NoIn") },
	"CtxNotFirst":          func() rwProbe { return rwProbeType[rwCtxNotFirst]("CtxNotFirst") },
	"BothBad":              func() rwProbe { return rwProbeType[rwBothBad]("BothBad") },
	"ErrErr":               func() rwProbe { return rwProbeType[rwErrErr]("ErrErr") },
	"InvalidAfterValid":    func() rwProbe { return rwProbeType[rwInvalidAfterValid]("InvalidAfterValid") },
	"InvalidDeep":          func() rwProbe { return rwProbeType[rwInvalidDeep]("InvalidDeep") },
	"InvalidArgsThenReturn": func() rwProbe { return rwProbeType[rwInvalidArgsThenReturn]("InvalidArgsThenReturn") },
	"UnexportedFunc":       func() rwProbe { return rwProbeType[rwUnexportedFunc]("UnexportedFunc") },
	"UnexportedInvalid":    func() rwProbe { return rwProbeType[rwUnexportedInvalid]("UnexportedInvalid") },
	"UnexportedStruct":     func() rwProbe { return rwProbeType[rwUnexportedStruct]("UnexportedStruct") },
	"EmbeddedExported":     func() rwProbe { return rwProbeType[rwEmbeddedExported]("EmbeddedExported") },
	"PtrField":             func() rwProbe { return rwProbeType[rwPtrField]("PtrField") },
	"PtrToForeign":         func() rwProbe { return rwProbeType[rwPtrToForeign]("PtrToForeign") },
	"CallbackParams":       func() rwProbe { return rwProbeType[rwCallbackParams]("CallbackParams") },
	"Variadic":             func() rwProbe { return rwProbeType[rwVariadic]("Variadic") },
	"CustomCtx":            func() rwProbe { return rwProbeType[rwCustomCtx]("CustomCtx") },
	"Empty":                func() rwProbe { return rwProbeType[rwEmpty]("Empty") },
	"OnlyOther":            func() rwProbe { return rwProbeType[rwOnlyOther]("OnlyOther") },
	"FuncNamedType":        func() rwProbe { return rwProbeType[rwFuncNamedType]("FuncNamedType") },
	"ZooRemote":            func() rwProbe { return rwProbeType[Remote]("ZooRemote") },
}

var rwTypes = map[string]reflect.Type{
	"ValidFlat": reflect.TypeOf(rwValidFlat{}), "DeepOK": reflect.TypeOf(rwDeepOK{}), "Nested3": reflect.TypeOf(rwNested3{}),
	"NoOut": reflect.TypeOf(rwNoOut{}), "ThreeOut": reflect.TypeOf(rwThreeOut{}), "LastNotErr": reflect.TypeOf(rwLastNotErr{}),
	"OneNotErr": reflect.TypeOf(rwOneNotErr{}), "NoIn": reflect.TypeOf(rwNoIn{}), "CtxNotFirst": reflect.TypeOf(rwCtxNotFirst{}),
	"BothBad": reflect.TypeOf(rwBothBad{}), "ErrErr": reflect.TypeOf(rwErrErr{}), "InvalidAfterValid": reflect.TypeOf(rwInvalidAfterValid{}),
	"InvalidDeep": reflect.TypeOf(rwInvalidDeep{}), "InvalidArgsThenReturn": reflect.TypeOf(rwInvalidArgsThenReturn{}),
	"UnexportedFunc": reflect.TypeOf(rwUnexportedFunc{}), "UnexportedInvalid": reflect.TypeOf(rwUnexportedInvalid{}),
	"UnexportedStruct": reflect.TypeOf(rwUnexportedStruct{}), "EmbeddedExported": reflect.TypeOf(rwEmbeddedExported{}),
	"PtrToForeign": reflect.TypeOf(rwPtrToForeign{}), "CallbackParams": reflect.TypeOf(rwCallbackParams{}),
	"PtrField": reflect.TypeOf(rwPtrField{}), "Variadic": reflect.TypeOf(rwVariadic{}), "CustomCtx": reflect.TypeOf(rwCustomCtx{}),
	"Empty": reflect.TypeOf(rwEmpty{}), "OnlyOther": reflect.TypeOf(rwOnlyOther{}), "FuncNamedType": reflect.TypeOf(rwFuncNamedType{}),
	"ZooRemote": reflect.TypeOf(Remote{}),
}

// subC18 runs one probe in this (child) process and prints it as JSON.
func subC18(name string) {
	f, ok := rwZoo[name]
	if !ok {
		fmt.Fprintln(os.Stderr, "unknown remote type", name)
		os.Exit(3)
	}
	b, _ := json.Marshal(f())
	fmt.Println(string(b))
}

func runSelf(args ...string) (string, string, int) {
	cmd := exec.Command(os.Args[0], args...)
	var so, se strings.Builder
	cmd.Stdout, cmd.Stderr = &so, &se
	err := cmd.Run()
	code := 0
	if err != nil {
		code = 1
		if ee, ok := err.(*exec.ExitError); ok {
			code = ee.ExitCode()
		}
	}
	return so.String(), se.String(), code
}

func runC18(rep *Report, tier string, seed int64) {
	rep.Rule = "zoo of remote struct types (valid flat/nested to depth 3, each invalid signature kind at several positions, non-function fields, unexported function and struct fields, embedding, pointer/map/slice/interface fields, variadic, custom context type, named func type); " +
		"each is linked for real in a subprocess against a raw peer, every stub is invoked and the function name it sends is recorded; compared with the property oracle (computed from reflect.Type) and with the Lean model's `rw walk` answer. distinct = remote types"
	names := []string{}
	for n := range rwZoo {
		names = append(names, n)
	}
	sort.Strings(names)
	var lines []string
	for _, n := range names {
		lines = append(lines, "rw walk "+rwEncodeShape(rwTypes[n]))
	}
	ans, derr := runDriver(lines)
	for i, n := range names {
		rep.Evaluations++
		rep.Distinct++
		so, se, code := runSelf("-sub", "c18", n)
		desc := map[string]any{"suite": "C18", "remote_type": n, "shape": rwEncodeShape(rwTypes[n]), "cmd": "bin/harness -sub c18 " + n}
		var stubs []string
		wantErr := rwOracle(rwTypes[n], "", true, &stubs)
		if code != 0 {
			tail := se
			if len(tail) > 600 {
				tail = tail[:600]
			}
			rep.addViolation("property", "C18:crash:"+n, fmt.Sprintf("linking remote definition %s crashed the process (exit %d): %s", n, code, strings.SplitN(tail, "\n", 2)[0]), desc)
			continue
		}
		var pr rwProbe
		if err := json.Unmarshal([]byte(so), &pr); err != nil {
			rep.addViolation("correspondence", "C18:probe:"+n, "probe output unreadable: "+so, desc)
			continue
		}
		rep.sample(pr)
		if pr.LinkErr != wantErr {
			rep.addViolation("property", "C18:linkerr:"+n, fmt.Sprintf("remote definition %s: Link returned %q, the definition calls for %q", n, pr.LinkErr, wantErr), desc)
			continue
		}
		if wantErr == "" {
			sort.Strings(stubs)
			got := append([]string(nil), pr.Stubs...)
			sort.Strings(got)
			if strings.Join(got, ",") != strings.Join(stubs, ",") || len(pr.Nil) > 0 {
				rep.addViolation("property", "C18:naming:"+n, fmt.Sprintf("remote definition %s: stubs sent %v (nil fields %v), path naming calls for %v", n, got, pr.Nil, stubs), desc)
			}
		}
		// model vs implementation
		if derr != nil {
			rep.addViolation("correspondence", "C18:driver", "Lean driver failed: "+derr.Error(), nil)
			continue
		}
		rep.TracesValidated++
		model := ans[i]
		var impl string
		switch {
		case pr.LinkErr == rpc.ErrInvalidReturn.Error():
			impl = "err invalidReturn"
		case pr.LinkErr == rpc.ErrInvalidArgs.Error():
			impl = "err invalidArgs"
		case pr.LinkErr == "":
			var parts []string
			for _, s := range pr.Stubs {
				pf := strings.SplitN(s, "=", 2)
				if strings.HasPrefix(pf[1], "<linked; not invoked") {
					pf[1] = pf[0] // (the model names every linked field; this one was linked but not invoked by the probe)
				}
				segs := []string{}
				for _, sg := range strings.Split(pf[0], ".") {
					segs = append(segs, hex.EncodeToString([]byte(sg)))
				}
				parts = append(parts, strings.Join(segs, ".")+"="+hex.EncodeToString([]byte(pf[1])))
			}
			impl = strings.TrimSpace("ok " + strings.Join(parts, ","))
		default:
			impl = "linkerr " + pr.LinkErr
		}
		if model != impl {
			rep.addViolation("correspondence", "C18:model:"+n, fmt.Sprintf("remote definition %s: model says %q, implementation %q", n, model, impl), desc)
		} else {
			rep.ModelSteps++
		}
	}
	_ = tier
	_ = seed
}
