package main

// Raw-peer scenarios found missing by the mutation sweep (seeded/sweep): a hand-driven peer on the message API
// against a real registry, in a child process (a crash is an exit status).
//   dup-responses      every call of ours is answered TWICE on a live link: the duplicate finds no waiter and is
//                      dropped — no publisher goroutine may stay parked, however many calls were made   (C05, C15)
//   bad-response-value a response whose value does not decode into the declared result type: the call fails
//                      (never (zero, nil)) and the link ends with that error                            (C09, C06)
//   bad-closure-id     a request carries a NUMBER where a closure id belongs and the handler invokes that
//                      callable — from its own goroutine and from one it spawned: the process survives, Link
//                      returns the decode error, no CallClosure request with an empty id is written    (C06, C16, C17)
//   value-for-error-only  a response with a superfluous value for a function that returns only an error is accepted (C17, C09)
//   pipelined-big-args a peer keeps many well-formed requests with large arguments in flight (never waiting for an
//                      answer): every request is answered with the result for ITS OWN arguments, the process
//                      survives and the link stays up                                                    (C06, C08, C09)
//   two-links-dup-answers  two links on ONE registry, each with a hand-written peer that answers "<tag>|<arg>"; the
//                      peer of link A answers every call several times (the surplus answers find no waiter); callers
//                      hammer both links: a call made through link B's remote never returns an answer of A's peer (C13)
//   many-links-new-names  four links of one registry decode, at the same time, well-formed requests for function names the
//                      process has never seen: every request is answered, the process survives              (C05, C06)
//   bad-response-while-closure-runs  the first fatal failure is found INSIDE a call whose closure is still running: Link
//                      returns it promptly                                                                   (C16, C03)
//   error-response-write-fails  the handler returns an error and the transport refuses the response: Link returns
//                      the transport's error                                                            (C16, C03)

import (
	"context"
	"io"
	"encoding/json"
	"errors"
	"fmt"
	"runtime"
	"strings"
	"sync"
	"sync/atomic"
	"time"

	"github.com/pojntfx/panrpc/go/pkg/rpc"
)

type rpLocal struct{}

func (rpLocal) Fail(ctx context.Context) (int, error) { return 7, errors.New("handler failed") }

var rpRan sync.Map // method -> argument it ran with

func (rpLocal) Say(ctx context.Context, s string) (string, error)   { rpRan.Store("Say", s); return "said:" + s, nil }
func (rpLocal) Reset(ctx context.Context, s string) (string, error) { rpRan.Store("Reset", s); return "reset:" + s, nil }
func (rpLocal) Sum(ctx context.Context, xs []int64) (int64, error) {
	var t int64
	for _, x := range xs {
		t += x
	}
	return t, nil
}
func (rpLocal) Each(ctx context.Context, n int, spawn bool, cb func(ctx context.Context, i int) (int, error)) (string, error) {
	var out []string
	var mu sync.Mutex
	var wg sync.WaitGroup
	for i := 0; i < n; i++ {
		i := i
		run := func() {
			defer wg.Done()
			v, err := cb(ctx, i)
			mu.Lock()
			out = append(out, fmt.Sprintf("%d/%v", v, err != nil))
			mu.Unlock()
		}
		wg.Add(1)
		if spawn {
			go run()
		} else {
			run()
		}
	}
	wg.Wait()
	return strings.Join(out, ","), nil
}

type rpRemote struct {
	Ping func(ctx context.Context) (string, error)
	Get  func(ctx context.Context) (int, error)
	Nop  func(ctx context.Context) error
	Echo func(ctx context.Context, s string) (string, error)
	Each func(ctx context.Context, n int, spawn bool, cb func(ctx context.Context, i int) (int, error)) (string, error)
}

var rawPeerScenarios = []string{"value-for-error-only", "dup-responses", "bad-response-value", "bad-closure-id", "bad-closure-id-spawned", "error-response-write-fails", "pipelined-big-args"}

func compactMsg(m rpc.Message[json.RawMessage]) string {
	b, _ := json.Marshal(m)
	return string(b)
}

func subRawPeer(args []string) {
	sc := args[0]
	if sc == "nil-hooks-precancelled" {
		// Link called WITHOUT per-link hooks and with a context that is already cancelled: returns, crashes nothing
		for _, api := range apis() {
			r := rpc.NewRegistry[rpRemote, json.RawMessage](rpLocal{}, nil)
			ctx, cancel := context.WithCancel(context.Background())
			cancel()
			q := NewQueue()
			done := make(chan error, 1)
			go func() {
				if api == "message" {
					done <- r.LinkMessage(ctx,
						func(b json.RawMessage) error { return nil }, func(b json.RawMessage) error { return nil },
						func() (json.RawMessage, error) { b, e := q.Get(); return b, e }, func() (json.RawMessage, error) { b, e := q.Get(); return b, e },
						func(v any) (json.RawMessage, error) { b, err := json.Marshal(v); return b, err },
						func(data json.RawMessage, v any) error { return json.Unmarshal([]byte(data), v) }, nil)
				} else {
					done <- r.LinkStream(ctx,
						func(m rpc.Message[json.RawMessage]) error { return nil },
						func(m *rpc.Message[json.RawMessage]) error { _, e := q.Get(); return e },
						func(v any) (json.RawMessage, error) { b, err := json.Marshal(v); return b, err },
						func(data json.RawMessage, v any) error { return json.Unmarshal([]byte(data), v) }, nil)
				}
			}()
			select {
			case <-done:
			case <-time.After(watchdog):
				fmt.Println("BAD Link with a cancelled context and no per-link hooks did not return (" + api + ")")
			}
			q.Close(errors.New("closed"))
			time.Sleep(20 * time.Millisecond)
		}
		fmt.Println("DONE")
		return
	}
	if sc == "stream-both-members-after-end" {
		// STREAM API: an envelope whose request and response members both have the wrong type ends the link; the peer
		// then sends a well-formed envelope with BOTH members, and the application cancels the link's context (as it is
		// told to once Link has returned). The process survives.
		reg := rpc.NewRegistry[rpRemote, json.RawMessage](rpLocal{}, nil)
		ctx, cancel := context.WithCancel(context.Background())
		pr, pw := io.Pipe()
		dec := json.NewDecoder(pr)
		done := make(chan error, 1)
		go func() {
			done <- reg.LinkStream(ctx,
				func(m rpc.Message[json.RawMessage]) error { return nil },
				func(m *rpc.Message[json.RawMessage]) error { return dec.Decode(m) },
				func(v any) (json.RawMessage, error) { b, err := json.Marshal(v); return b, err },
				func(data json.RawMessage, v any) error { return json.Unmarshal([]byte(data), v) }, nil)
		}()
		up := false
		for i := 0; i < 3000 && !up; i++ {
			reg.ForRemotes(func(id string, r rpRemote) error { up = true; return nil })
			if !up {
				time.Sleep(time.Millisecond)
			}
		}
		go pw.Write([]byte(`{"request":5,"response":[true]}` + "\n"))
		select {
		case err := <-done:
			if err == nil {
				fmt.Println("BAD Link returned nil for an envelope whose members have the wrong types")
			}
		case <-time.After(2 * time.Second):
			fmt.Println("BAD an envelope whose request and response members both have the wrong type did not end the link")
		}
		go pw.Write([]byte(`{"request":{"call":"a","function":"Say","args":["x"]},"response":{"call":"zz","value":null,"err":""}}` + "\n"))
		time.Sleep(30 * time.Millisecond)
		cancel()
		time.Sleep(150 * time.Millisecond)
		pw.Close()
		fmt.Println("DONE")
		return
	}
	if sc == "stream-omitted-members" {
		// STREAM API, a foreign peer whose serializer writes only the member that is present ({"request":{…}} /
		// {"response":{…}}, no explicit null for the other one) and whose traffic alternates: it calls us, we call it,
		// it answers, it calls us again. Every request of the peer is answered exactly once — with the result of
		// running ITS function on ITS arguments — and nothing else is written.
		reg := rpc.NewRegistry[rpRemote, json.RawMessage](rpLocal{}, nil)
		ctx, cancel := context.WithCancel(context.Background())
		defer cancel()
		pr, pw := io.Pipe()
		dec := json.NewDecoder(pr)
		written := make(chan rpc.Message[json.RawMessage], 64)
		done := make(chan error, 1)
		go func() {
			done <- reg.LinkStream(ctx,
				func(m rpc.Message[json.RawMessage]) error { written <- m; return nil },
				func(m *rpc.Message[json.RawMessage]) error { return dec.Decode(m) },
				func(v any) (json.RawMessage, error) { b, err := json.Marshal(v); return b, err },
				func(data json.RawMessage, v any) error { return json.Unmarshal([]byte(data), v) }, nil)
		}()
		var rem rpRemote
		up := false
		for i := 0; i < 3000 && !up; i++ {
			reg.ForRemotes(func(id string, r rpRemote) error { rem, up = r, true; return nil })
			if !up {
				time.Sleep(time.Millisecond)
			}
		}
		next := func(what string) (rpc.Message[json.RawMessage], bool) {
			select {
			case m := <-written:
				return m, true
			case <-time.After(watchdog):
				fmt.Println("BAD nothing was written: " + what)
				return rpc.Message[json.RawMessage]{}, false
			}
		}
		for round := 0; round < 3; round++ {
			// the peer calls Say
			arg := fmt.Sprintf("r%d", round)
			go pw.Write([]byte(fmt.Sprintf(`{"request":{"call":"s%d","function":"Say","args":[%q]}}`, round, arg) + "\n"))
			m, ok := next("the answer to the peer's request (sent without a response member)")
			if !ok {
				break
			}
			var resp struct {
				Call  string          `json:"call"`
				Value json.RawMessage `json:"value"`
			}
			if m.Response != nil {
				json.Unmarshal(*m.Response, &resp)
			}
			if m.Response == nil || resp.Call != fmt.Sprintf("s%d", round) || string(resp.Value) != fmt.Sprintf("%q", "said:"+arg) {
				fmt.Printf("BAD the peer's request s%d (envelope without a response member) was answered with %s\n", round, compactMsg(m))
			}
			// we call the peer; it answers with an envelope that has NO request member
			res := make(chan string, 1)
			go func() { v, err := rem.Ping(context.Background()); res <- fmt.Sprintf("%v/%v", v, err) }()
			m, ok = next("our own request")
			if !ok {
				break
			}
			if m.Request == nil {
				fmt.Printf("BAD expected our request to be written, got %s\n", compactMsg(m))
				break
			}
			var req struct {
				Call string `json:"call"`
			}
			json.Unmarshal(*m.Request, &req)
			go pw.Write([]byte(fmt.Sprintf(`{"response":{"call":%q,"value":"pong%d","err":""}}`, req.Call, round) + "\n"))
			select {
			case got := <-res:
				if got != fmt.Sprintf("pong%d/<nil>", round) {
					fmt.Printf("BAD our call, answered by an envelope without a request member, returned %s\n", got)
				}
			case <-time.After(watchdog):
				fmt.Println("BAD our call, answered by an envelope without a request member, did not return")
			}
			// nothing else may be written: no request of the peer is outstanding
			select {
			case m := <-written:
				fmt.Printf("BAD an envelope was written although no request of the peer was outstanding (the response envelope carried no request member): %s\n", compactMsg(m))
			case <-time.After(40 * time.Millisecond):
			}
		}
		select {
		case err := <-done:
			fmt.Printf("BAD the link ended on well-formed envelopes that omit the absent member: %v\n", err)
		default:
		}
		cancel()
		pw.Close()
		fmt.Println("DONE")
		return
	}
	if sc == "many-links-new-names" {
		for _, m := range manyLinksNewNames(12, 1500) {
			fmt.Println("BAD " + m)
		}
		fmt.Println("DONE")
		return
	}
	if sc == "two-links-dup-answers" {
		subTwoLinksDup()
		return
	}
	reg := rpc.NewRegistry[rpRemote, json.RawMessage](rpLocal{}, nil)
	in, inRes, out, outReq := NewQueue(), NewQueue(), NewQueue(), NewQueue()
	var failWrite int32
	injected := errors.New("pipe broken (injected)")
	ctx, cancel := context.WithCancel(context.Background())
	defer cancel()
	linkErr := make(chan error, 1)
	go func() {
		linkErr <- reg.LinkMessage(ctx,
			func(b json.RawMessage) error { return outReq.Put(b) },
			func(b json.RawMessage) error {
				if atomic.LoadInt32(&failWrite) == 1 {
					return injected
				}
				return out.Put(b)
			},
			func() (json.RawMessage, error) { b, e := in.Get(); return b, e },
			func() (json.RawMessage, error) { b, e := inRes.Get(); return b, e },
			func(v any) (json.RawMessage, error) { b, err := json.Marshal(v); return b, err },
			func(data json.RawMessage, v any) error { return json.Unmarshal([]byte(data), v) }, nil)
	}()
	var rem rpRemote
	up := false
	for i := 0; i < 3000 && !up; i++ {
		reg.ForRemotes(func(id string, r rpRemote) error { rem, up = r, true; return nil })
		if !up {
			time.Sleep(time.Millisecond)
		}
	}
	if !up {
		fmt.Println("BAD link did not come up")
		return
	}
	nextReq := func() (call string, ok bool) {
		type res struct {
			b   []byte
			err error
		}
		ch := make(chan res, 1)
		go func() { b, err := outReq.Get(); ch <- res{b, err} }()
		select {
		case r := <-ch:
			if r.err != nil {
				return "", false
			}
			var req struct {
				Call string `json:"call"`
			}
			json.Unmarshal(r.b, &req)
			return req.Call, true
		case <-time.After(watchdog):
			return "", false
		}
	}
	switch sc {
	case "dup-responses":
		const n = 60
		before := runtime.NumGoroutine()
		for i := 0; i < n; i++ {
			done := make(chan error, 1)
			go func() { _, err := rem.Ping(context.Background()); done <- err }()
			id, ok := nextReq()
			if !ok {
				fmt.Println("BAD no request written")
				return
			}
			frame := fmt.Sprintf(`{"call":%q,"value":"pong","err":""}`, id)
			inRes.Put([]byte(frame))
			inRes.Put([]byte(frame)) // the duplicate
			select {
			case err := <-done:
				if err != nil {
					fmt.Printf("BAD call %d failed although it was answered: %v\n", i, err)
					return
				}
			case <-time.After(watchdog):
				fmt.Printf("BAD call %d hangs although it was answered\n", i)
				return
			}
		}
		time.Sleep(30 * time.Millisecond)
		parked := 0
		buf := make([]byte, 4<<20)
		for _, g := range strings.Split(string(buf[:runtime.Stack(buf, true)]), "\n\n") {
			if strings.Contains(g, "Broadcaster") && strings.Contains(g, ".Publish") {
				parked++
			}
		}
		if parked > 0 {
			fmt.Printf("BAD after %d calls that were each answered twice on a live link, %d publisher goroutine(s) are still parked (goroutines %d -> %d): the duplicates found entries of calls that had already finished\n", n, parked, before, runtime.NumGoroutine())
		}
	case "value-for-error-only":
		// a peer may put any value next to an empty error for a function that returns only an error: it is ignored
		done := make(chan error, 1)
		go func() { done <- rem.Nop(context.Background()) }()
		id, ok := nextReq()
		if !ok {
			fmt.Println("BAD no request written")
			return
		}
		inRes.Put([]byte(fmt.Sprintf(`{"call":%q,"value":{"unexpected":[1,2,3]},"err":""}`, id)))
		select {
		case err := <-done:
			if err != nil {
				fmt.Printf("BAD an error-only call answered with err \"\" and a (superfluous) value failed: %v\n", err)
			}
		case <-time.After(watchdog):
			fmt.Println("BAD an error-only call answered with a superfluous value hangs")
		}
		select {
		case err := <-linkErr:
			fmt.Printf("BAD a superfluous value in the response to an error-only call ended the link: %v\n", err)
		case <-time.After(30 * time.Millisecond):
		}
	case "bad-response-value":
		done := make(chan callResult, 1)
		go func() { v, err := rem.Get(context.Background()); done <- callResult{true, v, err} }()
		id, ok := nextReq()
		if !ok {
			fmt.Println("BAD no request written")
			return
		}
		inRes.Put([]byte(fmt.Sprintf(`{"call":%q,"value":"forty-two","err":""}`, id)))
		select {
		case r := <-done:
			if r.err == nil {
				fmt.Printf("BAD a response whose value (\"forty-two\") does not decode into the declared result type int made the call return (%v, nil): a wrong result without an error\n", r.val)
			}
		case <-time.After(watchdog):
			fmt.Println("BAD the call hangs after an undecodable response value")
		}
		select {
		case err := <-linkErr:
			if err == nil {
				fmt.Println("BAD Link returned nil after an undecodable response value")
			}
		case <-time.After(watchdog):
			fmt.Println("BAD the link did not end after a response value that cannot be decoded")
		}
	case "bad-closure-id", "bad-closure-id-spawned":
		spawn := sc == "bad-closure-id-spawned"
		in.Put([]byte(fmt.Sprintf(`{"call":"c1","function":"Each","args":[2,%v,123]}`, spawn)))
		select {
		case err := <-linkErr:
			if err == nil || !strings.Contains(err.Error(), "unmarshal") {
				fmt.Printf("BAD Link returned %v; want the decode error of the malformed closure id\n", err)
			}
		case <-time.After(2 * time.Second):
			fmt.Println("BAD a request with a number in a closure position, whose handler invoked that callable, did not end the link: Link still blocks")
		}
		// nothing bogus may have been written to the peer
		time.Sleep(10 * time.Millisecond)
		for _, fr := range outReq.Frames() {
			var req struct {
				Function string            `json:"function"`
				Args     []json.RawMessage `json:"args"`
			}
			json.Unmarshal(fr, &req)
			if req.Function == "CallClosure" && len(req.Args) > 0 && (string(req.Args[0]) == `""` || string(req.Args[0]) == "null") {
				fmt.Printf("BAD a CallClosure request for a closure id nobody issued was written: %s\n", fr)
			}
		}
	case "pipelined-big-args":
		// two argument layouts of the same byte length; requests alternate between them and are written back to back
		const n, elems = 80, 40000
		mk := func(d string) string { return "[" + strings.TrimSuffix(strings.Repeat(d+",", elems), ",") + "]" }
		lay := [2]string{mk("1"), mk("7")}
		want := [2]int64{elems, 7 * elems}
		for i := 0; i < n; i++ {
			in.Put([]byte(fmt.Sprintf(`{"call":"p%03d","function":"Sum","args":[%s]}`, i, lay[i%2])))
		}
		seen := map[string]bool{}
		for len(seen) < n {
			type res struct {
				b   []byte
				err error
			}
			ch := make(chan res, 1)
			go func() { b, err := out.Get(); ch <- res{b, err} }()
			var fr []byte
			select {
			case r := <-ch:
				if r.err != nil {
					fmt.Printf("BAD %d of %d pipelined requests answered, then the response stream ended: %v\n", len(seen), n, r.err)
					return
				}
				fr = r.b
			case err := <-linkErr:
				fmt.Printf("BAD %d well-formed pipelined requests ended the link: %v\n", n, err)
				return
			case <-time.After(watchdog):
				fmt.Printf("BAD only %d of %d pipelined requests were answered\n", len(seen), n)
				return
			}
			var resp struct {
				Call  string          `json:"call"`
				Value json.RawMessage `json:"value"`
				Err   string          `json:"err"`
			}
			json.Unmarshal(fr, &resp)
			var i int
			if _, err := fmt.Sscanf(resp.Call, "p%03d", &i); err != nil || i < 0 || i >= n || seen[resp.Call] {
				fmt.Printf("BAD unexpected or duplicate response %.80s\n", fr)
				return
			}
			seen[resp.Call] = true
			if resp.Err != "" || string(resp.Value) != fmt.Sprint(want[i%2]) {
				fmt.Printf("BAD pipelined request %s (sum of %d x %d) was answered with value %s err %q: it ran with another request's arguments\n", resp.Call, elems, want[i%2]/elems, resp.Value, resp.Err)
				return
			}
		}
	case "bad-response-while-closure-runs":
		// our call passes a closure; the peer invokes it (it does not return: busy with something of its own) and THEN
		// answers the call with a value that does not decode into the declared result type: the first fatal failure is
		// found inside that call. Link must return it promptly — the call's deferred release of the closure may not
		// wait for the closure's body.
		entered := make(chan struct{}, 1)
		release := make(chan struct{})
		defer close(release)
		go rem.Each(context.Background(), 1, false, func(ctx context.Context, i int) (int, error) {
			select {
			case entered <- struct{}{}:
			default:
			}
			<-release
			return 0, nil
		})
		var fr []byte
		{
			ch := make(chan []byte, 1)
			go func() { b, _ := outReq.Get(); ch <- b }()
			select {
			case fr = <-ch:
			case <-time.After(watchdog):
				fmt.Println("BAD no request written")
				return
			}
		}
		var req struct {
			Call string            `json:"call"`
			Args []json.RawMessage `json:"args"`
		}
		json.Unmarshal(fr, &req)
		if len(req.Args) != 3 {
			fmt.Printf("BAD unexpected request %s\n", fr)
			return
		}
		in.Put([]byte(fmt.Sprintf(`{"call":"cc1","function":"CallClosure","args":[%s,[0]]}`, req.Args[2])))
		select {
		case <-entered:
		case <-time.After(watchdog):
			fmt.Println("BAD the closure was never invoked")
			return
		}
		inRes.Put([]byte(fmt.Sprintf(`{"call":%q,"value":12345,"err":""}`, req.Call)))
		select {
		case err := <-linkErr:
			if err == nil || !strings.Contains(err.Error(), "unmarshal") {
				fmt.Printf("BAD Link returned %v; want the decode error of the response — the first failure of the link\n", err)
			}
		case <-time.After(2 * time.Second):
			fmt.Println("BAD a response that cannot be decoded arrived while the closure passed by that call was still running on our side: 2 s later Link still blocks on the dead link (the failing call waits for its own closure before it reports the error)")
		}
	case "bad-call-id-error-response":
		// three calls of ours in flight; the peer sends a response frame the codec rejects (a NUMBER as call id) that also
		// carries a non-empty err: the link ends with the decode error and every call in flight returns an error
		const n = 3
		res := make(chan error, n)
		for i := 0; i < n; i++ {
			go func() { _, err := rem.Get(context.Background()); res <- err }()
		}
		for i := 0; i < n; i++ {
			if _, ok := nextReq(); !ok {
				fmt.Println("BAD no request written")
				return
			}
		}
		inRes.Put([]byte(`{"call":12345,"value":null,"err":"boom"}`))
		select {
		case err := <-linkErr:
			if err == nil {
				fmt.Println("BAD Link returned nil after a response frame the codec rejects")
			}
		case <-time.After(2 * time.Second):
			fmt.Println("BAD a response frame the codec rejects (a number as call id, a non-empty err member) did not end the link: Link still blocks")
		}
		for i := 0; i < n; i++ {
			select {
			case err := <-res:
				if err == nil {
					fmt.Println("BAD a call in flight returned a nil error after the undecodable response frame")
				}
			case <-time.After(2 * time.Second):
				fmt.Printf("BAD %d of %d calls in flight are still blocked 2 s after a response frame that could not be decoded\n", n-i, n)
				i = n
			}
		}
	case "dup-responses-then-teardown":
		// the peer answers every call twice, then disconnects: once the link has ended and its reads have returned, the
		// remote is no longer enumerated (its disconnect notifications have been given)
		for i := 0; i < 20; i++ {
			// (the calls' own contexts are never cancelled: a surplus publisher is released by Free / Close only)
			done := make(chan error, 1)
			go func() { _, err := rem.Ping(context.Background()); done <- err }()
			if id, ok := nextReq(); ok {
				frame := fmt.Sprintf(`{"call":%q,"value":"pong","err":""}`, id)
				inRes.Put([]byte(frame))
				inRes.Put([]byte(frame))
			}
			select {
			case <-done:
			case <-time.After(300 * time.Millisecond):
			}
		}
		cancel()
		for _, q := range []*Queue{in, inRes, out, outReq} {
			q.Close(errors.New("peer gone"))
		}
		select {
		case <-linkErr:
		case <-time.After(2 * time.Second):
			fmt.Println("BAD Link did not return after its context was cancelled and its transport closed")
		}
		gone := false
		for i := 0; i < 2000 && !gone; i++ {
			k := 0
			reg.ForRemotes(func(id string, r rpRemote) error { k++; return nil })
			gone = k == 0
			if !gone {
				time.Sleep(time.Millisecond)
			}
		}
		if !gone {
			fmt.Println("BAD the link has ended and its transport reads have returned, yet 2 s later its remote is still enumerated: no disconnect notification was given (the read loops hang in the teardown of the pending-call table)")
		}
	case "dup-responses-then-read-failure":
		// four calls of ours stay unanswered; the peer (or a retransmitting relay) answers 300 further calls 4 to 15 times
		// each; then the transport reads fail while the link's context lives on: Link returns, and the four calls in
		// flight — and a call made afterwards — return an error. (Surplus publishers must not keep anything that the
		// teardown of the pending-call table needs.)
		const victims = 4
		vres := make(chan error, victims)
		for i := 0; i < victims; i++ {
			go func() { _, err := rem.Get(context.Background()); vres <- err }()
		}
		for i := 0; i < victims; i++ {
			if _, ok := nextReq(); !ok {
				fmt.Println("BAD no request written")
				return
			}
		}
		for i := 0; i < 300; i++ {
			done := make(chan error, 1)
			go func() { _, err := rem.Ping(context.Background()); done <- err }()
			if id, ok := nextReq(); ok {
				frame := fmt.Sprintf(`{"call":%q,"value":"pong","err":""}`, id)
				for k := 0; k < 4+i%12; k++ {
					inRes.Put([]byte(frame))
				}
			}
			select {
			case <-done:
			case <-time.After(watchdog):
				fmt.Println("BAD a call whose response arrived several times did not return (or a later call is stuck behind the surplus responses)")
				i = 300
			}
		}
		for _, q := range []*Queue{in, inRes} {
			q.Close(errors.New("peer gone"))
		}
		select {
		case err := <-linkErr:
			if err == nil {
				fmt.Println("BAD Link returned nil after its transport reads failed")
			}
		case <-time.After(watchdog):
			fmt.Println("BAD Link did not return after its transport reads failed")
		}
		for i := 0; i < victims; i++ {
			select {
			case err := <-vres:
				if err == nil {
					fmt.Println("BAD a call in flight returned a nil error after the link ended")
				}
			case <-time.After(watchdog):
				fmt.Printf("BAD %d of %d calls in flight still hang after the link ended (duplicated responses for OTHER calls had arrived before)\n", victims-i, victims)
				i = victims
			}
		}
		late := make(chan error, 1)
		go func() { _, err := rem.Ping(context.Background()); late <- err }()
		select {
		case err := <-late:
			if err == nil {
				fmt.Println("BAD a call made after the link ended returned a nil error")
			}
		case <-time.After(watchdog):
			fmt.Println("BAD a call made after the link ended (duplicated responses had arrived before) hangs instead of failing")
		}
	case "missing-args-after-valid":
		// a valid request, then (a) a request WITHOUT an args member for a one-parameter method, (b) on a fresh pair of
		// frames: a frame whose decode fails midway (`args` is a string) right behind a valid request. A method runs only
		// for a request that names it with the right number of arguments — never with another request's arguments.
		in.Put([]byte(`{"call":"1","function":"Say","args":["hello"]}`))
		select {
		case <-func() chan struct{} {
			ch := make(chan struct{})
			go func() { out.Get(); close(ch) }()
			return ch
		}():
		case <-time.After(watchdog):
			fmt.Println("BAD a valid request was not answered")
			return
		}
		in.Put([]byte(`{"call":"2","function":"Reset"}`))
		select {
		case err := <-linkErr:
			if err == nil {
				fmt.Println("BAD Link returned nil for a request with a wrong argument count")
			}
		case <-time.After(2 * time.Second):
			fmt.Println("BAD a request that sends no arguments for a one-parameter method neither ended the link …")
		}
		if v, ok := rpRan.Load("Reset"); ok {
			fmt.Printf("BAD a request WITHOUT arguments for the one-parameter method Reset ran it with %q — the argument of the previous request\n", v)
		}
	case "error-response-write-fails":
		atomic.StoreInt32(&failWrite, 1)
		in.Put([]byte(`{"call":"c1","function":"Fail","args":[]}`))
		select {
		case err := <-linkErr:
			if !errors.Is(err, injected) {
				fmt.Printf("BAD the response (carrying the handler's error) could not be written; Link returned %v instead of the transport's error\n", err)
			}
		case <-time.After(2 * time.Second):
			fmt.Println("BAD the response carrying the handler's error could not be written and Link still blocks")
		}
	}
	cancel()
	for _, q := range []*Queue{in, inRes, out, outReq} {
		q.Close(nil)
	}
	fmt.Println("DONE")
}

// runRawPeer runs the scenarios relevant to prop in child processes.
func runRawPeer(rep *Report, prop string) {
	rel := map[string][]string{
		"C05": {"dup-responses", "bad-closure-id-spawned", "many-links-new-names", "stream-both-members-after-end", "dup-responses-then-read-failure"},
		"C15": {"dup-responses", "nil-hooks-precancelled", "dup-responses-then-teardown"},
		"C14": {"nil-hooks-precancelled", "dup-responses-then-teardown"},
		"C09": {"bad-response-value", "value-for-error-only", "pipelined-big-args"},
		"C08": {"pipelined-big-args", "stream-omitted-members"},
		"C06": {"nil-hooks-precancelled", "bad-response-value", "bad-closure-id", "bad-closure-id-spawned", "pipelined-big-args", "many-links-new-names", "missing-args-after-valid", "stream-both-members-after-end"},
		"C16": {"bad-closure-id", "error-response-write-fails", "bad-response-while-closure-runs", "bad-call-id-error-response"},
		"C17": {"bad-closure-id", "value-for-error-only", "stream-omitted-members"},
		"C03": {"error-response-write-fails", "bad-response-while-closure-runs", "bad-call-id-error-response", "dup-responses-then-read-failure", "dup-responses-then-read-failure", "dup-responses-then-read-failure"}, // (a race: three attempts)
		"C13": {"two-links-dup-answers"},
		"C12": {"dup-responses"},
		"C19": {"dup-responses"},
		"C11": {"bad-closure-id"},
		"C07": {"missing-args-after-valid"},
	}[prop]
	for _, sc := range rel {
		rep.Evaluations++
		rep.Distinct++
		d := map[string]any{"suite": "raw-peer", "scenario": sc, "cmd": "bin/harness -sub rawpeer " + sc}
		out, se, code := runSelf("-sub", "rawpeer", sc)
		for _, l := range strings.Split(out, "\n") {
			if strings.HasPrefix(l, "BAD ") {
				rep.addViolation("property", prop+":rawpeer:"+sc, l[4:], d)
			}
		}
		if code != 0 || !strings.Contains(out, "DONE") {
			if !strings.Contains(out, "BAD ") {
				rep.addViolation("property", prop+":rawpeer:"+sc+":crash", fmt.Sprintf("raw-peer scenario %s: the process died: %s", sc, firstLine(se)), d)
			}
		}
	}
}

func subTwoLinksDup() {
	reg := rpc.NewRegistry[rpRemote, json.RawMessage](rpLocal{}, nil)
	ctx, cancel := context.WithCancel(context.Background())
	defer cancel()
	type lnk struct {
		tag           string
		inRes, outReq *Queue
		in            *Queue
		id            string
	}
	mk := func(tag string, copies int) *lnk {
		l := &lnk{tag: tag, inRes: NewQueue(), outReq: NewQueue(), in: NewQueue()}
		connected := make(chan string, 1)
		go reg.LinkMessage(ctx,
			func(b json.RawMessage) error { return l.outReq.Put(b) }, func(b json.RawMessage) error { return nil },
			func() (json.RawMessage, error) { b, e := l.in.Get(); return b, e }, func() (json.RawMessage, error) { b, e := l.inRes.Get(); return b, e },
			func(v any) (json.RawMessage, error) { b, err := json.Marshal(v); return b, err },
			func(data json.RawMessage, v any) error { return json.Unmarshal([]byte(data), v) },
			&rpc.LinkHooks{OnClientConnect: func(id string) { connected <- id }})
		select {
		case l.id = <-connected:
		case <-time.After(watchdog):
		}
		// the peer
		go func() {
			for {
				b, err := l.outReq.Get()
				if err != nil {
					return
				}
				var req struct {
					Call string   `json:"call"`
					Args []string `json:"args"`
				}
				json.Unmarshal(b, &req)
				arg := ""
				if len(req.Args) > 0 {
					arg = req.Args[0]
				}
				fr, _ := json.Marshal(map[string]any{"call": req.Call, "value": tag + "|" + arg, "err": ""})
				for k := 0; k < copies; k++ {
					l.inRes.Put(fr)
				}
			}
		}()
		return l
	}
	a, b := mk("A", 6), mk("B", 1)
	rems := map[string]rpRemote{}
	waitFor(func() bool {
		reg.ForRemotes(func(id string, r rpRemote) error { rems[id] = r; return nil })
		return len(rems) == 2
	})
	if a.id == "" || b.id == "" || len(rems) != 2 {
		fmt.Println("BAD the two links did not come up")
		return
	}
	stop := time.Now().Add(600 * time.Millisecond)
	var bad atomic.Value
	var wg sync.WaitGroup
	var calls int64
	for _, l := range []*lnk{a, b} {
		for g := 0; g < 24; g++ {
			l, g := l, g
			wg.Add(1)
			go func() {
				defer wg.Done()
				rem := rems[l.id]
				for i := 0; time.Now().Before(stop) && bad.Load() == nil; i++ {
					arg := fmt.Sprintf("%s%d-%d", strings.ToLower(l.tag), g, i)
					c, cancel := context.WithTimeout(context.Background(), watchdog)
					v, err := rem.Echo(c, arg)
					cancel()
					atomic.AddInt64(&calls, 1)
					if err != nil {
						bad.Store(fmt.Sprintf("call %q through link %s's remote failed: %v", arg, l.tag, err))
						return
					}
					if v != l.tag+"|"+arg {
						bad.Store(fmt.Sprintf("call %q made through link %s's remote returned %q: an answer of the other link's peer (or to another call) — link %s's peer answered it with %q", arg, l.tag, v, l.tag, l.tag+"|"+arg))
						return
					}
				}
			}()
		}
	}
	wg.Wait()
	if m := bad.Load(); m != nil {
		fmt.Println("BAD " + m.(string))
	}
	cancel()
	for _, l := range []*lnk{a, b} {
		l.in.Close(nil)
		l.inRes.Close(nil)
		l.outReq.Close(nil)
	}
	fmt.Printf("DONE %d calls\n", atomic.LoadInt64(&calls))
}

// manyLinksNewNames: n links on ONE registry, each with a raw peer that pipelines `per` well-formed requests for
// function names nobody has asked for before in this process (valid paths through a self-referential object, so
// every request is answered). All links decode at the same time. Returns the problems found.
type mlLocal struct {
	L, R *mlLocal
}

func (l *mlLocal) Ping(ctx context.Context) (int, error) { return 1, nil }

func manyLinksNewNames(n, per int) []string {
	local := &mlLocal{}
	local.L, local.R = local, local
	reg := rpc.NewRegistry[struct{}, json.RawMessage](local, nil)
	ctx, cancel := context.WithCancel(context.Background())
	defer cancel()
	var mu sync.Mutex
	var probs []string
	bad := func(f string, a ...any) { mu.Lock(); probs = append(probs, fmt.Sprintf(f, a...)); mu.Unlock() }
	var wg sync.WaitGroup
	start := make(chan struct{})
	for li := 0; li < n; li++ {
		li := li
		in, inRes, out := NewQueue(), NewQueue(), NewQueue()
		linkErr := make(chan error, 1)
		go func() {
			linkErr <- reg.LinkMessage(ctx,
				func(b json.RawMessage) error { return nil }, func(b json.RawMessage) error { return out.Put(b) },
				func() (json.RawMessage, error) { b, e := in.Get(); return b, e }, func() (json.RawMessage, error) { b, e := inRes.Get(); return b, e },
				func(v any) (json.RawMessage, error) { b, err := json.Marshal(v); return b, err },
				func(data json.RawMessage, v any) error { return json.Unmarshal([]byte(data), v) }, nil)
		}()
		wg.Add(1)
		go func() {
			defer wg.Done()
			defer func() { in.Close(nil); inRes.Close(nil); out.Close(nil) }()
			<-start
			for i := 0; i < per; i++ {
				// a path unique to (link, i): binary digits of i as L/R steps, prefixed by the link's own digits
				path := ""
				for b, x := 0, li*100000+i+1; x > 0 && b < 24; b, x = b+1, x/2 {
					path += []string{"L.", "R."}[x%2]
				}
				in.Put([]byte(fmt.Sprintf(`{"call":"m%d-%d","function":"%sPing","args":[]}`, li, i, path)))
			}
			got := 0
			for got < per {
				type res struct {
					b   []byte
					err error
				}
				ch := make(chan res, 1)
				go func() { b, err := out.Get(); ch <- res{b, err} }()
				select {
				case r := <-ch:
					if r.err != nil {
						bad("link %d: response stream ended after %d of %d answers", li, got, per)
						return
					}
					var resp struct {
						Value json.RawMessage `json:"value"`
						Err   string          `json:"err"`
					}
					json.Unmarshal(r.b, &resp)
					if resp.Err != "" || string(resp.Value) != "1" {
						bad("link %d: a well-formed request for a valid (never seen) path was answered with %s", li, r.b)
						return
					}
					got++
				case e := <-linkErr:
					bad("link %d ended while well-formed requests were being served: %v", li, e)
					return
				case <-time.After(watchdog):
					bad("link %d: only %d of %d requests answered", li, got, per)
					return
				}
			}
		}()
	}
	close(start)
	wg.Wait()
	return probs
}
