package main

import "unicode"

func isGoSpaceRune(r rune) bool { return unicode.IsSpace(r) }
