package main

// C08, "results, errors …": what a call IN FLIGHT returns when its link dies of a transport / serializer failure.
// One registry with a hand-driven peer; a call is written, then the peer (a) sends bytes no serializer accepts,
// (b) disconnects. The error of the in-flight call is compared across {message, stream} × {JSON raw, JSON bytes,
// CBOR}: it must not depend on the link API or the serializer (Link's own return value legitimately does: it IS
// the user-supplied function's error).

import (
	"context"
	"encoding/json"
	"fmt"
	"io"
	"time"

	"github.com/pojntfx/panrpc/go/pkg/rpc"
)

func c08InFlightOne[T any](codec Codec[T], api, how string) (string, error) {
	side := newSide[T]("V")
	ctx, cancel := context.WithCancel(context.Background())
	defer cancel()
	linkErr := make(chan error, 1)
	garbage := []byte{0xff, 0xff, 0xff}
	var fail func()
	wrote := make(chan struct{}, 4)
	switch api {
	case "message":
		inReq, inRes := NewQueue(), NewQueue()
		go func() {
			linkErr <- side.Reg.LinkMessage(ctx,
				func(t T) error { wrote <- struct{}{}; return nil }, func(t T) error { return nil },
				func() (T, error) { b, e := inReq.Get(); var t T; if e == nil { setBytes(any(&t), b) }; return t, e },
				func() (T, error) { b, e := inRes.Get(); var t T; if e == nil { setBytes(any(&t), b) }; return t, e },
				codec.Marshal, codec.Unmarshal, nil)
		}()
		fail = func() {
			if how == "garbage" {
				inRes.Put(garbage)
			} else {
				inRes.Close(io.EOF)
				inReq.Close(io.EOF)
			}
		}
		defer inReq.Close(io.EOF)
		defer inRes.Close(io.EOF)
	default:
		pr, pw := io.Pipe()
		dec := codec.NewDecoder(pr)
		go func() {
			linkErr <- side.Reg.LinkStream(ctx,
				func(m rpc.Message[T]) error { wrote <- struct{}{}; return nil },
				func(m *rpc.Message[T]) error { return dec(m) },
				codec.Marshal, codec.Unmarshal, nil)
		}()
		fail = func() {
			if how == "garbage" {
				go pw.Write(garbage)
			} else {
				pw.Close()
			}
		}
		defer pw.Close()
	}
	var rem Remote
	up := false
	waitFor(func() bool { rem, _, up = side.AnyRemote(); return up })
	if !up {
		return "", fmt.Errorf("link did not come up")
	}
	res := make(chan error, 1)
	go func() { _, err := rem.Gate(context.Background(), 71); res <- err }()
	select {
	case <-wrote:
	case <-time.After(watchdog):
		return "", fmt.Errorf("the request was never written")
	}
	fail()
	select {
	case err := <-res:
		if err == nil {
			return "<nil>", nil
		}
		return err.Error(), nil
	case <-time.After(watchdog):
		return "<the call did not return>", nil
	}
}

func c08InFlightAtFailure(rep *Report) {
	for _, how := range []string{"garbage", "disconnect"} {
		var base, baseCfg string
		for _, api := range apis() {
			cfgs := []struct {
				name string
				run  func() (string, error)
			}{
				{api + "/json-raw", func() (string, error) { return c08InFlightOne(jsonRaw(), api, how) }},
				{api + "/json-bytes", func() (string, error) { return c08InFlightOne(jsonBytes(), api, how) }},
				{api + "/cbor-raw", func() (string, error) { return c08InFlightOne(cborRaw(), api, how) }},
			}
			for _, c := range cfgs {
				rep.Evaluations++
				rep.Distinct++
				desc := map[string]any{"suite": "C08-in-flight-at-failure", "config": c.name, "peer": how}
				got, err := c.run()
				if err != nil {
					rep.addViolation("property", "C08:in-flight:setup:"+c.name, err.Error(), desc)
					continue
				}
				if base == "" {
					base, baseCfg = got, c.name
					continue
				}
				if got != base {
					rep.addViolation("property", "C08:in-flight:"+how, fmt.Sprintf("a call in flight when the peer %s: it returned %q under %s but %q under %s — the outcome of the same workload depends on the link API / serializer", map[string]string{"garbage": "sends bytes no serializer accepts", "disconnect": "disconnects"}[how], base, baseCfg, got, c.name), desc)
				}
			}
		}
	}
}

// c08NarrowClosureArgs: the callee invokes a closure with 300 and 70000; the caller's function declares int8 and
// uint16. Whatever the library does with numbers that do not fit (it wraps them), it does the SAME under every link
// API and serializer — the outcome may not depend on the dynamic type the generic decoder produced.
func c08NarrowOne[T any](codec Codec[T], api string) (string, error) {
	p, err := NewPair(codec, PairOpts{API: api})
	if err != nil {
		return "", err
	}
	defer p.Shutdown()
	ra, _, _ := p.A.AnyRemote()
	seen := ""
	r := withWatchdog(func() (any, error) {
		return ra.Narrow(context.Background(), func(ctx context.Context, level int8, count uint16) (string, error) {
			seen = fmt.Sprintf("cb(%d,%d)", level, count)
			return seen, nil
		})
	})
	if !r.ok {
		return "<the call did not return>", nil
	}
	return fmt.Sprintf("result=%v err=%v closure saw %s", r.val, r.err, seen), nil
}

func c08NarrowClosureArgs(rep *Report) {
	var base, baseCfg string
	for _, api := range apis() {
		cfgs := []struct {
			name string
			run  func() (string, error)
		}{
			{api + "/json-raw", func() (string, error) { return c08NarrowOne(jsonRaw(), api) }},
			{api + "/json-bytes", func() (string, error) { return c08NarrowOne(jsonBytes(), api) }},
			{api + "/cbor-raw", func() (string, error) { return c08NarrowOne(cborRaw(), api) }},
		}
		for _, c := range cfgs {
			rep.Evaluations++
			rep.Distinct++
			desc := map[string]any{"suite": "C08-narrow-closure-arguments", "config": c.name}
			got, err := c.run()
			if err != nil {
				rep.addViolation("property", "C08:narrow:setup:"+c.name, err.Error(), desc)
				continue
			}
			if base == "" {
				base, baseCfg = got, c.name
				continue
			}
			if got != base {
				rep.addViolation("property", "C08:narrow-closure-args", fmt.Sprintf("a closure declared (int8, uint16) invoked by the callee with (300, 70000): %q under %s but %q under %s — the outcome depends on the serializer", base, baseCfg, got, c.name), desc)
			}
		}
	}
}

// c08BothMembers: ONE stream envelope that carries a request AND the response to a call of ours (a peer or proxy that
// coalesces frames; the envelope type allows it): both are handed on — the request is served and our call completes,
// exactly as if they had arrived in two envelopes or over the message API.
func c08BothMembers(rep *Report) {
	rep.Evaluations++
	rep.Distinct++
	desc := map[string]any{"suite": "C08-envelope-with-both-members"}
	side := newSide[json.RawMessage]("V")
	codec := jsonRaw()
	ctx, cancel := context.WithCancel(context.Background())
	defer cancel()
	pr, pw := io.Pipe()
	defer pw.Close()
	dec := codec.NewDecoder(pr)
	reqs := make(chan string, 8)
	resps := make(chan string, 8)
	go side.Reg.LinkStream(ctx,
		func(m rpc.Message[json.RawMessage]) error {
			if m.Request != nil {
				var q struct {
					Call string `json:"call"`
				}
				json.Unmarshal(*m.Request, &q)
				reqs <- q.Call
			}
			if m.Response != nil {
				resps <- string(*m.Response)
			}
			return nil
		},
		func(m *rpc.Message[json.RawMessage]) error { return dec(m) },
		codec.Marshal, codec.Unmarshal, nil)
	var rem Remote
	up := false
	waitFor(func() bool { rem, _, up = side.AnyRemote(); return up })
	if !up {
		rep.addViolation("property", "C08:both-members:setup", "link did not come up", desc)
		return
	}
	res := make(chan callResult, 1)
	go func() { v, err := rem.Gate(context.Background(), 72); res <- callResult{true, v, err} }()
	var id string
	select {
	case id = <-reqs:
	case <-time.After(watchdog):
		rep.addViolation("property", "C08:both-members:setup", "the request was never written", desc)
		return
	}
	go fmt.Fprintf(pw, `{"request":{"call":"p1","function":"Echo","args":[1,"x"]},"response":{"call":%q,"value":72,"err":""}}`+"\n", id)
	select {
	case r := <-res:
		if r.err != nil || r.val.(int) != 72 {
			rep.addViolation("property", "C08:both-members:call", fmt.Sprintf("our call, answered in an envelope that also carries a request, returned (%v, %v)", r.val, r.err), desc)
		}
	case <-time.After(2 * time.Second):
		rep.addViolation("property", "C08:both-members:response-lost", "one stream envelope carried a request and the response to a call of ours: the call is still waiting 2 s later — the response member of the envelope was dropped (the same traffic in two envelopes, or over the message API, completes)", desc)
	}
	select {
	case <-resps:
	case <-time.After(2 * time.Second):
		rep.addViolation("property", "C08:both-members:request-lost", "the request member of an envelope with both members was not served", desc)
	}
}
