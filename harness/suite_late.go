package main

// C05 / C08: frames that keep arriving on a stream link after the link has ended.  The decoder goroutine
// of LinkStream outlives LinkStream itself (it only leaves when decode fails), so whatever the peer still
// sends — requests, responses, in any order and number — passes through it afterwards; none of its exits
// may crash the process.  Runs in a child process: a panic in that bare goroutine kills it.

import (
	"context"
	"encoding/json"
	"errors"
	"fmt"
	"io"
	"time"

	"github.com/pojntfx/panrpc/go/pkg/rpc"
)

type lateLocal struct{}

func (lateLocal) Ping(ctx context.Context) (string, error) { return "pong", nil }

type lateRemote struct {
	Ping func(ctx context.Context) (string, error)
}

// lateSequences: every word over {q (request), r (response)} up to length n, each ended by EOF or by
// a decode error
func lateSequences(n int) []string {
	out := []string{""}
	for i := 0; i < len(out); i++ {
		if len(out[i]) < n {
			out = append(out, out[i]+"q", out[i]+"r")
		}
	}
	return out
}

func subLateFrames(args []string) {
	n := 4
	if len(args) > 0 {
		fmt.Sscan(args[0], &n)
	}
	count := 0
	for _, how := range []string{"cancel", "cancel-with-call-in-flight"} {
		for _, seq := range lateSequences(n) {
			for _, end := range []string{"eof", "err"} {
				fmt.Printf("SEQ %s %q %s\n", how, seq, end)
				if msg := lateOnce(how, seq, end); msg != "" {
					fmt.Printf("BAD %s %q %s: %s\n", how, seq, end, msg)
				}
				count++
			}
		}
	}
	fmt.Printf("DONE runs=%d\n", count)
}

func lateOnce(how, seq, end string) string {
	reg := rpc.NewRegistry[lateRemote, json.RawMessage](lateLocal{}, nil)
	in := make(chan *rpc.Message[json.RawMessage])
	ctx, cancel := context.WithCancel(context.Background())
	defer cancel()
	sent := make(chan struct{}, 64)
	decoderLeft := make(chan struct{})
	linkErr := make(chan error, 1)
	go func() {
		linkErr <- reg.LinkStream(ctx,
			func(v rpc.Message[json.RawMessage]) error {
				select {
				case sent <- struct{}{}:
				default:
				}
				return nil
			},
			func(v *rpc.Message[json.RawMessage]) error {
				m, ok := <-in
				if !ok {
					close(decoderLeft)
					if end == "eof" {
						return io.EOF
					}
					return errors.New("connection reset")
				}
				*v = *m
				return nil
			},
			func(v any) (json.RawMessage, error) { b, err := json.Marshal(v); return b, err },
			func(data json.RawMessage, v any) error { return json.Unmarshal([]byte(data), v) },
			nil)
	}()
	// wait for the link to be up
	var rem lateRemote
	up := false
	for i := 0; i < 2000 && !up; i++ {
		_ = reg.ForRemotes(func(id string, r lateRemote) error { rem, up = r, true; return nil })
		if !up {
			time.Sleep(time.Millisecond)
		}
	}
	if !up {
		return "link did not come up"
	}
	callDone := make(chan error, 1)
	if how == "cancel-with-call-in-flight" {
		go func() { _, err := rem.Ping(context.Background()); callDone <- err }()
		select {
		case <-sent:
		case <-time.After(watchdog):
			return "the request of the in-flight call was never written"
		}
	}
	cancel()
	select {
	case <-linkErr:
	case <-time.After(watchdog):
		return "LinkStream did not return after its context was cancelled"
	}
	if how == "cancel-with-call-in-flight" {
		select {
		case err := <-callDone:
			if err == nil {
				return "the in-flight call returned a nil error although no response ever arrived"
			}
		case <-time.After(watchdog):
			return "the in-flight call did not return after the link ended"
		}
	}
	// the late frames
	gone := false
	for i, c := range seq {
		m := &rpc.Message[json.RawMessage]{}
		if c == 'q' {
			b, _ := json.Marshal(map[string]any{"call": fmt.Sprintf("late-%d", i), "function": "Ping", "args": []any{}})
			rm := json.RawMessage(b)
			m.Request = &rm
		} else {
			b, _ := json.Marshal(map[string]any{"call": fmt.Sprintf("late-%d", i), "value": "pong", "err": ""})
			rm := json.RawMessage(b)
			m.Response = &rm
		}
		select {
		case in <- m:
		case <-time.After(40 * time.Millisecond):
			// the decoder has left on the context's account (it does not read on once the loops are gone): nothing more can reach it
			gone = true
		}
		if gone {
			break
		}
	}
	if gone {
		time.Sleep(2 * time.Millisecond)
		return ""
	}
	close(in)
	// (if the last frame made the decoder leave on the context's account it never comes back for the end)
	select {
	case <-decoderLeft:
	case <-time.After(40 * time.Millisecond):
	}
	// give a crash in the decoder goroutine's exit path the time to happen
	time.Sleep(2 * time.Millisecond)
	return ""
}
