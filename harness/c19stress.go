package main

// C19 stress (no scheduler): Free / Free / Close / Publish / Receive released from a barrier on one
// key, many rounds, in a child process. Windows that have no yield point inside them (e.g. an operation
// split into two critical sections) are only reachable this way.

import (
	"bufio"
	"context"
	"errors"
	"fmt"
	"os"
	"sync"
	"time"

	"github.com/pojntfx/panrpc/go/pkg/utils"
)

func subC19Stress(args []string) {
	rounds := 2000
	fmt.Sscan(args[0], &rounds)
	w := bufio.NewWriter(os.Stdout)
	defer w.Flush()
	var pmu sync.Mutex
	panics := map[string]int{}
	for r := 0; r < rounds; r++ {
		b := utils.NewBroadcaster[int]()
		ctx, cancel := context.WithCancel(context.Background())
		rr, err := b.Receive("k", ctx)
		if err != nil {
			continue
		}
		start := make(chan struct{})
		var wg sync.WaitGroup
		run := func(f func()) {
			wg.Add(1)
			go func() {
				defer wg.Done()
				defer func() {
					if e := recover(); e != nil {
						pmu.Lock()
						panics[fmt.Sprint(e)]++
						pmu.Unlock()
					}
				}()
				<-start
				f()
			}()
		}
		run(func() { rr() })
		run(func() { b.Free("k", errors.New("f1")) })
		run(func() { b.Free("k", errors.New("f2")) })
		run(func() { b.Free("k", errors.New("f3")) })
		run(func() { b.Publish("k", r) })
		if r%2 == 0 {
			run(func() { b.Close(errors.New("c")) })
		} else {
			run(func() {
				if rr2, err := b.Receive("k", ctx); err == nil {
					_ = rr2
				}
			})
		}
		close(start)
		done := make(chan struct{})
		go func() { wg.Wait(); close(done) }()
		select {
		case <-done:
		case <-time.After(20 * time.Millisecond):
			// a publisher may legitimately wait on a live key nobody receives from: the context ends that
			cancel()
			select {
			case <-done:
			case <-time.After(2 * time.Second):
				fmt.Fprintf(w, "BAD deadlock: operations on one key still blocked 2s after every context was cancelled and the key freed (round %d)\n", r)
				fmt.Fprintf(w, "DONE rounds=%d\n", r)
				w.Flush()
				os.Exit(0)
			}
		}
		cancel()
	}
	for k, n := range panics {
		fmt.Fprintf(w, "BAD panic ×%d in %d rounds of concurrent Free/Free/Free/Publish/Close on one key: %s\n", n, rounds, k)
	}
	fmt.Fprintf(w, "DONE rounds=%d\n", rounds)
}

// subC19CloseRace: Receive on fresh keys racing Close (no scheduler, many rounds): every Receive either is refused
// with 'closed' or hands out a function that returns 'closed' once Close has returned — it never blocks on a
// broadcaster that is closed.
func subC19CloseRace(args []string) {
	ms := 800
	fmt.Sscan(args[0], &ms)
	stop := time.Now().Add(time.Duration(ms) * time.Millisecond)
	rounds := 0
	for time.Now().Before(stop) {
		rounds++
		b := utils.NewBroadcaster[int]()
		start := make(chan struct{})
		var wg sync.WaitGroup
		fns := make([]func() (*int, error), 4)
		for i := 0; i < 4; i++ {
			i := i
			wg.Add(1)
			go func() {
				defer wg.Done()
				<-start
				if rr, err := b.Receive(fmt.Sprintf("k%d", i), context.Background()); err == nil {
					fns[i] = rr
				} else if !errors.Is(err, utils.ErrClosed) {
					fmt.Printf("BAD Receive racing Close failed with %v: unexpected-error\n", err)
				}
			}()
		}
		wg.Add(1)
		go func() { defer wg.Done(); <-start; b.Close(nil) }()
		close(start)
		wg.Wait()
		for i, rr := range fns {
			if rr == nil {
				continue
			}
			done := make(chan error, 1)
			go func() { _, err := rr(); done <- err }()
			select {
			case err := <-done:
				if !errors.Is(err, utils.ErrClosed) {
					fmt.Printf("BAD round %d: the receive function of k%d returned %v after Close: not-closed\n", rounds, i, err)
					fmt.Printf("DONE rounds=%d\n", rounds)
					return
				}
			case <-time.After(2 * time.Second):
				fmt.Printf("BAD round %d: Receive on a fresh key raced Close and was accepted; its receive function is still blocked 2 s after Close returned: blocked-after-close\n", rounds)
				fmt.Printf("DONE rounds=%d\n", rounds)
				return
			}
		}
	}
	fmt.Printf("DONE rounds=%d\n", rounds)
}
