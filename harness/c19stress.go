package main

// C19 stress (no scheduler): Free / Free / Close / Publish / Receive released from a barrier on one
// key, many rounds, in a child process. Windows that have no yield point inside them (e.g. an operation
// split into two critical sections) are only reachable this way.

import (
	"bufio"
	"context"
	"errors"
	"fmt"
	"os"
	"sync"
	"time"

	"github.com/pojntfx/panrpc/go/pkg/utils"
)

func subC19Stress(args []string) {
	rounds := 2000
	fmt.Sscan(args[0], &rounds)
	w := bufio.NewWriter(os.Stdout)
	defer w.Flush()
	var pmu sync.Mutex
	panics := map[string]int{}
	for r := 0; r < rounds; r++ {
		b := utils.NewBroadcaster[int]()
		ctx, cancel := context.WithCancel(context.Background())
		rr, err := b.Receive("k", ctx)
		if err != nil {
			continue
		}
		start := make(chan struct{})
		var wg sync.WaitGroup
		run := func(f func()) {
			wg.Add(1)
			go func() {
				defer wg.Done()
				defer func() {
					if e := recover(); e != nil {
						pmu.Lock()
						panics[fmt.Sprint(e)]++
						pmu.Unlock()
					}
				}()
				<-start
				f()
			}()
		}
		run(func() { rr() })
		run(func() { b.Free("k", errors.New("f1")) })
		run(func() { b.Free("k", errors.New("f2")) })
		run(func() { b.Free("k", errors.New("f3")) })
		run(func() { b.Publish("k", r) })
		if r%2 == 0 {
			run(func() { b.Close(errors.New("c")) })
		} else {
			run(func() {
				if rr2, err := b.Receive("k", ctx); err == nil {
					_ = rr2
				}
			})
		}
		close(start)
		done := make(chan struct{})
		go func() { wg.Wait(); close(done) }()
		select {
		case <-done:
		case <-time.After(20 * time.Millisecond):
			// a publisher may legitimately wait on a live key nobody receives from: the context ends that
			cancel()
			select {
			case <-done:
			case <-time.After(2 * time.Second):
				fmt.Fprintf(w, "BAD deadlock: operations on one key still blocked 2s after every context was cancelled and the key freed (round %d)\n", r)
				fmt.Fprintf(w, "DONE rounds=%d\n", r)
				w.Flush()
				os.Exit(0)
			}
		}
		cancel()
	}
	for k, n := range panics {
		fmt.Fprintf(w, "BAD panic ×%d in %d rounds of concurrent Free/Free/Free/Publish/Close on one key: %s\n", n, rounds, k)
	}
	fmt.Fprintf(w, "DONE rounds=%d\n", rounds)
}
