package main

// Scenarios from round 7 of the seeded changes (properties attacked through rpc/manager.go and utils/call.go).
//   closureRendezvous       k concurrent invocations of ONE closure that only return once all k are inside the caller's
//                           function, and a chain that RE-ENTERS the closure from its own body              (C02, C05, C11)
//   overlappingClosureCalls three closure-carrying calls with overlapping lifetimes (X, Y in flight; X returns; Z
//                           starts while Y is pending): each call gets what ITS function produced        (C01, C11, C12, C13)
//   closureValueRows        the 10-parameter closure rows (nil slices included) — for C09
//   twoLinksSameLiteral     one registry, two links, concurrent closure-carrying calls whose callbacks come from the
//                           same function literal but capture different state: each peer runs ITS callback    (C13)

import (
	"context"
	"encoding/json"
	"errors"
	"fmt"
	"runtime"
	"strings"
	"sync"
	"sync/atomic"
	"time"

	"github.com/pojntfx/panrpc/go/pkg/rpc"
)

func closureRendezvous(rep *Report, prop, api string, k int) {
	rep.Evaluations++
	rep.Distinct++
	d := map[string]any{"suite": "closure-rendezvous", "api": api, "invocations": k}
	p, err := NewPair(jsonRaw(), PairOpts{API: api})
	if err != nil {
		rep.addViolation("property", prop+":rendezvous:setup", "link setup failed: "+err.Error(), d)
		return
	}
	defer p.Shutdown()
	ra, _, _ := p.A.AnyRemote()
	var inside int64
	all := make(chan struct{})
	r := withWatchdog(func() (any, error) {
		return ra.WithClosure(context.Background(), k, true, func(ctx context.Context, i int, s string) (string, error) {
			if atomic.AddInt64(&inside, 1) == int64(k) {
				close(all)
			}
			select {
			case <-all:
				return "met", nil
			case <-time.After(watchdog / 2):
				return "", errors.New("alone")
			}
		})
	})
	if !r.ok || r.err != nil {
		rep.addViolation("property", prop+":"+api+":rendezvous-call", fmt.Sprintf("%d concurrent invocations of one closure that wait for each other: the call did not complete (ok=%v err=%v; %d got inside the function)", k, r.ok, r.err, atomic.LoadInt64(&inside)), d)
		return
	}
	for i, o := range r.val.([]string) {
		if o != "met" {
			rep.addViolation("property", prop+":"+api+":rendezvous", fmt.Sprintf("%d concurrent invocations of one closure never all ran at the same time: invocation %d got %q (only %d were ever inside the function together) — one invocation being stalled kept the others out", k, i, o, atomic.LoadInt64(&inside)), d)
			break
		}
	}
	// re-entry: the closure's body calls the peer, whose handler invokes the SAME closure again (depth 3)
	rep.Evaluations++
	var cb func(ctx context.Context, i int, s string) (string, error)
	depth := int64(0)
	cb = func(ctx context.Context, i int, s string) (string, error) {
		if atomic.AddInt64(&depth, 1) >= 3 {
			return "bottom", nil
		}
		in, err := ra.WithClosure(ctx, 1, false, cb)
		if err != nil {
			return "", err
		}
		return "via:" + in[0], nil
	}
	r = withWatchdog(func() (any, error) { return ra.WithClosure(context.Background(), 1, false, cb) })
	if !r.ok || r.err != nil || r.val.([]string)[0] != "via:via:bottom" {
		rep.addViolation("property", prop+":"+api+":reentrant-closure", fmt.Sprintf("a chain that alternates direction THROUGH one closure (its body calls the peer, whose handler invokes the same function value again, depth 3) did not complete: %+v", r), d)
	}
}

func overlappingClosureCalls(rep *Report, prop, api string) {
	rep.Evaluations++
	rep.Distinct++
	d := map[string]any{"suite": "overlapping-closure-calls", "api": api}
	p, err := NewPair(jsonRaw(), PairOpts{API: api})
	if err != nil {
		rep.addViolation("property", prop+":overlap:setup", "link setup failed: "+err.Error(), d)
		return
	}
	defer p.Shutdown()
	ra, _, _ := p.A.AnyRemote()
	for g := 81; g <= 83; g++ {
		defer p.B.Svc.OpenGate(g)
	}
	parked := func(g int) bool {
		for _, inv := range p.B.Svc.Invocations() {
			if inv.Method == "GateThenCall" && inv.Args == fmt.Sprint(g) {
				return true
			}
		}
		return false
	}
	start := func(name string, g int) chan callResult {
		ch := make(chan callResult, 1)
		go func() {
			v, err := ra.GateThenCall(context.Background(), g, func(ctx context.Context, i int, s string) (string, error) {
				return "closure of call " + name, nil
			})
			ch <- callResult{true, v, err}
		}()
		waitFor(func() bool { return parked(g) })
		return ch
	}
	want := func(name string, ch chan callResult) {
		select {
		case r := <-ch:
			if r.err != nil || r.val.(string) != "closure of call "+name {
				rep.addViolation("property", prop+":"+api+":overlap:"+name, fmt.Sprintf("three closure-carrying calls with overlapping lifetimes (X and Y in flight, X returns, Z starts while Y is pending): call %s got (%q, %v), want what ITS OWN function returns: %q", name, r.val, r.err, "closure of call "+name), d)
			}
		case <-time.After(watchdog):
			rep.addViolation("property", prop+":"+api+":overlap:hang", "call "+name+" did not return", d)
		}
	}
	x := start("x", 81)
	y := start("y", 82)
	p.B.Svc.OpenGate(81)
	want("x", x)
	z := start("z", 83)
	p.B.Svc.OpenGate(82)
	want("y", y)
	p.B.Svc.OpenGate(83)
	want("z", z)
}

func closureValueRows[T any](rep *Report, prop string, codec Codec[T], api string) {
	p, err := NewPair(codec, PairOpts{API: api})
	desc := map[string]any{"suite": "closure-value-rows", "codec": codec.Name, "api": api}
	if err != nil {
		rep.addViolation("property", prop+":closure-rows:setup", "link setup failed: "+err.Error(), desc)
		return
	}
	defer p.Shutdown()
	ra, _, _ := p.A.AnyRemote()
	norm := func(s string) string { return strings.ReplaceAll(s, "[]string(nil)", "[]") }
	for row := range closureRows {
		rep.Evaluations++
		rep.Distinct++
		d := map[string]any{"suite": "closure-value-rows", "codec": codec.Name, "api": api, "row": row, "values": closureRows[row].render()}
		var got string
		r := withWatchdog(func() (any, error) {
			return ra.ClosureTypes(context.Background(), row, func(ctx context.Context, a int, b float64, c bool, dd string, e []int, f []string, g uint8, h []float64, i []bool, j int64) (string, error) {
				got = closureRow{a, b, c, dd, e, f, g, h, i, j}.render()
				return "seen:" + got, nil
			})
		})
		want := closureRows[row].render()
		if !r.ok || r.err != nil {
			rep.addViolation("property", prop+":"+api+":closure-rows:call", fmt.Sprintf("a closure invoked with %s (nil / empty slices are legitimate arguments): the call failed: %+v", want, r), d)
			return
		}
		if norm(got) != norm(want) {
			rep.addViolation("property", prop+":"+api+":closure-rows:values", fmt.Sprintf("closure received %s, the callee supplied %s", got, want), d)
		}
	}
}

func twoLinksSameLiteral(rep *Report, prop string) {
	rep.Evaluations++
	rep.Distinct++
	d := map[string]any{"suite": "two-links-same-literal"}
	type sp struct {
		peer *Side[[]byte]
		qs   [4]*Queue
		stop context.CancelFunc
	}
	hb := newSide[[]byte]("H")
	jb := jsonBytes()
	var spokes []*sp
	link := func(side *Side[[]byte], ctx context.Context, outReq, outRes, inReq, inRes *Queue) {
		go side.Reg.LinkMessage(ctx,
			func(t []byte) error { return outReq.Put(t) }, func(t []byte) error { return outRes.Put(t) },
			func() ([]byte, error) { return inReq.Get() }, func() ([]byte, error) { return inRes.Get() },
			jb.Marshal, jb.Unmarshal, nil)
	}
	for i := 0; i < 2; i++ {
		s := &sp{peer: newSide[[]byte](fmt.Sprintf("P%d", i))}
		for j := range s.qs {
			s.qs[j] = NewQueue()
		}
		ctx, cancel := context.WithCancel(context.Background())
		s.stop = cancel
		link(hb, ctx, s.qs[0], s.qs[1], s.qs[2], s.qs[3])
		link(s.peer, ctx, s.qs[2], s.qs[3], s.qs[0], s.qs[1])
		spokes = append(spokes, s)
	}
	defer func() {
		for _, s := range spokes {
			s.stop()
			for _, q := range s.qs {
				q.Close(errors.New("closed"))
			}
		}
	}()
	waitFor(func() bool { return len(hb.Remotes()) == 2 })
	rems := hb.Remotes()
	if len(rems) != 2 {
		rep.addViolation("property", prop+":same-literal:setup", "two links did not come up", d)
		return
	}
	// which remote reaches which peer
	type target struct {
		name string
		rem  Remote
	}
	var ts []target
	for _, rem := range rems {
		rem := rem
		r := withWatchdog(func() (any, error) { return rem.WhoAmI(context.Background()) })
		if !r.ok || r.err != nil {
			rep.addViolation("property", prop+":same-literal:setup", fmt.Sprintf("WhoAmI failed: %+v", r), d)
			return
		}
		ts = append(ts, target{strings.SplitN(r.val.(string), "|", 2)[0], rem})
	}
	for _, s := range spokes {
		defer s.peer.Svc.OpenGate(91)
	}
	var wg sync.WaitGroup
	res := make([]callResult, len(ts))
	for i, t := range ts {
		i, t := i, t
		wg.Add(1)
		go func() {
			defer wg.Done()
			// the SAME function literal for both calls; it captures the peer's name
			v, err := t.rem.GateThenCall(context.Background(), 91, func(ctx context.Context, g int, s string) (string, error) {
				return "callback handed to " + t.name, nil
			})
			res[i] = callResult{true, v, err}
		}()
	}
	// both calls are in flight (their closures registered) before either handler invokes its callback
	waitFor(func() bool {
		n := 0
		for _, s := range spokes {
			for _, inv := range s.peer.Svc.Invocations() {
				if inv.Method == "GateThenCall" {
					n++
				}
			}
		}
		return n == 2
	})
	for _, s := range spokes {
		s.peer.Svc.OpenGate(91)
	}
	done := make(chan struct{})
	go func() { wg.Wait(); close(done) }()
	select {
	case <-done:
	case <-time.After(watchdog):
		rep.addViolation("property", prop+":same-literal:hang", "two concurrent closure-carrying calls on two links did not return", d)
		return
	}
	for i, t := range ts {
		if res[i].err != nil || res[i].val.(string) != "callback handed to "+t.name {
			rep.addViolation("property", prop+":same-literal:crossed", fmt.Sprintf("two links, two concurrent calls whose callbacks come from the same function literal but capture different state: the call through %s's remote returned (%q, %v); its own callback returns %q — the peer invoked the callback handed to the OTHER link's call", t.name, res[i].val, res[i].err, "callback handed to "+t.name), d)
		}
	}
}

// panickingClosures: the callee invokes a closure k times (concurrently or not); every invocation PANICS on the
// caller's side — with a runtime error, an error value, or a non-error value. Each invocation comes back to the
// handler as an error carrying the panic's message; the link survives.                         (C10, C17, C20)
func panickingClosures(rep *Report, prop, api string, k int, conc bool) {
	rep.Evaluations++
	rep.Distinct++
	d := map[string]any{"suite": "panicking-closures", "api": api, "invocations": k, "concurrent": conc}
	p, err := NewPair(jsonRaw(), PairOpts{API: api})
	if err != nil {
		rep.addViolation("property", prop+":panicking-closures:setup", "link setup failed: "+err.Error(), d)
		return
	}
	defer p.Shutdown()
	ra, _, _ := p.A.AnyRemote()
	r := withWatchdog(func() (any, error) {
		return ra.WithClosure(context.Background(), k, conc, func(ctx context.Context, i int, s string) (string, error) {
			switch i % 3 {
			case 0:
				var m map[string]int
				m["x"] = i // runtime error: assignment to entry in nil map
			case 1:
				panic(fmt.Errorf("closure gave up %d", i))
			}
			panic(fmt.Sprintf("not an error %d", i))
		})
	})
	if !r.ok || r.err != nil {
		rep.addViolation("property", prop+":"+api+":panicking-closures:call", fmt.Sprintf("a call whose closure panics on every invocation: %+v — a failing closure is an error for that invocation, the call itself completes", r), d)
	} else {
		for i, o := range r.val.([]string) {
			want := []string{"ERR:assignment to entry in nil map", fmt.Sprintf("ERR:closure gave up %d", i), "ERR:panicked with no error value"}[i%3]
			if o != want {
				rep.addViolation("property", prop+":"+api+":panicking-closures:outcome", fmt.Sprintf("invocation %d of a panicking closure came back to the handler as %q, want %q", i, o, want), d)
				break
			}
		}
	}
	select {
	case e := <-p.A.LinkErr:
		rep.addViolation("property", prop+":"+api+":panicking-closures:link", fmt.Sprintf("a panicking closure ended the link: %v", e), d)
		return
	case e := <-p.B.LinkErr:
		rep.addViolation("property", prop+":"+api+":panicking-closures:link", fmt.Sprintf("a panicking closure ended the peer's link: %v", e), d)
		return
	case <-time.After(10 * time.Millisecond):
	}
	if e := withWatchdog(func() (any, error) { return ra.Echo(context.Background(), 1, "after") }); !e.ok || e.err != nil {
		rep.addViolation("property", prop+":"+api+":panicking-closures:later", fmt.Sprintf("a later call after panicking closures: %+v", e), d)
	}
}

// nestedCallAtLinkDeadline (C03): the callee's link context ends by DEADLINE while its handler has a closure
// invocation (a nested call to the caller) in flight — the caller's function does not answer. That nested call is
// an in-flight call of the callee's link: it must return a NON-NIL error to the handler (never (zero, nil): no
// response was ever sent for it).
func nestedCallAtLinkDeadline(rep *Report, prop, api string) {
	rep.Evaluations++
	rep.Distinct++
	d := map[string]any{"suite": "nested-call-at-link-deadline", "api": api}
	p, err := NewPair(jsonRaw(), PairOpts{API: api, LinkDeadlineB: 400 * time.Millisecond})
	if err != nil {
		// (the deadline may pass during set-up on a loaded machine: nothing to judge)
		rep.sample(map[string]any{"suite": "nested-call-at-link-deadline", "api": api, "inconclusive": "set-up: " + err.Error()})
		return
	}
	defer p.Shutdown()
	ra, _, _ := p.A.AnyRemote()
	release := make(chan struct{})
	defer close(release)
	entered := make(chan struct{}, 1)
	go ra.ClosureOutcome(context.Background(), 7, func(ctx context.Context, i int, s string) (string, error) {
		select {
		case entered <- struct{}{}:
		default:
		}
		<-release // never answers while the link lives
		return "late", nil
	})
	select {
	case <-entered:
	case <-time.After(350 * time.Millisecond):
		// (a loaded machine: the invocation did not get under way before the deadline — nothing to judge)
		rep.sample(map[string]any{"suite": "nested-call-at-link-deadline", "api": api, "inconclusive": "the closure was not invoked before the link's deadline"})
		return
	}
	ok := false
	dl := time.Now().Add(watchdog)
	for time.Now().Before(dl) && !ok {
		ok = len(p.B.Svc.Notes()) > 0
		time.Sleep(time.Millisecond)
	}
	if !ok {
		rep.addViolation("property", prop+":"+api+":link-deadline:hang", "the callee's link ran into its deadline while its handler had a closure invocation in flight: the invocation has not returned to the handler", d)
		return
	}
	note := p.B.Svc.Notes()[0]
	if strings.HasSuffix(note, "|<nil>") {
		rep.addViolation("property", prop+":"+api+":link-deadline:nil-error", fmt.Sprintf("the callee's link ran into its DEADLINE while its handler had a closure invocation in flight (the caller never answered it): the invocation returned %s to the handler — a nil error although no response was ever sent", note), d)
	}
}

// cancelRaceWorkload (C01, C09, C10): many workers call FailVal with unique values and messages on one link; every
// other call is abandoned by its caller (per-call context cancelled at about the round-trip time, i.e. while the
// response is on its way). Every call that returns a value or an application error got ITS OWN handler's value and
// message — a response published for an abandoned call never reaches another call.
func cancelRaceWorkload(rep *Report, prop string, dur time.Duration) {
	rep.Evaluations++
	rep.Distinct++
	d := map[string]any{"suite": "cancel-racing-response", "duration_ms": dur.Milliseconds()}
	p, err := NewPair(jsonRaw(), PairOpts{API: "message"})
	if err != nil {
		rep.addViolation("property", prop+":cancel-race:setup", "link setup failed: "+err.Error(), d)
		return
	}
	defer p.Shutdown()
	ra, _, _ := p.A.AnyRemote()
	// the handler abandons the caller's context just before it returns (for the calls registered here)
	var cancels sync.Map
	p.B.Svc.OnReturn.Store(func(v int) {
		if c, ok := cancels.LoadAndDelete(v); ok {
			c.(context.CancelFunc)()
		}
	})
	defer p.B.Svc.OnReturn.Store(func(int) {})
	stop := time.Now().Add(dur)
	var bad atomic.Value
	var calls, abandoned int64
	var wg sync.WaitGroup
	workers := 4 * runtime.GOMAXPROCS(0)
	if workers < 32 {
		workers = 32
	}
	for w := 0; w < workers; w++ {
		w := w
		wg.Add(1)
		go func() {
			defer wg.Done()
			for i := 0; time.Now().Before(stop) && bad.Load() == nil; i++ {
				val := w*10000000 + i
				msg := fmt.Sprintf("failure %d/%d", w, i)
				withErr := i%3 != 0
				ctx, cancel := context.WithCancel(context.Background())
				if i%2 == 1 {
					cancels.Store(val, cancel)
				}
				v, err := ra.ValCancel(ctx, val, msg, withErr)
				cancels.Delete(val)
				cancel()
				atomic.AddInt64(&calls, 1)
				if errors.Is(err, context.Canceled) {
					atomic.AddInt64(&abandoned, 1)
					continue
				}
				got := "<nil>"
				if err != nil {
					got = err.Error()
				}
				want := "<nil>"
				if withErr {
					want = msg
				}
				if v != val || got != want {
					bad.Store(fmt.Sprintf("ValCancel(%d, %q, %v): the handler returned (%d, %s); the caller got (%d, %s) — another call's response", val, msg, withErr, val, want, v, got))
					return
				}
			}
		}()
	}
	wg.Wait()
	d["calls"], d["abandoned"] = atomic.LoadInt64(&calls), atomic.LoadInt64(&abandoned)
	rep.sample(d)
	if m := bad.Load(); m != nil {
		rep.addViolation("property", prop+":cancel-race:crossed", m.(string)+fmt.Sprintf(" (%d calls, %d abandoned in flight)", calls, abandoned), d)
	}
}

// linksAfterAHandlerPanic (C13): one hub registry with two healthy links and further links that die because a handler
// PANICS (the failure of a link through the recover path of utils.Call). Afterwards concurrent same-arity traffic
// on the healthy links: every call made through link i's remote is answered by link i's peer with ITS OWN message.
func linksAfterAHandlerPanic(rep *Report, prop string, dur time.Duration) {
	rep.Evaluations++
	rep.Distinct++
	d := map[string]any{"suite": "links-after-a-handler-panic", "duration_ms": dur.Milliseconds()}
	jb := jsonBytes()
	hub := newSide[[]byte]("H")
	type sp struct {
		peer *Side[[]byte]
		qs   [4]*Queue
		stop context.CancelFunc
		err  chan error
	}
	var spokes []*sp
	link := func(side *Side[[]byte], ctx context.Context, outReq, outRes, inReq, inRes *Queue, errc chan error) {
		go func() {
			e := side.Reg.LinkMessage(ctx,
				func(t []byte) error { return outReq.Put(t) }, func(t []byte) error { return outRes.Put(t) },
				func() ([]byte, error) { return inReq.Get() }, func() ([]byte, error) { return inRes.Get() },
				jb.Marshal, jb.Unmarshal, nil)
			if errc != nil {
				errc <- e
			}
		}()
	}
	add := func(name string) *sp {
		s := &sp{peer: newSide[[]byte](name), err: make(chan error, 1)}
		for j := range s.qs {
			s.qs[j] = NewQueue()
		}
		ctx, cancel := context.WithCancel(context.Background())
		s.stop = cancel
		link(hub, ctx, s.qs[0], s.qs[1], s.qs[2], s.qs[3], s.err)
		link(s.peer, ctx, s.qs[2], s.qs[3], s.qs[0], s.qs[1], nil)
		spokes = append(spokes, s)
		return s
	}
	defer func() {
		for _, s := range spokes {
			s.stop()
			for _, q := range s.qs {
				q.Close(errors.New("closed"))
			}
		}
	}()
	add("P0")
	add("P1")
	waitFor(func() bool { return len(hub.Remotes()) == 2 })
	type target struct {
		name string
		rem  Remote
	}
	var ts []target
	for _, rem := range hub.Remotes() {
		rem := rem
		r := withWatchdog(func() (any, error) { return rem.WhoAmI(context.Background()) })
		if !r.ok || r.err != nil {
			rep.addViolation("property", prop+":after-panic:setup", fmt.Sprintf("WhoAmI failed: %+v", r), d)
			return
		}
		ts = append(ts, target{strings.SplitN(r.val.(string), "|", 2)[0], rem})
	}
	if len(ts) != 2 {
		rep.addViolation("property", prop+":after-panic:setup", "two links did not come up", d)
		return
	}
	// links that fail through a panicking handler: each victim peer asks the hub to panic (a one-argument handler,
	// the same arity as the traffic below)
	for v := 0; v < 6; v++ {
		s := add(fmt.Sprintf("V%d", v))
		waitFor(func() bool { return len(s.peer.Remotes()) == 1 })
		if vr, _, ok := s.peer.AnyRemote(); ok {
			go vr.Panic(context.Background(), fmt.Sprintf("boom victim %d", v))
		}
		select {
		case <-s.err:
		case <-time.After(watchdog):
		}
	}
	stop := time.Now().Add(dur)
	var bad atomic.Value
	var calls int64
	var wg sync.WaitGroup
	for _, t := range ts {
		for g := 0; g < 8; g++ {
			t, g := t, g
			wg.Add(1)
			go func() {
				defer wg.Done()
				for i := 0; time.Now().Before(stop) && bad.Load() == nil; i++ {
					msg := fmt.Sprintf("%s-caller%d-call%d", t.name, g, i)
					c, cancel := context.WithTimeout(context.Background(), watchdog)
					err := t.rem.Fail(c, msg)
					cancel()
					atomic.AddInt64(&calls, 1)
					if err == nil || err.Error() != msg {
						bad.Store(fmt.Sprintf("after %d links had failed through a panicking handler, call Fail(%q) through %s's remote returned %v: not the answer of that link's peer to that call", 6, msg, t.name, err))
						return
					}
				}
			}()
		}
	}
	wg.Wait()
	d["calls"] = atomic.LoadInt64(&calls)
	rep.sample(d)
	if m := bad.Load(); m != nil {
		rep.addViolation("property", prop+":after-panic:crossed", m.(string), d)
	}
}

// sharedLinkHooks (C20): many links are established at the same moment, all handed ONE LinkHooks value with one
// callback unset (declared once next to the accept loop). The library may only read it.
func sharedLinkHooks(rep *Report, prop string) {
	rep.Evaluations++
	rep.Distinct++
	mar := func(v any) (json.RawMessage, error) { b, err := json.Marshal(v); return b, err }
	unm := func(data json.RawMessage, v any) error { return json.Unmarshal([]byte(data), v) }
	for round := 0; round < 10; round++ {
		reg := rpc.NewRegistry[rpRemote, json.RawMessage](rpLocal{}, nil)
		var n int64
		hooks := &rpc.LinkHooks{OnClientConnect: func(id string) { atomic.AddInt64(&n, 1) }}
		ctx, cancel := context.WithCancel(context.Background())
		var wg sync.WaitGroup
		start := make(chan struct{})
		var qs []*Queue
		for i := 0; i < 8; i++ {
			q := NewQueue()
			qs = append(qs, q)
			wg.Add(1)
			go func() {
				defer wg.Done()
				<-start
				reg.LinkMessage(ctx,
					func(b json.RawMessage) error { return nil }, func(b json.RawMessage) error { return nil },
					func() (json.RawMessage, error) { b, e := q.Get(); return b, e }, func() (json.RawMessage, error) { b, e := q.Get(); return b, e },
					mar, unm, hooks)
			}()
		}
		close(start)
		waitFor(func() bool { return atomic.LoadInt64(&n) == 8 })
		cancel()
		for _, q := range qs {
			q.Close(errors.New("closed"))
		}
		wg.Wait()
		if hooks.OnClientDisconnect != nil {
			rep.addViolation("property", prop+":shared-hooks:written", "the library wrote to the LinkHooks value the application shares between concurrently established links (its unset OnClientDisconnect is set now)", map[string]any{"suite": "shared-link-hooks"})
			return
		}
	}
}

// twoClosurePositions (C09, "position by position"): a handler with TWO function-typed parameters followed by
// nothing, and one with a function parameter that is NOT the last one: each callable runs the function passed at
// ITS position.
func twoClosurePositions(rep *Report, prop, api string) {
	rep.Evaluations++
	rep.Distinct++
	d := map[string]any{"suite": "two-closure-positions", "api": api}
	p, err := NewPair(jsonRaw(), PairOpts{API: api})
	if err != nil {
		rep.addViolation("property", prop+":closure-positions:setup", "link setup failed: "+err.Error(), d)
		return
	}
	defer p.Shutdown()
	ra, _, _ := p.A.AnyRemote()
	var first, second int64
	r := withWatchdog(func() (any, error) {
		return ra.KindClosure(context.Background(), 0,
			func(ctx context.Context, k int) (int, error) { atomic.AddInt64(&first, 1); return 1000 + k, nil },
			func(ctx context.Context, k int) error { atomic.AddInt64(&second, 1); return nil })
	})
	if !r.ok || r.err != nil || r.val.(string) != "1000|<nil>|<nil>" || first != 1 || second != 1 {
		rep.addViolation("property", prop+":"+api+":closure-positions", fmt.Sprintf("a handler with two function-typed parameters invoked each once: the first function ran %d time(s), the second %d; the handler saw %+v (want \"1000|<nil>|<nil>\", once each) — an argument did not arrive at its position", first, second, r), d)
	}
}

// c01PingPong (C01): calls in BOTH directions that are nested in each other — a handler calls back into its caller
// with the context it was handed, that handler calls back again, … (Bounce: a chain; Tree: two nested calls per
// level, concurrently) — started from both sides at once. Every call returns the value its own handler produced:
// Bounce(d) = d, Tree(d) = 2^(d+1) − 1. (Each end's pending-call table holds the outer calls while the inner ones
// register: ids inherited along the chain, or correlation by anything but a fresh id, cross them.)
func c01PingPong(rep *Report, prop, api string) {
	rep.Evaluations++
	rep.Distinct++
	desc := map[string]any{"suite": "C01-ping-pong", "api": api}
	p, err := NewPair(jsonRaw(), PairOpts{API: api})
	if err != nil {
		rep.addViolation("property", prop+":ping-pong:setup", "link setup failed: "+err.Error(), desc)
		return
	}
	defer p.Shutdown()
	ra, _, _ := p.A.AnyRemote()
	rb, _, _ := p.B.AnyRemote()
	type job struct {
		dir, fn string
		depth   int
	}
	var jobs []job
	for d := 0; d <= 6; d++ {
		jobs = append(jobs, job{"A->B", "Bounce", d}, job{"B->A", "Bounce", d})
	}
	for d := 1; d <= 3; d++ {
		jobs = append(jobs, job{"A->B", "Tree", d}, job{"B->A", "Tree", d})
	}
	var mu sync.Mutex
	run := func(j job) {
		rem := ra
		if j.dir == "B->A" {
			rem = rb
		}
		want := j.depth
		r := withWatchdog(func() (any, error) {
			if j.fn == "Tree" {
				return rem.Tree(context.Background(), j.depth)
			}
			return rem.Bounce(context.Background(), j.depth)
		})
		if j.fn == "Tree" {
			want = 1<<(j.depth+1) - 1
		}
		if !r.ok || r.err != nil || r.val.(int) != want {
			mu.Lock()
			rep.addViolation("property", prop+":ping-pong:"+api+":"+j.fn, fmt.Sprintf("%s %s(%d): nested calls alternating direction, each handler calling back with the context it was handed: got %+v, want (%d, nil)", j.dir, j.fn, j.depth, r, want), desc)
			mu.Unlock()
		}
	}
	// one after the other, then all at once from both sides
	for _, j := range jobs {
		run(j)
	}
	var wg sync.WaitGroup
	for _, j := range jobs {
		j := j
		wg.Add(1)
		go func() { defer wg.Done(); run(j) }()
	}
	wg.Wait()
}
