package main

// C14, "at every instant the set of remotes enumerated equals the set of links announced as connected and not
// yet as disconnected": an enumeration that is IN PROGRESS when another link of the registry ends.  The
// callback of the first remote visited tears the other link down and gives its disconnect notification time
// to arrive (it cannot, while the enumeration holds the registry's lock); every remote the enumeration visits
// afterwards must still be announced as connected at the moment it is visited.

import (
	"context"
	"fmt"
	"io"
	"time"
)

// enumProp: the property the findings of this scenario are reported under (C14; C13 runs it too: a sibling link
// that ends while an enumeration is in progress may not hand the callback a remote that cannot be called)
var enumProp = "C14"

func c14EnumDuringTeardown(rep *Report) {
	for round := 0; round < 3; round++ {
		rep.Evaluations++
		rep.Distinct++
		codec := jsonRaw()
		c14EnumOnce(rep, codec, round)
	}
}

func c14EnumOnce[T any](rep *Report, codec Codec[T], round int) {
	desc := map[string]any{"suite": "C14-enumeration-during-teardown", "round": round}
	hub := newSide[T]("H")
	type sp struct {
		peer   *Side[T]
		ctx    context.Context
		stop   context.CancelFunc
		qs     [4]*Queue
		hubErr chan error
	}
	linkOne := func(side *Side[T], ctx context.Context, outReq, outRes, inReq, inRes *Queue, errc chan error) {
		go func() {
			errc <- side.Reg.LinkMessage(ctx,
				func(t T) error { return outReq.Put(codec.Bytes(t)) },
				func(t T) error { return outRes.Put(codec.Bytes(t)) },
				func() (T, error) { b, e := inReq.Get(); var t T; if e == nil { setBytes(any(&t), b) }; return t, e },
				func() (T, error) { b, e := inRes.Get(); var t T; if e == nil { setBytes(any(&t), b) }; return t, e },
				codec.Marshal, codec.Unmarshal, linkHooks(side, true))
		}()
	}
	var spokes []*sp
	for i := 0; i < 3; i++ {
		s := &sp{peer: newSide[T](fmt.Sprintf("P%d", i)), hubErr: make(chan error, 1)}
		for j := range s.qs {
			s.qs[j] = NewQueue()
		}
		s.ctx, s.stop = context.WithCancel(context.Background())
		s.peer.Ctx, s.peer.Cancel = context.WithCancel(context.Background())
		linkOne(hub, s.ctx, s.qs[0], s.qs[1], s.qs[2], s.qs[3], s.hubErr)
		linkOne(s.peer, s.peer.Ctx, s.qs[2], s.qs[3], s.qs[0], s.qs[1], s.peer.LinkErr)
		spokes = append(spokes, s)
	}
	defer func() {
		for _, s := range spokes {
			s.stop()
			s.peer.Cancel()
			for _, q := range s.qs {
				q.Close(io.EOF)
			}
		}
	}()
	waitFor(func() bool { return len(hub.Remotes()) == 3 })
	if len(hub.Remotes()) != 3 {
		rep.addViolation("property", enumProp+":enum:setup", "three links did not come up", desc)
		return
	}
	// which hub-side id belongs to which spoke
	idOf := map[string]int{}
	for id, rem := range hub.Remotes() {
		r := withWatchdog(func() (any, error) { return rem.WhoAmI(context.Background()) })
		if r.ok && r.err == nil {
			var n int
			fmt.Sscanf(r.val.(string), "P%d|", &n)
			idOf[id] = n
		}
	}
	disconnected := func(id string) bool {
		for _, h := range hub.Hooks() {
			if (h.Kind == "reg.disconnect" || h.Kind == "link.disconnect") && h.RemoteID == id {
				return true
			}
		}
		return false
	}
	visited := 0
	done := make(chan struct{})
	go func() {
		defer close(done)
		hub.Reg.ForRemotes(func(id string, r Remote) error {
			visited++
			if r.WhoAmI == nil {
				rep.addViolation("property", enumProp+":enum:zero-remote", fmt.Sprintf("an enumeration in progress (visit %d) was handed a ZERO remote for %s (every function field nil): calling it panics in the caller's goroutine — a sibling link's end reached a handler of another link", visited, id[:8]), desc)
				return nil
			}
			if disconnected(id) {
				rep.addViolation("property", enumProp+":enum:stale-remote", fmt.Sprintf("an enumeration in progress (visit %d) was handed remote %s, which had already been announced as disconnected", visited, id[:8]), desc)
			}
			if visited == 1 {
				// end the two OTHER links completely and give their disconnect notifications time to arrive
				for oid, n := range idOf {
					if oid == id {
						continue
					}
					s := spokes[n]
					s.stop()
					s.peer.Cancel()
					for _, q := range s.qs {
						q.Close(io.EOF)
					}
				}
				deadline := time.Now().Add(150 * time.Millisecond)
				for time.Now().Before(deadline) {
					time.Sleep(time.Millisecond)
				}
			}
			return nil
		})
	}()
	select {
	case <-done:
	case <-time.After(watchdog):
		rep.addViolation("property", enumProp+":enum:hang", "the enumeration did not finish", desc)
	}
}
