package main

// Serializer / payload-type configurations plugged into panrpc by the harness.

import (
	"bytes"
	"encoding/json"
	"io"

	"github.com/fxamacker/cbor/v2"
	"github.com/pojntfx/panrpc/go/pkg/rpc"
)

type Codec[T any] struct {
	Name      string
	Marshal   func(v any) (T, error)
	Unmarshal func(data T, v any) error
	Bytes     func(T) []byte
	// stream framing
	NewEncoder func(w io.Writer) func(v rpc.Message[T]) error
	NewDecoder func(r io.Reader) func(v *rpc.Message[T]) error
	// generic decode of a whole frame / payload into Go maps (independent decoder for C17)
	Generic func(b []byte) (any, error)
}

func jsonRaw() Codec[json.RawMessage] {
	return Codec[json.RawMessage]{
		Name: "json-raw",
		Marshal: func(v any) (json.RawMessage, error) {
			b, err := json.Marshal(v)
			return json.RawMessage(b), err
		},
		Unmarshal: func(data json.RawMessage, v any) error { return json.Unmarshal([]byte(data), v) },
		Bytes:     func(t json.RawMessage) []byte { return []byte(t) },
		NewEncoder: func(w io.Writer) func(v rpc.Message[json.RawMessage]) error {
			e := json.NewEncoder(w)
			return func(v rpc.Message[json.RawMessage]) error { return e.Encode(v) }
		},
		NewDecoder: func(r io.Reader) func(v *rpc.Message[json.RawMessage]) error {
			d := json.NewDecoder(r)
			return func(v *rpc.Message[json.RawMessage]) error { return d.Decode(v) }
		},
		Generic: func(b []byte) (any, error) {
			var x any
			d := json.NewDecoder(bytes.NewReader(b))
			d.UseNumber()
			err := d.Decode(&x)
			return x, err
		},
	}
}

// JSON with []byte payloads: nested values travel as base64 strings inside the frame.
func jsonBytes() Codec[[]byte] {
	return Codec[[]byte]{
		Name:      "json-bytes",
		Marshal:   func(v any) ([]byte, error) { return json.Marshal(v) },
		Unmarshal: func(data []byte, v any) error { return json.Unmarshal(data, v) },
		Bytes:     func(t []byte) []byte { return t },
		NewEncoder: func(w io.Writer) func(v rpc.Message[[]byte]) error {
			e := json.NewEncoder(w)
			return func(v rpc.Message[[]byte]) error { return e.Encode(v) }
		},
		NewDecoder: func(r io.Reader) func(v *rpc.Message[[]byte]) error {
			d := json.NewDecoder(r)
			return func(v *rpc.Message[[]byte]) error { return d.Decode(v) }
		},
		Generic: func(b []byte) (any, error) {
			var x any
			d := json.NewDecoder(bytes.NewReader(b))
			d.UseNumber()
			err := d.Decode(&x)
			return x, err
		},
	}
}

func cborRaw() Codec[cbor.RawMessage] {
	return Codec[cbor.RawMessage]{
		Name: "cbor-raw",
		Marshal: func(v any) (cbor.RawMessage, error) {
			b, err := cbor.Marshal(v)
			return cbor.RawMessage(b), err
		},
		Unmarshal: func(data cbor.RawMessage, v any) error { return cbor.Unmarshal([]byte(data), v) },
		Bytes:     func(t cbor.RawMessage) []byte { return []byte(t) },
		NewEncoder: func(w io.Writer) func(v rpc.Message[cbor.RawMessage]) error {
			e := cbor.NewEncoder(w)
			return func(v rpc.Message[cbor.RawMessage]) error { return e.Encode(v) }
		},
		NewDecoder: func(r io.Reader) func(v *rpc.Message[cbor.RawMessage]) error {
			d := cbor.NewDecoder(r)
			return func(v *rpc.Message[cbor.RawMessage]) error { return d.Decode(v) }
		},
		Generic: func(b []byte) (any, error) {
			var x any
			err := cbor.Unmarshal(b, &x)
			return x, err
		},
	}
}
