module verif/harness

go 1.22

require (
	github.com/fxamacker/cbor/v2 v2.7.0
	github.com/pojntfx/panrpc/go v0.0.0
)

require (
	github.com/google/uuid v1.6.0 // indirect
	github.com/x448/float16 v0.8.4 // indirect
)

replace github.com/pojntfx/panrpc/go => /repo/go
