module verif/harness

go 1.22

require github.com/pojntfx/panrpc/go v0.0.0

replace github.com/pojntfx/panrpc/go => /repo/go
