package main

// Trace validation of the callee-side model of one request (lean/Panrpc/Model/Callee.lean; theorems in
// Props/C05Callee.lean and Props/C10Callee.lean).  A raw peer sends ONE request at a real registry (child
// process: a panic that escapes would kill it), the child reports what it observed — the responses written
// (Call, Err), every setErr call of that link with its message, whether application code ran — and the parent
// replays the scenario's action sequence on the model (`ce run …`) and compares.

import (
	"context"
	"encoding/hex"
	"encoding/json"
	"errors"
	"fmt"
	"os"
	"strings"
	"sync"
	"sync/atomic"
	"time"

	"github.com/pojntfx/panrpc/go/pkg/rpc"
)

type ceLocal struct{ ran int64 }

func (l *ceLocal) None(ctx context.Context)               { atomic.AddInt64(&l.ran, 1) }
func (l *ceLocal) ErrNil(ctx context.Context) error       { atomic.AddInt64(&l.ran, 1); return nil }
func (l *ceLocal) ErrMsg(ctx context.Context, m string) error {
	atomic.AddInt64(&l.ran, 1)
	return errors.New(m)
}
func (l *ceLocal) Val(ctx context.Context, x int) int { atomic.AddInt64(&l.ran, 1); return x + 1 }
func (l *ceLocal) Two(ctx context.Context, x int, m string) (int, error) {
	atomic.AddInt64(&l.ran, 1)
	if m != "" {
		return x, errors.New(m)
	}
	return x, nil
}
func (l *ceLocal) PanicErr(ctx context.Context, m string) error {
	atomic.AddInt64(&l.ran, 1)
	panic(errors.New(m))
}
func (l *ceLocal) PanicOther(ctx context.Context) (int, error) {
	atomic.AddInt64(&l.ran, 1)
	panic(42)
}

type ceRemote struct {
	Iterate func(ctx context.Context, n int, cb func(ctx context.Context, i int) (int, error)) (int, error)
}

type ceScenario struct {
	Name    string
	Frame   string   // the request (call id "c1"); "" for closure scenarios
	Closure string   // closure behaviour: "" | ok | err:<m> | panic-err:<m> | panic-other | missing | badargs
	Fault   string   // "" | marshal | write
	Acts    []string // the model's action sequence for this scenario
}

func hx(s string) string {
	if s == "" {
		return "-"
	}
	return hex.EncodeToString([]byte(s))
}

func ceScenarios() []ceScenario {
	m := "boom: \"x\" ü"
	ok := func(ret string) []string { return []string{"resolveOk", "start", ret, "marshalOk", "respond"} }
	return []ceScenario{
		{"none0", `{"call":"c1","function":"None","args":[]}`, "", "", ok("ret:none0")},
		{"oneErr-nil", `{"call":"c1","function":"ErrNil","args":[]}`, "", "", ok("ret:oneErr:nil")},
		{"oneErr-msg", fmt.Sprintf(`{"call":"c1","function":"ErrMsg","args":[%q]}`, m), "", "", ok("ret:oneErr:" + hx(m))},
		{"oneVal", `{"call":"c1","function":"Val","args":[1]}`, "", "", ok("ret:oneVal")},
		{"two-nil", `{"call":"c1","function":"Two","args":[1,""]}`, "", "", ok("ret:two:nil")},
		{"two-msg", fmt.Sprintf(`{"call":"c1","function":"Two","args":[1,%q]}`, m), "", "", ok("ret:two:" + hx(m))},
		{"unknown-function", `{"call":"c1","function":"Nope","args":[]}`, "", "", []string{"resolveFails"}},
		{"wrong-arg-count", `{"call":"c1","function":"Val","args":[]}`, "", "", []string{"resolveFails"}},
		{"undecodable-arg", `{"call":"c1","function":"Val","args":["x"]}`, "", "", []string{"resolveFails"}},
		{"handler-panics-error", fmt.Sprintf(`{"call":"c1","function":"PanicErr","args":[%q]}`, m), "", "", []string{"resolveOk", "start", "panic:err:" + hx(m)}},
		{"handler-panics-other", `{"call":"c1","function":"PanicOther","args":[]}`, "", "", []string{"resolveOk", "start", "panic:other"}},
		{"marshal-fails", `{"call":"c1","function":"Two","args":[1,""]}`, "", "marshal", []string{"resolveOk", "start", "ret:two:nil", "marshalFails"}},
		{"write-fails", `{"call":"c1","function":"Two","args":[1,""]}`, "", "write", []string{"resolveOk", "start", "ret:two:nil", "marshalOk", "writeFails"}},
		{"closure-ok", "", "ok", "", ok("ret:two:nil")},
		{"closure-error", "", "err:" + m, "", ok("ret:two:" + hx(m))},
		{"closure-panics-error", "", "panic-err:" + m, "", []string{"resolveOk", "start", "cpanic:err:" + hx(m), "marshalOk", "respond"}},
		{"closure-panics-other", "", "panic-other", "", []string{"resolveOk", "start", "cpanic:other", "marshalOk", "respond"}},
		{"closure-missing", "", "missing", "", ok("ret:two:" + hx(rpc.ErrClosureDoesNotExist.Error()))},
		{"closure-write-fails", "", "ok", "write", []string{"resolveOk", "start", "ret:two:nil", "marshalOk", "writeFails"}},
	}
}

// subCallee: child. One scenario; prints `OBS responses=<call hex>/<err hex>,… seterr=<msg hex>,… app=<n>`.
func subCallee(args []string) {
	var sc ceScenario
	for _, s := range ceScenarios() {
		if s.Name == args[0] {
			sc = s
		}
	}
	if sc.Name == "" {
		fmt.Println("BAD unknown scenario")
		return
	}
	rec, stop := startTraceRec()
	defer stop()
	local := &ceLocal{}
	reg := rpc.NewRegistry[ceRemote, json.RawMessage](local, nil)
	in, inRes, out, outReq := NewQueue(), NewQueue(), NewQueue(), NewQueue()
	var failMarshal, failWrite int32
	injected := errors.New("injected failure")
	var closureRan int64
	ctx, cancel := context.WithCancel(context.Background())
	defer cancel()
	linkErr := make(chan error, 1)
	go func() {
		linkErr <- reg.LinkMessage(ctx,
			func(b json.RawMessage) error { return outReq.Put(b) },
			func(b json.RawMessage) error {
				if atomic.LoadInt32(&failWrite) == 1 {
					return injected
				}
				return out.Put(b)
			},
			func() (json.RawMessage, error) { b, e := in.Get(); return b, e },
			func() (json.RawMessage, error) { b, e := inRes.Get(); return b, e },
			func(v any) (json.RawMessage, error) {
				if atomic.LoadInt32(&failMarshal) == 1 {
					return nil, injected
				}
				b, err := json.Marshal(v)
				return b, err
			},
			func(data json.RawMessage, v any) error { return json.Unmarshal([]byte(data), v) }, nil)
	}()
	var rem ceRemote
	up := false
	for i := 0; i < 3000 && !up; i++ {
		reg.ForRemotes(func(id string, r ceRemote) error { rem, up = r, true; return nil })
		if !up {
			time.Sleep(time.Millisecond)
		}
	}
	if !up {
		fmt.Println("BAD link did not come up")
		return
	}
	frame := sc.Frame
	var iterDone sync.WaitGroup
	if sc.Closure != "" {
		// our side passes a closure to the peer; the raw peer then invokes it (that invocation is the request under test)
		kind, msg, _ := strings.Cut(sc.Closure, ":")
		iterDone.Add(1)
		go func() {
			defer iterDone.Done()
			rem.Iterate(ctx, 1, func(ctx context.Context, i int) (int, error) {
				atomic.AddInt64(&closureRan, 1)
				switch kind {
				case "err":
					return 0, errors.New(msg)
				case "panic-err":
					panic(errors.New(msg))
				case "panic-other":
					panic(42)
				}
				return i + 1, nil
			})
		}()
		b, err := outReq.Get()
		if err != nil {
			fmt.Println("BAD no Iterate request")
			return
		}
		var req struct {
			Args []json.RawMessage `json:"args"`
		}
		json.Unmarshal(b, &req)
		cid := "\"no-such-closure\""
		if kind != "missing" && len(req.Args) == 2 {
			cid = string(req.Args[1])
		}
		frame = fmt.Sprintf(`{"call":"c1","function":"CallClosure","args":[%s,[1]]}`, cid)
	}
	switch sc.Fault {
	case "marshal":
		atomic.StoreInt32(&failMarshal, 1)
	case "write":
		atomic.StoreInt32(&failWrite, 1)
	}
	before := len(rec.events())
	in.Put([]byte(frame))
	// outcome: a response, or the link ends
	var responses []string
	got := make(chan []byte, 4)
	go func() {
		for {
			b, err := out.Get()
			if err != nil {
				return
			}
			got <- b
		}
	}()
	ended := false
	select {
	case b := <-got:
		var res struct {
			Call string `json:"call"`
			Err  string `json:"err"`
		}
		json.Unmarshal(b, &res)
		responses = append(responses, hx(res.Call)+"/"+hx(res.Err))
	case <-linkErr:
		ended = true
	case <-time.After(2 * time.Second):
	}
	time.Sleep(5 * time.Millisecond)
	// a second response would be a defect: give it a moment
	select {
	case b := <-got:
		var res struct {
			Call string `json:"call"`
			Err  string `json:"err"`
		}
		json.Unmarshal(b, &res)
		responses = append(responses, hx(res.Call)+"/"+hx(res.Err))
	default:
	}
	var seterr []string
	for _, e := range rec.events()[before:] {
		if e.Point == "seterr.enter" {
			seterr = append(seterr, hx(e.Key))
		}
	}
	app := atomic.LoadInt64(&local.ran) + atomic.LoadInt64(&closureRan)
	fmt.Printf("OBS responses=%s seterr=%s app=%d ended=%v\n", strings.Join(responses, ","), strings.Join(seterr, ","), app, ended)
	cancel()
	in.Close(nil)
	inRes.Close(nil)
	out.Close(nil)
	outReq.Close(nil)
	fmt.Println("DONE")
	os.Stdout.Sync()
}

// runCalleeReplay: every scenario in a child, compared with the model.
func runCalleeReplay(rep *Report, prop string) {
	scs := ceScenarios()
	var lines []string
	for _, sc := range scs {
		cl := "0"
		if sc.Closure != "" {
			cl = "1"
		}
		lines = append(lines, fmt.Sprintf("ce run %s %s %s", hx("c1"), cl, strings.Join(sc.Acts, " ")))
	}
	lines = append(lines, "ce panicmsg other")
	ans, err := runDriver(lines)
	if err != nil {
		rep.addViolation("correspondence", prop+":callee-driver", fmt.Sprintf("Lean driver failed: %v", err), nil)
		return
	}
	nonErrorMsg := ans[len(ans)-1]
	for i, sc := range scs {
		rep.Evaluations++
		d := map[string]any{"suite": "callee-replay", "scenario": sc.Name, "model_actions": sc.Acts, "cmd": "bin/harness -sub callee " + sc.Name}
		out, se, code := runSelf("-sub", "callee", sc.Name)
		obs := ""
		for _, l := range strings.Split(out, "\n") {
			if strings.HasPrefix(l, "OBS ") {
				obs = l[4:]
			}
			if strings.HasPrefix(l, "BAD ") {
				rep.addViolation("correspondence", prop+":callee:"+sc.Name+":setup", "callee scenario "+sc.Name+": "+l[4:], d)
			}
		}
		model := ans[i]
		if strings.HasPrefix(model, "rejected") || strings.HasPrefix(model, "bad-op") {
			rep.addViolation("correspondence", prop+":callee:"+sc.Name+":model", fmt.Sprintf("the callee model does not allow the action sequence of scenario %s: %s", sc.Name, model), d)
			continue
		}
		f := map[string]string{}
		for _, w := range strings.Fields(model + " " + obs) {
			if k, v, ok := strings.Cut(w, "="); ok {
				if _, dup := f[k]; dup {
					f["obs."+k] = v
				} else {
					f[k] = v
				}
			}
		}
		// (keys of the model line: pc setErr responses crashed app; of the observation: responses seterr app ended)
		crashed := code != 0 || !strings.Contains(out, "DONE")
		if crashed != (f["crashed"] == "1") {
			rep.addViolation("property", prop+":callee:"+sc.Name+":crash", fmt.Sprintf("scenario %s: the process died=%v (%s), the model says crashed=%s", sc.Name, crashed, firstLine(se), f["crashed"]), d)
			continue
		}
		if crashed {
			continue
		}
		mr := strings.Trim(f["responses"], "[]")
		if mr != f["obs.responses"] {
			rep.addViolation("correspondence", prop+":callee:"+sc.Name+":responses", fmt.Sprintf("scenario %s: responses written (call/err, hex): implementation [%s], model [%s]", sc.Name, f["obs.responses"], mr), d)
			continue
		}
		var causes, msgs []string
		if c := strings.Trim(f["setErr"], "[]"); c != "" {
			causes = strings.Split(c, ",")
		}
		if s := f["seterr"]; s != "" {
			msgs = strings.Split(s, ",")
		}
		if len(causes) != len(msgs) {
			rep.addViolation("correspondence", prop+":callee:"+sc.Name+":seterr-count", fmt.Sprintf("scenario %s: setErr was called %d time(s) %v, the model has %v", sc.Name, len(msgs), msgs, causes), d)
			continue
		}
		okAll := true
		for k, c := range causes {
			mb, _ := hex.DecodeString(msgs[k])
			msg := string(mb)
			want := ""
			switch c {
			case "handlerPanic":
				// the message utils.Call reports for the panic value of the scenario
				for _, a := range sc.Acts {
					if strings.HasPrefix(a, "panic:err:") {
						b, _ := hex.DecodeString(strings.TrimPrefix(a, "panic:err:"))
						want = string(b)
					}
					if a == "panic:other" {
						b, _ := hex.DecodeString(nonErrorMsg)
						want = string(b)
					}
				}
			case "marshalFail", "writeFail":
				want = "injected failure"
			}
			if want != "" && msg != want {
				okAll = false
				rep.addViolation("correspondence", prop+":callee:"+sc.Name+":seterr-msg", fmt.Sprintf("scenario %s: setErr (%s) carried %q, the model gives %q", sc.Name, c, msg, want), d)
			}
			if want == "" && msg == "" {
				okAll = false
				rep.addViolation("correspondence", prop+":callee:"+sc.Name+":seterr-msg", fmt.Sprintf("scenario %s: setErr (%s) was called with a nil/empty error", sc.Name, c), d)
			}
		}
		appRan := f["obs.app"] != "0" && f["obs.app"] != ""
		// (for a closure entry the model's flag means "CallClosure was entered"; whether the user's closure then ran
		// is C12's business — the look-up miss runs none)
		if sc.Closure != "missing" && appRan != (f["app"] == "1") {
			okAll = false
			rep.addViolation("correspondence", prop+":callee:"+sc.Name+":app", fmt.Sprintf("scenario %s: application code ran=%v, the model says %s", sc.Name, appRan, f["app"]), d)
		}
		if okAll {
			rep.TracesValidated++
			rep.ModelSteps += len(sc.Acts)
		}
	}
}
