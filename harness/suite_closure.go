package main

// C11 (closure arguments run on the caller's side with the callee's arguments) and
// C12 (closures live exactly as long as the call that passed them).

import (
	"context"
	"encoding/hex"
	"errors"
	"fmt"
	"math/rand"
	"reflect"
	"strings"
	"sync"
	"sync/atomic"
	"time"

	"github.com/pojntfx/panrpc/go/pkg/rpc"
)

func c11Workload[T any](rep *Report, codec Codec[T], api string, rng *rand.Rand, rounds int) {
	p, err := NewPair(codec, PairOpts{API: api})
	desc := map[string]any{"suite": "C11", "codec": codec.Name, "api": api}
	if err != nil {
		rep.addViolation("property", "C11:setup", "link setup failed: "+err.Error(), desc)
		return
	}
	defer p.Shutdown()
	ra, _, _ := p.A.AnyRemote()
	rb, _, _ := p.B.AnyRemote()
	key := "C11:" + api
	rep.sample(desc)
	for it := 0; it < rounds; it++ {
		rem, dir := ra, "A->B"
		if it%2 == 1 {
			rem, dir = rb, "B->A"
		}
		n := rng.Intn(6)
		conc := rng.Intn(2) == 0
		var runs int64
		var mu sync.Mutex
		seen := map[int]string{}
		d := map[string]any{"suite": "C11", "codec": codec.Name, "api": api, "dir": dir, "invocations": n, "concurrent": conc}
		rep.Evaluations++
		rep.Distinct++
		r := withWatchdog(func() (any, error) {
			return rem.WithClosure(context.Background(), n, conc, func(ctx context.Context, i int, s string) (string, error) {
				atomic.AddInt64(&runs, 1)
				mu.Lock()
				seen[i] = s
				mu.Unlock()
				if i%3 == 2 {
					return "", fmt.Errorf("cb-err-%d", i)
				}
				return fmt.Sprintf("ret-%d-%s", i, s), nil
			})
		})
		if !r.ok || r.err != nil {
			rep.addViolation("property", key+":call", fmt.Sprintf("WithClosure(%d, conc=%v) %s: ok=%v err=%v", n, conc, dir, r.ok, r.err), d)
			return
		}
		if int(runs) != n {
			rep.addViolation("property", key+":runs", fmt.Sprintf("%d invocations by the callee ran the caller's function %d times", n, runs), d)
		}
		calleeName := "B"
		if dir == "B->A" {
			calleeName = "A"
		}
		out := r.val.([]string)
		for i := 0; i < n && i < len(out); i++ {
			arg := fmt.Sprintf("%s-arg-%d", calleeName, i)
			if seen[i] != arg {
				rep.addViolation("property", key+":args", fmt.Sprintf("invocation %d: the function received %q, the callee supplied %q", i, seen[i], arg), d)
			}
			want := fmt.Sprintf("ret-%d-%s", i, arg)
			if i%3 == 2 {
				want = fmt.Sprintf("ERR:cb-err-%d", i)
			}
			if out[i] != want {
				rep.addViolation("property", key+":result", fmt.Sprintf("invocation %d handed back %q, the function returned %q", i, out[i], want), d)
			}
		}
	}
	// "also concurrently": k invocations that only return once ALL of them are inside the caller's function
	// (a rendezvous), and an invocation whose body itself passes a closure onwards — neither may wait for a
	// lock that another running invocation holds
	for _, dir := range []string{"A->B", "B->A"} {
		rem := ra
		if dir == "B->A" {
			rem = rb
		}
		const k = 4
		d := map[string]any{"suite": "C11", "codec": codec.Name, "api": api, "dir": dir, "invocations": k, "concurrent": true, "body": "rendezvous"}
		rep.Evaluations++
		rep.Distinct++
		var inside int64
		all := make(chan struct{})
		r := withWatchdog(func() (any, error) {
			return rem.WithClosure(context.Background(), k, true, func(ctx context.Context, i int, s string) (string, error) {
				if atomic.AddInt64(&inside, 1) == k {
					close(all)
				}
				select {
				case <-all:
					return "met", nil
				case <-time.After(watchdog / 2):
					return "", errors.New("alone")
				}
			})
		})
		if !r.ok || r.err != nil {
			rep.addViolation("property", key+":rendezvous-call", fmt.Sprintf("%d concurrent invocations that wait for each other: the call did not complete (ok=%v err=%v; %d got inside)", k, r.ok, r.err, atomic.LoadInt64(&inside)), d)
			return
		}
		for i, o := range r.val.([]string) {
			if o != "met" {
				rep.addViolation("property", key+":rendezvous", fmt.Sprintf("%d concurrent invocations of one closure never ran at the same time: invocation %d got %q (only %d were ever inside the function together)", k, i, o, atomic.LoadInt64(&inside)), d)
				break
			}
		}
		// two function-valued arguments in ONE call: each callable runs the caller's function at its own position
		rep.Evaluations++
		rep.Distinct++
		var ranA, ranB int64
		r = withWatchdog(func() (any, error) {
			return rem.KeepTwo(context.Background(), 40,
				func(ctx context.Context, i int, s string) (string, error) { atomic.AddInt64(&ranA, 1); return fmt.Sprintf("first:%d:%s", i, s), nil },
				func(ctx context.Context, i int, s string) (string, error) { atomic.AddInt64(&ranB, 1); return fmt.Sprintf("second:%d:%s", i, s), errors.New("e2") })
		})
		if !r.ok || r.err != nil || r.val.(string) != "first:1:a/<nil>|second:2:b/e2" || ranA != 1 || ranB != 1 {
			rep.addViolation("property", key+":two-callables", fmt.Sprintf("a call passing two functions, each invoked once by the callee (with (1,\"a\") and (2,\"b\")): the callee got %v (err %v); the first function ran %d time(s), the second %d", r.val, r.err, ranA, ranB),
				map[string]any{"suite": "C11", "codec": codec.Name, "api": api, "dir": dir, "body": "two function arguments"})
		}
		d2 := map[string]any{"suite": "C11", "codec": codec.Name, "api": api, "dir": dir, "body": "passes a closure onwards"}
		rep.Evaluations++
		rep.Distinct++
		r = withWatchdog(func() (any, error) {
			return rem.WithClosure(context.Background(), 1, false, func(ctx context.Context, i int, s string) (string, error) {
				in, err := rem.WithClosure(ctx, 1, false, func(ctx context.Context, i int, s string) (string, error) { return "inner:" + s, nil })
				if err != nil {
					return "", err
				}
				return in[0], nil
			})
		})
		if !r.ok || r.err != nil || !strings.HasPrefix(r.val.([]string)[0], "inner:") {
			rep.addViolation("property", key+":nested-closure", fmt.Sprintf("an invocation whose body makes a closure-carrying call itself did not complete: %+v", r), d2)
			return
		}
	}
	// value types: numbers, booleans, strings, slices of those; zero / empty / nil included
	for row := range closureRows {
		for _, dir := range []string{"A->B", "B->A"} {
			rem := ra
			if dir == "B->A" {
				rem = rb
			}
			rep.Evaluations++
			rep.Distinct++
			d := map[string]any{"suite": "C11", "codec": codec.Name, "api": api, "dir": dir, "row": row, "values": closureRows[row].render()}
			var got string
			r := withWatchdog(func() (any, error) {
				return rem.ClosureTypes(context.Background(), row, func(ctx context.Context, a int, b float64, c bool, dd string, e []int, f []string, g uint8, h []float64, i []bool, j int64) (string, error) {
					got = closureRow{a, b, c, dd, e, f, g, h, i, j}.render()
					return "seen:" + got, nil
				})
			})
			want := closureRows[row].render()
			// nil and empty slices are the same "empty value" after a generic decode
			norm := func(s string) string { return strings.ReplaceAll(s, "[]string(nil)", "[]") }
			if !r.ok {
				rep.addViolation("property", key+":types-hang", "ClosureTypes did not return", d)
				return
			}
			if r.err != nil {
				rep.addViolation("property", key+":types-call", fmt.Sprintf("closure invoked with %s: the call failed: %v", want, r.err), d)
				// a failure here may have ended the link
				select {
				case e := <-p.A.LinkErr:
					rep.addViolation("property", key+":types-link", fmt.Sprintf("…and the link ended: %v", e), d)
					return
				case e := <-p.B.LinkErr:
					rep.addViolation("property", key+":types-link", fmt.Sprintf("…and the link ended: %v", e), d)
					return
				case <-time.After(20 * time.Millisecond):
				}
				continue
			}
			if norm(got) != norm(want) || r.val.(string) != "seen:"+got {
				rep.addViolation("property", key+":types-values", fmt.Sprintf("closure received %s, the callee supplied %s (handed back %q)", got, want, r.val), d)
			}
		}
	}
	// narrower numeric types: float32 (values it holds only approximately included), int8, uint16, int32 and slices of them;
	// the closure's float32 result goes back to the invocation
	for row := range floatRows {
		for _, dir := range []string{"A->B", "B->A"} {
			rem := ra
			if dir == "B->A" {
				rem = rb
			}
			rep.Evaluations++
			rep.Distinct++
			want := floatRows[row]
			d := map[string]any{"suite": "C11", "codec": codec.Name, "api": api, "dir": dir, "floatRow": row, "values": want.render()}
			var got string
			r := withWatchdog(func() (any, error) {
				return rem.ClosureFloats(context.Background(), row, func(ctx context.Context, a float32, b []float32, c int8, dd []uint16, e []int32) (float32, error) {
					got = floatRow{a, b, c, dd, e}.render()
					return a, nil
				})
			})
			if !r.ok {
				rep.addViolation("property", key+":floats-hang", "ClosureFloats did not return", d)
				return
			}
			if r.err != nil {
				rep.addViolation("property", key+":floats-call", fmt.Sprintf("closure invoked with %s: the call failed: %v", want.render(), r.err), d)
				select {
				case e := <-p.A.LinkErr:
					rep.addViolation("property", key+":floats-link", fmt.Sprintf("…and the link ended: %v", e), d)
					return
				case e := <-p.B.LinkErr:
					rep.addViolation("property", key+":floats-link", fmt.Sprintf("…and the link ended: %v", e), d)
					return
				case <-time.After(20 * time.Millisecond):
				}
				continue
			}
			if got != want.render() || r.val.(string) != fmt.Sprintf("%v|<nil>", want.A) {
				rep.addViolation("property", key+":floats-values", fmt.Sprintf("closure received %s, the callee supplied %s; the invocation got back %q, the function returned %v", got, want.render(), r.val, want.A), d)
			}
		}
	}
	// result value and error handed back to that invocation
	for _, k := range []int{0, 1, 3} {
		rep.Evaluations++
		r := withWatchdog(func() (any, error) {
			return ra.ClosureResult(context.Background(), k, func(ctx context.Context, k int) ([]int, error) {
				if k == 3 {
					return []int{9}, errors.New("with-value")
				}
				if k == 0 {
					return nil, nil
				}
				return []int{k, k + 1}, nil
			})
		})
		want := map[int]string{0: "[]|<nil>", 1: "[1 2]|<nil>", 3: "[9]|with-value"}[k]
		if !r.ok || r.err != nil || r.val.(string) != want {
			rep.addViolation("property", key+":result-shape", fmt.Sprintf("ClosureResult(%d): got %+v, want %q", k, r, want), desc)
		}
	}
}

// ---- convertValue differential against the Lean model

func cvEncTy(t reflect.Type) string {
	switch t.Kind() {
	case reflect.Bool:
		return "b"
	case reflect.Int, reflect.Int8, reflect.Int16, reflect.Int32, reflect.Int64:
		return "i"
	case reflect.Uint, reflect.Uint8, reflect.Uint16, reflect.Uint32, reflect.Uint64, reflect.Uintptr:
		return "u"
	case reflect.Float32, reflect.Float64:
		return "f"
	case reflect.String:
		return "s"
	case reflect.Interface:
		if t.NumMethod() == 0 {
			return "a"
		}
		return "o"
	case reflect.Slice:
		return "[" + cvEncTy(t.Elem())
	}
	return "o"
}

func cvEncVal(v reflect.Value) string {
	if !v.IsValid() {
		return "nil"
	}
	switch v.Kind() {
	case reflect.Bool:
		return fmt.Sprintf("b:%v", v.Bool())
	case reflect.Int, reflect.Int8, reflect.Int16, reflect.Int32, reflect.Int64:
		return fmt.Sprintf("i:%d", v.Int())
	case reflect.Uint, reflect.Uint8, reflect.Uint16, reflect.Uint32, reflect.Uint64, reflect.Uintptr:
		return fmt.Sprintf("u:%d", v.Uint())
	case reflect.Float32, reflect.Float64:
		return fmt.Sprintf("f:%d", int64(v.Float()))
	case reflect.String:
		return "s:" + hex.EncodeToString([]byte(v.String()))
	case reflect.Interface:
		return "I(" + cvEncVal(v.Elem()) + ")"
	case reflect.Slice:
		parts := make([]string, v.Len())
		for i := range parts {
			parts[i] = cvEncVal(v.Index(i))
		}
		if v.Type().Elem().Kind() == reflect.Interface && v.Type().Elem().NumMethod() == 0 {
			return "{" + strings.Join(parts, ",") + "}"
		}
		return "[" + strings.Join(parts, ",") + "]"
	}
	return "o"
}

type cvS struct{ A int }

func c11ConvertDifferential(rep *Report) {
	x := 3
	ifaceElem := reflect.ValueOf([]interface{}{2.0, nil})
	srcs := []reflect.Value{
		reflect.ValueOf(nil),
		reflect.ValueOf(true), reflect.ValueOf(false),
		reflect.ValueOf(int(-3)), reflect.ValueOf(int64(5)), reflect.ValueOf(int8(0)),
		reflect.ValueOf(uint8(7)), reflect.ValueOf(uint64(9)),
		reflect.ValueOf(float64(2)), reflect.ValueOf(float32(-1)), reflect.ValueOf(float64(0)),
		reflect.ValueOf("héllo"), reflect.ValueOf(""),
		reflect.ValueOf([]interface{}{}), reflect.ValueOf([]interface{}{1.0, "a"}),
		reflect.ValueOf([]interface{}{1.0, nil}), reflect.ValueOf([]interface{}{1.0, 2.0, 0.0}),
		reflect.ValueOf([]interface{}{"a", ""}), reflect.ValueOf([]interface{}{true}),
		reflect.ValueOf([]interface{}{[]interface{}{1.0}, []interface{}{}}),
		reflect.ValueOf([]interface{}{[]interface{}{1.0}, nil}),
		reflect.ValueOf([]interface{}{uint64(4), int64(-4)}),
		reflect.ValueOf([]string{"a"}), reflect.ValueOf([]int{1, 2}), reflect.ValueOf([]float64{}),
		reflect.ValueOf([]float32{1, 2}), reflect.ValueOf([][]int{{1}, {}}),
		reflect.ValueOf(map[string]interface{}{"A": 1.0}), reflect.ValueOf(cvS{1}), reflect.ValueOf(&x),
		ifaceElem.Index(0), ifaceElem.Index(1),
	}
	dsts := []reflect.Type{
		reflect.TypeOf(true), reflect.TypeOf(int(0)), reflect.TypeOf(int16(0)), reflect.TypeOf(uint(0)), reflect.TypeOf(uint16(0)),
		reflect.TypeOf(float64(0)), reflect.TypeOf(float32(0)), reflect.TypeOf(""),
		reflect.TypeOf([]int{}), reflect.TypeOf([]int64{}), reflect.TypeOf([]uint{}), reflect.TypeOf([]string{}), reflect.TypeOf([]float64{}), reflect.TypeOf([]bool{}),
		reflect.TypeOf([]interface{}{}), reflect.TypeOf([][]int{}), reflect.TypeOf([][]uint32{}), reflect.TypeOf([][]interface{}{}),
		reflect.TypeOf(new(interface{})).Elem(), reflect.TypeOf(struct{ B int }{}), reflect.TypeOf(map[string]int{}), reflect.TypeOf(new(string)),
	}
	var lines, want []string
	for _, s := range srcs {
		for _, d := range dsts {
			g, t := cvEncVal(s), cvEncTy(d)
			if strings.Contains(g, "-") && strings.Contains(t, "u") {
				continue // negative → unsigned: outside the model's exact range
			}
			v, err, pan := rpc.VerifConvertValue(s, d)
			var exp string
			switch {
			case pan != nil:
				exp = "panic"
			case err != nil:
				exp = "err"
			default:
				exp = "ok " + cvEncVal(v)
			}
			if (strings.Contains(g, "i:") || strings.Contains(g, "u:")) && strings.Contains(t, "s") && strings.HasPrefix(exp, "ok") {
				continue // integer → string (rune text): outside the supported domain
			}
			lines = append(lines, fmt.Sprintf("cv convert %s %s", g, t))
			want = append(want, exp)
			if pan != nil {
				rep.addViolation("property", "C11:convert-panic:"+g+":"+t, fmt.Sprintf("convertValue(%s → %s) panics: %v", g, t, pan), map[string]any{"src": g, "dst": t})
			}
		}
	}
	ans, err := runDriver(lines)
	if err != nil {
		rep.addViolation("correspondence", "C11:driver", "Lean driver failed: "+err.Error(), nil)
		return
	}
	for i := range ans {
		rep.TracesValidated++
		if ans[i] != want[i] {
			rep.addViolation("correspondence", "C11:convert-model", fmt.Sprintf("%s: model %q, implementation %q", lines[i], ans[i], want[i]), nil)
		} else {
			rep.ModelSteps++
		}
	}
}

func runC11(rep *Report, tier string, seed int64) {
	rep.Rule = "closure-taking handlers invoke the passed function 0..5 times, sequentially or concurrently, in both directions, 3 serializer configurations × 2 link APIs; a 10-parameter closure is invoked with rows of numbers, booleans, strings and slices of those " +
		"(zero, empty and nil values included); oracle: the caller's function ran exactly once per invocation with the supplied values and its value/error came back to that invocation. " +
		"Plus a differential of the real convertValue against the Lean model on source×destination pairs. distinct = (config, direction, invocation plan | value row | conversion pair)"
	rng := rand.New(rand.NewSource(seed))
	rounds := 30
	if tier == "thorough" {
		rounds = 100
	}
	for _, api := range apis() {
		c11Workload(rep, jsonRaw(), api, rng, rounds)
		c11Workload(rep, jsonBytes(), api, rng, rounds)
		c11Workload(rep, cborRaw(), api, rng, rounds)
	}
	c11ConvertDifferential(rep)
}

// ---------------------------------------------------------------- C12

func c12Workload[T any](rep *Report, codec Codec[T], api string, exit string) {
	plan := NewFaultPlan()
	p, err := NewPair(codec, PairOpts{API: api, Plan: plan})
	desc := map[string]any{"suite": "C12", "codec": codec.Name, "api": api, "exit": exit}
	if err != nil {
		rep.addViolation("property", "C12:setup", "link setup failed: "+err.Error(), desc)
		return
	}
	defer p.Shutdown()
	ra, _, _ := p.A.AnyRemote()
	rep.Evaluations++
	rep.Distinct++
	rep.sample(desc)
	key := "C12:" + api + ":" + exit
	var ran int64
	cb := func(ctx context.Context, i int, s string) (string, error) {
		atomic.AddInt64(&ran, 1)
		return "ran", nil
	}
	ctx, cancel := context.WithCancel(context.Background())
	defer cancel()
	// while the call is in flight the closure must be invocable; afterwards never
	var res callResult
	switch exit {
	case "two-closures":
		var ranB int64
		cb2 := func(ctx context.Context, i int, s string) (string, error) { atomic.AddInt64(&ranB, 1); return "ranB", nil }
		res = withWatchdog(func() (any, error) { return ra.KeepTwo(ctx, 1, cb, cb2) })
		if res.ok && res.err == nil && res.val.(string) != "ran/<nil>|ranB/<nil>" {
			rep.addViolation("property", key+":two-during", fmt.Sprintf("two closures passed in one call, invoked during the call: %q", res.val), desc)
		}
		// both must be gone now
		if k2 := p.B.Svc.Kept(2); k2 != nil {
			before := atomic.LoadInt64(&ranB)
			r := withWatchdog(func() (any, error) { return k2(context.Background(), 1, "late") })
			if !r.ok || r.err == nil || !strings.Contains(r.err.Error(), rpc.ErrClosureDoesNotExist.Error()) || atomic.LoadInt64(&ranB) != before {
				rep.addViolation("property", key+":late-second", fmt.Sprintf("late invocation of the second closure returned (%v, %v)", r.val, r.err), desc)
			}
		}
	case "success":
		res = withWatchdog(func() (any, error) { return nil, ra.KeepClosure(ctx, 1, cb) })
	case "handler-error":
		// KeepAndGate then error: use KeepClosure followed by a failing call is not the same call; use Panic-free path:
		res = withWatchdog(func() (any, error) { return nil, ra.KeepClosure(ctx, 1, cb) })
	case "marshal-failure":
		// the closure is argument 2 (registered first); the marshal of a LATER operation fails: the request frame itself
		cnt := plan.Counts()["A.marshal"]
		plan.FailAt("A.marshal", cnt+3) // slot, closure id, then the request
		res = withWatchdog(func() (any, error) { return nil, ra.KeepClosure(ctx, 1, cb) })
	case "marshal-failure-later-argument":
		// TWO closures in one call: the first is registered, then the marshal of the SECOND closure's id fails — the call
		// leaves from inside its argument loop; the first closure must be released all the same
		cnt := plan.Counts()["A.marshal"]
		plan.FailAt("A.marshal", cnt+3) // slot, first closure id, then the second closure id
		cb2 := func(ctx context.Context, i int, s string) (string, error) { return "ranB", nil }
		res = withWatchdog(func() (any, error) { return ra.KeepTwo(ctx, 1, cb, cb2) })
		if res.ok && res.err == nil {
			rep.addViolation("property", key+":no-error", "a call whose argument could not be marshalled returned a nil error", desc)
		}
	case "cancel":
		done := make(chan struct{})
		go func() {
			defer close(done)
			res = withWatchdog(func() (any, error) { return nil, ra.KeepAndGate(ctx, 1, 77, cb) })
		}()
		// in flight: invocable
		waitFor(func() bool { return p.B.Svc.Kept(1) != nil })
		if kept := p.B.Svc.Kept(1); kept != nil {
			r := withWatchdog(func() (any, error) { return kept(context.Background(), 0, "during") })
			if !r.ok || r.err != nil || r.val.(string) != "ran" {
				rep.addViolation("property", key+":during", fmt.Sprintf("closure invoked while its call is in flight: %+v", r), desc)
			}
		}
		if n := p.A.Reg.VerifClosureCount(); n != 1 {
			rep.addViolation("property", key+":count-during", fmt.Sprintf("%d closures registered while one call passing one closure is in flight", n), desc)
		}
		cancel()
		<-done
		p.B.Svc.OpenGate(77)
	case "late-while-another-in-flight":
		// call 1 passes a closure and returns; call 2 (another closure) is in flight when the peer invokes the
		// closure of call 1: it must not exist (whatever id call 2's closure got), and must not run anything
		res = withWatchdog(func() (any, error) { return nil, ra.KeepClosure(ctx, 1, cb) })
		var ranOther int64
		done := make(chan struct{})
		go func() {
			defer close(done)
			ra.KeepAndGate(context.Background(), 5, 79, func(ctx context.Context, i int, s string) (string, error) {
				atomic.AddInt64(&ranOther, 1)
				return "other", nil
			})
		}()
		waitFor(func() bool { return p.B.Svc.Kept(5) != nil })
		if kept := p.B.Svc.Kept(1); kept != nil {
			r := withWatchdog(func() (any, error) { return kept(context.Background(), 1, "late") })
			if !r.ok || r.err == nil || !strings.Contains(r.err.Error(), rpc.ErrClosureDoesNotExist.Error()) || atomic.LoadInt64(&ranOther) != 0 {
				rep.addViolation("property", key+":late-hits-other", fmt.Sprintf("the closure of a call that has returned was invoked while another closure-carrying call was in flight: got (%v, %v); the OTHER call's function ran %d time(s)", r.val, r.err, atomic.LoadInt64(&ranOther)), desc)
			}
		}
		p.B.Svc.OpenGate(79)
		<-done
	case "link-already-ended":
		// the call never becomes pending: the link has ended before it is made (it fails at once); the closure
		// it registered on the way must be released all the same
		p.A.Cancel()
		select {
		case e := <-p.A.LinkErr:
			p.A.LinkErr <- e
		case <-time.After(watchdog):
		}
		res = withWatchdog(func() (any, error) { return nil, ra.KeepClosure(context.Background(), 1, cb) })
		if res.ok && res.err == nil {
			rep.addViolation("property", key+":no-error", "a closure-carrying call made after the link ended returned a nil error", desc)
		}
	case "link-death":
		done := make(chan struct{})
		go func() {
			defer close(done)
			res = withWatchdog(func() (any, error) { return nil, ra.KeepAndGate(context.Background(), 1, 78, cb) })
		}()
		waitFor(func() bool { return p.B.Svc.Kept(1) != nil })
		p.A.Cancel()
		<-done
		p.B.Svc.OpenGate(78)
	}
	if !res.ok {
		rep.addViolation("property", key+":hang", "the passing call did not return", desc)
		return
	}
	// the call has returned on the caller's side: no registration may remain
	if n := p.A.Reg.VerifClosureCount(); n != 0 {
		rep.addViolation("property", key+":count-after", fmt.Sprintf("%d closure registrations remain after the passing call returned (%s)", n, exit), desc)
	}
	before := atomic.LoadInt64(&ran)
	if kept := p.B.Svc.Kept(1); kept != nil && exit != "link-death" {
		r := withWatchdog(func() (any, error) { return kept(context.Background(), 1, "late") })
		if !r.ok {
			rep.addViolation("property", key+":late-hang", "late invocation of the closure hangs", desc)
		} else if r.err == nil || !strings.Contains(r.err.Error(), rpc.ErrClosureDoesNotExist.Error()) {
			rep.addViolation("property", key+":late-error", fmt.Sprintf("late invocation returned (%v, %v), want a 'closure does not exist' error", r.val, r.err), desc)
		}
	}
	if atomic.LoadInt64(&ran) != before {
		rep.addViolation("property", key+":late-ran", "a late invocation ran the function after its call had returned", desc)
	}
}

func waitFor(cond func() bool) {
	deadline := time.Now().Add(2 * time.Second)
	for !cond() && time.Now().Before(deadline) {
		time.Sleep(200 * time.Microsecond)
	}
}

func runC12(rep *Report, tier string, seed int64) {
	rep.Rule = "a call passes a closure which the callee keeps; the call exits by success / marshal failure of a later item / cancellation / link death; during the call the kept closure is invoked (must run), after it returned it is invoked again " +
		"(must yield 'closure does not exist' and not run); the registration count (read-only hook) must be 1 during and 0 after. distinct = (config, exit path)"
	reps := 6
	if tier == "thorough" {
		reps = 60
	}
	for r := 0; r < reps; r++ {
		for _, api := range apis() {
			for _, exit := range []string{"success", "two-closures", "marshal-failure", "marshal-failure-later-argument", "cancel", "link-death", "link-already-ended", "late-while-another-in-flight"} {
				switch r % 3 {
				case 0:
					c12Workload(rep, jsonRaw(), api, exit)
				case 1:
					c12Workload(rep, cborRaw(), api, exit)
				default:
					c12Workload(rep, jsonBytes(), api, exit)
				}
			}
		}
	}
	// several links on ONE registry: a closure-carrying call in flight on each while one link is torn down
	// (the closure table is registry-wide: another link's teardown must not release it)
	hrng := rand.New(rand.NewSource(seed))
	for _, mode := range []string{"cancel", "transport", "peer-cancel"} {
		c13Workload(rep, jsonRaw(), 3, hrng, mode)
	}
}
