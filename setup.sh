#!/bin/sh
# Build the framework from files on disk only (offline).
set -e
cd "$(dirname "$0")"
export GOFLAGS=-mod=mod GOPROXY=off GOSUMDB=off GOTOOLCHAIN=local
mkdir -p bin evidence replays
(cd extract && go build -o ../bin/extract .)
./bin/extract ${VERIF_REPO:-/repo}/go lean/Panrpc/Generated/Current.lean lean/Panrpc/Generated/facts.json
(cd lean && lake build Panrpc driver)
cp ${VERIF_REPO:-/repo}/go/go.sum harness/go.sum
(cd harness && go build -tags verif -o ../bin/harness .)
rm -f bin/.extract.stamp bin/.harness.stamp
echo setup ok
